(** ExternalMarkProofs.v — what the marks do to the analysis, once and for all: the internal variables with which
    the do/while loop is entered are those of the UNMARKED analysis with mIsExternal / mDependencies set exactly at the
    positions whose class is marked through a variable of the model and whose type is not VARIABLE_OF_INTEGRATION
    ([analyse_x_spec]).  Everything the property says about markings follows from this characterisation. *)
From Coq Require Import List Bool Arith PeanoNat Lia.
From LC Require Import AnalysisDefs AnalysisSpec AnalysisProofs AnalysisWfProofs AnalysisOwnProofs ExternalDefs.
Import ListNotations.
Local Open Scope bool_scope.

(* ------------------------------------------------------------------ re-marking a list of internal variables pointwise *)

Definition apply_mark (v : ivar) (o : option (list vref)) : ivar := match o with Some d => set_ext v d | None => v end.

Fixpoint remark (f : nat -> option (list vref)) (k : nat) (ivs : list ivar) : list ivar :=
  match ivs with [] => [] | v :: t => apply_mark v (f k) :: remark f (S k) t end.

Lemma remark_length : forall f ivs k, length (remark f k ivs) = length ivs.
Proof. intros f ivs. induction ivs as [|v t IH]; intro k; cbn; [reflexivity|]. rewrite IH. reflexivity. Qed.

Lemma remark_geti : forall f ivs k p, p < length ivs -> geti (remark f k ivs) p = apply_mark (geti ivs p) (f (k + p)).
Proof.
  intros f ivs. induction ivs as [|v t IH]; intros k p Hp; cbn in Hp; [lia|].
  destruct p as [|p]; cbn [remark].
  - unfold geti. cbn. rewrite Nat.add_0_r. reflexivity.
  - unfold geti in *. cbn [nth]. rewrite IH by lia. f_equal. f_equal. lia.
Qed.

Lemma geti_beyond : forall ivs p, length ivs <= p -> geti ivs p = divar.
Proof. intros. unfold geti. apply nth_overflow. assumption. Qed.

Lemma apply_mark_cls : forall v o, iv_cls (apply_mark v o) = iv_cls v.
Proof. intros v [d|]; reflexivity. Qed.
Lemma apply_mark_type : forall v o, iv_type (apply_mark v o) = iv_type v.
Proof. intros v [d|]; reflexivity. Qed.
Lemma apply_mark_var : forall v o, iv_var (apply_mark v o) = iv_var v.
Proof. intros v [d|]; reflexivity. Qed.

Lemma remark_cls : forall f ivs k, map iv_cls (remark f k ivs) = map iv_cls ivs.
Proof. intros f ivs. induction ivs as [|v t IH]; intro k; cbn; [reflexivity|]. rewrite IH, apply_mark_cls. reflexivity. Qed.

Lemma remark_ext : forall f g ivs k, (forall p, p < length ivs -> f (k + p) = g (k + p)) -> remark f k ivs = remark g k ivs.
Proof.
  intros f g ivs. induction ivs as [|v t IH]; intros k H; cbn; [reflexivity|].
  assert (H0 : f k = g k). { pose proof (H 0) as K. rewrite Nat.add_0_r in K. apply K. cbn. lia. }
  rewrite H0. f_equal. apply IH. intros p Hp.
  replace (S k + p) with (k + S p) by lia. apply H. cbn. lia.
Qed.

(* pointwise equality of lists of internal variables *)
Lemma ivs_eq : forall a b : list ivar, length a = length b -> (forall p, p < length a -> geti a p = geti b p) -> a = b.
Proof. intros a b L H. apply (nth_ext a b divar divar L). exact H. Qed.

Lemma geti_upd : forall ivs i x p, geti (upd ivs i x) p = if (p =? i) && (i <? length ivs) then x else geti ivs p.
Proof.
  intros ivs i x p. destruct (p =? i) eqn:E.
  - apply Nat.eqb_eq in E. subst p. destruct (i <? length ivs) eqn:L; cbn [andb].
    + apply Nat.ltb_lt in L. apply geti_upd_same. exact L.
    + apply Nat.ltb_ge in L. rewrite upd_beyond by exact L. reflexivity.
  - cbn [andb]. apply Nat.eqb_neq in E. unfold geti. apply nth_upd_other. auto.
Qed.

(* updating a re-marked list at one position *)
Lemma remark_upd : forall f ivs p x,
  upd (remark f 0 ivs) p (apply_mark x (f p)) = remark f 0 (upd ivs p x).
Proof.
  intros f ivs p x. apply ivs_eq.
  - rewrite upd_length, !remark_length, upd_length. reflexivity.
  - intros q Hq. rewrite upd_length, remark_length in Hq.
    rewrite geti_upd, remark_length. rewrite !remark_geti by (rewrite ?upd_length; exact Hq). cbn [Nat.add].
    rewrite geti_upd. destruct ((q =? p) && (p <? length ivs)) eqn:E; [|reflexivity].
    apply andb_true_iff in E. destruct E as (E & _). apply Nat.eqb_eq in E. subst q. reflexivity.
Qed.

(* changing the marking function at one position *)
Definition fupd (f : nat -> option (list vref)) (p : nat) (o : option (list vref)) : nat -> option (list vref) :=
  fun q => if q =? p then o else f q.

Lemma remark_fupd : forall f ivs p o, p < length ivs ->
  remark (fupd f p o) 0 ivs = upd (remark f 0 ivs) p (apply_mark (geti ivs p) o).
Proof.
  intros f ivs p o Hp. apply ivs_eq.
  - rewrite upd_length, !remark_length. reflexivity.
  - intros q Hq. rewrite remark_length in Hq. rewrite geti_upd, remark_length, !remark_geti by exact Hq. cbn [Nat.add].
    unfold fupd. destruct (q =? p) eqn:E.
    + apply Nat.eqb_eq in E. subst q. apply Nat.ltb_lt in Hp. rewrite Hp. reflexivity.
    + reflexivity.
Qed.

(* ------------------------------------------------------------------ the marking fold *)

Definition ext_deps (s : system) (ivs0 : list ivar) (m : xmark) : list vref :=
  map (fun d => iv_var (geti ivs0 (ivar_of s ivs0 d))) (local_deps m).

(* the first mark, in addExternalVariable order, that lands on internal variable p *)
Fixpoint first_mark (s : system) (ivs0 : list ivar) (marks : list xmark) (p : nat) : option (list vref) :=
  match marks with
  | [] => None
  | m :: t =>
      match local_of (xm_var m) with
      | Some r => if ivar_of s ivs0 r =? p then Some (ext_deps s ivs0 m) else first_mark s ivs0 t p
      | None => first_mark s ivs0 t p
      end
  end.

Definition foreign_messages (marks : list xmark) : list xissue :=
  filter_map (fun m => match xm_var m with XForeign k => Some (mkXissue XDifferentModel (XForeign k)) | XLocal _ => None end) marks.

(* the keys of primaryExternalVariables with the variables filed under them *)
Definition pev_of (s : system) (ivs0 : list ivar) (marks : list xmark) (pe : pev) : pev :=
  fold_left (fun acc m => match local_of (xm_var m) with
                          | Some r => pev_add (iv_var (geti ivs0 (ivar_of s ivs0 r))) r acc
                          | None => acc end) marks pe.

Definition same_shape (a b : list ivar) : Prop :=
  length b = length a /\ map iv_cls b = map iv_cls a /\ forall p, iv_var (geti b p) = iv_var (geti a p).

Lemma same_shape_refl : forall a, same_shape a a.
Proof. intro a. repeat split; reflexivity. Qed.

Lemma map_cls_upd : forall ivs p x, iv_cls x = iv_cls (geti ivs p) -> map iv_cls (upd ivs p x) = map iv_cls ivs.
Proof. intros. apply upd_classes. assumption. Qed.

Lemma mark_external_shape : forall s ivs0 ivs x, same_shape ivs0 ivs -> same_shape ivs0 (mark_external s ivs x).
Proof.
  intros s ivs0 ivs x (L & C & V). unfold mark_external.
  destruct (iv_external (geti ivs (ivar_of s ivs (fst x)))); [repeat split; assumption|].
  split; [rewrite upd_length; exact L|]. split.
  - rewrite map_cls_upd; [exact C|reflexivity].
  - intro p. rewrite geti_upd. destruct ((p =? _) && _) eqn:E; [|apply V].
    apply andb_true_iff in E. destruct E as (E & _). apply Nat.eqb_eq in E. subst p. cbn. apply V.
Qed.

Lemma mark_fold_char : forall s ivs0 marks ivs pe xi ivs1 pe1 xi1,
  fold_left (mark_step s) marks (ivs, pe, xi) = (ivs1, pe1, xi1) -> same_shape ivs0 ivs ->
  same_shape ivs0 ivs1 /\
  (forall p, p < length ivs -> geti ivs1 p = if iv_external (geti ivs p) then geti ivs p
                                             else apply_mark (geti ivs p) (first_mark s ivs0 marks p)) /\
  pe1 = pev_of s ivs0 marks pe /\ xi1 = xi ++ foreign_messages marks.
Proof.
  intros s ivs0 marks. induction marks as [|m t IH]; intros ivs pe xi ivs1 pe1 xi1 H Hs; cbn [fold_left] in H.
  - inversion H; subst. split; [exact Hs|]. split; [|split; [reflexivity|cbn; rewrite app_nil_r; reflexivity]].
    intros p _. cbn. destruct (iv_external (geti ivs1 p)); reflexivity.
  - unfold mark_step at 2 in H. destruct (xm_var m) as [r|k] eqn:Ev.
    + (* a variable of this model *)
      pose proof Hs as (L & C & V).
      assert (Epos : ivar_of s ivs r = ivar_of s ivs0 r) by (apply ivar_of_cls_eq; exact C).
      assert (Edeps : map (fun d => iv_var (geti ivs (ivar_of s ivs d))) (local_deps m) = ext_deps s ivs0 m).
      { unfold ext_deps. apply map_ext. intro d. rewrite (ivar_of_cls_eq s ivs ivs0 d C). apply V. }
      destruct (IH _ _ _ _ _ _ H (mark_external_shape s ivs0 ivs (r, local_deps m) Hs)) as (A & B & P & X).
      split; [exact A|]. split; [|split].
      * intros p Hp. cbn [first_mark]. rewrite Ev. cbn [local_of].
        assert (Hp' : p < length (mark_external s ivs (r, local_deps m))).
        { destruct (mark_external_shape s ivs0 ivs (r, local_deps m) Hs) as (L' & _). lia. }
        rewrite (B p Hp'). unfold mark_external. cbn [fst snd]. rewrite Epos, Edeps.
        set (q := ivar_of s ivs0 r). destruct (iv_external (geti ivs q)) eqn:Eq.
        { destruct (q =? p) eqn:E; [|reflexivity]. apply Nat.eqb_eq in E. subst p. rewrite Eq. reflexivity. }
        rewrite geti_upd. rewrite (Nat.eqb_sym q p). destruct (p =? q) eqn:E.
        { apply Nat.eqb_eq in E. subst p. assert (Hl : q <? length ivs = true) by (apply Nat.ltb_lt; exact Hp).
          rewrite Hl. cbn [andb]. rewrite Eq. reflexivity. }
        cbn [andb]. reflexivity.
      * rewrite P. cbn [pev_of fold_left]. rewrite Ev. cbn [local_of]. rewrite Epos. rewrite V. reflexivity.
      * rewrite X. cbn [foreign_messages filter_map]. rewrite Ev. reflexivity.
    + (* a variable of another model *)
      destruct (IH _ _ _ _ _ _ H Hs) as (A & B & P & X).
      split; [exact A|]. split; [|split].
      * intros p Hp. cbn [first_mark]. rewrite Ev. cbn [local_of]. apply B. exact Hp.
      * rewrite P. cbn [pev_of fold_left]. rewrite Ev. reflexivity.
      * rewrite X. cbn [foreign_messages filter_map]. rewrite Ev. rewrite <- app_assoc. reflexivity.
Qed.

Corollary mark_fold_remark : forall s ivs0 marks ivs1 pe1 xi1,
  fold_left (mark_step s) marks (ivs0, [], []) = (ivs1, pe1, xi1) ->
  Forall (fun v => iv_external v = false) ivs0 ->
  ivs1 = remark (first_mark s ivs0 marks) 0 ivs0 /\ pe1 = pev_of s ivs0 marks [] /\ xi1 = foreign_messages marks.
Proof.
  intros s ivs0 marks ivs1 pe1 xi1 H Hne.
  destruct (mark_fold_char s ivs0 marks _ _ _ _ _ _ H (same_shape_refl ivs0)) as ((L & _) & B & P & X).
  split; [|split; [exact P|exact X]].
  apply ivs_eq; [rewrite remark_length; exact L|].
  intros p Hp. rewrite L in Hp. rewrite (B p Hp), remark_geti by exact Hp. cbn [Nat.add].
  rewrite Forall_forall in Hne. rewrite (Hne (geti ivs0 p) (geti_In _ _ Hp)). reflexivity.
Qed.

(* the marks on variables of this model are what AnalysisDefs.analyse_ext folds over *)
Lemma mark_step_local : forall s marks ivs pe xi,
  fst (fst (fold_left (mark_step s) marks (ivs, pe, xi))) = fold_left (mark_external s) (local_marks marks) ivs.
Proof.
  intros s marks. induction marks as [|m t IH]; intros ivs pe xi; cbn [fold_left]; [reflexivity|].
  unfold mark_step at 2. unfold local_marks. cbn [filter_map]. destruct (xm_var m) as [r|k]; cbn [local_of option_map].
  - cbn [fold_left]. apply IH.
  - apply IH.
Qed.

(* ------------------------------------------------------------------ analyseEquationAst does not look at the marks *)

Lemma set_type_apply_mark : forall v o t, set_type (apply_mark v o) t = apply_mark (set_type v t) o.
Proof. intros v [d|] t; reflexivity. Qed.

Lemma make_state_apply_mark : forall v o, make_state (apply_mark v o) = apply_mark (make_state v) o.
Proof. intros v [d|]; [|reflexivity]. unfold make_state. cbn. destruct (iv_type v); reflexivity. Qed.

Lemma remark_upd_gen : forall (h : ivar -> ivar) f ivs p,
  (forall v o, h (apply_mark v o) = apply_mark (h v) o) ->
  upd (remark f 0 ivs) p (h (geti (remark f 0 ivs) p)) = remark f 0 (upd ivs p (h (geti ivs p))).
Proof.
  intros h f ivs p Hh. destruct (Nat.lt_ge_cases p (length ivs)) as [L|L].
  - rewrite remark_geti by exact L. cbn [Nat.add]. rewrite Hh. apply remark_upd.
  - rewrite (upd_beyond ivs) by exact L. apply upd_beyond. rewrite remark_length. exact L.
Qed.

Definition rst (f : nat -> option (list vref)) (st : voi_state) : voi_state :=
  mkVs (remark f 0 (vs_ivs st)) (vs_voi st) (vs_issues st).

Lemma ivar_of_remark : forall s f ivs r, ivar_of s (remark f 0 ivs) r = ivar_of s ivs r.
Proof. intros. apply ivar_of_cls_eq. apply remark_cls. Qed.

Lemma diff_event_remark : forall s f st d, diff_event s (rst f st) d = rst f (diff_event s st d).
Proof.
  intros s f [ivs voi iss] [t x]. unfold diff_event, rst. cbn [vs_ivs vs_voi vs_issues].
  rewrite ivar_of_remark.
  rewrite (remark_upd_gen (fun v => set_type v VVoi) f ivs (ivar_of s ivs t)) by (intros; apply set_type_apply_mark).
  set (ivs1 := upd ivs (ivar_of s ivs t) (set_type (geti ivs (ivar_of s ivs t)) VVoi)).
  destruct (match voi with
            | Some v0 => _
            | None => _ end) as [voi1 iss1].
  rewrite ivar_of_remark.
  rewrite (remark_upd_gen make_state f ivs1 (ivar_of s ivs1 x)) by (intros; apply make_state_apply_mark).
  reflexivity.
Qed.

Lemma diff_events_remark : forall s f ds st, fold_left (diff_event s) ds (rst f st) = rst f (fold_left (diff_event s) ds st).
Proof.
  intros s f ds. induction ds as [|d t IH]; intro st; cbn [fold_left]; [reflexivity|].
  rewrite diff_event_remark. apply IH.
Qed.

Lemma analyse_asts_remark : forall s f ivs es, analyse_asts s (remark f 0 ivs) es = rst f (analyse_asts s ivs es).
Proof.
  intros s f ivs es. unfold analyse_asts.
  change (mkVs (remark f 0 ivs) None []) with (rst f (mkVs ivs None [])).
  generalize (mkVs ivs None []). induction es as [|e t IH]; intro st; cbn [fold_left]; [reflexivity|].
  rewrite diff_events_remark. apply IH.
Qed.

(* analyseEquationAst only changes types *)
Definition plain (v : ivar) : Prop := iv_external v = false /\ iv_deps v = [].

Lemma plain_divar : plain divar.
Proof. split; reflexivity. Qed.

Lemma diff_event_plain : forall s st d, Forall plain (vs_ivs st) -> Forall plain (vs_ivs (diff_event s st d)).
Proof.
  intros s [ivs voi iss] [t x] H. unfold diff_event. cbn [vs_ivs vs_voi vs_issues] in *.
  destruct (match voi with Some v0 => _ | None => _ end) as [voi1 iss1]. cbn [vs_ivs].
  set (ivs1 := upd ivs _ _).
  assert (H1 : Forall plain ivs1).
  { apply Forall_upd; [exact H|]. pose proof (Forall_geti plain ivs (ivar_of s ivs t) H plain_divar) as (A & B). split; assumption. }
  apply Forall_upd; [exact H1|].
  pose proof (Forall_geti plain ivs1 (ivar_of s ivs1 x) H1 plain_divar) as (A & B).
  unfold make_state. destruct (iv_type (geti ivs1 (ivar_of s ivs1 x))); split; assumption.
Qed.

Lemma analyse_asts_plain : forall s ivs es, Forall plain ivs -> Forall plain (vs_ivs (analyse_asts s ivs es)).
Proof.
  intros s ivs es H. unfold analyse_asts.
  assert (G : forall es st, Forall plain (vs_ivs st) ->
              Forall plain (vs_ivs (fold_left (fun st e => fold_left (diff_event s) (ie_diffs e) st) es st))).
  { clear. intros es. induction es as [|e t IH]; intros st H; cbn [fold_left]; [exact H|]. apply IH.
    generalize (ie_diffs e) st H. clear. intros ds. induction ds as [|d r IH]; intros st H; cbn [fold_left]; [exact H|].
    apply IH. apply diff_event_plain. exact H. }
  apply G. exact H.
Qed.

(* ------------------------------------------------------------------ freshly built internal variables are plain *)

Lemma internal_variable_plain : forall s ivs r, Forall plain ivs -> Forall plain (fst (internal_variable s ivs r)).
Proof.
  intros s ivs r H. unfold internal_variable.
  destruct (find_index _ ivs); cbn; [exact H|]. apply Forall_snoc; [exact H|].
  unfold plain, new_ivar. destruct (has_init (get_var s r)); cbn; auto.
Qed.

Lemma analyse_node_plain : forall s c e acc acc',
  analyse_node s c e acc = Some acc' -> Forall plain (fst acc) -> Forall plain (fst acc').
Proof.
  intros s c e. induction e as [n|t x| |a IHa b IHb]; intros [ivs q] acc' H Hf; cbn [analyse_node fst] in *.
  - destruct (find_var (get_comp s c) n) as [i|]; [|discriminate].
    pose proof (internal_variable_plain s ivs (c, i) Hf) as Hi.
    destruct (internal_variable s ivs (c, i)) as [ivs1 p]. cbn in Hi.
    destruct (mem_nat p (ie_vars q)); inversion H; subst; exact Hi.
  - destruct (find_var (get_comp s c) t) as [ti|]; [|discriminate].
    destruct (find_var (get_comp s c) x) as [xi|]; [|discriminate].
    pose proof (internal_variable_plain s ivs (c, xi) Hf) as Hi.
    destruct (internal_variable s ivs (c, xi)) as [ivs1 p]. cbn in Hi.
    destruct (mem_nat p (ie_odes q)); inversion H; subst; exact Hi.
  - inversion H; subst. exact Hf.
  - destruct (analyse_node s c a (ivs, q)) as [acc1|] eqn:Ea; [|discriminate]. eauto.
Qed.

Lemma build_eqs_plain : forall s c qs acc acc',
  build_eqs s c qs acc = Some acc' -> Forall plain (fst acc) -> Forall plain (fst acc').
Proof.
  intros s c qs. induction qs as [|q r IH]; intros acc acc' H Hf; cbn in H; [inversion H; subst; exact Hf|].
  destruct (build_eq s c (fst acc) q) as [[ivs1 e]|] eqn:E; [|discriminate].
  apply (IH _ _ H). cbn. unfold build_eq in E.
  match type of E with match analyse_node s c ?l ?a0 with _ => _ end = _ =>
    destruct (analyse_node s c l a0) as [acc1|] eqn:E1; [|discriminate] end.
  apply (analyse_node_plain _ _ _ _ _ E). apply (analyse_node_plain _ _ _ _ _ E1). exact Hf.
Qed.

Lemma track_inits_plain : forall s c n i ivs, Forall plain ivs -> Forall plain (track_inits s c i n ivs).
Proof.
  intros s c n. induction n as [|m IH]; intros i ivs Hf; cbn [track_inits]; [exact Hf|].
  pose proof (internal_variable_plain s ivs (c, i) Hf) as Hi.
  destruct (internal_variable s ivs (c, i)) as [ivs1 p]. cbn in Hi. apply IH.
  destruct (has_init (get_var s (c, i)) && negb (has_init (get_var s (iv_var (geti ivs1 p))))); [|exact Hi].
  apply Forall_upd; [exact Hi|]. pose proof (Forall_geti _ _ p Hi plain_divar) as (Hx & Hy).
  unfold plain. cbn. auto.
Qed.

Lemma build_comps_plain : forall s cs c acc acc',
  build_comps s c cs acc = Some acc' -> Forall plain (fst acc) -> Forall plain (fst acc').
Proof.
  intros s cs. induction cs as [|k r IH]; intros c acc acc' H Hf; cbn in H; [inversion H; subst; exact Hf|].
  destruct (build_eqs s c (c_eqs k) acc) as [[ivs1 es1]|] eqn:E; [|discriminate].
  apply (IH _ _ _ H). cbn. apply track_inits_plain. apply (build_eqs_plain _ _ _ _ _ E Hf).
Qed.

Lemma build_plain : forall s ivs es, build s = Some (ivs, es) -> Forall plain ivs.
Proof. intros s ivs es H. unfold build in H. apply (build_comps_plain _ _ _ _ _ H). constructor. Qed.

(* ------------------------------------------------------------------ "Check that the variables that were marked as external were rightly so" *)

Lemma clear_ext_apply_mark : forall v o, plain v -> clear_ext (apply_mark v o) = v.
Proof. intros [c t i e iv va d] o (A & B). cbn in A, B. subst. destruct o; reflexivity. Qed.

Lemma mem_nat_cons' : forall p y t, mem_nat p (y :: t) = (p =? y) || mem_nat p t.
Proof. reflexivity. Qed.

(* the marking function after the check: nothing at the positions visited that hold the variable of integration *)
Definition clear_at (U : list ivar) (ps : list nat) (g : nat -> option (list vref)) : nat -> option (list vref) :=
  fun p => if mem_nat p ps && vtype_eqb (iv_type (geti U p)) VVoi then None else g p.

Lemma remark_type : forall f U p, iv_type (geti (remark f 0 U) p) = iv_type (geti U p).
Proof.
  intros f U p. destruct (Nat.lt_ge_cases p (length U)) as [L|L].
  - rewrite remark_geti by exact L. apply apply_mark_type.
  - rewrite !geti_beyond by (rewrite ?remark_length; exact L). reflexivity.
Qed.

Lemma check_fold_char : forall s voi U pe g xi ivs2 xi2,
  Forall plain U ->
  fold_left (check_step true s voi) pe (remark g 0 U, xi) = (ivs2, xi2) ->
  ivs2 = remark (clear_at U (map (fun en => ivar_of s U (fst en)) pe) g) 0 U.
Proof.
  intros s voi U pe. induction pe as [|[key vs] t IH]; intros g xi ivs2 xi2 HU H; cbn [fold_left map] in *.
  - inversion H; subst. apply remark_ext. intros p _. unfold clear_at. reflexivity.
  - unfold check_step at 2 in H. cbn [andb] in H. rewrite ivar_of_remark in H. cbn [fst].
    set (p := ivar_of s U key) in *. rewrite remark_type in H.
    destruct (vtype_eqb (iv_type (geti U p)) VVoi) eqn:Et; cbn [orb andb] in H.
    + (* the variable of integration: un-marked *)
      destruct (Nat.lt_ge_cases p (length U)) as [L|L].
      2:{ rewrite geti_beyond in Et by exact L. discriminate. }
      rewrite remark_geti in H by exact L. cbn [Nat.add] in H.
      rewrite clear_ext_apply_mark in H by (rewrite Forall_forall in HU; apply HU; apply geti_In; exact L).
      assert (E : upd (remark g 0 U) p (geti U p) = remark (fupd g p None) 0 U).
      { rewrite remark_fupd by exact L. reflexivity. }
      rewrite E in H. rewrite (IH _ _ _ _ HU H). apply remark_ext. intros q _. cbn [Nat.add].
      unfold clear_at, fupd. rewrite mem_nat_cons'. destruct (q =? p) eqn:Eq.
      * apply Nat.eqb_eq in Eq. subst q. rewrite Et. cbn. destruct (mem_nat p _); reflexivity.
      * cbn [orb]. reflexivity.
    + (* anything else: only a message, perhaps *)
      match type of H with fold_left _ _ (_, ?x) = _ => set (xi' := x) in H end.
      rewrite (IH _ _ _ _ HU H). apply remark_ext. intros q _. cbn [Nat.add].
      unfold clear_at. rewrite mem_nat_cons'. destruct (q =? p) eqn:Eq; [|reflexivity].
      apply Nat.eqb_eq in Eq. subst q. rewrite Et. cbn [orb andb]. rewrite andb_false_r. reflexivity.
Qed.

(* analyseEquationAst keeps classes and tracked variables *)
Definition kept (a b : list ivar) : Prop :=
  length b = length a /\ forall p, iv_cls (geti b p) = iv_cls (geti a p) /\ iv_var (geti b p) = iv_var (geti a p).

Lemma kept_refl : forall a, kept a a.
Proof. intro a. split; [reflexivity|]. intro p. split; reflexivity. Qed.

Lemma kept_trans : forall a b c, kept a b -> kept b c -> kept a c.
Proof.
  intros a b c (L1 & H1) (L2 & H2). split; [congruence|]. intro p. destruct (H1 p) as (A & B). destruct (H2 p) as (C & D).
  split; congruence.
Qed.

Lemma kept_upd : forall a p (h : ivar -> ivar), (forall v, iv_cls (h v) = iv_cls v /\ iv_var (h v) = iv_var v) -> kept a (upd a p (h (geti a p))).
Proof.
  intros a p h Hh. split; [apply upd_length|]. intro q. rewrite geti_upd.
  destruct ((q =? p) && (p <? length a)) eqn:E; [|split; reflexivity].
  apply andb_true_iff in E. destruct E as (E & _). apply Nat.eqb_eq in E. subst q. apply Hh.
Qed.

Lemma diff_event_kept : forall s st d, kept (vs_ivs st) (vs_ivs (diff_event s st d)).
Proof.
  intros s [ivs voi iss] [t x]. unfold diff_event. cbn [vs_ivs vs_voi vs_issues].
  destruct (match voi with Some v0 => _ | None => _ end) as [voi1 iss1]. cbn [vs_ivs].
  eapply kept_trans.
  - apply (kept_upd ivs (ivar_of s ivs t) (fun v => set_type v VVoi)). intro v. split; reflexivity.
  - apply (kept_upd _ _ make_state). intro v. unfold make_state. destruct (iv_type v); split; reflexivity.
Qed.

Lemma analyse_asts_kept : forall s ivs es, kept ivs (vs_ivs (analyse_asts s ivs es)).
Proof.
  intros s ivs es. unfold analyse_asts.
  assert (G : forall es st, kept (vs_ivs st) (vs_ivs (fold_left (fun st e => fold_left (diff_event s) (ie_diffs e) st) es st))).
  { clear. intros es. induction es as [|e t IH]; intros st; cbn [fold_left]; [apply kept_refl|].
    eapply kept_trans; [|apply IH].
    generalize (ie_diffs e) st. clear. intros ds. induction ds as [|d r IH]; intros st; cbn [fold_left]; [apply kept_refl|].
    eapply kept_trans; [apply diff_event_kept|apply IH]. }
  apply (G es (mkVs ivs None [])).
Qed.

Lemma kept_cls : forall a b, kept a b -> map iv_cls b = map iv_cls a.
Proof.
  intros a b (L & H). apply (nth_ext _ _ 0 0); [rewrite !map_length; exact L|].
  intros n Hn. rewrite map_length in Hn.
  change 0 with (iv_cls divar). rewrite !map_nth. apply (H n).
Qed.

(* ------------------------------------------------------------------ positions, keys and classes *)

Definition marks_in_range (s : system) (marks : list xmark) : Prop :=
  Forall (fun m => match xm_var m with XLocal r => in_range s r = true | XForeign _ => True end) marks.

Lemma cls_pos_unique : forall ivs p q, NoDup (map iv_cls ivs) -> p < length ivs -> q < length ivs ->
  iv_cls (geti ivs p) = iv_cls (geti ivs q) -> p = q.
Proof.
  intros ivs p q Hnd Hp Hq H. rewrite NoDup_nth with (d := 0) in Hnd. apply Hnd; rewrite ?map_length; try assumption.
  change 0 with (iv_cls divar). rewrite !map_nth. exact H.
Qed.

(* the internal variable of a variable of the model, and of the variable it tracks *)
Lemma key_position : forall s ivs r, ivs_ok s ivs -> covers_upto s (length s) ivs -> in_range s r = true ->
  let p := ivar_of s ivs r in
  p < length ivs /\ iv_cls (geti ivs p) = cls_of s r /\ ivar_of s ivs (iv_var (geti ivs p)) = p.
Proof.
  intros s ivs r Hok Hcov Hr. cbv zeta.
  assert (Hin : In (cls_of s r) (map iv_cls ivs)).
  { apply Hcov; [exact Hr|]. apply in_range_comp in Hr. apply Hr. }
  destruct (ivar_of_spec s ivs r Hok Hin) as (P1 & P2). split; [exact P1|]. split; [exact P2|].
  set (p := ivar_of s ivs r) in *. destruct (ivs_ok_geti s ivs p Hok P1) as (K1 & K2 & _).
  assert (Hin2 : In (cls_of s (iv_var (geti ivs p))) (map iv_cls ivs)).
  { rewrite K2. apply in_map. apply geti_In. exact P1. }
  destruct (ivar_of_spec s ivs _ Hok Hin2) as (Q1 & Q2).
  apply (cls_pos_unique ivs); [apply Hok|exact Q1|exact P1|]. rewrite Q2. exact K2.
Qed.

Lemma pev_add_keys : forall key v pe k, In k (map fst (pev_add key v pe)) <-> k = key \/ In k (map fst pe).
Proof.
  intros key v pe. induction pe as [|[k0 vs] t IH]; intro k; cbn [pev_add map fst In].
  - split; [intros [H|[]]; left; auto|intros [H|[]]; left; auto].
  - destruct (vref_eqb k0 key) eqn:E; cbn [map fst In].
    + assert (k0 = key).
      { unfold vref_eqb in E. apply andb_true_iff in E. destruct E as (A & B). apply Nat.eqb_eq in A. apply Nat.eqb_eq in B.
        destruct k0, key. cbn in *. congruence. }
      subst k0. split; [intros [H|H]; [left; auto|right; right; exact H]|intros [H|[H|H]]; [left; auto|left; exact H|right; exact H]].
    + rewrite IH. split; [intros [H|[H|H]]; auto|intros [H|[H|H]]; auto].
Qed.

Lemma pev_of_keys : forall s ivs0 marks pe m r, In m marks -> xm_var m = XLocal r ->
  In (iv_var (geti ivs0 (ivar_of s ivs0 r))) (map fst (pev_of s ivs0 marks pe)).
Proof.
  intros s ivs0 marks. induction marks as [|m0 t IH]; intros pe m r Hin Hv; [destruct Hin|].
  unfold pev_of. cbn [fold_left]. fold (pev_of s ivs0 t).
  assert (Hmono : forall pe1 k, In k (map fst pe1) -> In k (map fst (pev_of s ivs0 t pe1))).
  { clear. induction t as [|m1 t1 IH1]; intros pe1 k Hk; [exact Hk|].
    unfold pev_of. cbn [fold_left]. fold (pev_of s ivs0 t1). apply IH1.
    destruct (local_of (xm_var m1)); [|exact Hk]. apply pev_add_keys. right. exact Hk. }
  destruct Hin as [->|Hin].
  - rewrite Hv. cbn [local_of]. apply Hmono. apply pev_add_keys. left. reflexivity.
  - eapply IH; eassumption.
Qed.

Lemma first_mark_some : forall s ivs0 marks p d, first_mark s ivs0 marks p = Some d ->
  exists m r, In m marks /\ xm_var m = XLocal r /\ ivar_of s ivs0 r = p.
Proof.
  intros s ivs0 marks p d. induction marks as [|m t IH]; intro H; cbn [first_mark] in H; [discriminate|].
  destruct (xm_var m) as [r|k] eqn:Ev; cbn [local_of] in H.
  - destruct (ivar_of s ivs0 r =? p) eqn:E.
    + apply Nat.eqb_eq in E. exists m, r. split; [left; reflexivity|]. split; assumption.
    + destruct (IH H) as (m1 & r1 & A & B & C). exists m1, r1. split; [right; exact A|]. split; assumption.
  - destruct (IH H) as (m1 & r1 & A & B & C). exists m1, r1. split; [right; exact A|]. split; assumption.
Qed.

Lemma first_mark_none : forall s ivs0 marks p, first_mark s ivs0 marks p = None ->
  forall m r, In m marks -> xm_var m = XLocal r -> ivar_of s ivs0 r <> p.
Proof.
  intros s ivs0 marks p. induction marks as [|m t IH]; intros H m1 r1 Hin Hv; [destruct Hin|].
  cbn [first_mark] in H. destruct Hin as [->|Hin].
  - rewrite Hv in H. cbn [local_of] in H. destruct (ivar_of s ivs0 r1 =? p) eqn:E; [discriminate|]. apply Nat.eqb_neq. exact E.
  - destruct (xm_var m) as [r|k]; cbn [local_of] in H.
    + destruct (ivar_of s ivs0 r =? p); [discriminate|]. eapply IH; eassumption.
    + eapply IH; eassumption.
Qed.

(* ------------------------------------------------------------------ the characterisation *)

(** the effective marking: the first mark that lands on the internal variable, unless it is the variable of integration *)
Definition eff (s : system) (ivs0 U : list ivar) (marks : list xmark) : nat -> option (list vref) :=
  fun p => if vtype_eqb (iv_type (geti U p)) VVoi then None else first_mark s ivs0 marks p.

(* the loop and the second half of analyseModel, from the internal variables [ivsR]; [hx] = some variable is external *)
Definition tail_y (s : system) (es0 : list ieq) (voi : option vref) (ivsR : list ivar) (hx : bool) : outcome * bool :=
  match loop s (loop_fuel es0) 1 false (mkCs ivsR 0 0) es0 with
  | None => (OutOfFuel, false)
  | Some (st, es1) =>
      let r := finish s voi (cs_ivs st) (map (nla_ext_deps nla_dep_fix (cs_ivs st)) es1) (cs_vidx st) in
      (Done r, valid_type (r_type r) && hx)
  end.
Definition tail_x (s : system) (es0 : list ieq) (voi : option vref) (ivs2 : list ivar) : outcome * bool :=
  tail_y s es0 voi (map (state_rescue state_rescue_fix) ivs2) (existsb iv_external ivs2).

(** Analyser::analyseModel with marks, as a function of the UNMARKED first stages *)
Definition spec_x (s : system) (marks : list xmark) : outcome * bool :=
  if negb (resolvable s) then (Malformed, false) else
  match build s with
  | None => (Malformed, false)
  | Some (ivs0, es0) =>
      match check_inits s ivs0 0 s with
      | (_ :: _) as iss0 => (Done (invalid_result MInvalid iss0), false)
      | [] =>
          let vst := analyse_asts s ivs0 es0 in
          match vs_issues vst with
          | _ :: _ => (Done (invalid_result MInvalid (vs_issues vst)), false)
          | [] => tail_x s es0 (vs_voi vst) (remark (eff s ivs0 (vs_ivs vst) marks) 0 (vs_ivs vst))
          end
      end
  end.

Theorem analyse_x_spec : forall s marks, marks_in_range s marks ->
  (xr_outcome (analyse_x true s marks), xr_has_ext (analyse_x true s marks)) = spec_x s marks.
Proof.
  intros s marks Hr. unfold analyse_x, analyse_xg, spec_x. cbn [andb].
  destruct (negb (resolvable s)); [reflexivity|].
  destruct (build s) as [[ivs0 es0]|] eqn:Eb; [|reflexivity].
  destruct (check_inits s ivs0 0 s) as [|i0 ir0]; [|reflexivity].
  destruct (fold_left (mark_step s) marks (ivs0, [], [])) as [[ivs1 pe] xi1] eqn:Em.
  destruct (build_spec _ _ _ Eb) as (B1 & B2 & B3).
  pose proof (build_plain _ _ _ Eb) as Hplain.
  assert (Hne : Forall (fun v => iv_external v = false) ivs0).
  { eapply Forall_impl; [|exact Hplain]. intros v (A & _). exact A. }
  destruct (mark_fold_remark s ivs0 marks ivs1 pe xi1 Em Hne) as (E1 & E2 & E3). subst ivs1.
  rewrite analyse_asts_remark. cbn [rst vs_issues vs_voi vs_ivs].
  set (vst := analyse_asts s ivs0 es0).
  destruct (vs_issues vst) as [|i1 ir1]; [|reflexivity].
  set (U := vs_ivs vst) in *.
  destruct (fold_left (check_step true s (vs_voi vst)) pe (remark (first_mark s ivs0 marks) 0 U, [])) as [ivs2 xi2] eqn:Ec.
  pose proof (analyse_asts_plain s ivs0 es0 Hplain) as HUplain. fold vst in HUplain. fold U in HUplain.
  pose proof (check_fold_char s (vs_voi vst) U pe _ _ _ _ HUplain Ec) as E4.
  pose proof (analyse_asts_kept s ivs0 es0) as Hkept. fold vst in Hkept. fold U in Hkept.
  pose proof (kept_cls _ _ Hkept) as Hcls.
  assert (E5 : ivs2 = remark (eff s ivs0 U marks) 0 U).
  { rewrite E4. apply remark_ext. intros p Hp. cbn [Nat.add]. unfold clear_at, eff.
    destruct (vtype_eqb (iv_type (geti U p)) VVoi) eqn:Et; [|rewrite andb_false_r; reflexivity].
    rewrite andb_true_r. destruct (first_mark s ivs0 marks p) as [d|] eqn:Ef; [|destruct (mem_nat p _); reflexivity].
    destruct (first_mark_some _ _ _ _ _ Ef) as (m & r & Hm & Hv & Hpos).
    assert (Hrange : in_range s r = true).
    { unfold marks_in_range in Hr. rewrite Forall_forall in Hr. specialize (Hr m Hm). rewrite Hv in Hr. exact Hr. }
    destruct (key_position s ivs0 r B1 B3 Hrange) as (K1 & K2 & K3). rewrite Hpos in *.
    pose proof (pev_of_keys s ivs0 marks [] m r Hm Hv) as Hkey. rewrite Hpos in Hkey. rewrite <- E2 in Hkey.
    assert (Hin : In p (map (fun en => ivar_of s U (fst en)) pe)).
    { apply in_map_iff in Hkey. destruct Hkey as (en & He1 & He2). apply in_map_iff. exists en. split; [|exact He2].
      rewrite He1. rewrite (ivar_of_cls_eq s U ivs0 _ Hcls). exact K3. }
    apply mem_nat_In in Hin. rewrite Hin. reflexivity. }
  clear E4. subst ivs2. unfold tail_x, tail_y.
  destruct (loop s (loop_fuel es0) 1 false (mkCs (map (state_rescue state_rescue_fix) (remark (eff s ivs0 U marks) 0 U)) 0 0) es0) as [[st es1]|]; reflexivity.
Qed.

(** two markings with the same effect give the same analysis *)
Corollary same_effect_same_analysis : forall s marks marks',
  marks_in_range s marks -> marks_in_range s marks' ->
  (forall ivs0 es0, build s = Some (ivs0, es0) ->
     forall p, p < length ivs0 ->
       eff s ivs0 (vs_ivs (analyse_asts s ivs0 es0)) marks p = eff s ivs0 (vs_ivs (analyse_asts s ivs0 es0)) marks' p) ->
  xr_outcome (analyse_x true s marks) = xr_outcome (analyse_x true s marks') /\
  xr_has_ext (analyse_x true s marks) = xr_has_ext (analyse_x true s marks').
Proof.
  intros s marks marks' H1 H2 He.
  pose proof (analyse_x_spec s marks H1) as A. pose proof (analyse_x_spec s marks' H2) as B.
  assert (E : spec_x s marks = spec_x s marks').
  { unfold spec_x. destruct (negb (resolvable s)); [reflexivity|].
    destruct (build s) as [[ivs0 es0]|] eqn:Eb; [|reflexivity].
    destruct (check_inits s ivs0 0 s); [|reflexivity]. cbv zeta.
    destruct (vs_issues (analyse_asts s ivs0 es0)); [|reflexivity].
    f_equal. apply remark_ext. intros p Hp. cbn [Nat.add]. apply (He ivs0 es0 eq_refl).
    destruct (analyse_asts_kept s ivs0 es0) as (L & _). lia. }
  rewrite E in A. rewrite <- B in A. inversion A. split; reflexivity.
Qed.

(* ------------------------------------------------------------------ the messages *)

Definition entry_msg (s : system) (U : list ivar) (en : vref * list vref) : list xissue :=
  let '(key, vs) := en in
  let is_voi := vtype_eqb (iv_type (geti U (ivar_of s U key))) VVoi in
  if is_voi || (1 <? length vs) || negb (existsb (vref_eqb key) vs)
  then [mkXissue (if is_voi then XVoi else XUsePrimary) (XLocal key)] else [].

Lemma check_fold_msgs : forall s voi U pe g xi ivs2 xi2,
  Forall plain U ->
  fold_left (check_step true s voi) pe (remark g 0 U, xi) = (ivs2, xi2) ->
  xi2 = xi ++ flat_map (entry_msg s U) pe.
Proof.
  intros s voi U pe. induction pe as [|[key vs] t IH]; intros g xi ivs2 xi2 HU H; cbn [fold_left flat_map] in *.
  - inversion H; subst. rewrite app_nil_r. reflexivity.
  - unfold check_step at 2 in H. cbn [andb] in H. rewrite ivar_of_remark in H.
    unfold entry_msg at 1. set (p := ivar_of s U key) in *. rewrite remark_type in H.
    destruct (vtype_eqb (iv_type (geti U p)) VVoi) eqn:Et; cbn [orb andb] in H |- *.
    + destruct (Nat.lt_ge_cases p (length U)) as [L|L].
      2:{ rewrite geti_beyond in Et by exact L. discriminate. }
      rewrite remark_geti in H by exact L. cbn [Nat.add] in H.
      rewrite clear_ext_apply_mark in H by (rewrite Forall_forall in HU; apply HU; apply geti_In; exact L).
      assert (E : upd (remark g 0 U) p (geti U p) = remark (fupd g p None) 0 U) by (rewrite remark_fupd by exact L; reflexivity).
      rewrite E in H. rewrite (IH _ _ _ _ HU H). rewrite <- app_assoc. reflexivity.
    + destruct ((1 <? length vs) || negb (existsb (vref_eqb key) vs)).
      * rewrite (IH _ _ _ _ HU H). rewrite <- app_assoc. reflexivity.
      * rewrite (IH _ _ _ _ HU H). reflexivity.
Qed.

(** the messages of a model without initialisation / variable-of-integration errors *)
Theorem analyse_x_messages : forall s marks ivs0 es0,
  resolvable s = true -> build s = Some (ivs0, es0) -> check_inits s ivs0 0 s = [] ->
  vs_issues (analyse_asts s ivs0 es0) = [] ->
  xr_messages (analyse_x true s marks) =
  foreign_messages marks ++ flat_map (entry_msg s (vs_ivs (analyse_asts s ivs0 es0))) (pev_of s ivs0 marks []).
Proof.
  intros s marks ivs0 es0 Hres Eb Eci Ei. unfold analyse_x, analyse_xg. rewrite Hres, Eb, Eci. cbn [negb].
  destruct (fold_left (mark_step s) marks (ivs0, [], [])) as [[ivs1 pe] xi1] eqn:Em.
  pose proof (build_plain _ _ _ Eb) as Hplain.
  assert (Hne : Forall (fun v => iv_external v = false) ivs0).
  { eapply Forall_impl; [|exact Hplain]. intros v (A & _). exact A. }
  destruct (mark_fold_remark s ivs0 marks ivs1 pe xi1 Em Hne) as (E1 & E2 & E3). subst ivs1.
  rewrite analyse_asts_remark. cbn [rst vs_issues vs_voi vs_ivs]. rewrite Ei.
  set (vst := analyse_asts s ivs0 es0). set (U := vs_ivs vst).
  destruct (fold_left (check_step true s (vs_voi vst)) pe (remark (first_mark s ivs0 marks) 0 U, [])) as [ivs2 xi2] eqn:Ec.
  pose proof (analyse_asts_plain s ivs0 es0 Hplain) as HUplain.
  pose proof (check_fold_msgs s (vs_voi vst) U pe _ _ _ _ HUplain Ec) as E4. cbn [app] in E4.
  destruct (loop s (loop_fuel es0) 1 false (mkCs (map (state_rescue (true && state_rescue_fix)) ivs2) 0 0) es0) as [[st es1]|]; cbn [xr_messages]; subst; reflexivity.
Qed.

(* the variables filed under a key are marks whose tracked variable is that key *)
Lemma pev_add_entry : forall key v pe k vs, In (k, vs) (pev_add key v pe) ->
  In (k, vs) pe \/ (k = key /\ exists vs0, vs = vs0 ++ [v] /\ (vs0 = [] \/ In (k, vs0) pe)).
Proof.
  intros key v pe. induction pe as [|[k0 vs0] t IH]; intros k vs H; cbn [pev_add] in H.
  - destruct H as [H|[]]. inversion H; subst. right. split; [reflexivity|]. exists []. split; [reflexivity|left; reflexivity].
  - destruct (vref_eqb k0 key) eqn:E.
    + assert (k0 = key).
      { unfold vref_eqb in E. apply andb_true_iff in E. destruct E as (A & B). apply Nat.eqb_eq in A. apply Nat.eqb_eq in B.
        destruct k0, key. cbn in *. congruence. }
      subst k0. destruct H as [H|H].
      * inversion H; subst. right. split; [reflexivity|]. exists vs0. split; [reflexivity|right; left; reflexivity].
      * left. right. exact H.
    + destruct H as [H|H]; [left; left; exact H|].
      destruct (IH _ _ H) as [K|(K1 & vs1 & K2 & K3)]; [left; right; exact K|].
      right. split; [exact K1|]. exists vs1. split; [exact K2|]. destruct K3 as [K3|K3]; [left; exact K3|right; right; exact K3].
Qed.

Lemma pev_of_members : forall s ivs0 marks pe k vs x,
  In (k, vs) (pev_of s ivs0 marks pe) -> In x vs ->
  (exists vs0, In (k, vs0) pe /\ In x vs0) \/
  (exists m, In m marks /\ xm_var m = XLocal x /\ iv_var (geti ivs0 (ivar_of s ivs0 x)) = k).
Proof.
  intros s ivs0 marks. induction marks as [|m t IH]; intros pe k vs x H Hx.
  - left. exists vs. split; assumption.
  - unfold pev_of in H. cbn [fold_left] in H. fold (pev_of s ivs0 t) in H.
    destruct (xm_var m) as [r|j] eqn:Ev; cbn [local_of] in H.
    + destruct (IH _ _ _ _ H Hx) as [(vs0 & A & B)|(m1 & A & B & C)].
      * destruct (pev_add_entry _ _ _ _ _ A) as [K|(K1 & vs1 & K2 & K3)].
        -- left. exists vs0. split; assumption.
        -- subst vs0. apply in_app_or in B. destruct B as [B|[<-|[]]].
           ++ destruct K3 as [->|K3]; [destruct B|]. left. exists vs1. split; assumption.
           ++ right. exists m. split; [left; reflexivity|]. split; [exact Ev|]. symmetry. exact K1.
      * right. exists m1. split; [right; exact A|]. split; assumption.
    + destruct (IH _ _ _ _ H Hx) as [K|(m1 & A & B & C)]; [left; exact K|].
      right. exists m1. split; [right; exact A|]. split; assumption.
Qed.

(* ------------------------------------------------------------------ the rescue of uninitialised states keeps everything but the type *)

Lemma state_rescue_keeps : forall b v,
  iv_cls (state_rescue b v) = iv_cls v /\ iv_external (state_rescue b v) = iv_external v /\ iv_var (state_rescue b v) = iv_var v /\
  iv_index (state_rescue b v) = iv_index v /\
  (iv_type (state_rescue b v) = iv_type v \/ (iv_type v = VShouldBeState /\ iv_type (state_rescue b v) = VState)).
Proof.
  intros b v. unfold state_rescue. destruct (b && iv_external v && vtype_eqb (iv_type v) VShouldBeState) eqn:E.
  - apply andb_true_iff in E. destruct E as (_ & E). apply vtype_eqb_eq in E. repeat split; try reflexivity. right. split; [exact E|reflexivity].
  - repeat split; try reflexivity. left. reflexivity.
Qed.

Lemma state_rescue_evolves : forall s b ivs, evolves s ivs (map (state_rescue b) ivs).
Proof.
  intros s b ivs. apply map_evolves. intro v. unfold state_rescue.
  destruct (b && iv_external v && vtype_eqb (iv_type v) VShouldBeState) eqn:E; [|apply step_ok_refl].
  apply andb_true_iff in E. destruct E as (_ & E). apply vtype_eqb_eq in E. apply set_type_step. rewrite E.
  unfold tok. repeat split; intros; try discriminate; auto.
Qed.

Lemma state_rescue_geti : forall b ivs p, geti (map (state_rescue b) ivs) p = state_rescue b (geti ivs p) \/ (length ivs <= p).
Proof.
  intros b ivs p. destruct (Nat.lt_ge_cases p (length ivs)) as [L|L]; [left; apply geti_map; exact L|right; exact L].
Qed.

Lemma state_rescue_off : forall ivs, map (state_rescue false) ivs = ivs.
Proof. intro ivs. induction ivs as [|v t IH]; cbn; [reflexivity|]. rewrite IH. reflexivity. Qed.

Lemma state_rescue_noext : forall b ivs, Forall (fun v => iv_external v = false) ivs -> map (state_rescue b) ivs = ivs.
Proof.
  intros b ivs H. induction H as [|v t Hv Ht IH]; cbn; [reflexivity|]. rewrite IH. f_equal.
  unfold state_rescue. rewrite Hv, andb_false_r. reflexivity.
Qed.
