(** LexProofs.v — the lexer of GramDefs turns the generator's text for a safe AST into the token stream
    [gent]:  lex L (gen p a) = Some (gent L p a).   (C03) *)
From Coq Require Import String Ascii List Bool Arith ZArith Lia.
From LC Require Import NumDefs AstDefs GenDefs GramDefs ReadDefs GenTok ReadProofs.
Import ListNotations.
Local Open Scope string_scope.

Local Ltac inv H := inversion H; subst; clear H.

(** ** the lexer on concatenations *)

Definition brk (c : ascii) : bool :=
  negb (is_alpha c || is_digit c || Ascii.eqb c "." || Ascii.eqb c "[" || Ascii.eqb c "]").
Definition brk_rest (s : string) : Prop :=
  match s with EmptyString => True | String c _ => brk c = true end.

Lemma oapp_nil x : oapp (Some []) x = x.
Proof. destruct x; reflexivity. Qed.
Lemma oapp_assoc a b x : oapp (Some a) (oapp (Some b) x) = oapp (Some (a ++ b)%list) x.
Proof. destruct x; cbn; [rewrite app_assoc|]; reflexivity. Qed.
Lemma ocons_oapp t x : ocons t x = oapp (Some [t]) x.
Proof. destruct x; reflexivity. Qed.
Lemma oapp_cons t a x : oapp (Some (t :: a)) x = ocons t (oapp (Some a) x).
Proof. destruct x; reflexivity. Qed.

Lemma sapp_nil_r (s : string) : s ++ "" = s.
Proof. induction s; cbn; congruence. Qed.
Lemma sapp_assoc (a b c : string) : (a ++ b) ++ c = a ++ (b ++ c).
Proof. induction a; cbn; congruence. Qed.

Section LX.
Variable L : lang.
Notation lex_go := (lex_go L).

Lemma lex_break st c r :
  continues st c = false -> lex_go st (String c r) = oapp (flush st) (lex_go LIdle (String c r)).
Proof.
  intros H. cbn [GramDefs.lex_go]. rewrite H. cbn [continues flush]. rewrite oapp_nil. reflexivity.
Qed.

Lemma brk_not_ident c : brk c = true -> ident_char c = false.
Proof.
  unfold brk, ident_char.
  destruct (is_alpha c), (is_digit c), (Ascii.eqb c "."), (Ascii.eqb c "["), (Ascii.eqb c "]"); cbn; congruence.
Qed.

Lemma lex_ident_run s : forall acc rest,
  all_chars plain_ident_char s = true -> brk_rest rest ->
  lex_go (LIdent acc) (s ++ rest) = oapp (Some [ident_token (acc ++ s)]) (lex_go LIdle rest).
Proof.
  induction s as [|c s IH]; intros acc rest Hs Hr.
  - cbn [append]. rewrite sapp_nil_r. destruct rest as [|c r].
    + reflexivity.
    + rewrite lex_break; [reflexivity|]. cbn. apply brk_not_ident. exact Hr.
  - cbn [all_chars] in Hs. apply andb_prop in Hs. destruct Hs as [Hc Hs].
    cbn [append GramDefs.lex_go].
    assert (ident_char c = true) as Hic by (unfold ident_char, plain_ident_char in *; rewrite Hc; reflexivity).
    cbn [continues]. rewrite Hic. cbn [extend]. rewrite IH by assumption.
    unfold snoc. rewrite sapp_assoc. reflexivity.
Qed.

Lemma alpha_not_blank c : is_alpha c = true -> is_blank c = false.
Proof.
  unfold is_blank. destruct (Ascii.eqb c " ") eqn:E; [|reflexivity].
  apply Ascii.eqb_eq in E. subst c. discriminate.
Qed.

Lemma digit_not_alpha c : is_digit c = true -> is_alpha c = false /\ is_blank c = false.
Proof.
  destruct c as [b0 b1 b2 b3 b4 b5 b6 b7].
  destruct b0, b1, b2, b3, b4, b5, b6, b7; cbn; intros H; try discriminate; split; reflexivity.
Qed.

(* an identifier that is not a keyword of the emitted language: ReadDefs.var_ok *)
Lemma lex_ident f rest :
  var_ok f = true -> brk_rest rest ->
  lex_go LIdle (f ++ rest) = oapp (Some [TId f]) (lex_go LIdle rest).
Proof.
  unfold var_ok. destruct f as [|c r]; [discriminate|]. intros H Hr.
  apply andb_prop in H. destruct H as [H Hk2]. apply andb_prop in H. destruct H as [H Hk1].
  apply andb_prop in H. destruct H as [Ha Hs].
  cbn [append GramDefs.lex_go continues flush]. rewrite oapp_nil.
  rewrite (alpha_not_blank _ Ha), Ha.
  rewrite lex_ident_run by assumption. cbn [append].
  unfold ident_token.
  apply negb_true_iff in Hk1. apply negb_true_iff in Hk2. rewrite Hk1, Hk2. reflexivity.
Qed.

Lemma brk_not_num c ae : brk c = true -> ae = false ->
  (is_digit c || Ascii.eqb c "." || is_alpha c || (ae && (Ascii.eqb c "+" || Ascii.eqb c "-")))%bool = false.
Proof.
  intros H ->. unfold brk in H.
  destruct (is_alpha c), (is_digit c), (Ascii.eqb c "."); cbn in *; congruence.
Qed.

Lemma lex_num_run r : forall acc ae rest,
  num_chars_ok ae r = true -> brk_rest rest ->
  lex_go (LNum acc ae) (r ++ rest) =
  oapp (if real_dfa (acc ++ r) then Some [TNum (acc ++ r)] else None) (lex_go LIdle rest).
Proof.
  induction r as [|c r IH]; intros acc ae rest Hn Hr.
  - cbn [num_chars_ok] in Hn. apply negb_true_iff in Hn. cbn [append]. rewrite sapp_nil_r.
    destruct rest as [|c r].
    + cbn. destruct (real_dfa acc); reflexivity.
    + rewrite lex_break; [reflexivity|]. cbn [continues]. apply brk_not_num; assumption.
  - cbn [num_chars_ok] in Hn. apply andb_prop in Hn. destruct Hn as [Hc Hn].
    cbn [append GramDefs.lex_go continues]. rewrite Hc. cbn [extend]. rewrite IH by assumption.
    unfold snoc. rewrite sapp_assoc. reflexivity.
Qed.

Lemma lex_num s rest :
  num_body_ok s = true -> brk_rest rest ->
  lex_go LIdle (s ++ rest) = oapp (Some [TNum s]) (lex_go LIdle rest).
Proof.
  unfold num_body_ok. destruct s as [|c r]; [discriminate|]. intros H Hr.
  apply andb_prop in H. destruct H as [H Hdfa]. apply andb_prop in H. destruct H as [Hd Hn].
  destruct (digit_not_alpha _ Hd) as [Ha Hb].
  cbn [append GramDefs.lex_go continues flush]. rewrite oapp_nil. rewrite Hb, Ha, Hd.
  rewrite lex_num_run by assumption. cbn [append]. rewrite Hdfa. reflexivity.
Qed.

End LX.

(** ** what the proofs use of the profile's strings (checked by computation for both built-in profiles) *)
Definition strings_ok (L : lang) (p : profile) : Prop :=
  plus_string p = "+" /\ minus_string p = "-" /\ times_string p = "*" /\ divide_string p = "/"
  /\ eq_string p = (if is_C L then " == " else "eq_func")
  /\ neq_string p = (if is_C L then " != " else "neq_func")
  /\ lt_string p = (if is_C L then " < " else "lt_func")
  /\ leq_string p = (if is_C L then " <= " else "leq_func")
  /\ gt_string p = (if is_C L then " > " else "gt_func")
  /\ geq_string p = (if is_C L then " >= " else "geq_func")
  /\ and_string p = (if is_C L then " && " else "and_func")
  /\ or_string p = (if is_C L then " || " else "or_func")
  /\ not_string p = (if is_C L then "!" else "not_func")
  /\ conditional_operator_if_string p =
       (if is_C L then "([CONDITION])?[IF_STATEMENT]" else "[IF_STATEMENT] if [CONDITION]")
  /\ conditional_operator_else_string p = (if is_C L then ":[ELSE_STATEMENT]" else " else [ELSE_STATEMENT]")
  /\ var_ok (power_string p) = true /\ var_ok (square_root_string p) = true
  /\ var_ok (natural_logarithm_string p) = true /\ var_ok (common_logarithm_string p) = true
  /\ var_ok (inf_string p) = true /\ var_ok (nan_string p) = true
  /\ num_body_ok (true_string p) = true /\ num_body_ok (false_string p) = true
  /\ num_body_ok (e_string p) = true /\ num_body_ok (pi_string p) = true
  /\ (forall t f, fun1_name p t = Some f -> var_ok f = true)
  /\ (forall t f, fun2_name p t = Some f -> var_ok f = true).

