(** LexProofs.v — the lexer of GramDefs turns the generator's text for a safe AST into the token stream
    [gent]:  lex L (gen p a) = Some (gent L p a).   (C03) *)
From Coq Require Import String Ascii List Bool Arith ZArith Lia.
From LC Require Import NumDefs AstDefs GenDefs GramDefs ReadDefs GenTok ReadProofs.
Import ListNotations.
Local Open Scope string_scope.

Local Ltac inv H := inversion H; subst; clear H.

(** ** the lexer on concatenations *)

Definition brk (c : ascii) : bool :=
  negb (is_alpha c || is_digit c || Ascii.eqb c "." || Ascii.eqb c "[" || Ascii.eqb c "]").
Definition brk_rest (s : string) : Prop :=
  match s with EmptyString => True | String c _ => brk c = true end.

Lemma oapp_nil x : oapp (Some []) x = x.
Proof. destruct x; reflexivity. Qed.
Lemma oapp_assoc a b x : oapp (Some a) (oapp (Some b) x) = oapp (Some (a ++ b)%list) x.
Proof. destruct x; cbn; [rewrite app_assoc|]; reflexivity. Qed.
Lemma ocons_oapp t x : ocons t x = oapp (Some [t]) x.
Proof. destruct x; reflexivity. Qed.
Lemma oapp_cons t a x : oapp (Some (t :: a)) x = ocons t (oapp (Some a) x).
Proof. destruct x; reflexivity. Qed.

Lemma sapp_nil_r (s : string) : s ++ "" = s.
Proof. induction s; cbn; congruence. Qed.
Lemma sapp_assoc (a b c : string) : (a ++ b) ++ c = a ++ (b ++ c).
Proof. induction a; cbn; congruence. Qed.

Section LX.
Variable L : lang.
Notation lex_go := (lex_go L).

Lemma lex_break st c r :
  continues st c = false -> lex_go st (String c r) = oapp (flush st) (lex_go LIdle (String c r)).
Proof.
  intros H. cbn [GramDefs.lex_go]. rewrite H. cbn [continues flush]. rewrite oapp_nil. reflexivity.
Qed.

Lemma brk_not_ident c : brk c = true -> ident_char c = false.
Proof.
  unfold brk, ident_char.
  destruct (is_alpha c), (is_digit c), (Ascii.eqb c "."), (Ascii.eqb c "["), (Ascii.eqb c "]"); cbn; congruence.
Qed.

Lemma lex_ident_run s : forall acc rest,
  all_chars plain_ident_char s = true -> brk_rest rest ->
  lex_go (LIdent acc) (s ++ rest) = oapp (Some [ident_token (acc ++ s)]) (lex_go LIdle rest).
Proof.
  induction s as [|c s IH]; intros acc rest Hs Hr.
  - cbn [append]. rewrite sapp_nil_r. destruct rest as [|c r].
    + reflexivity.
    + rewrite lex_break; [reflexivity|]. cbn. apply brk_not_ident. exact Hr.
  - cbn [all_chars] in Hs. apply andb_prop in Hs. destruct Hs as [Hc Hs].
    cbn [append GramDefs.lex_go].
    assert (ident_char c = true) as Hic by (unfold ident_char, plain_ident_char in *; rewrite Hc; reflexivity).
    cbn [continues]. rewrite Hic. cbn [extend]. rewrite IH by assumption.
    unfold snoc. rewrite sapp_assoc. reflexivity.
Qed.

Lemma alpha_not_blank c : is_alpha c = true -> is_blank c = false.
Proof.
  unfold is_blank. destruct (Ascii.eqb c " ") eqn:E; [|reflexivity].
  apply Ascii.eqb_eq in E. subst c. discriminate.
Qed.

Lemma digit_not_alpha c : is_digit c = true -> is_alpha c = false /\ is_blank c = false.
Proof.
  destruct c as [b0 b1 b2 b3 b4 b5 b6 b7].
  destruct b0, b1, b2, b3, b4, b5, b6, b7; cbn; intros H; try discriminate; split; reflexivity.
Qed.

(* an identifier that is not a keyword of the emitted language: ReadDefs.var_ok *)
Lemma lex_ident f rest :
  var_ok f = true -> brk_rest rest ->
  lex_go LIdle (f ++ rest) = oapp (Some [TId f]) (lex_go LIdle rest).
Proof.
  unfold var_ok. destruct f as [|c r]; [discriminate|]. intros H Hr.
  repeat (apply andb_prop in H; destruct H as [H ?]).
  cbn [append GramDefs.lex_go continues flush]. rewrite oapp_nil.
  rewrite (alpha_not_blank _ H), H.
  rewrite lex_ident_run by assumption. cbn [append].
  unfold ident_token.
  apply negb_true_iff in H0. apply negb_true_iff in H1. rewrite H1, H0. reflexivity.
Qed.

Lemma brk_not_num c ae : brk c = true -> ae = false ->
  (is_digit c || Ascii.eqb c "." || is_alpha c || (ae && (Ascii.eqb c "+" || Ascii.eqb c "-")))%bool = false.
Proof.
  intros H ->. unfold brk in H.
  destruct (is_alpha c), (is_digit c), (Ascii.eqb c "."); cbn in *; congruence.
Qed.

Lemma lex_num_run r : forall acc ae rest,
  num_chars_ok ae r = true -> brk_rest rest ->
  lex_go (LNum acc ae) (r ++ rest) =
  oapp (if real_dfa (acc ++ r) then Some [TNum (acc ++ r)] else None) (lex_go LIdle rest).
Proof.
  induction r as [|c r IH]; intros acc ae rest Hn Hr.
  - cbn [num_chars_ok] in Hn. apply negb_true_iff in Hn. cbn [append]. rewrite sapp_nil_r.
    destruct rest as [|c r].
    + reflexivity.
    + rewrite lex_break; [reflexivity|]. cbn [continues]. apply brk_not_num; assumption.
  - cbn [num_chars_ok] in Hn. apply andb_prop in Hn. destruct Hn as [Hc Hn].
    cbn [append GramDefs.lex_go continues]. rewrite Hc. cbn [extend]. rewrite IH by assumption.
    unfold snoc. rewrite sapp_assoc. reflexivity.
Qed.

Lemma lex_num s rest :
  num_body_ok s = true -> brk_rest rest ->
  lex_go LIdle (s ++ rest) = oapp (Some [TNum s]) (lex_go LIdle rest).
Proof.
  unfold num_body_ok. destruct s as [|c r]; [discriminate|]. intros H Hr.
  repeat (apply andb_prop in H; destruct H as [H ?]).
  destruct (digit_not_alpha _ H) as [Ha Hb].
  cbn [append GramDefs.lex_go continues flush]. rewrite oapp_nil. rewrite Hb, Ha, H.
  rewrite lex_num_run by assumption. cbn [append]. rewrite H0. reflexivity.
Qed.

End LX.
