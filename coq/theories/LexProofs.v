(** LexProofs.v — the lexer of GramDefs turns the generator's text for a safe AST into the token stream
    [gent]:  lex L (gen p a) = Some (gent L p a).   (C03) *)
From Coq Require Import String Ascii List Bool Arith ZArith Lia.
From LC Require Import NumDefs AstDefs GenDefs GramDefs ReadDefs GenTok ReadProofs.
Import ListNotations.
Local Open Scope string_scope.

Local Ltac inv H := inversion H; subst; clear H.

(** ** the lexer on concatenations *)

Definition brk (c : ascii) : bool :=
  negb (is_alpha c || is_digit c || Ascii.eqb c "." || Ascii.eqb c "[" || Ascii.eqb c "]").
Definition brk_rest (s : string) : Prop :=
  match s with EmptyString => True | String c _ => brk c = true end.

Lemma oapp_nil x : oapp (Some []) x = x.
Proof. destruct x; reflexivity. Qed.
Lemma oapp_assoc a b x : oapp (Some a) (oapp (Some b) x) = oapp (Some (a ++ b)%list) x.
Proof. destruct x; cbn; [rewrite app_assoc|]; reflexivity. Qed.
Lemma ocons_oapp t x : ocons t x = oapp (Some [t]) x.
Proof. destruct x; reflexivity. Qed.
Lemma oapp_cons t a x : oapp (Some (t :: a)) x = ocons t (oapp (Some a) x).
Proof. destruct x; reflexivity. Qed.

Lemma sapp_nil_r (s : string) : s ++ "" = s.
Proof. induction s; cbn; congruence. Qed.
Lemma sapp_assoc (a b c : string) : (a ++ b) ++ c = a ++ (b ++ c).
Proof. induction a; cbn; congruence. Qed.

Section LX.
Variable L : lang.
Notation lex_go := (lex_go L).

Lemma lex_break st c r :
  continues st c = false -> lex_go st (String c r) = oapp (flush st) (lex_go LIdle (String c r)).
Proof.
  intros H. cbn [GramDefs.lex_go]. rewrite H. cbn [continues flush]. rewrite oapp_nil. reflexivity.
Qed.

Lemma brk_not_ident c : brk c = true -> ident_char c = false.
Proof.
  unfold brk, ident_char.
  destruct (is_alpha c), (is_digit c), (Ascii.eqb c "."), (Ascii.eqb c "["), (Ascii.eqb c "]"); cbn; congruence.
Qed.

Lemma lex_ident_run s : forall acc rest,
  all_chars plain_ident_char s = true -> brk_rest rest ->
  lex_go (LIdent acc) (s ++ rest) = oapp (Some [ident_token (acc ++ s)]) (lex_go LIdle rest).
Proof.
  induction s as [|c s IH]; intros acc rest Hs Hr.
  - cbn [append]. rewrite sapp_nil_r. destruct rest as [|c r].
    + reflexivity.
    + rewrite lex_break; [reflexivity|]. cbn. apply brk_not_ident. exact Hr.
  - cbn [all_chars] in Hs. apply andb_prop in Hs. destruct Hs as [Hc Hs].
    cbn [append GramDefs.lex_go].
    assert (ident_char c = true) as Hic by (unfold ident_char, plain_ident_char in *; rewrite Hc; reflexivity).
    cbn [continues]. rewrite Hic. cbn [extend]. rewrite IH by assumption.
    unfold snoc. rewrite sapp_assoc. reflexivity.
Qed.

Lemma alpha_not_blank c : is_alpha c = true -> is_blank c = false.
Proof.
  unfold is_blank. destruct (Ascii.eqb c " ") eqn:E; [|reflexivity].
  apply Ascii.eqb_eq in E. subst c. discriminate.
Qed.

Lemma digit_not_alpha c : (is_digit c || Ascii.eqb c ".")%bool = true -> is_alpha c = false /\ is_blank c = false.
Proof.
  destruct c as [b0 b1 b2 b3 b4 b5 b6 b7].
  destruct b0, b1, b2, b3, b4, b5, b6, b7; cbn; intros H; try discriminate; split; reflexivity.
Qed.

(* an identifier that is not a keyword of the emitted language: ReadDefs.var_ok *)
Lemma lex_ident f rest :
  var_ok f = true -> brk_rest rest ->
  lex_go LIdle (f ++ rest) = oapp (Some [TId f]) (lex_go LIdle rest).
Proof.
  unfold var_ok. destruct f as [|c r]; [discriminate|]. intros H Hr.
  apply andb_prop in H. destruct H as [H Hk2]. apply andb_prop in H. destruct H as [H Hk1].
  apply andb_prop in H. destruct H as [Ha Hs].
  cbn [append GramDefs.lex_go continues flush]. rewrite oapp_nil.
  rewrite (alpha_not_blank _ Ha), Ha.
  rewrite lex_ident_run by assumption. cbn [append].
  unfold ident_token.
  apply negb_true_iff in Hk1. apply negb_true_iff in Hk2. rewrite Hk1, Hk2. reflexivity.
Qed.

Lemma lex_word c r rest :
  is_alpha c = true -> all_chars plain_ident_char r = true -> brk_rest rest ->
  lex_go LIdle (String c r ++ rest) = oapp (Some [ident_token (String c r)]) (lex_go LIdle rest).
Proof.
  intros Ha Hs Hr.
  cbn [append GramDefs.lex_go continues flush]. rewrite oapp_nil.
  rewrite (alpha_not_blank _ Ha), Ha.
  rewrite lex_ident_run by assumption. reflexivity.
Qed.

Lemma brk_not_num c ae : brk c = true -> ae = false ->
  (is_digit c || Ascii.eqb c "." || is_alpha c || (ae && (Ascii.eqb c "+" || Ascii.eqb c "-")))%bool = false.
Proof.
  intros H ->. unfold brk in H.
  destruct (is_alpha c), (is_digit c), (Ascii.eqb c "."); cbn in *; congruence.
Qed.

Lemma lex_num_run r : forall acc ae rest,
  num_chars_ok ae r = true -> brk_rest rest ->
  lex_go (LNum acc ae) (r ++ rest) =
  oapp (if real_dfa (acc ++ r) then Some [TNum (acc ++ r)] else None) (lex_go LIdle rest).
Proof.
  induction r as [|c r IH]; intros acc ae rest Hn Hr.
  - cbn [num_chars_ok] in Hn. apply negb_true_iff in Hn. cbn [append]. rewrite sapp_nil_r.
    destruct rest as [|c r].
    + cbn. destruct (real_dfa acc); reflexivity.
    + rewrite lex_break; [reflexivity|]. cbn [continues]. apply brk_not_num; assumption.
  - cbn [num_chars_ok] in Hn. apply andb_prop in Hn. destruct Hn as [Hc Hn].
    cbn [append GramDefs.lex_go continues]. rewrite Hc. cbn [extend]. rewrite IH by assumption.
    unfold snoc. rewrite sapp_assoc. reflexivity.
Qed.

Lemma lex_num s rest :
  num_body_ok s = true -> brk_rest rest ->
  lex_go LIdle (s ++ rest) = oapp (Some [TNum s]) (lex_go LIdle rest).
Proof.
  unfold num_body_ok. destruct s as [|c r]; [discriminate|]. intros H Hr.
  apply andb_prop in H. destruct H as [H Hdfa]. apply andb_prop in H. destruct H as [Hd Hn].
  destruct (digit_not_alpha _ Hd) as [Ha Hb].
  cbn [append GramDefs.lex_go continues flush]. rewrite oapp_nil. rewrite Hb, Ha, Hd.
  rewrite lex_num_run by assumption. cbn [append]. rewrite Hdfa. reflexivity.
Qed.

End LX.

(** ** what the proofs use of the profile's strings (checked by computation for both built-in profiles) *)
Definition strings_ok (L : lang) (p : profile) : Prop :=
  plus_string p = "+" /\ minus_string p = "-" /\ times_string p = "*" /\ divide_string p = "/"
  /\ eq_string p = (if is_C L then " == " else "eq_func")
  /\ neq_string p = (if is_C L then " != " else "neq_func")
  /\ lt_string p = (if is_C L then " < " else "lt_func")
  /\ leq_string p = (if is_C L then " <= " else "leq_func")
  /\ gt_string p = (if is_C L then " > " else "gt_func")
  /\ geq_string p = (if is_C L then " >= " else "geq_func")
  /\ and_string p = (if is_C L then " && " else "and_func")
  /\ or_string p = (if is_C L then " || " else "or_func")
  /\ not_string p = (if is_C L then "!" else "not_func")
  /\ conditional_operator_if_string p =
       (if is_C L then "([CONDITION])?[IF_STATEMENT]" else "[IF_STATEMENT] if [CONDITION]")
  /\ conditional_operator_else_string p = (if is_C L then ":[ELSE_STATEMENT]" else " else [ELSE_STATEMENT]")
  /\ var_ok (power_string p) = true /\ var_ok (square_root_string p) = true
  /\ var_ok (natural_logarithm_string p) = true /\ var_ok (common_logarithm_string p) = true
  /\ var_ok (inf_string p) = true /\ var_ok (nan_string p) = true
  /\ num_body_ok (true_string p) = true /\ num_body_ok (false_string p) = true
  /\ num_body_ok (e_string p) = true /\ num_body_ok (pi_string p) = true
  /\ (forall t f, fun1_name p t = Some f -> var_ok f = true)
  /\ (forall t f, fun2_name p t = Some f -> var_ok f = true).

Lemma strings_C : strings_ok LC profile_C.
Proof.
  unfold strings_ok. repeat match goal with |- _ /\ _ => split end;
    try (vm_compute; reflexivity);
    intros t f H; destruct t; vm_compute in H; try discriminate; injection H as <-; vm_compute; reflexivity.
Qed.
Lemma strings_Py : strings_ok LPy profile_Py.
Proof.
  unfold strings_ok. repeat match goal with |- _ /\ _ => split end;
    try (vm_compute; reflexivity);
    intros t f H; destruct t; vm_compute in H; try discriminate; injection H as <-; vm_compute; reflexivity.
Qed.

(** ** pieces of generated text *)

Definition head_ok (s : string) : bool :=
  match s with
  | String c _ => is_alpha c || is_digit c || Ascii.eqb c "." || Ascii.eqb c "-" || Ascii.eqb c "(" || Ascii.eqb c "!"
  | EmptyString => false
  end.
Definition hd_is (c : ascii) (s : string) : bool :=
  match s with String d _ => Ascii.eqb d c | EmptyString => false end.
(* no '[' : the C conditional template is searched for "[IF_STATEMENT]" after the condition was inserted *)
Definition nb (s : string) : bool := all_chars (fun c => negb (Ascii.eqb c "[")) s.

Lemma nb_app a b : nb (a ++ b) = (nb a && nb b)%bool.
Proof. unfold nb. induction a; cbn; [reflexivity|]. rewrite IHa. rewrite andb_assoc. reflexivity. Qed.

Lemma all_chars_impl (f g : ascii -> bool) s :
  (forall c, f c = true -> g c = true) -> all_chars f s = true -> all_chars g s = true.
Proof.
  intros Hfg. induction s; cbn; [reflexivity|]. intros H. apply andb_prop in H. destruct H as [H1 H2].
  rewrite (Hfg _ H1), (IHs H2). reflexivity.
Qed.

Lemma plain_not_lbr c : (is_alpha c || is_digit c)%bool = true -> negb (Ascii.eqb c "[") = true.
Proof.
  destruct c as [b0 b1 b2 b3 b4 b5 b6 b7].
  destruct b0, b1, b2, b3, b4, b5, b6, b7; cbn; intros H; try discriminate; reflexivity.
Qed.

Lemma var_ok_nb f : var_ok f = true -> nb f = true /\ head_ok f = true.
Proof.
  unfold var_ok. destruct f as [|c r]; [discriminate|]. intros H.
  apply andb_prop in H. destruct H as [H _]. apply andb_prop in H. destruct H as [H _].
  apply andb_prop in H. destruct H as [Ha Hs]. split.
  - unfold nb. cbn [all_chars]. rewrite (plain_not_lbr c) by (rewrite Ha; reflexivity). cbn.
    eapply all_chars_impl; [|exact Hs]. intros d Hd. apply plain_not_lbr. exact Hd.
  - cbn. rewrite Ha. reflexivity.
Qed.

Lemma numchar_not_lbr c ae :
  (is_digit c || Ascii.eqb c "." || is_alpha c || (ae && (Ascii.eqb c "+" || Ascii.eqb c "-")))%bool = true ->
  negb (Ascii.eqb c "[") = true.
Proof.
  destruct c as [b0 b1 b2 b3 b4 b5 b6 b7].
  destruct ae, b0, b1, b2, b3, b4, b5, b6, b7; cbn; intros H; try discriminate; reflexivity.
Qed.

Lemma num_chars_nb r : forall ae, num_chars_ok ae r = true -> nb r = true.
Proof.
  induction r as [|c r IH]; intros ae H; [reflexivity|].
  cbn [num_chars_ok] in H. apply andb_prop in H. destruct H as [H1 H2].
  unfold nb. cbn [all_chars]. rewrite (numchar_not_lbr _ _ H1). cbn. apply (IH _ H2).
Qed.

Lemma num_body_nb s : num_body_ok s = true -> nb s = true /\ head_ok s = true.
Proof.
  unfold num_body_ok. destruct s as [|c r]; [discriminate|]. intros H.
  apply andb_prop in H. destruct H as [H _]. apply andb_prop in H. destruct H as [Hd Hn]. split.
  - unfold nb. cbn [all_chars]. rewrite (numchar_not_lbr c false) by (rewrite orb_false_r; destruct (is_digit c), (Ascii.eqb c "."); cbn in *; auto; discriminate).
    cbn. apply (num_chars_nb _ _ Hn).
  - cbn. destruct (is_digit c), (Ascii.eqb c "."), (is_alpha c); cbn in *; auto; discriminate.
Qed.

Section LXP.
Variable L : lang.
Notation lex_go := (lex_go L).

(* the text [s] lexes to [ts]; cl = the text is closed (ends with ')'), so nothing is required of what follows *)
Definition LXP (cl : bool) (s : string) (ts : list token) : Prop :=
  head_ok s = true /\ nb s = true /\
  forall rest, (cl = true \/ brk_rest rest) -> lex_go LIdle (s ++ rest) = oapp (Some ts) (lex_go LIdle rest).

Lemma lxp_open cl s ts : LXP cl s ts -> LXP false s ts.
Proof.
  intros (H1 & H2 & H3). split; [exact H1|split; [exact H2|]]. intros rest [H|H]; [discriminate|].
  apply H3. right. exact H.
Qed.

Lemma lxp_ident f : var_ok f = true -> LXP false f [TId f].
Proof.
  intros H. destruct (var_ok_nb _ H) as [Hn Hh]. split; [exact Hh|split; [exact Hn|]].
  intros rest [Hc|Hr]; [discriminate|]. apply lex_ident; assumption.
Qed.

Lemma lxp_num s : num_body_ok s = true -> LXP false s [TNum s].
Proof.
  intros H. destruct (num_body_nb _ H) as [Hn Hh]. split; [exact Hh|split; [exact Hn|]].
  intros rest [Hc|Hr]; [discriminate|]. apply lex_num; assumption.
Qed.

(* one step of the lexer from the idle state, with the recursive calls folded (the if-chain of GramDefs.lex_go) *)
Definition idle_step (c : ascii) (s' : string) : option (list token) :=
          (if is_blank c then GramDefs.lex_go L LIdle s'
           else if is_alpha c then GramDefs.lex_go L (LIdent (String c EmptyString)) s'
           else if is_digit c || Ascii.eqb c "." then GramDefs.lex_go L (LNum (String c EmptyString) false) s'
           else if Ascii.eqb c "(" then ocons TLp (GramDefs.lex_go L LIdle s')
           else if Ascii.eqb c ")" then ocons TRp (GramDefs.lex_go L LIdle s')
           else if Ascii.eqb c "," then ocons TComma (GramDefs.lex_go L LIdle s')
           else if Ascii.eqb c "*" then ocons TStar (GramDefs.lex_go L LIdle s')
           else if Ascii.eqb c "/" then ocons TSlash (GramDefs.lex_go L LIdle s')
           else if Ascii.eqb c ":" then ocons TColon (GramDefs.lex_go L LIdle s')
           else if Ascii.eqb c "?" then (if is_C L then ocons TQuest (GramDefs.lex_go L LIdle s') else None)
           else if Ascii.eqb c "+" then
                  match s' with
                  | String d s'' => if is_C L && Ascii.eqb d "+" then ocons TPlusPlus (GramDefs.lex_go L LIdle s'')
                                    else ocons TPlus (GramDefs.lex_go L LIdle s')
                  | EmptyString => ocons TPlus (GramDefs.lex_go L LIdle s')
                  end
           else if Ascii.eqb c "-" then
                  match s' with
                  | String d s'' => if is_C L && Ascii.eqb d "-" then ocons TMinusMinus (GramDefs.lex_go L LIdle s'')
                                    else ocons TMinus (GramDefs.lex_go L LIdle s')
                  | EmptyString => ocons TMinus (GramDefs.lex_go L LIdle s')
                  end
           else if Ascii.eqb c "<" then
                  match s' with
                  | String d s'' => if Ascii.eqb d "=" then ocons TLe (GramDefs.lex_go L LIdle s'')
                                    else ocons TLt (GramDefs.lex_go L LIdle s')
                  | EmptyString => ocons TLt (GramDefs.lex_go L LIdle s')
                  end
           else if Ascii.eqb c ">" then
                  match s' with
                  | String d s'' => if Ascii.eqb d "=" then ocons TGe (GramDefs.lex_go L LIdle s'')
                                    else ocons TGt (GramDefs.lex_go L LIdle s')
                  | EmptyString => ocons TGt (GramDefs.lex_go L LIdle s')
                  end
           else if Ascii.eqb c "=" then
                  match s' with
                  | String d s'' => if Ascii.eqb d "=" then ocons TEqEq (GramDefs.lex_go L LIdle s'')
                                    else ocons TAssign (GramDefs.lex_go L LIdle s')
                  | EmptyString => ocons TAssign (GramDefs.lex_go L LIdle s')
                  end
           else if Ascii.eqb c "!" then
                  match s' with
                  | String d s'' => if Ascii.eqb d "=" then ocons TNe (GramDefs.lex_go L LIdle s'')
                                    else if is_C L then ocons TBang (GramDefs.lex_go L LIdle s') else None
                  | EmptyString => if is_C L then ocons TBang (GramDefs.lex_go L LIdle s') else None
                  end
           else if Ascii.eqb c "&" then
                  match s' with
                  | String d s'' => if is_C L && Ascii.eqb d "&" then ocons TAndAnd (GramDefs.lex_go L LIdle s'') else None
                  | EmptyString => None
                  end
           else if Ascii.eqb c "|" then
                  match s' with
                  | String d s'' => if is_C L && Ascii.eqb d "|" then ocons TOrOr (GramDefs.lex_go L LIdle s'') else None
                  | EmptyString => None
                  end
           else None).

Lemma lex_idle c s' : lex_go LIdle (String c s') = idle_step c s'.
Proof. cbn [GramDefs.lex_go continues flush]. rewrite oapp_nil. reflexivity. Qed.

Ltac lexstep := cbn [append GramDefs.lex_go continues flush]; rewrite oapp_nil.

Lemma lex_lp X : lex_go LIdle ("(" ++ X) = ocons TLp (lex_go LIdle X).
Proof. lexstep. reflexivity. Qed.
Lemma lex_rp X : lex_go LIdle (")" ++ X) = ocons TRp (lex_go LIdle X).
Proof. lexstep. reflexivity. Qed.
Lemma lex_blank X : lex_go LIdle (String " " X) = lex_go LIdle X.
Proof. lexstep. reflexivity. Qed.
Lemma lex_comma1 X : lex_go LIdle (String "," X) = ocons TComma (lex_go LIdle X).
Proof. lexstep. reflexivity. Qed.
Lemma lex_comma X : lex_go LIdle (", " ++ X) = ocons TComma (lex_go LIdle X).
Proof. cbn [append]. rewrite lex_comma1, lex_blank. reflexivity. Qed.

Lemma lxp_paren s ts : LXP false s ts -> LXP true ("(" ++ s ++ ")") (TLp :: ts ++ [TRp]).
Proof.
  intros (H1 & H2 & H3). split; [reflexivity|split].
  - rewrite !nb_app, H2. reflexivity.
  - intros rest _. rewrite !sapp_assoc. rewrite lex_lp. rewrite H3 by (right; reflexivity).
    rewrite lex_rp. rewrite !ocons_oapp, !oapp_assoc. reflexivity.
Qed.

Lemma lxp_wrap b s ts : LXP false s ts -> LXP b (wrap b s) (wrapt b ts).
Proof. intros H. destruct b; cbn [wrap wrapt]; [apply lxp_paren; exact H|exact H]. Qed.

Lemma lxp_call1 f s ts : var_ok f = true -> LXP false s ts -> LXP true (f ++ "(" ++ s ++ ")") (call1t f ts).
Proof.
  intros Hf (H1 & H2 & H3). destruct (var_ok_nb _ Hf) as [Hn Hh]. split; [|split].
  - destruct f; [discriminate|exact Hh].
  - rewrite !nb_app, Hn, H2. reflexivity.
  - intros rest _. rewrite !sapp_assoc. rewrite lex_ident by (try assumption; reflexivity).
    rewrite lex_lp. rewrite H3 by (right; reflexivity). rewrite lex_rp.
    unfold call1t. rewrite !ocons_oapp, !oapp_assoc. reflexivity.
Qed.

Lemma lxp_call2 f s1 ts1 s2 ts2 :
  var_ok f = true -> LXP false s1 ts1 -> LXP false s2 ts2 ->
  LXP true (f ++ "(" ++ s1 ++ ", " ++ s2 ++ ")") (call2t f ts1 ts2).
Proof.
  intros Hf (A1 & A2 & A3) (B1 & B2 & B3). destruct (var_ok_nb _ Hf) as [Hn Hh]. split; [|split].
  - destruct f; [discriminate|exact Hh].
  - rewrite !nb_app, Hn, A2, B2. reflexivity.
  - intros rest _. rewrite !sapp_assoc. rewrite lex_ident by (try assumption; reflexivity).
    rewrite lex_lp. rewrite A3 by (right; reflexivity). rewrite lex_comma.
    rewrite B3 by (right; reflexivity). rewrite lex_rp.
    unfold call2t. rewrite !ocons_oapp, !oapp_assoc. cbn [app]. rewrite <- !app_assoc. reflexivity.
Qed.

Lemma head_ok_app s t : head_ok s = true -> head_ok (s ++ t) = true.
Proof. destruct s; [discriminate|]. intros H. exact H. Qed.

Lemma brk_rest_app s t : s <> "" -> brk_rest s -> brk_rest (s ++ t).
Proof. destruct s; [congruence|]. intros _ H. exact H. Qed.

(* s1 op s2 *)
Lemma lxp_binop cl1 s1 ts1 opstr tok (hc : ascii -> bool) cl2 s2 ts2 :
  LXP cl1 s1 ts1 -> LXP cl2 s2 ts2 ->
  opstr <> "" -> brk_rest opstr -> nb opstr = true ->
  (forall c X, hc c = true -> lex_go LIdle (opstr ++ String c X) = ocons tok (lex_go LIdle (String c X))) ->
  (exists c s2', s2 = String c s2' /\ hc c = true) ->
  LXP cl2 (s1 ++ opstr ++ s2) (ts1 ++ tok :: ts2).
Proof.
  intros (A1 & A2 & A3) (B1 & B2 & B3) Hne Hbrk Hnb Hlex (c & s2' & -> & Hc).
  split; [apply head_ok_app; exact A1|split].
  - rewrite !nb_app, A2, Hnb, B2. reflexivity.
  - intros rest Hr. rewrite !sapp_assoc.
    rewrite A3 by (right; apply brk_rest_app; assumption).
    cbn [append]. rewrite (Hlex _ _ Hc).
    change (String c (s2' ++ rest)) with (String c s2' ++ rest). rewrite (B3 _ Hr).
    rewrite !ocons_oapp, !oapp_assoc. rewrite <- app_assoc. reflexivity.
Qed.

Lemma lex_minus_step Y :
  (is_C L = true -> hd_is "-" Y = false) -> lex_go LIdle (String "-" Y) = ocons TMinus (lex_go LIdle Y).
Proof.
  intros H. rewrite lex_idle. unfold idle_step.
  change (is_blank "-") with false. change (is_alpha "-") with false.
  change (is_digit "-" || ("-" =? ".")%char)%bool with false.
  change ("-" =? "(")%char with false. change ("-" =? ")")%char with false. change ("-" =? ",")%char with false.
  change ("-" =? "*")%char with false. change ("-" =? "/")%char with false. change ("-" =? ":")%char with false.
  change ("-" =? "?")%char with false. change ("-" =? "+")%char with false. change ("-" =? "-")%char with true.
  cbv iota. destruct Y as [|d Y']; [reflexivity|].
  destruct (is_C L); [|reflexivity]. cbn in H. rewrite H; reflexivity.
Qed.

Lemma lex_plus_step Y :
  hd_is "+" Y = false -> lex_go LIdle (String "+" Y) = ocons TPlus (lex_go LIdle Y).
Proof.
  intros H. rewrite lex_idle. unfold idle_step.
  change (is_blank "+") with false. change (is_alpha "+") with false.
  change (is_digit "+" || ("+" =? ".")%char)%bool with false.
  change ("+" =? "(")%char with false. change ("+" =? ")")%char with false. change ("+" =? ",")%char with false.
  change ("+" =? "*")%char with false. change ("+" =? "/")%char with false. change ("+" =? ":")%char with false.
  change ("+" =? "?")%char with false. change ("+" =? "+")%char with true.
  cbv iota. destruct Y as [|d Y']; [reflexivity|].
  cbn in H. rewrite H, andb_false_r. reflexivity.
Qed.

Lemma lex_bang_step Y :
  is_C L = true -> hd_is "=" Y = false -> lex_go LIdle (String "!" Y) = ocons TBang (lex_go LIdle Y).
Proof.
  intros HC H. rewrite lex_idle. unfold idle_step.
  change (is_blank "!") with false. change (is_alpha "!") with false.
  change (is_digit "!" || ("!" =? ".")%char)%bool with false.
  change ("!" =? "(")%char with false. change ("!" =? ")")%char with false. change ("!" =? ",")%char with false.
  change ("!" =? "*")%char with false. change ("!" =? "/")%char with false. change ("!" =? ":")%char with false.
  change ("!" =? "?")%char with false. change ("!" =? "+")%char with false. change ("!" =? "-")%char with false.
  change ("!" =? "<")%char with false. change ("!" =? ">")%char with false. change ("!" =? "=")%char with false.
  change ("!" =? "!")%char with true.
  cbv iota. rewrite HC. destruct Y as [|d Y']; [reflexivity|].
  cbn in H. rewrite H. reflexivity.
Qed.

Lemma lxp_neg cl s ts :
  LXP cl s ts -> (is_C L = true -> hd_is "-" s = false) -> LXP cl ("-" ++ s) (TMinus :: ts).
Proof.
  intros (A1 & A2 & A3) Hh. split; [reflexivity|split].
  - rewrite nb_app, A2. reflexivity.
  - intros rest Hr. cbn [append]. rewrite lex_minus_step.
    + rewrite (A3 _ Hr). rewrite !ocons_oapp, !oapp_assoc. reflexivity.
    + intros HC. destruct s; [discriminate|]. cbn. apply Hh. exact HC.
Qed.

Lemma head_ok_not_eq c s : head_ok (String c s) = true -> Ascii.eqb c "=" = false /\ Ascii.eqb c "+" = false.
Proof.
  cbn. destruct c as [b0 b1 b2 b3 b4 b5 b6 b7].
  destruct b0, b1, b2, b3, b4, b5, b6, b7; cbn; intros H; try discriminate; split; reflexivity.
Qed.

Lemma lxp_not cl s ts : is_C L = true -> LXP cl s ts -> LXP cl ("!" ++ s) (TBang :: ts).
Proof.
  intros HC (A1 & A2 & A3). split; [reflexivity|split].
  - rewrite nb_app, A2. reflexivity.
  - intros rest Hr. cbn [append]. rewrite lex_bang_step; [|exact HC|].
    + rewrite (A3 _ Hr). rewrite !ocons_oapp, !oapp_assoc. reflexivity.
    + destruct s as [|c s']; [discriminate|]. cbn. apply (head_ok_not_eq _ _ A1).
Qed.

(* concrete operator texts; Y is what follows *)
Ltac lexop := intros; cbn [append]; rewrite ?lex_blank; rewrite lex_idle; cbv -[GramDefs.lex_go is_C];
              try match goal with H : is_C L = true |- _ => rewrite H end; rewrite ?lex_blank; try reflexivity.

Lemma lex_star Y : lex_go LIdle ("*" ++ Y) = ocons TStar (lex_go LIdle Y).
Proof. lexop. Qed.
Lemma lex_slash Y : lex_go LIdle ("/" ++ Y) = ocons TSlash (lex_go LIdle Y).
Proof. lexop. Qed.
Lemma lex_colon Y : lex_go LIdle (":" ++ Y) = ocons TColon (lex_go LIdle Y).
Proof. lexop. Qed.
Lemma lex_quest Y : is_C L = true -> lex_go LIdle ("?" ++ Y) = ocons TQuest (lex_go LIdle Y).
Proof. lexop. Qed.
Lemma lex_eqeq Y : lex_go LIdle (" == " ++ Y) = ocons TEqEq (lex_go LIdle Y).
Proof. lexop. Qed.
Lemma lex_ne Y : lex_go LIdle (" != " ++ Y) = ocons TNe (lex_go LIdle Y).
Proof. lexop. Qed.
Lemma lex_lt Y : lex_go LIdle (" < " ++ Y) = ocons TLt (lex_go LIdle Y).
Proof. lexop. Qed.
Lemma lex_le Y : lex_go LIdle (" <= " ++ Y) = ocons TLe (lex_go LIdle Y).
Proof. lexop. Qed.
Lemma lex_gt Y : lex_go LIdle (" > " ++ Y) = ocons TGt (lex_go LIdle Y).
Proof. lexop. Qed.
Lemma lex_ge Y : lex_go LIdle (" >= " ++ Y) = ocons TGe (lex_go LIdle Y).
Proof. lexop. Qed.
Lemma lex_andand Y : is_C L = true -> lex_go LIdle (" && " ++ Y) = ocons TAndAnd (lex_go LIdle Y).
Proof. lexop. Qed.
Lemma lex_oror Y : is_C L = true -> lex_go LIdle (" || " ++ Y) = ocons TOrOr (lex_go LIdle Y).
Proof. lexop. Qed.

Lemma lex_if Y : lex_go LIdle (" if " ++ Y) = ocons TIf (lex_go LIdle Y).
Proof.
  change (" if " ++ Y) with (String " " ("if" ++ (String " " Y))). rewrite lex_blank.
  rewrite lex_word by reflexivity. rewrite lex_blank. rewrite ocons_oapp. reflexivity.
Qed.
Lemma lex_else Y : lex_go LIdle (" else " ++ Y) = ocons TElse (lex_go LIdle Y).
Proof.
  change (" else " ++ Y) with (String " " ("else" ++ (String " " Y))). rewrite lex_blank.
  rewrite lex_word by reflexivity. rewrite lex_blank. rewrite ocons_oapp. reflexivity.
Qed.

End LXP.

(** ** the conditional templates (utilities.cpp: replace, first occurrence) *)

Lemma rf_skip c tail v :
  nb c = true -> replace_first (c ++ tail) "[IF_STATEMENT]" v = c ++ replace_first tail "[IF_STATEMENT]" v.
Proof.
  induction c as [|d c IH]; intros H; [reflexivity|].
  unfold nb in H. cbn [all_chars] in H. apply andb_prop in H. destruct H as [Hd Hc].
  cbn [append]. cbn [replace_first prefix_drop]. rewrite Ascii.eqb_sym. apply negb_true_iff in Hd. rewrite Hd.
  rewrite (IH Hc). reflexivity.
Qed.

Lemma if_code_C c v :
  nb c = true ->
  replace_first (replace_first "([CONDITION])?[IF_STATEMENT]" "[CONDITION]" c) "[IF_STATEMENT]" v
  = "(" ++ c ++ ")?" ++ v.
Proof.
  intros H.
  change (replace_first "([CONDITION])?[IF_STATEMENT]" "[CONDITION]" c) with ("(" ++ (c ++ ")?[IF_STATEMENT]")).
  cbn [append]. cbn [replace_first prefix_drop]. change (("[" =? "(")%char) with false. cbv iota.
  rewrite rf_skip by exact H. cbn. rewrite sapp_nil_r. reflexivity.
Qed.

Lemma if_code_Py c v :
  replace_first (replace_first "[IF_STATEMENT] if [CONDITION]" "[CONDITION]" c) "[IF_STATEMENT]" v
  = v ++ " if " ++ c.
Proof.
  change (replace_first "[IF_STATEMENT] if [CONDITION]" "[CONDITION]" c) with ("[IF_STATEMENT] if " ++ (c ++ "")).
  rewrite sapp_nil_r. reflexivity.
Qed.

Lemma else_code_C v : replace_first ":[ELSE_STATEMENT]" "[ELSE_STATEMENT]" v = ":" ++ v.
Proof. cbn. rewrite sapp_nil_r. reflexivity. Qed.
Lemma else_code_Py v : replace_first " else [ELSE_STATEMENT]" "[ELSE_STATEMENT]" v = " else " ++ v.
Proof. cbn. rewrite sapp_nil_r. reflexivity. Qed.

(** ** the generated text of a safe AST lexes to [gent] *)
Section MainLex.
Variable L : lang.
Variable p : profile.
Hypothesis HF : flags_ok L p.
Hypothesis HS : strings_ok L p.

Notation gent := (gent L p).
Notation safe := (safe_b L p).
Notation LXP := (LXP L).

Lemma Splus : plus_string p = "+". Proof. apply HS. Qed.
Lemma Sminus : minus_string p = "-". Proof. apply HS. Qed.
Lemma Stimes : times_string p = "*". Proof. apply HS. Qed.
Lemma Sdivide : divide_string p = "/". Proof. apply HS. Qed.
Lemma Seq : eq_string p = (if is_C L then " == " else "eq_func"). Proof. apply HS. Qed.
Lemma Sneq : neq_string p = (if is_C L then " != " else "neq_func"). Proof. apply HS. Qed.
Lemma Slt : lt_string p = (if is_C L then " < " else "lt_func"). Proof. apply HS. Qed.
Lemma Sleq : leq_string p = (if is_C L then " <= " else "leq_func"). Proof. apply HS. Qed.
Lemma Sgt : gt_string p = (if is_C L then " > " else "gt_func"). Proof. apply HS. Qed.
Lemma Sgeq : geq_string p = (if is_C L then " >= " else "geq_func"). Proof. apply HS. Qed.
Lemma Sand : and_string p = (if is_C L then " && " else "and_func"). Proof. apply HS. Qed.
Lemma Sor : or_string p = (if is_C L then " || " else "or_func"). Proof. apply HS. Qed.
Lemma Snot : not_string p = (if is_C L then "!" else "not_func"). Proof. apply HS. Qed.
Lemma Sif : conditional_operator_if_string p =
            (if is_C L then "([CONDITION])?[IF_STATEMENT]" else "[IF_STATEMENT] if [CONDITION]").
Proof. apply HS. Qed.
Lemma Selse : conditional_operator_else_string p = (if is_C L then ":[ELSE_STATEMENT]" else " else [ELSE_STATEMENT]").
Proof. apply HS. Qed.
Lemma Vpow : var_ok (power_string p) = true. Proof. apply HS. Qed.
Lemma Vsqrt : var_ok (square_root_string p) = true. Proof. apply HS. Qed.
Lemma Vln : var_ok (natural_logarithm_string p) = true. Proof. apply HS. Qed.
Lemma Vlog10 : var_ok (common_logarithm_string p) = true. Proof. apply HS. Qed.
Lemma Vinf : var_ok (inf_string p) = true. Proof. apply HS. Qed.
Lemma Vnan : var_ok (nan_string p) = true. Proof. apply HS. Qed.
Lemma Ntrue : num_body_ok (true_string p) = true. Proof. apply HS. Qed.
Lemma Nfalse : num_body_ok (false_string p) = true. Proof. apply HS. Qed.
Lemma Ne : num_body_ok (e_string p) = true. Proof. apply HS. Qed.
Lemma Npi : num_body_ok (pi_string p) = true. Proof. apply HS. Qed.
Lemma Vf1 t f : fun1_name p t = Some f -> var_ok f = true. Proof. apply HS. Qed.
Lemma Vf2 t f : fun2_name p t = Some f -> var_ok f = true. Proof. apply HS. Qed.

Local Notation F1 := (F1 L p HF). Local Notation F2 := (F2 L p HF). Local Notation F3 := (F3 L p HF).
Local Notation F4 := (F4 L p HF). Local Notation F5 := (F5 L p HF). Local Notation F6 := (F6 L p HF).
Local Notation F7 := (F7 L p HF). Local Notation F8 := (F8 L p HF). Local Notation F9 := (F9 L p HF).
Local Notation F10 := (F10 L p HF). Local Notation F11 := (F11 L p HF). Local Notation F12 := (F12 L p HF).
Local Notation F13 := (F13 L p HF).
Ltac fl := rewrite ?F1, ?F2, ?F3, ?F4, ?F5, ?F6, ?F7, ?F8, ?F9, ?F10, ?F11, ?F12, ?F13.
Ltac fl_in H := rewrite ?F1, ?F2, ?F3, ?F4, ?F5, ?F6, ?F7, ?F8, ?F9, ?F10, ?F11, ?F12, ?F13 in H.

Definition LG (a : ast) : Prop := safe a = true -> LXP false (gen p a) (gent a).

(** kinds, on the text side *)
Lemma gen_fun1 t v l r f : fun1_name p t = Some f -> gen p (Node t v l r) = f ++ "(" ++ gen p l ++ ")".
Proof.
  intros Hx. destruct t; cbn in Hx; try discriminate; fl_in Hx;
    try (inv Hx; reflexivity).
  destruct (is_C L) eqn:EC; [discriminate|]. inv Hx. cbn [gen]. fl. rewrite EC. reflexivity.
Qed.

Lemma gen_fun2 t v l r f :
  fun2_name p t = Some f -> gen p (Node t v l r) = f ++ "(" ++ gen p l ++ ", " ++ gen p r ++ ")".
Proof.
  intros Hx. destruct t; cbn in Hx; try discriminate; fl_in Hx; cbn in Hx;
    destruct (is_C L) eqn:EC; try discriminate; inv Hx; cbn [gen]; fl; rewrite ?EC; reflexivity.
Qed.

Definition opstr (t : ty) : string :=
  match t with
  | EQ => eq_string p | NEQ => neq_string p | LT => lt_string p | LEQ => leq_string p
  | GT => gt_string p | GEQ => geq_string p | AND => and_string p | OR => or_string p
  | PLUS => plus_string p | MINUS => minus_string p | TIMES => times_string p | DIVIDE => divide_string p
  | _ => ""
  end.
Definition hc (t : ty) (c : ascii) : bool :=
  match t with
  | PLUS => negb (Ascii.eqb c "+")
  | MINUS => negb (is_C L && Ascii.eqb c "-")
  | _ => true
  end.

Lemma gen_infix t v l r tok op q :
  infix_info p t = Some (tok, op, q) -> is_nil r = false ->
  gen p (Node t v l r) =
  wrap (paren_left p t l r) (gen p l) ++ opstr t ++ wrap (paren_right p t l r (gen p r)) (gen p r).
Proof.
  intros Hx Hr. destruct t; cbn in Hx; try discriminate; fl_in Hx; cbn in Hx;
    destruct (is_C L) eqn:EC; try discriminate; inv Hx; cbn [gen opstr]; rewrite ?Hr; fl; rewrite ?EC;
    reflexivity.
Qed.

Lemma opstr_ok t tok op q :
  infix_info p t = Some (tok, op, q) ->
  opstr t <> "" /\ brk_rest (opstr t) /\ nb (opstr t) = true /\
  forall c X, hc t c = true -> lex_go L LIdle (opstr t ++ String c X) = ocons tok (lex_go L LIdle (String c X)).
Proof.
  intros Hx. destruct t; cbn in Hx; try discriminate; fl_in Hx; cbn in Hx;
    destruct (is_C L) eqn:EC; try discriminate; inv Hx; cbn [opstr hc];
    rewrite ?Seq, ?Sneq, ?Slt, ?Sleq, ?Sgt, ?Sgeq, ?Sand, ?Sor, ?Splus, ?Sminus, ?Stimes, ?Sdivide, ?EC;
    (split; [discriminate|split; [reflexivity|split; [reflexivity|]]]); intros c X Hc.
  - apply lex_eqeq.
  - apply lex_ne.
  - apply lex_lt.
  - apply lex_le.
  - apply lex_gt.
  - apply lex_ge.
  - apply lex_andand; exact EC.
  - apply lex_oror; exact EC.
  - apply lex_plus_step; cbn; apply negb_true_iff in Hc; exact Hc.
  - apply lex_plus_step; cbn; apply negb_true_iff in Hc; exact Hc.
  - apply lex_minus_step; intros HC; cbn; cbn in Hc; apply negb_true_iff in Hc; exact Hc.
  - apply lex_minus_step; intros HC; congruence.
  - apply lex_star.
  - apply lex_star.
  - apply lex_slash.
  - apply lex_slash.
Qed.

Lemma lg_unsafe a : safe a = false -> LG a.
Proof. intros H Hs. rewrite H in Hs. discriminate. Qed.

Lemma lg_fun1 t v l r f : fun1_name p t = Some f -> LG l -> LG (Node t v l r).
Proof.
  intros Hk Hl Hs. destruct (kind_fun1 L p HF t v l r f Hk) as (Eg & _ & _ & _ & Hsafe).
  rewrite (gen_fun1 _ _ _ _ _ Hk), Eg. eapply lxp_open. apply lxp_call1; [exact (Vf1 _ _ Hk)|apply Hl; auto].
Qed.

Lemma lg_fun2 t v l r f : fun2_name p t = Some f -> LG l -> LG r -> LG (Node t v l r).
Proof.
  intros Hk Hl Hr Hs. destruct (kind_fun2 L p HF t v l r f Hk) as (Eg & _ & _ & _ & Hsafe).
  destruct (Hsafe Hs) as [Hsl Hsr].
  rewrite (gen_fun2 _ _ _ _ _ Hk), Eg. eapply lxp_open. apply lxp_call2; [exact (Vf2 _ _ Hk)|apply Hl; auto|apply Hr; auto].
Qed.

Lemma starts_hd s : starts_with "-" s = hd_is "-" s.
Proof.
  destruct s as [|c s]; [reflexivity|]. unfold starts_with. cbn [prefix_drop hd_is].
  rewrite (Ascii.eqb_sym "-" c). destruct (Ascii.eqb c "-"); reflexivity.
Qed.

Lemma lg_infix t v l r tok op q :
  infix_info p t = Some (tok, op, q) -> is_nil r = false -> LG l -> LG r -> LG (Node t v l r).
Proof.
  intros Hi Hr Hl HR Hs.
  destruct (kind_infix L p HF t v l r tok op q Hi Hr) as (Eg & _ & _ & _ & _ & Hsafe).
  destruct (Hsafe Hs) as (Hsl & Hsr & Hbo).
  rewrite (gen_infix _ _ _ _ _ _ _ Hi Hr), Eg.
  destruct (opstr_ok _ _ _ _ Hi) as (O1 & O2 & O3 & O4).
  pose proof (HR Hsr) as LR. pose proof (Hl Hsl) as LL.
  eapply lxp_open.
  eapply lxp_binop with (hc := hc t);
    [apply lxp_wrap; exact LL|apply lxp_wrap; exact LR|exact O1|exact O2|exact O3|exact O4|].
  destruct (paren_right p t l r (gen p r)) eqn:EPR; cbn [wrap parens].
  - exists "("%char. eexists. split; [reflexivity|].
    destruct t; try reflexivity. cbn. rewrite andb_false_r. reflexivity.
  - destruct LR as (Hh & _ & _). destruct (gen p r) as [|c s'] eqn:Eg2; [discriminate|].
    exists c, s'. split; [reflexivity|].
    destruct t; try reflexivity.
    + (* PLUS *) cbn. destruct (head_ok_not_eq _ _ Hh) as [_ Hp]. rewrite Hp. reflexivity.
    + (* MINUS *) cbn [hc]. cbn [paren_right] in EPR. rewrite Sminus in EPR.
      apply orb_false_iff in EPR. destruct EPR as [EPR _].
      apply orb_false_iff in EPR. destruct EPR as [_ EPR].
      rewrite starts_hd in EPR. cbn in EPR. rewrite EPR, andb_false_r. reflexivity.
Qed.

Lemma lg_ci v l r : LG (Node CI v l r).
Proof. intros Hs. cbn [safe_b] in Hs. cbn [gen GenTok.gent]. apply lxp_ident. exact Hs. Qed.

Lemma cn_split v :
  double_code v = if cn_neg v then "-" ++ cn_body v else cn_body v.
Proof.
  unfold cn_neg, cn_body. rewrite starts_hd. destruct (double_code v) as [|c s]; [reflexivity|].
  cbn. destruct (Ascii.eqb c "-") eqn:E; [|reflexivity]. apply Ascii.eqb_eq in E. subst c. reflexivity.
Qed.

Lemma lg_cn v l r : LG (Node CN v l r).
Proof.
  intros Hs. cbn [safe_b] in Hs. unfold cn_ok in Hs. apply andb_prop in Hs. destruct Hs as [_ Hb].
  cbn [gen GenTok.gent]. rewrite cn_split. destruct (cn_neg v).
  - apply lxp_neg; [apply lxp_num; exact Hb|]. intros _.
    unfold num_body_ok in Hb. destruct (cn_body v) as [|c s]; [discriminate|].
    apply andb_prop in Hb. destruct Hb as [Hb _]. apply andb_prop in Hb. destruct Hb as [Hd _]. cbn.
    destruct c as [b0 b1 b2 b3 b4 b5 b6 b7].
    destruct b0, b1, b2, b3, b4, b5, b6, b7; cbn in Hd; try discriminate; reflexivity.
  - apply lxp_num. exact Hb.
Qed.

Lemma lg_uplus v l r : is_nil r = true -> LG l -> LG (Node PLUS v l r).
Proof.
  intros Hr Hl Hs. cbn [safe_b] in Hs. rewrite Hr in Hs. cbn [gen GenTok.gent]. rewrite Hr. apply Hl. exact Hs.
Qed.

Lemma lg_uminus v l r : is_nil r = true -> LG l -> LG (Node MINUS v l r).
Proof.
  intros Hr Hl Hs. cbn [safe_b] in Hs. rewrite Hr in Hs.
  apply andb_prop in Hs. destruct Hs as [Hs Hc]. apply andb_prop in Hs. destruct Hs as [Hsl _].
  cbn [gen GenTok.gent]. rewrite Hr. unfold minus_unary_code. rewrite Sminus.
  apply lxp_neg; [eapply lxp_open; apply lxp_wrap; apply Hl; exact Hsl|].
  intros HC. destruct (paren_unary_minus p l); cbn [wrap parens]; [reflexivity|].
  rewrite HC in Hc. cbn in Hc. apply negb_true_iff in Hc. rewrite starts_hd in Hc. exact Hc.
Qed.

Lemma lg_not v l r : is_C L = true -> LG l -> LG (Node NOT v l r).
Proof.
  intros HC Hl Hs. cbn [safe_b] in Hs. fl_in Hs. rewrite HC in Hs.
  apply andb_prop in Hs. destruct Hs as [Hsl _].
  cbn [gen GenTok.gent]. fl. rewrite HC, Snot, HC. apply lxp_not; [exact HC|apply Hl; exact Hsl].
Qed.

Lemma lg_power v l r : LG l -> LG r -> LG (Node POWER v l r).
Proof.
  intros Hl Hr Hs. cbn [safe_b] in Hs.
  apply andb_prop in Hs. destruct Hs as [Hs _]. apply andb_prop in Hs. destruct Hs as [_ Hs].
  apply andb_prop in Hs. destruct Hs as [Hsl Hsr].
  cbn [gen GenTok.gent]. fl. cbn [str_is_empty negb]. rewrite andb_false_r.
  destruct (text_is_number (gen p r) 1 2).
  - eapply lxp_open. apply lxp_call1; [apply Vsqrt|apply Hl; exact Hsl].
  - eapply lxp_open. apply lxp_call2; [apply Vpow|apply Hl; exact Hsl|apply Hr; exact Hsr].
Qed.

Lemma lxp_slash cl1 s1 ts1 cl2 s2 ts2 :
  LXP cl1 s1 ts1 -> LXP cl2 s2 ts2 -> LXP cl2 (s1 ++ "/" ++ s2) (ts1 ++ TSlash :: ts2).
Proof.
  intros A B. eapply lxp_binop with (hc := fun _ => true); [exact A|exact B|discriminate|reflexivity|reflexivity| |].
  - intros c X _. apply lex_slash.
  - destruct B as (Bh & _ & _). destruct s2 as [|c s2']; [discriminate|]. exists c, s2'. split; reflexivity.
Qed.

Lemma lg_root v l r : LG l -> LG r -> LG (left_of l) -> LG (Node ROOT v l r).
Proof.
  intros Hl Hr Hd Hs. cbn [safe_b] in Hs. cbn [gen GenTok.gent]. destruct (is_nil r) eqn:Er.
  - eapply lxp_open. apply lxp_call1; [apply Vsqrt|apply Hl; exact Hs].
  - destruct l as [|tl vl d rl]; [discriminate|]. destruct tl; try discriminate. cbn [left_of] in *.
    apply andb_prop in Hs. destruct Hs as [Hs _]. apply andb_prop in Hs. destruct Hs as [Hs _].
    apply andb_prop in Hs. destruct Hs as [Hs Hsr]. apply andb_prop in Hs. destruct Hs as [_ Hsd].
    change (gen p (Node DEGREE vl d rl)) with (gen p d).
    change (GenTok.gent L p (Node DEGREE vl d rl)) with (gent d).
    destruct (text_is_number (gen p d) 2 1).
    + eapply lxp_open. apply (lxp_call1 L (square_root_string p) (gen p r) (gent r)); [apply Vsqrt|apply Hr; exact Hsr].
    + fl. unfold operator_code. rewrite Sdivide.
      change (paren_left p DIVIDE (Node CN "1.0" Null Null) d) with false. cbn [wrap].
      fold one_ast.
      change (TId (power_string p) :: TLp :: gent r ++ TComma :: TNum "1.0" :: TSlash
                :: wrapt (paren_right p DIVIDE one_ast d (gen p d)) (gent d) ++ [TRp])
        with (call2t (power_string p) (gent r)
                ([TNum "1.0"] ++ TSlash :: wrapt (paren_right p DIVIDE one_ast d (gen p d)) (gent d))).
      eapply lxp_open.
      apply (lxp_call2 L (power_string p) (gen p r) (gent r)
               ("1.0" ++ "/" ++ wrap (paren_right p DIVIDE one_ast d (gen p d)) (gen p d)));
        [apply Vpow|apply Hr; exact Hsr|].
      eapply lxp_open. eapply lxp_slash; [apply lxp_num; reflexivity|apply lxp_wrap; apply Hd; exact Hsd].
Qed.

Lemma lg_log v l r : LG l -> LG r -> LG (left_of l) -> LG (Node LOG v l r).
Proof.
  intros Hl Hr Hb Hs. cbn [safe_b] in Hs. cbn [gen GenTok.gent]. destruct (is_nil r) eqn:Er.
  - eapply lxp_open. apply lxp_call1; [apply Vlog10|apply Hl; exact Hs].
  - destruct l as [|tl vl b rl]; [discriminate|]. destruct tl; try discriminate. cbn [left_of] in *.
    apply andb_prop in Hs. destruct Hs as [Hs _]. apply andb_prop in Hs. destruct Hs as [Hsb Hsr].
    change (gen p (Node LOGBASE vl b rl)) with (gen p b).
    change (GenTok.gent L p (Node LOGBASE vl b rl)) with (gent b).
    destruct (text_is_number (gen p b) 10 1).
    + eapply lxp_open. apply (lxp_call1 L (common_logarithm_string p) (gen p r) (gent r)); [apply Vlog10|apply Hr; exact Hsr].
    + replace (natural_logarithm_string p ++ "(" ++ gen p r ++ ")/" ++ natural_logarithm_string p ++ "(" ++ gen p b ++ ")")
        with ((natural_logarithm_string p ++ "(" ++ gen p r ++ ")") ++ "/" ++ (natural_logarithm_string p ++ "(" ++ gen p b ++ ")"))
        by (rewrite !sapp_assoc; reflexivity).
      eapply lxp_open. eapply lxp_slash; (apply lxp_call1; [apply Vln|auto]).
Qed.

(* one piece "value if condition" followed by the else part *)
Definition piece_text (vv cc : string) : string := piecewise_if_code p cc vv.
Definition piece_toks (vv cc : list token) : list token :=
  if is_C L then TLp :: cc ++ TRp :: TQuest :: vv else (vv ++ TIf :: cc)%list.

Lemma lxp_cond V vt C ct E et :
  LXP false V vt -> LXP false C ct -> LXP false E et ->
  LXP false (piece_text V C ++ piecewise_else_code p E) (piece_toks vt ct ++ else_tok L :: et).
Proof.
  intros (V1 & V2 & V3) (C1 & C2 & C3) (E1 & E2 & E3).
  unfold piece_text, piece_toks, else_tok, piecewise_if_code, piecewise_else_code. fl. rewrite Sif, Selse.
  destruct (is_C L) eqn:EC.
  - rewrite (if_code_C _ _ C2), else_code_C. split; [reflexivity|split].
    + rewrite !nb_app, C2, V2, E2. reflexivity.
    + intros rest Hr. rewrite !sapp_assoc. rewrite lex_lp. rewrite C3 by (right; reflexivity).
      change (")?" ++ V ++ ":" ++ E ++ rest) with (")" ++ "?" ++ V ++ ":" ++ E ++ rest).
      rewrite lex_rp, (lex_quest L _ EC). rewrite V3 by (right; reflexivity).
      rewrite lex_colon. rewrite (E3 _ Hr).
      rewrite !ocons_oapp, !oapp_assoc. cbn [app]. rewrite <- !app_assoc. reflexivity.
  - rewrite if_code_Py, else_code_Py. split; [apply head_ok_app; apply head_ok_app; exact V1|split].
    + rewrite !nb_app, C2, V2, E2. reflexivity.
    + intros rest Hr. rewrite !sapp_assoc. rewrite V3 by (right; reflexivity).
      rewrite lex_if. rewrite C3 by (right; reflexivity). rewrite lex_else. rewrite (E3 _ Hr).
      rewrite !ocons_oapp, !oapp_assoc. cbn [app]. rewrite <- !app_assoc. reflexivity.
Qed.

Lemma gen_piecewise v vl v1 c1 r :
  gen p (Node PIECEWISE v (Node PIECE vl v1 c1) r) =
  piece_text (gen p v1) (gen p c1) ++
  piecewise_else_code p
    (match r with
     | Null => nan_string p
     | Node PIECE _ v2 c2 => piece_text (gen p v2) (gen p c2) ++ piecewise_else_code p (nan_string p)
     | _ => gen p r
     end).
Proof. destruct r as [|t0 v0 l0 r0]; [reflexivity|destruct t0; reflexivity]. Qed.

Lemma gent_piecewise v vl v1 c1 r :
  gent (Node PIECEWISE v (Node PIECE vl v1 c1) r) =
  (piece_toks (gent v1) (gent c1) ++ else_tok L ::
   match r with
   | Null => nan_toks p
   | Node PIECE _ v2 c2 => piece_toks (gent v2) (gent c2) ++ else_tok L :: nan_toks p
   | _ => gent r
   end)%list.
Proof. destruct r as [|t0 v0 l0 r0]; [reflexivity|destruct t0; reflexivity]. Qed.

Lemma lg_piecewise v l r :
  LG (left_of l) -> LG (right_of l) -> LG r -> LG (left_of r) -> LG (right_of r) -> LG (Node PIECEWISE v l r).
Proof.
  intros Hv1 Hc1 Hr Hlr Hrr Hs.
  destruct l as [|tl vl v1 c1]; [discriminate|]. destruct tl; try discriminate.
  cbn [left_of right_of] in *. cbn [safe_b] in Hs.
  apply andb_prop in Hs. destruct Hs as [Hs Hels]. apply andb_prop in Hs. destruct Hs as [Hs _].
  apply andb_prop in Hs. destruct Hs as [Hsv Hsc].
  assert (NanX : LXP false (nan_string p) (nan_toks p)) by (apply lxp_ident; apply Vnan).
  rewrite gen_piecewise, gent_piecewise.
  apply lxp_cond; [apply Hv1; exact Hsv|apply Hc1; exact Hsc|].
  destruct r as [|tr0 vr lr rr]; [exact NanX|].
  cbn [left_of right_of] in *.
  destruct tr0; try (apply Hr; exact Hels).
  - (* a last PIECE *)
    apply andb_prop in Hels. destruct Hels as [Hels _]. apply andb_prop in Hels. destruct Hels as [Hs2v Hs2c].
    apply lxp_cond; [apply Hlr; exact Hs2v|apply Hrr; exact Hs2c|exact NanX].
  - (* OTHERWISE x *)
    change (gen p (Node OTHERWISE vr lr rr)) with (gen p lr).
    change (GenTok.gent L p (Node OTHERWISE vr lr rr)) with (gent lr).
    apply Hlr. exact Hels.
Qed.

Theorem lex_all a : LG a /\ LG (left_of a) /\ LG (right_of a).
Proof.
  induction a as [|t v l IHl r IHr].
  - split; [|split]; intros H0; discriminate H0.
  - destruct IHl as (Ql & Qll & Qrl). destruct IHr as (Qr & Qlr & Qrr).
    split; [|split; [exact Ql|exact Qr]].
    destruct (is_C L) eqn:EC;
    destruct t;
      first
        [ apply lg_unsafe; reflexivity
        | apply lg_ci | apply lg_cn
        | apply lg_power; assumption
        | apply lg_root; assumption
        | apply lg_log; assumption
        | apply lg_piecewise; assumption
        | apply lg_not; assumption
        | (eapply lg_fun1; [cbn; fl; rewrite ?EC; reflexivity|assumption])
        | (eapply lg_fun2; [cbn; fl; rewrite ?EC; reflexivity|assumption|assumption])
        | (intros _; cbn [gen GenTok.gent]; apply lxp_num; first [apply Ntrue|apply Nfalse|apply Ne|apply Npi])
        | (intros _; cbn [gen GenTok.gent]; apply lxp_ident; first [apply Vinf|apply Vnan])
        | (destruct (is_nil r) eqn:Er;
           [ first [apply lg_uplus; assumption | apply lg_uminus; assumption
                   | apply lg_unsafe; cbn [safe_b]; fl; rewrite ?EC;
                     destruct r; [cbn [safe_b]; rewrite andb_false_r; reflexivity|discriminate Er] ]
           | eapply lg_infix; [cbn; fl; rewrite ?EC; reflexivity|exact Er|assumption|assumption] ])
        ].
Qed.

End MainLex.

Theorem lex_gen_C a :
  safe_b LC profile_C a = true -> lex LC (gen profile_C a) = Some (gent LC profile_C a).
Proof.
  intros Hs. destruct (lex_all LC profile_C flags_C strings_C a) as (H & _ & _).
  destruct (H Hs) as (_ & _ & H3). specialize (H3 "" (or_intror I)).
  rewrite sapp_nil_r in H3. unfold lex. rewrite H3. cbn. rewrite app_nil_r. reflexivity.
Qed.

Theorem lex_gen_Py a :
  safe_b LPy profile_Py a = true -> lex LPy (gen profile_Py a) = Some (gent LPy profile_Py a).
Proof.
  intros Hs. destruct (lex_all LPy profile_Py flags_Py strings_Py a) as (H & _ & _).
  destruct (H Hs) as (_ & _ & H3). specialize (H3 "" (or_intror I)).
  rewrite sapp_nil_r in H3. unfold lex. rewrite H3. cbn. rewrite app_nil_r. reflexivity.
Qed.
