(** RoundtripConnProofs.v — loadConnection on a printed connection element (C02, stage 4).
    For a forest G in which every component of the printed model is found again by its name (unique names), one
    printed connection (a group of map entries between one ordered pair of components) adds to the model exactly the
    group's equivalences, with their mapping ids and the connection id, and raises no issue. *)
From Coq Require Import String Ascii List Bool ZArith Arith Lia Permutation.
From LC Require Import Common NumDefs XmlDefs EntTreeDefs PrintDefs LoadDefs RoundtripSpec XmlTextProofs
     RoundtripReadProofs RoundtripLoadProofs RoundtripFlatProofs RoundtripEncProofs RoundtripOrderProofs
     RoundtripMapsProofs RoundtripPathProofs.
Import ListNotations.
Local Open Scope string_scope.
Local Open Scope bool_scope.
Local Open Scope list_scope.

(** * adding a list of edges *)
Definition add_list (es : list eqv) (l : list eqv) : list eqv :=
  fold_left (fun es x => add_equivalence es (e_a x) (e_b x) (e_mid x) (e_cid x)) l es.

Lemma add_list_app : forall l1 l2 es, add_list es (l1 ++ l2) = add_list (add_list es l1) l2.
Proof. intros. unfold add_list. apply fold_left_app. Qed.

(** edges pairwise different as unordered pairs, none a loop *)
Fixpoint edges_ok (l : list eqv) : Prop :=
  match l with
  | [] => True
  | x :: r => e_a x <> e_b x /\ (forall y, In y r -> same_edge (e_a y) (e_b y) x = false) /\ edges_ok r
  end.

Lemma same_edge_sym_args : forall a b x, same_edge a b x = same_edge b a x.
Proof. intros. unfold same_edge. apply orb_comm. Qed.

Lemma add_list_distinct : forall l es, (forall x y, In x es -> In y l -> same_edge (e_a y) (e_b y) x = false) -> edges_ok l ->
  add_list es l = es ++ l.
Proof.
  induction l as [|x l IH]; intros es Hes Hok; [cbn; now rewrite app_nil_r|].
  destruct Hok as (Hne & Hlater & Hok). cbn [add_list fold_left]. fold (add_list (add_equivalence es (e_a x) (e_b x) (e_mid x) (e_cid x)) l).
  unfold add_equivalence. rewrite (vpath_eqb_neq _ _ Hne).
  assert (Hex : existsb (same_edge (e_a x) (e_b x)) es = false).
  { apply not_true_iff_false. intros Hc. apply existsb_exists in Hc. destruct Hc as (y & Hy & Hs). rewrite (Hes y x Hy (or_introl eq_refl)) in Hs. discriminate. }
  rewrite Hex. rewrite IH; [| |exact Hok].
  - rewrite <- app_assoc. destruct x; reflexivity.
  - intros a b Ha Hb. apply in_app_or in Ha. destruct Ha as [Ha|[<-|[]]]; [apply Hes; [exact Ha | now right]|].
    cbn [e_a e_b]. exact (Hlater b Hb).
Qed.

Lemma index_of_var_found : forall vs i k x, nth_error vs k = Some x ->
  (forall j y, j < k -> nth_error vs j = Some y -> v_name y <> v_name x) -> index_of_var (v_name x) vs i = Some (i + k).
Proof.
  induction vs as [|v vs IH]; intros i k x Hn Hb; [destruct k; discriminate|]. cbn [index_of_var]. destruct k as [|k].
  - cbn in Hn. injection Hn as ->. rewrite String.eqb_refl, Nat.add_0_r. reflexivity.
  - cbn in Hn. destruct (String.eqb (v_name v) (v_name x)) eqn:Ee.
    + apply String.eqb_eq in Ee. exfalso. exact (Hb 0 v ltac:(lia) eq_refl Ee).
    + rewrite (IH (S i) k x Hn); [replace (S i + k) with (i + S k) by lia; reflexivity|].
      intros j y Hj Hnj. apply (Hb (S j) y); [lia | exact Hnj].
Qed.

Lemma index_of_var_nodup : forall vs k x, NoDup (map v_name vs) -> nth_error vs k = Some x -> index_of_var (v_name x) vs 0 = Some k.
Proof.
  intros vs k x Hnd Hn. rewrite (index_of_var_found vs 0 k x Hn); [reflexivity|].
  intros j y Hj Hnj He.
  assert (H1 : nth_error (map v_name vs) j = Some (v_name y)) by (rewrite nth_error_map, Hnj; reflexivity).
  assert (H2 : nth_error (map v_name vs) k = Some (v_name x)) by (rewrite nth_error_map, Hn; reflexivity).
  rewrite He in H1. rewrite <- H2 in H1.
  assert (j = k). { apply (proj1 (NoDup_nth_error (map v_name vs)) Hnd j k); [|exact H1]. apply nth_error_Some. rewrite H1, H2. discriminate. }
  lia.
Qed.

Lemma pair_in_false : forall p l, ~ In p l -> pair_in p l = false.
Proof.
  intros [a b] l H. apply not_true_iff_false. intros Hc. unfold pair_in in Hc. apply existsb_exists in Hc. destruct Hc as ([c d] & Hin & He).
  cbn in He. apply andb_true_iff in He. destruct He as [H1 H2]. apply String.eqb_eq in H1. apply String.eqb_eq in H2. subst. contradiction.
Qed.

Lemma classic_path : forall p q : list nat, p = q \/ p <> q.
Proof. intros p q. destruct (list_eq_dec Nat.eq_dec p q); auto. Qed.

Section Conn.
Variable E : env.
Variable cs : list component.      (* the components of the printed model *)
Variable G : list component.       (* the forest the connections are loaded into *)

Hypothesis cs_names : NoDup (map (fun pc => cname (snd pc)) (all_comps cs)).
Hypothesis G_names : NoDup (names (flat_map dfs G)).
Hypothesis G_finds : forall p c, comp_at cs p = Some c ->
  exists q, comp_at G q = Some (canon_comp E c) /\ names_along G q = names_along cs p.
Hypothesis cs_ok : forall p c, comp_at cs p = Some c ->
  nonempty (cname c) = true /\ is_import_comp c = false /\ NoDup (map v_name (c_vars (shell c)))
  /\ (forall x, In x (c_vars (shell c)) -> nonempty (v_name x) = true).

(** where the component printed from path p is found *)
Definition Q (p : list nat) : list nat :=
  match find_comp (comp_name_at cs p) G with Some q => q | None => [] end.
Definition Rv (v : vpath) : vpath := (Q (fst v), snd v).
Definition Re (cid : string) (x : mapentry) : eqv :=
  {| e_a := Rv (me_v1 x); e_b := Rv (me_v2 x); e_mid := me_mid x; e_cid := cid |}.

Lemma Q_spec : forall p c, comp_at cs p = Some c ->
  find_comp (comp_name_at cs p) G = Some (Q p) /\ comp_at G (Q p) = Some (canon_comp E c) /\ names_along G (Q p) = names_along cs p.
Proof.
  intros p c Hc. destruct (G_finds p c Hc) as (q & Hq & Hn).
  assert (Hf : find_comp (comp_name_at cs p) G = Some q).
  { unfold comp_name_at. rewrite Hc. rewrite <- (cname_canon E c). apply find_comp_unique; assumption. }
  unfold Q. rewrite Hf. auto.
Qed.

(** an entry whose two variables exist, in two different components *)
Definition entry_ok (x : mapentry) : Prop :=
  (exists c v, comp_at cs (fst (me_v1 x)) = Some c /\ nth_error (c_vars (shell c)) (snd (me_v1 x)) = Some v)
  /\ (exists c v, comp_at cs (fst (me_v2 x)) = Some c /\ nth_error (c_vars (shell c)) (snd (me_v2 x)) = Some v)
  /\ fst (me_v1 x) <> fst (me_v2 x).

Definition mv_of (x : mapentry) : string * string * string :=
  (var_name_at cs (me_v1 x), var_name_at cs (me_v2 x), me_mid x).
Definition np_of (x : mapentry) : string * string := (var_name_at cs (me_v1 x), var_name_at cs (me_v2 x)).

Definition kk_of (M : list (string * string * string)) (f : bool) (U : list (string * string)) (I : list issue) : ckid_acc :=
  {| kk_maps := M; kk_found := f; kk_miss1 := false; kk_miss2 := false; kk_used := U; kk_issues := I |}.

Lemma var_name_nonempty : forall v, (exists c x, comp_at cs (fst v) = Some c /\ nth_error (c_vars (shell c)) (snd v) = Some x) ->
  nonempty (var_name_at cs v) = true.
Proof.
  intros v (c & x & Hc & Hx). unfold var_name_at, var_at. rewrite Hc, Hx. destruct (cs_ok _ _ Hc) as (_ & _ & _ & Hn). apply Hn.
  eapply nth_error_In. exact Hx.
Qed.

(** one printed map_variables element *)
Lemma conn_kid : forall x M f U I, entry_ok x -> ~ In (np_of x) U ->
  load_conn_kid true (kk_of M f U I) (print_map_variables ident cs x) = kk_of (M ++ [mv_of x]) true (U ++ [np_of x]) I.
Proof.
  intros x M f U I (H1 & H2 & _) HU. pose proof (var_name_nonempty _ H1) as Hn1. pose proof (var_name_nonempty _ H2) as Hn2.
  assert (Hp : pair_in (var_name_at cs (me_v1 x), var_name_at cs (me_v2 x)) U = false) by (apply pair_in_false; exact HU).
  unfold load_conn_kid, print_map_variables, opt_attr, ident, kk_of.
  destruct (nonempty (me_mid x)) eqn:Em; [|apply nonempty_false in Em];
  cbn -[pair_in nonempty]; rewrite Hn1, Hn2; cbn -[pair_in nonempty]; rewrite Hp; cbn -[pair_in nonempty];
  unfold mv_of, np_of; rewrite ?Em, app_nil_r; reflexivity.
Qed.

Lemma conn_kids : forall grp M f U I, Forall entry_ok grp -> NoDup (U ++ map np_of grp) ->
  fold_left (load_conn_kid true) (map (print_map_variables ident cs) grp) (kk_of M f U I)
  = kk_of (M ++ map mv_of grp) (match grp with [] => f | _ => true end) (U ++ map np_of grp) I.
Proof.
  induction grp as [|x grp IH]; intros M f U I Hok Hnd; [cbn; now rewrite !app_nil_r|].
  inversion Hok as [|? ? Hx Hr]; subst. cbn [map fold_left].
  assert (HxU : ~ In (np_of x) U).
  { intros Hc. cbn [map] in Hnd. apply (NoDup_app_disj U (np_of x :: map np_of grp) (np_of x) Hnd Hc). now left. }
  rewrite (conn_kid x M f U I Hx HxU).
  rewrite IH; [|exact Hr|].
  - rewrite <- !app_assoc. cbn [app]. destruct grp; reflexivity.
  - cbn [map] in Hnd. rewrite <- app_assoc. exact Hnd.
Qed.

(** resolving one side of a map_variables *)
Lemma resolve_ok : forall v r1 r2, (exists c x, comp_at cs (fst v) = Some c /\ nth_error (c_vars (shell c)) (snd v) = Some x) ->
  resolve_var G (Some (Q (fst v))) (var_name_at cs v) false r1 r2 = (Some (Rv v), G, []).
Proof.
  intros v r1 r2 (c & x & Hc & Hx). destruct (Q_spec _ _ Hc) as (_ & Hq & _). unfold resolve_var. rewrite Hq.
  destruct (cs_ok _ _ Hc) as (_ & _ & Hnd & _).
  assert (Hv : c_vars (shell (canon_comp E c)) = c_vars (shell c)) by (destruct c; reflexivity).
  rewrite Hv. unfold var_name_at, var_at. rewrite Hc, Hx. rewrite (index_of_var_nodup _ _ _ Hnd Hx). reflexivity.
Qed.

Definition st_of (eqs : list eqv) (used : list (string * string)) (is : list issue) : conn_st :=
  {| cs_comps := G; cs_eqv := eqs; cs_used := used; cs_issues := is |}.

Lemma maps_fold : forall grp p1 p2 cid eqs used is, Forall entry_ok grp ->
  (forall x, In x grp -> fst (me_v1 x) = p1 /\ fst (me_v2 x) = p2) ->
  fold_left (load_map (Some (Q p1)) (Some (Q p2)) false false cid) (map mv_of grp) (st_of eqs used is)
  = st_of (add_list eqs (map (Re cid) grp)) used is.
Proof.
  induction grp as [|x grp IH]; intros p1 p2 cid eqs used is Hok Hp; [reflexivity|].
  inversion Hok as [|? ? Hx Hr]; subst. destruct Hx as (H1 & H2 & Hne). destruct (Hp x (or_introl eq_refl)) as [Hp1 Hp2].
  subst p1 p2.
  cbn [map fold_left]. unfold load_map at 2. unfold mv_of at 2. unfold st_of at 2. cbn [cs_comps cs_eqv cs_used cs_issues].
  rewrite (resolve_ok (me_v1 x) _ _ H1). rewrite (resolve_ok (me_v2 x) _ _ H2).
  cbn [app]. rewrite app_nil_r.
  change {| cs_comps := G; cs_eqv := add_equivalence eqs (Rv (me_v1 x)) (Rv (me_v2 x)) (me_mid x) cid; cs_used := used; cs_issues := is |}
    with (st_of (add_equivalence eqs (Rv (me_v1 x)) (Rv (me_v2 x)) (me_mid x) cid) used is).
  rewrite (IH _ _ cid _ used is Hr); [reflexivity|]. intros y Hy. apply Hp. now right.
Qed.

Definition gcid (grp : list mapentry) : string := last (map me_cid grp) "".

Lemma conn_attrs_fold : forall n1 n2 cid,
  fold_left load_conn_attr ([at_ "component_1" (ident n1); at_ "component_2" (ident n2)] ++ opt_attr ident "id" cid)
            {| cn_c1 := ""; cn_c2 := ""; cn_has1 := false; cn_has2 := false; cn_id := ""; cn_issues := [] |}
  = {| cn_c1 := n1; cn_c2 := n2; cn_has1 := true; cn_has2 := true; cn_id := cid; cn_issues := [] |}.
Proof.
  intros. unfold opt_attr, ident. destruct (nonempty cid) eqn:Ec; [|apply nonempty_false in Ec; subst cid]; reflexivity.
Qed.

Lemma names_differ : forall p1 c1 p2 c2, comp_at cs p1 = Some c1 -> comp_at cs p2 = Some c2 -> p1 <> p2 -> cname c1 <> cname c2.
Proof.
  intros p1 c1 p2 c2 H1 H2 Hne He. apply Hne.
  exact (proj1 (name_determines cs p1 c1 p2 c2 cs_names (proj2 (all_comps_comp_at cs p1 c1) H1) (proj2 (all_comps_comp_at cs p2 c2) H2) He)).
Qed.

(** one printed connection element *)
Theorem load_group : forall x rest eqs used is,
  Forall entry_ok (x :: rest) ->
  (forall y, In y rest -> me_pair y = me_pair x) ->
  NoDup (map np_of (x :: rest)) ->
  ~ In (sort2 (comp_name_at cs (fst (me_v1 x))) (comp_name_at cs (fst (me_v2 x)))) used ->
  load_connection true (st_of eqs used is) (render_group ident cs (x :: rest))
  = st_of (add_list eqs (map (Re (gcid (x :: rest))) (x :: rest)))
          (used ++ [(comp_name_at cs (fst (me_v1 x)), comp_name_at cs (fst (me_v2 x)))]) is.
Proof.
  intros x rest eqs used is Hok Hpair Hnd Hused.
  pose proof Hok as Hok'. inversion Hok' as [|? ? Hx Hr]; subst. destruct Hx as (H1 & H2 & Hne).
  destruct H1 as (c1 & x1 & Hc1 & Hx1). destruct H2 as (c2 & x2 & Hc2 & Hx2).
  set (n1 := comp_name_at cs (fst (me_v1 x))) in *. set (n2 := comp_name_at cs (fst (me_v2 x))) in *.
  assert (Hn1 : nonempty n1 = true) by (unfold n1, comp_name_at; rewrite Hc1; apply (cs_ok _ _ Hc1)).
  assert (Hn2 : nonempty n2 = true) by (unfold n2, comp_name_at; rewrite Hc2; apply (cs_ok _ _ Hc2)).
  destruct (Q_spec _ _ Hc1) as (Hf1 & _ & _). destruct (Q_spec _ _ Hc2) as (Hf2 & _ & _). fold n1 in Hf1. fold n2 in Hf2.
  assert (Hn12 : String.eqb n1 n2 = false).
  { apply not_true_iff_false. intros Hc. apply String.eqb_eq in Hc. unfold n1, n2, comp_name_at in Hc. rewrite Hc1, Hc2 in Hc.
    exact (names_differ _ _ _ _ Hc1 Hc2 Hne Hc). }
  assert (Hsame : forall y, In y (x :: rest) -> fst (me_v1 y) = fst (me_v1 x) /\ fst (me_v2 y) = fst (me_v2 x)).
  { intros y [<-|Hy]; [auto|]. specialize (Hpair y Hy). unfold me_pair in Hpair. injection Hpair as -> ->. auto. }
  assert (Hattrs : fold_left load_conn_attr (xml_attrs (render_group ident cs (x :: rest)))
                     {| cn_c1 := ""; cn_c2 := ""; cn_has1 := false; cn_has2 := false; cn_id := ""; cn_issues := [] |}
                   = {| cn_c1 := n1; cn_c2 := n2; cn_has1 := true; cn_has2 := true; cn_id := gcid (x :: rest); cn_issues := [] |}).
  { unfold render_group, el, xml_attrs. apply conn_attrs_fold. }
  assert (Hkids : xml_kids (render_group ident cs (x :: rest)) = map (print_map_variables ident cs) (x :: rest)) by reflexivity.
  unfold load_connection. rewrite Hattrs, Hkids. cbv zeta.
  cbn [cn_c1 cn_c2 cn_has1 cn_has2 cn_id cn_issues negb]. rewrite Hn1, Hn2. cbn [negb orb andb].
  rewrite Hn12. unfold st_of. cbn [cs_comps cs_eqv cs_used cs_issues].
  rewrite (pair_in_false _ _ Hused). cbn [fst snd app].
  cbn [map].
  change (print_map_variables ident cs x :: map (print_map_variables ident cs) rest) with (map (print_map_variables ident cs) (x :: rest)).
  change {| kk_maps := []; kk_found := false; kk_miss1 := false; kk_miss2 := false; kk_used := []; kk_issues := [] |} with (kk_of [] false [] []).
  rewrite (conn_kids (x :: rest) [] false [] [] Hok Hnd).
  unfold kk_of. cbn [kk_maps kk_found kk_miss1 kk_miss2 kk_used kk_issues app].
  rewrite Hf1, Hf2. rewrite !app_nil_r.
  change {| cs_comps := G; cs_eqv := eqs; cs_used := used ++ [(n1, n2)]; cs_issues := is |} with (st_of eqs (used ++ [(n1, n2)]) is).
  rewrite (maps_fold (x :: rest) (fst (me_v1 x)) (fst (me_v2 x)) (gcid (x :: rest)) eqs _ is Hok Hsame). reflexivity.
Qed.

(** ** all the connections *)
Definition hp (g : list mapentry) : string * string :=
  match g with x :: _ => (comp_name_at cs (fst (me_v1 x)), comp_name_at cs (fst (me_v2 x))) | [] => ("", "") end.

Fixpoint groups_ok (used : list (string * string)) (groups : list (list mapentry)) : Prop :=
  match groups with
  | [] => True
  | g :: r =>
    (exists x rest, g = x :: rest /\ Forall entry_ok g /\ (forall y, In y rest -> me_pair y = me_pair x) /\ NoDup (map np_of g)
                    /\ ~ In (sort2 (fst (hp g)) (snd (hp g))) used)
    /\ groups_ok (used ++ [hp g]) r
  end.

Theorem load_groups : forall groups eqs used is, groups_ok used groups ->
  fold_left (load_connection true) (map (render_group ident cs) groups) (st_of eqs used is)
  = st_of (add_list eqs (flat_map (fun g => map (Re (gcid g)) g) groups)) (used ++ map hp groups) is.
Proof.
  induction groups as [|g r IH]; intros eqs used is Hok; [cbn; now rewrite app_nil_r|].
  destruct Hok as ((x & rest & -> & Hent & Hpair & Hnd & Hused) & Hr). cbn [map fold_left flat_map].
  cbn [hp fst snd] in Hused. rewrite (load_group x rest eqs used is Hent Hpair Hnd Hused).
  rewrite (IH _ _ is Hr). rewrite add_list_app, <- app_assoc. reflexivity.
Qed.

(** names are kept by the resolution *)
Lemma names_Rv : forall v, (exists c x, comp_at cs (fst v) = Some c /\ nth_error (c_vars (shell c)) (snd v) = Some x) ->
  vpath_names G (Rv v) = vpath_names cs v.
Proof.
  intros v (c & x & Hc & Hx). destruct (Q_spec _ _ Hc) as (_ & Hq & Hn). unfold vpath_names, Rv, var_at. cbn [fst snd].
  rewrite Hn, Hq, Hc. destruct c as [s ks]. cbn [canon_comp shell canon_shell c_vars]. reflexivity.
Qed.

Lemma Q_inj : forall p p' c c', comp_at cs p = Some c -> comp_at cs p' = Some c' -> Q p = Q p' -> p = p'.
Proof.
  intros p p' c c' Hc Hc' HQ. destruct (Q_spec _ _ Hc) as (_ & Hq & _). destruct (Q_spec _ _ Hc') as (_ & Hq' & _).
  rewrite HQ in Hq. rewrite Hq in Hq'. injection Hq' as He.
  assert (Hn : cname c = cname c') by (rewrite <- (cname_canon E c), <- (cname_canon E c'), He; reflexivity).
  destruct (classic_path p p') as [|Hne]; [assumption|]. exfalso. exact (names_differ _ _ _ _ Hc Hc' Hne Hn).
Qed.

End Conn.
