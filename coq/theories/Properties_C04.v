(** Properties_C04.v — statements only (C04: the validator accepts valid models and rejects every rule violation). *)
From Coq Require Import String Ascii List Bool Arith ZArith.
From LC Require Import MathDefs ValidDefs ValidProofs.
Import ListNotations.
Local Open Scope string_scope.

(** Every rule the model cites is an enumerator of the ReferenceRule enum regenerated from issue.h on this run. *)
Theorem C04_rules_in_table :
  forallb (fun r => match vrule_num r with Some _ => true | None => false end) all_vrules = true.
Proof. exact ValidProofs.rules_in_table. Qed.
Print Assumptions C04_rules_in_table.
