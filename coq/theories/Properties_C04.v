(** Properties_C04.v — statements only.  C04: the validator accepts valid models and rejects every rule violation.

    Model: LC.ValidDefs ([validate fx ueq early W]: Validator::validateModel on model 0 of the world W; [fx] the repairs
    of fixes/C04-*.diff, [ueq] the unit reduction of validateEquivalenceUnits (C08's model in the correspondence run),
    [early] the loop condition repaired by C19).  Specification: LC.ValidSpec ([WF]: one clause per rule).

    Scope of the equivalence theorems: worlds whose model 0 has no import source with a model attached
    ([unresolved_world]; imported items are covered by the location theorems), object identity faithfully encoded
    ([Repr]); the two model-wide passes over identifiers and reset orders enter through the checker's own verdict
    ([IdsOK], [OrdersOK]) — see the NOT PROVED notes at the end. *)
From Coq Require Import String Ascii List Bool Arith ZArith.
From LC Require Import MathDefs ValidDefs ValidSpec ValidLeaf ValidMathProofs ValidCompProofs ValidUnitsProofs ValidProofs
  ValidCitedProofs ValidCited2Proofs ValidCycleProofs ValidIdsProofs ValidWitness ValidXmlName ValidImportProofs
  ValidNamesProofs ValidIdsEnumProofs ValidSoundProofs ValidCompleteProofs ValidRound7Proofs.
Import ListNotations.
Local Open Scope string_scope.
Local Open Scope list_scope.

(** Every rule the model cites is an enumerator of the ReferenceRule enum regenerated from issue.h on this run. *)
Theorem C04_rules_in_table :
  forallb (fun r => match vrule_num r with Some _ => true | None => false end) all_vrules = true.
Proof. exact ValidProofs.rules_in_table. Qed.
Print Assumptions C04_rules_in_table.

(** validate = [] <-> WF (+ the two model-wide passes): soundness and completeness in one statement. *)
Theorem C04_validate_iff_partial : forall fx ueq W, Repr (model_at W 0) -> unresolved_world W ->
  (validate fx ueq false W = [] <-> WF fx ueq W /\ IdsOK fx W /\ OrdersOK fx W).
Proof. exact ValidProofs.validate_nil_iff. Qed.
Print Assumptions C04_validate_iff_partial.

Theorem C04_validate_complete_partial : forall fx ueq W, Repr (model_at W 0) -> unresolved_world W ->
  WF fx ueq W -> IdsOK fx W -> OrdersOK fx W -> validate fx ueq false W = [].
Proof. exact ValidProofs.validate_complete. Qed.
Print Assumptions C04_validate_complete_partial.

Theorem C04_validate_sound_partial : forall fx ueq W, Repr (model_at W 0) -> unresolved_world W ->
  validate fx ueq false W = [] -> WF fx ueq W.
Proof. exact ValidProofs.validate_sound. Qed.
Print Assumptions C04_validate_sound_partial.

(** Non-vacuity: a model with units (prefix, reference to local units, an import), an encapsulation hierarchy, an
    imported component, a mapping with ids, initial values (real and variable reference), a reset and MathML with
    qualifiers is accepted, and therefore satisfies WF. *)
Example C04_nonvacuous : validate current_fixes ueq_c08 false w_valid = [] /\ WF current_fixes ueq_c08 w_valid.
Proof. exact (conj ValidWitness.w_valid_accepted ValidWitness.w_valid_wf). Qed.
Print Assumptions C04_nonvacuous.

(** Every issue of the validator has level ERROR. *)
Theorem C04_all_errors : forall fx ueq early W i, In i (validate fx ueq early W) -> fst i = Error.
Proof. exact ValidCitedProofs.all_errors. Qed.
Print Assumptions C04_all_errors.

(** The units pass alone: silent iff every units is fine, names and imports are distinct and the reference graph is acyclic. *)
Theorem C04_units_pass : forall W, units_stay_local (model_at W 0) ->
  (flat_map (fun u => validate_units (units_fuel W) W 0 true [] u ORIGIN) (m_units (model_at W 0)) = [] <->
   Forall (UnitsOK (model_at W 0)) (m_units (model_at W 0)) /\ NoDup (map u_name (m_units (model_at W 0)))
   /\ ImportsDistinct (model_at W 0) /\ UnitsAcyclic (model_at W 0)).
Proof. exact ValidUnitsProofs.units_pass_nil. Qed.
Print Assumptions C04_units_pass.

(** The two model-wide passes, one step towards their declarative form: checkUniqueIds is silent iff every id it requires
    to be an XML name is one and the ids it collects are pairwise distinct; checkUniqueResetOrders is silent iff the orders
    within every group of its order map are pairwise distinct. *)
Theorem C04_ids_pass : forall fx m,
  check_unique_ids fx m = [] <-> ia_issues (model_idacc fx m) = [] /\ NoDup (ia_ids (model_idacc fx m)).
Proof. exact ValidProofs.ids_pass_nil. Qed.
Print Assumptions C04_ids_pass.

Theorem C04_orders_pass : forall ws m,
  check_unique_reset_orders ws m = [] <-> Forall (fun kv => NoDup (snd kv)) (build_omap ws m).
Proof. exact ValidProofs.orders_pass_nil. Qed.
Print Assumptions C04_orders_pass.

(** The cycle detector is total and exact on EVERY units reference graph, cyclic or not: the recursion never exceeds
    the fuel validateModel gives it, and a cycle issue is raised iff a cycle can be reached from the units. *)
Theorem C04_unit_cycle_detector_total : forall W u, units_stay_local (model_at W 0) ->
  In u (m_units (model_at W 0)) -> first_named (model_at W 0) u ->
  let out := validate_units (units_fuel W) W 0 true [] u ORIGIN in
  (forall i, In i out -> ~ is_fuel_issue i)
  /\ ((exists i, In i out /\ is_cycle_issue i) <-> reaches_cycle (model_at W 0) (u_name u)).
Proof. exact ValidCycleProofs.unit_cycle_detector_total. Qed.
Print Assumptions C04_unit_cycle_detector_total.

(** LOCATION-FREE.  Whatever validateComponent raises on ANY component of the hierarchy is reported ... *)
Theorem C04_location_free_component : forall fx ueq early W c r, In c (model_comps (model_at W 0)) ->
  In r (validate_component (fx_math_qual fx) (comp_fuel W) W 0 [] (c_info c)) -> In (Error, r) (validate fx ueq early W).
Proof. exact ValidCitedProofs.component_reached. Qed.
Print Assumptions C04_location_free_component.

(** ... so is whatever validateVariable raises on a variable at any position of any component, ... *)
Theorem C04_location_free_variable : forall fx ueq early W c v pre post r,
  In c (model_comps (model_at W 0)) -> c_imp (c_info c) = None -> c_vars (c_info c) = pre ++ v :: post ->
  In r (validate_variable (model_at W 0) (c_info c) (map v_name pre) v) -> In (Error, r) (validate fx ueq early W).
Proof. exact ValidCitedProofs.variable_reached. Qed.
Print Assumptions C04_location_free_variable.

(** ... validateReset on every reset, ... *)
Theorem C04_location_free_reset : forall fx ueq early W c rs r,
  In c (model_comps (model_at W 0)) -> c_imp (c_info c) = None -> In rs (c_resets (c_info c)) ->
  In r (validate_reset (fx_math_qual fx) (model_at W 0) (model_locs (model_at W 0)) (c_info c) rs) ->
  In (Error, r) (validate fx ueq early W).
Proof. exact ValidCitedProofs.reset_reached. Qed.
Print Assumptions C04_location_free_reset.

(** ... validateMath on the math of every component and on the test_value and reset_value of every reset, ... *)
Theorem C04_location_free_math : forall fx ueq early W c r,
  In c (model_comps (model_at W 0)) -> c_imp (c_info c) = None ->
  In r (validate_math (fx_math_qual fx) (map v_name (c_vars (c_info c))) (units_names (model_at W 0)) (c_math (c_info c))) ->
  In (Error, r) (validate fx ueq early W).
Proof. exact ValidCitedProofs.component_math_reached. Qed.
Print Assumptions C04_location_free_math.

Theorem C04_location_free_reset_math : forall fx ueq early W c rs r,
  In c (model_comps (model_at W 0)) -> c_imp (c_info c) = None -> In rs (c_resets (c_info c)) ->
  (In r (validate_math (fx_math_qual fx) (map v_name (c_vars (c_info c))) (units_names (model_at W 0)) (r_tv rs))
   \/ In r (validate_math (fx_math_qual fx) (map v_name (c_vars (c_info c))) (units_names (model_at W 0)) (r_rv rs))) ->
  In (Error, r) (validate fx ueq early W).
Proof. exact ValidCitedProofs.reset_math_reached. Qed.
Print Assumptions C04_location_free_reset_math.

(** ... validateComponent on the target of a resolved component import, ... *)
Theorem C04_location_free_imported_component : forall fx ueq early W c s cref mj ic r,
  In c (model_comps (model_at W 0)) -> c_imp (c_info c) = Some (s, cref) -> is_model s = Some mj ->
  find_comp (model_at W mj) cref = Some ic ->
  import_cycle [] (mkEp (c_name (c_info c)) (importee_url [] (is_url s)) (is_url s) 0 (Some mj)) = false ->
  In r (validate_component (fx_math_qual fx) (length W) W mj
          [mkEp (c_name (c_info c)) (importee_url [] (is_url s)) (is_url s) 0 (Some mj)] (c_info ic)) ->
  In (Error, r) (validate fx ueq early W).
Proof. exact ValidCitedProofs.imported_component_reached. Qed.
Print Assumptions C04_location_free_imported_component.

(** ... and validateUnits on every units of the model (up to the exchange of the two "units name unique" rules that
    one description-keyed de-duplication can cause). *)
Theorem C04_location_free_units : forall fx ueq early W u i, In u (m_units (model_at W 0)) ->
  In i (validate_units (units_fuel W) W 0 true [] u ORIGIN) ->
  exists r, In (Error, r) (validate fx ueq early W) /\ same_class (rule_of i) r.
Proof. exact ValidCitedProofs.units_reached. Qed.
Print Assumptions C04_location_free_units.

(** NOT location-free (open finding C04-imported-component-children): a component encapsulated by the target of a
    resolved component import is not looked at — the child's own validation raises VARIABLE_NAME_VALUE, the validator
    reports nothing. *)
Theorem C04_location_free_imported_children_refuted :
  validate current_fixes ueq_c08 false w_import_child = []
  /\ validate_component true 2 w_import_child 1 [] (mkC 21 "child" "" "" None [mk_var 22 "1bad" "second" "" []] [] [])
     = [V_VARIABLE_NAME_VALUE].
Proof. exact ValidWitness.w_import_child_facts. Qed.
Print Assumptions C04_location_free_imported_children_refuted.

(** RULE CITED.  [cite] is the identity on the rules the model names after the enumerators the code attaches; the
    violations are stated per entity in ValidCitedProofs (var_violation, reset_violation, math_violation). *)
Theorem C04_rule_cited_variable : forall fx ueq early W c v pre post R,
  In c (model_comps (model_at W 0)) -> c_imp (c_info c) = None -> c_vars (c_info c) = pre ++ v :: post ->
  var_violation (model_at W 0) (c_info c) (map v_name pre) v R -> In (Error, R) (validate fx ueq early W).
Proof. exact ValidCitedProofs.variable_rule_cited. Qed.
Print Assumptions C04_rule_cited_variable.

Theorem C04_rule_cited_reset : forall fx ueq early W c rs R,
  In c (model_comps (model_at W 0)) -> c_imp (c_info c) = None -> In rs (c_resets (c_info c)) ->
  reset_violation (c_info c) (model_locs (model_at W 0)) rs R -> In (Error, R) (validate fx ueq early W).
Proof. exact ValidCitedProofs.reset_rule_cited. Qed.
Print Assumptions C04_rule_cited_reset.

Theorem C04_rule_cited_math : forall fx ueq early W c docs R,
  In c (model_comps (model_at W 0)) -> c_imp (c_info c) = None ->
  (docs = c_math (c_info c) \/ exists rs, In rs (c_resets (c_info c)) /\ (docs = r_tv rs \/ docs = r_rv rs)) ->
  math_violation (fx_math_qual fx) (map v_name (c_vars (c_info c))) (units_names (model_at W 0)) docs R ->
  In (Error, R) (validate fx ueq early W).
Proof. exact ValidCitedProofs.math_rule_cited. Qed.
Print Assumptions C04_rule_cited_math.

Theorem C04_rule_cited_model_name : forall fx ueq early W,
  ~ IsIdent (m_name (model_at W 0)) -> In (Error, V_MODEL_NAME_VALUE) (validate fx ueq early W).
Proof. exact ValidCitedProofs.model_name_cited. Qed.
Print Assumptions C04_rule_cited_model_name.

Theorem C04_rule_cited_component_name : forall fx ueq early W c,
  In c (model_comps (model_at W 0)) -> ~ IsIdent (c_name (c_info c)) ->
  In (Error, if is_import_c (c_info c) then V_IMPORT_COMPONENT_NAME_VALUE else V_COMPONENT_NAME_VALUE) (validate fx ueq early W).
Proof. exact ValidCitedProofs.component_name_cited. Qed.
Print Assumptions C04_rule_cited_component_name.

Theorem C04_rule_cited_units : forall fx ueq early W u R,
  In u (m_units (model_at W 0)) -> units_violation (model_at W 0) u R -> In (Error, R) (validate fx ueq early W).
Proof. exact ValidCited2Proofs.units_rule_cited. Qed.
Print Assumptions C04_rule_cited_units.

(** a cycle of units references reachable from a units of the model is cited, whatever else is wrong with the model *)
Theorem C04_rule_cited_units_cycle : forall fx ueq early W u, units_stay_local (model_at W 0) ->
  In u (m_units (model_at W 0)) -> first_named (model_at W 0) u -> reaches_cycle (model_at W 0) (u_name u) ->
  In (Error, V_UNIT_UNITS_CIRCULAR_REFERENCE) (validate fx ueq early W).
Proof. exact ValidCited2Proofs.units_cycle_cited. Qed.
Print Assumptions C04_rule_cited_units_cycle.

Theorem C04_rule_cited_parentless_equivalence : forall fx ueq early W me e,
  In me (model_locs (model_at W 0)) -> l_import me = false -> In e (v_eqs (l_var me)) ->
  lookup_var (model_locs (model_at W 0)) (e_to e) = None ->
  In (Error, V_MAP_VARIABLES_VARIABLE1_ATTRIBUTE) (validate fx ueq early W).
Proof. exact ValidCited2Proofs.parentless_equivalence_cited. Qed.
Print Assumptions C04_rule_cited_parentless_equivalence.

Theorem C04_rule_cited_unreachable_equivalence : forall fx ueq W me e o,
  In me (model_locs (model_at W 0)) -> l_import me = false -> In e (v_eqs (l_var me)) ->
  lookup_var (model_locs (model_at W 0)) (e_to e) = Some o -> ~ (Sibling me o \/ ChildOf me o \/ ChildOf o me) ->
  In (Error, V_MAP_VARIABLES_ELEMENT) (validate fx ueq false W).
Proof. exact ValidCited2Proofs.unreachable_equivalence_cited. Qed.
Print Assumptions C04_rule_cited_unreachable_equivalence.

Theorem C04_rule_cited_incompatible_units : forall fx ueq early W me e o un un2,
  In me (model_locs (model_at W 0)) -> l_import me = false -> In e (v_eqs (l_var me)) ->
  lookup_var (model_locs (model_at W 0)) (e_to e) = Some o -> l_import o = false ->
  v_units (l_var me) = Some un -> v_units (l_var o) = Some un2 -> ueq W un un2 = Some false ->
  In (Error, V_MAP_VARIABLES_ELEMENT) (validate fx ueq early W).
Proof. exact ValidCited2Proofs.incompatible_units_cited. Qed.
Print Assumptions C04_rule_cited_incompatible_units.

(** The rule added by /repo 49595f2 is in the model (through C01's switch MathDefs.diff_ci_fix_committed, part of the node
    rule of WF): diff applied to something that is not a ci is reported with MATH_MATHML, diff of a ci is accepted. *)
Theorem C04_rule_cited_diff_operand :
  validate current_fixes ueq_c08 false w_diff_of_cn = [(Error, V_MATH_MATHML)]
  /\ validate current_fixes ueq_c08 false w_diff_of_ci = [].
Proof. exact ValidWitness.w_diff_operand_facts. Qed.
Print Assumptions C04_rule_cited_diff_operand.

(** MathML faults at any depth of a document are seen: unsupported elements, unknown <ci>, <cn> units. *)
Theorem C04_math_any_depth : forall q vars units d,
  is_mathml_el "math" d = true ->
  (forall k y, In k (kids_of d) -> In y (elements k) -> is_supported y = false -> In R_MATH_CHILD (val_math_env_q q vars units d))
  /\ (forall ns n attrs kids, In (Elem ns n attrs kids) (elements d) -> is_mathml_el "ci" (Elem ns n attrs kids) = true ->
        ci_text kids <> "" -> ~ In (ci_text kids) vars ->
        In R_MATH_CI_VARIABLE_REFERENCE (val_math_env_q q vars units d))
  /\ (forall ns n attrs kids r, In (Elem ns n attrs kids) (elements d) -> is_mathml_el "cn" (Elem ns n attrs kids) = true ->
        In r (val_cn_units units attrs) -> In r (val_math_env_q q vars units d)).
Proof.
  intros q vars units d Hd. split; [|split].
  - intros k y. exact (ValidCitedProofs.doc_unsupported q vars units d k y Hd).
  - intros ns n attrs kids. exact (ValidCitedProofs.doc_ci_unknown q vars units d ns n attrs kids Hd).
  - intros ns n attrs kids r. exact (ValidCitedProofs.doc_cn_units q vars units d ns n attrs kids r Hd).
Qed.
Print Assumptions C04_math_any_depth.

(** The MathML passes of this model ARE C01's transcription of validateMath as it is on HEAD (MathDefs.val_math_env_head),
    with the qualifier switch where MathDefs records it for the tree. *)
Theorem C04_math_is_C01_transcription : forall vars units root,
  val_math_env_q qualifier_fix_committed vars units root = MathDefs.val_math_env_head vars units root.
Proof. exact ValidMathProofs.val_math_env_q_c01. Qed.
Print Assumptions C04_math_is_C01_transcription.

(** The table of isNameStartChar / isNameChar on packed UTF-8 bytes is the NameStartChar / NameChar production of the
    XML recommendation, for every code point of the basic multilingual plane (exhaustive computation). *)
Theorem C04_xml_name_table_bmp : forall cp, (cp < 0x10000)%N ->
  is_name_start_char (utf8_pack cp) = name_start_cp cp /\ is_name_char (utf8_pack cp) = name_char_cp cp.
Proof. exact ValidXmlName.xml_name_table_bmp. Qed.
Print Assumptions C04_xml_name_table_bmp.

(** SOUNDNESS FOR ALL WORLDS.  No hypothesis on the world (import sources of components and of units with or without models, any
    import graph, cyclic or not): whenever validateModel is silent, every rule of the specification holds — model name and id,
    every component (declarative CompOK, with the reset variables owned by THE component), the targets of resolved component
    imports (ImportTargetOK / Checked), unique component names, every units (UnitsOK), unique units names, distinct imports,
    connections (MapOK, InterfaceOK), identifiers, reset orders — all of WFr except the acyclicity of the units reference graph
    (whose proof needs the units imports of model 0 unresolved: C04_units_pass).  [Repr] is the encoding of object identity.
    Contrapositive: a model breaking any of these rules anywhere is reported. *)
Theorem C04_validate_sound_all_worlds : forall fx ueq W, Repr (model_at W 0) -> validate fx ueq false W = [] -> Rules fx ueq W.
Proof. exact ValidSoundProofs.validate_sound_general. Qed.
Print Assumptions C04_validate_sound_all_worlds.

(** non-vacuity: a world in which BOTH a units import and a component import of model 0 are resolved (outside the hypotheses of
    every other equivalence theorem here) is accepted and hence satisfies the rules *)
Example C04_sound_all_worlds_nonvacuous :
  validate current_fixes ueq_c08 false w_resolved_both = [] /\ Rules current_fixes ueq_c08 w_resolved_both.
Proof. exact (conj ValidWitness.w_resolved_both_accepted ValidWitness.w_resolved_both_rules). Qed.
Print Assumptions C04_sound_all_worlds_nonvacuous.

(** ACCEPTS VALID MODELS, from the rule-by-rule predicate: the rules plus an acyclic units reference graph make the validator
    silent.  Hypotheses that remain: [units_stay_local] (the units imports of model 0 are unresolved) — NEEDED, see
    C04_units_stay_local_needed — and [imports_forward] (component imports point forward: the fuel bound of the model's
    recursion; the library has no such bound, so this one is a limit of the model, not of the validator). *)
Theorem C04_validate_complete_rules_partial : forall fx ueq W, Repr (model_at W 0) -> units_stay_local (model_at W 0) ->
  imports_forward W -> Rules fx ueq W -> UnitsAcyclic (model_at W 0) -> validate fx ueq false W = [].
Proof. exact ValidCompleteProofs.validate_complete_rules. Qed.
Print Assumptions C04_validate_complete_rules_partial.

Theorem C04_validate_iff_rules_partial : forall fx ueq W, Repr (model_at W 0) -> units_stay_local (model_at W 0) -> imports_forward W ->
  (validate fx ueq false W = [] <-> Rules fx ueq W /\ UnitsAcyclic (model_at W 0)).
Proof. exact ValidCompleteProofs.validate_iff_rules. Qed.
Print Assumptions C04_validate_iff_rules_partial.

Example C04_iff_rules_nonvacuous : Rules current_fixes ueq_c08 w_import_child /\ UnitsAcyclic (model_at w_import_child 0).
Proof. exact ValidCompleteProofs.iff_rules_nonvacuous. Qed.
Print Assumptions C04_iff_rules_nonvacuous.

(** [units_stay_local] cannot be dropped: same rules, acyclic graph, imports forward — but the TARGET of the resolved units
    import references units that do not exist, and the validator (rightly, as the library does: corpus case
    imported-units-missing-reference) reports UNIT_UNITS_REFERENCE.  [Rules] says nothing about the content of imported units. *)
Theorem C04_units_stay_local_needed :
  Repr (model_at w_units_target_bad 0) /\ imports_forward w_units_target_bad
  /\ Rules current_fixes ueq_c08 w_units_target_bad /\ UnitsAcyclic (model_at w_units_target_bad 0)
  /\ validate current_fixes ueq_c08 false w_units_target_bad = [(Error, V_UNIT_UNITS_REFERENCE)]
  /\ ~ units_stay_local (model_at w_units_target_bad 0).
Proof. exact ValidCompleteProofs.units_target_needed. Qed.
Print Assumptions C04_units_stay_local_needed.

(** THE MAIN EQUIVALENCE WITH RESOLVED COMPONENT IMPORTS.  Well-foundedness: imports point forward in the world
    ([imports_forward]: a component of model i whose import source has model j satisfies i < j < length W).  WFr = WF plus,
    for every component of model 0 whose import source has a model: the reference hits, the url-based cycle test does not
    fire and the TARGET is [Checked] — accepted with its own content in its own model (reset variables decided by component
    name, as the code does), and so on through the target's own import; NOT the components the target encapsulates
    (C04_location_free_imported_children_refuted).  The units imports of model 0 are still unresolved ([units_stay_local]). *)
Theorem C04_validate_iff_resolved_partial : forall fx ueq W, Repr (model_at W 0) -> units_stay_local (model_at W 0) ->
  imports_forward W -> 0 < length W ->
  (validate fx ueq false W = [] <-> WFr fx ueq W /\ IdsOK fx W /\ OrdersOK fx W).
Proof. exact ValidImportProofs.validate_nil_iff_resolved. Qed.
Print Assumptions C04_validate_iff_resolved_partial.

(** for ANY world and fuel: a component validateComponent is silent about is [Checked] *)
Theorem C04_component_silent_checked : forall q W fuel mi hist c,
  validate_component q fuel W mi hist c = [] -> Checked q W mi hist c.
Proof. exact ValidImportProofs.checked_of_nil. Qed.
Print Assumptions C04_component_silent_checked.

(** non-vacuity, and the exact extent of the finding: the world whose import target encapsulates a faulty child satisfies WFr *)
Example C04_resolved_nonvacuous : WFr current_fixes ueq_c08 w_import_child.
Proof. exact ValidWitness.w_import_child_wfr. Qed.
Print Assumptions C04_resolved_nonvacuous.

(** THE IDENTIFIER PASS, DECLARATIVELY, on models without map_variables / connection ids and for the tree as it counts import
    sources now (once per importing entity): what buildModelIdMap collects IS the enumeration ValidIdsEnumProofs.ids_enum of
    the id carriers in document order, so the pass is silent iff the encapsulation ids are XML names and no id repeats. *)
Theorem C04_ids_collected_enum_partial : forall fx m, fx_isrc_once fx = false -> no_mapping_ids m ->
  ia_ids (model_idacc fx m) = ids_enum m
  /\ ia_issues (model_idacc fx m) = enc_issue (m_encid m) ++ flat_map (fun c => enc_issue (c_encid (c_info c))) (model_comps m).
Proof. exact ValidIdsEnumProofs.ids_collected_enum. Qed.
Print Assumptions C04_ids_collected_enum_partial.

Theorem C04_ids_declarative_partial : forall fx W, fx_isrc_once fx = false -> no_mapping_ids (model_at W 0) ->
  (IdsOK fx W <-> (XmlName (m_encid (model_at W 0)) /\ Forall (fun c => XmlName (c_encid (c_info c))) (model_comps (model_at W 0)))
                  /\ NoDup (ids_enum (model_at W 0))).
Proof. exact ValidIdsEnumProofs.ids_ok_declarative. Qed.
Print Assumptions C04_ids_declarative_partial.

(** RULE CITED, the remaining rules: names must be unique; interface insufficient. *)
Theorem C04_rule_cited_component_name_unique : forall fx ueq early W,
  clash [] (nenames (model_comps (model_at W 0))) ->
  exists c', In c' (model_comps (model_at W 0)) /\ In (Error, unique_name_rule (c_info c')) (validate fx ueq early W).
Proof. exact ValidNamesProofs.component_name_unique_cited. Qed.
Print Assumptions C04_rule_cited_component_name_unique.

(** ([clash [] l]: some element of l occurs earlier in l — e.g. any list of the form l1 ++ n :: l2 ++ n :: l3) *)
Theorem C04_clash_of_repeat : forall l1 n l2 l3, clash [] (l1 ++ n :: l2 ++ n :: l3).
Proof. exact ValidNamesProofs.clash_of_repeat. Qed.
Print Assumptions C04_clash_of_repeat.

Theorem C04_rule_cited_units_name_unique : forall fx ueq early W u, In u (m_units (model_at W 0)) ->
  1 < count_if (fun t => String.eqb (u_name t) (u_name u)) (m_units (model_at W 0)) ->
  In (Error, V_UNITS_NAME_UNIQUE) (validate fx ueq early W) \/ In (Error, V_IMPORT_UNITS_NAME_UNIQUE) (validate fx ueq early W).
Proof. exact ValidCited2Proofs.units_name_unique_cited. Qed.
Print Assumptions C04_rule_cited_units_name_unique.

Theorem C04_rule_cited_interface_insufficient : forall fx ueq W me,
  In me (model_locs (model_at W 0)) -> l_import me = false -> v_eqs (l_var me) <> [] -> valid_iface (v_iface (l_var me)) ->
  Forall (fun e => exists o, lookup_var (model_locs (model_at W 0)) (e_to e) = Some o
                             /\ (Sibling me o \/ ChildOf me o \/ ChildOf o me)) (v_eqs (l_var me)) ->
  ~ InterfaceOK (model_locs (model_at W 0)) me ->
  In (Error, V_MAP_VARIABLES_ELEMENT) (validate fx ueq false W).
Proof. exact ValidCited2Proofs.interface_insufficient_cited. Qed.
Print Assumptions C04_rule_cited_interface_insufficient.

(** REFUTED on the tree before the repairs 5d61678 / a5130f0 / 1c340b4 (the witnesses replayed on the real library were
    the findings): soundness — accepted although a rule is broken: duplicate reset orders across an indirectly connected
    variable set; an empty <ci> inside <bvar>; a map_variables id that is not an XML name on a pair with colliding name
    concatenations.  The model of the CURRENT tree cites the rule in each case. *)
Theorem C04_validate_sound_unfixed_refuted :
  (validate unfixed ueq_c08 false w_reset_chain = []
   /\ has_rule V_RESET_ORDER_UNIQUE (validate current_fixes ueq_c08 false w_reset_chain) = true)
  /\ (validate unfixed ueq_c08 false w_bvar_empty_ci = []
      /\ has_rule V_MATH_CI_VARIABLE_REFERENCE (validate current_fixes ueq_c08 false w_bvar_empty_ci) = true)
  /\ (validate unfixed ueq_c08 false w_concat = []
      /\ has_rule V_XML_ID_ATTRIBUTE (validate current_fixes ueq_c08 false w_concat) = true).
Proof. exact (conj ValidWitness.w_reset_chain_facts (conj ValidWitness.w_bvar_empty_ci_facts ValidWitness.w_concat_facts)). Qed.
Print Assumptions C04_validate_sound_unfixed_refuted.

(** REFUTED on the CURRENT tree (open finding C04-shared-import-source-id, pinned by the upstream test
    ParserTransform.annotatedCellMl10Model): completeness — one import element with an id and two children satisfies every
    clause of WF, has unique reset orders and pairwise distinct ids (ValidSpec.entity_ids counts an import element once),
    and is rejected with XML_ID_ATTRIBUTE; the model with that repair accepts it. *)
Theorem C04_validate_complete_current_refuted :
  WF current_fixes ueq_c08 w_shared_import
  /\ OrdersOK current_fixes w_shared_import
  /\ NoDup (entity_ids (model_at w_shared_import 0))
  /\ has_rule V_XML_ID_ATTRIBUTE (validate current_fixes ueq_c08 false w_shared_import) = true
  /\ ~ no_shared_isrc_id (model_at w_shared_import 0).
Proof. exact ValidWitness.w_shared_import_current. Qed.
Print Assumptions C04_validate_complete_current_refuted.

(** ... and exactly that shape is needed: when no import source that carries an id is shared by several imported entities,
    the current validator IS the one with the repair, hence complete. *)
Theorem C04_isrc_once_irrelevant_partial : forall a b d ueq early W, no_shared_isrc_id (model_at W 0) ->
  validate (mkFx a b false d) ueq early W = validate (mkFx a b true d) ueq early W.
Proof. exact ValidIdsProofs.validate_isrc_once_irrelevant. Qed.
Print Assumptions C04_isrc_once_irrelevant_partial.

Theorem C04_validate_complete_current_partial : forall ueq W, Repr (model_at W 0) -> unresolved_world W ->
  no_shared_isrc_id (model_at W 0) ->
  WF current_fixes ueq W -> IdsOK all_fixed W -> OrdersOK current_fixes W -> validate current_fixes ueq false W = [].
Proof. exact ValidWitness.validate_complete_current. Qed.
Print Assumptions C04_validate_complete_current_partial.

(** Proof depth round 7: composition laws of the list passes over ++.  The loop over the variables of a component splits
    at any point (the second half is checked against the names already seen); validateMath is a homomorphism over roots
    that are all <math>, and the first root that is not <math> ends the pass (nothing after it is looked at). *)
Theorem C04_validate_variables_app : forall m c a b prev,
  validate_variables m c prev (a ++ b)
  = validate_variables m c prev a ++ validate_variables m c (prev ++ map v_name a) b.
Proof. exact ValidRound7Proofs.validate_variables_app. Qed.
Print Assumptions C04_validate_variables_app.

Theorem C04_validate_math_app : forall q vars units a b,
  Forall (fun d => is_mathml_el "math" d = true) a ->
  validate_math q vars units (a ++ b) = validate_math q vars units a ++ validate_math q vars units b.
Proof. exact ValidRound7Proofs.validate_math_app. Qed.
Print Assumptions C04_validate_math_app.

Theorem C04_validate_math_stops : forall q vars units a d b,
  Forall (fun d => is_mathml_el "math" d = true) a -> is_mathml_el "math" d = false ->
  validate_math q vars units (a ++ d :: b) = validate_math q vars units a ++ [V_MATH_ELEMENT].
Proof. exact ValidRound7Proofs.validate_math_stops. Qed.
Print Assumptions C04_validate_math_stops.

(* NOT PROVED:
   - the declarative form of the reset-order pass (OrdersOK current_fixes W <-> ValidSpec.ResetOrdersUnique (model_at W 0)): it needs
     "equivalentVariables (a fuelled depth-first walk) = the class of the symmetric-transitive closure of the mappings" under a
     symmetry hypothesis on the equivalence lists; what is proved is C04_orders_pass (silent iff every group of the order map has
     pairwise distinct orders) and the witness for the tree before the repair;
   - the declarative form of the identifier pass when map_variables / connection ids are present (the "one of the two visits of
     a pair" selection by name order and the per-component-pair connection ids); proved without them: C04_ids_declarative_partial;
   - the main equivalence when UNITS imports of model 0 are resolved (validateUnits then recurses into the attached model with
     another source url, which delays the cycle test by one lap); proved: resolved COMPONENT imports
     (C04_validate_iff_resolved_partial) and, for units, C04_location_free_units / the correspondence run;
   - C04_xml_name_table_bmp for the supplementary planes (kernel-checked once, 6 min, not in the build). *)
