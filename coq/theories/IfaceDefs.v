(** IfaceDefs.v — executable model for C19 "model repair helpers establish what they promise".

    Transcribes, as the code is now (with the switch [fixed] for the one repaired loop condition):
      src/model.cpp      Model::fixVariableInterfaces, Model::linkUnits, Model::hasUnlinkedUnits,
                         traverseComponentTreeForUnlinkedUnits, Model::clean, traverseHierarchyAndRemoveIfEmpty,
                         Model::hasUnits(name), Model::units(name)
      src/utilities.cpp  findAllVariablesWithEquivalences, publicAndOrPrivateInterfaceTypeRequired,
                         interfaceTypeFor, determineInterfaceType, areEntitiesSiblings, isEntityChildOf,
                         isStandardUnitName, isStandardUnit, linkComponentVariableUnits,
                         traverseComponentEntityTreeLinkingUnits, areComponentVariableUnitsUnlinked
      src/variable.cpp   Variable::permitsInterfaceType, Variable::setInterfaceType
      src/validator.cpp  Validator::ValidatorImpl::validateConnections (interface + structure part),
                         validateVariableInterface, validateEquivalenceStructure, interfaceTypeIsCompatible,
                         reachableEquivalence
    Tables regenerated from the source on every run: LCGen.IfaceTable (interfaceTypeToString, the enum, the
    two literals of permitsInterfaceType), LCGen.UnitTables (standardUnitsList).

    Objects are named by identity tags ([nat]; in the correspondence run: the slot number of the object).
    No proofs in this file. *)
From Coq Require Import String Ascii List Bool Arith.
From LCGen Require Import UnitTables IfaceTable.
Import ListNotations.
Local Open Scope string_scope.

(* ------------------------------------------------------------------------------------------------ *)
(** * The object model *)

(** A Units object.  [u_owner]: tag of the Model that is its parent() (None: no parent — e.g. the object
    made by Variable::setUnits(name)).  [u_nunit]: unitCount().  [u_import]: isImport(). *)
Record uobj := mkU { u_tag : nat; u_name : string; u_id : string; u_nunit : nat; u_import : bool;
                     u_owner : option nat }.

(** A Variable.  [v_iface]: mInterfaceType, "" = no interface attribute.  [v_eqs]: the live equivalent
    variables in equivalentVariable(i) order.  [v_units]: tag of the Units object held (units()). *)
Record var := mkV { v_tag : nat; v_iface : string; v_eqs : list nat; v_units : option nat }.

(** What clean() looks at in a component, besides its variables and children. *)
Record cinfo := mkCI { ci_name : string; ci_id : string; ci_math : string; ci_resets : nat; ci_import : bool }.

Inductive comp := Comp (tag : nat) (info : cinfo) (vars : list var) (kids : list comp).

(** A variable that is equivalent to one of the model's variables but is not listed in the model's
    component tree: parent-less ([x_comp = None]) or owned by a component [c] outside the tree whose own
    parent() is the entity tagged [p] (None: no parent). *)
Record extvar := mkX { x_tag : nat; x_comp : option (nat * option nat) }.

(** A Model: its own tag, every Units object that matters (the model's own and those held by variables),
    the model's units list (tags, in order), the component tree and the outside variables. *)
Record model := mkM { m_tag : nat; m_heap : list uobj; m_units : list nat; m_comps : list comp;
                      m_ext : list extvar }.

Definition c_tag (c : comp) : nat := match c with Comp t _ _ _ => t end.
Definition c_info (c : comp) : cinfo := match c with Comp _ i _ _ => i end.
Definition c_vars (c : comp) : list var := match c with Comp _ _ vs _ => vs end.
Definition c_kids (c : comp) : list comp := match c with Comp _ _ _ ks => ks end.

Definition set_iface (v : var) (s : string) : var := mkV (v_tag v) s (v_eqs v) (v_units v).
Definition set_units (v : var) (u : option nat) : var := mkV (v_tag v) (v_iface v) (v_eqs v) u.

Definition opt_nat_eqb (a b : option nat) : bool :=
  match a, b with
  | Some x, Some y => Nat.eqb x y
  | None, None => true
  | _, _ => false
  end.

(** Every component of a tree, pre-order. *)
Fixpoint comp_all (c : comp) : list comp :=
  match c with Comp _ _ _ ks => c :: flat_map comp_all ks end.
Definition model_all (m : model) : list comp := flat_map comp_all (m_comps m).

(* ------------------------------------------------------------------------------------------------ *)
(** * Where variables live *)

(** An occurrence of a variable in the tree: [o_p] tag of the parent entity of its component (the model or
    a component), [o_c] tag of its component, [o_imp] component->isImport(). *)
Record occ := mkO { o_p : nat; o_c : nat; o_imp : bool; o_v : var }.

Fixpoint comp_occs (p : nat) (c : comp) : list occ :=
  match c with
  | Comp t i vs ks => map (mkO p t (ci_import i)) vs ++ flat_map (comp_occs t) ks
  end.
Definition model_occs (m : model) : list occ := flat_map (comp_occs (m_tag m)) (m_comps m).

(** variable tag -> (tag of variable->parent(), tag of that component's parent()) *)
Definition loc := (nat * option nat)%type.

Definition ext_locs (xs : list extvar) : list (nat * loc) :=
  flat_map (fun x => match x_comp x with Some cp => [(x_tag x, cp)] | None => [] end) xs.

Definition model_locs (m : model) : list (nat * loc) :=
  map (fun o => (v_tag (o_v o), (o_c o, Some (o_p o)))) (model_occs m) ++ ext_locs (m_ext m).

(** None = equivalentVariable->parent() is nullptr *)
Fixpoint lookup_loc (L : list (nat * loc)) (t : nat) : option loc :=
  match L with
  | [] => None
  | (k, l) :: L' => if Nat.eqb k t then Some l else lookup_loc L' t
  end.

(* ------------------------------------------------------------------------------------------------ *)
(** * Interface types *)

(** variable.h: enum class InterfaceType *)
Inductive itype := INone | IPrivate | IPublic | IBoth.

Definition itype_name (t : itype) : string :=
  match t with INone => "NONE" | IPrivate => "PRIVATE" | IPublic => "PUBLIC" | IBoth => "PUBLIC_AND_PRIVATE" end.

Definition itype_eqb (a b : itype) : bool :=
  match a, b with
  | INone, INone | IPrivate, IPrivate | IPublic, IPublic | IBoth, IBoth => true
  | _, _ => false
  end.

Fixpoint assoc_str (k : string) (l : list (string * string)) : option string :=
  match l with
  | [] => None
  | (a, b) :: l' => if String.eqb a k then Some b else assoc_str k l'
  end.

(** utilities.h: interfaceTypeToString.at(t)   (the regenerated table; "" stands for the std::out_of_range
    that .at() would throw — Properties_C19.C19_table_facts shows it never happens) *)
Definition itype_string (t : itype) : string :=
  match assoc_str (itype_name t) interface_type_to_string with Some s => s | None => "" end.

(** std::string::find(needle) != npos *)
Definition contains (needle hay : string) : bool :=
  match String.index 0 needle hay with Some _ => true | None => false end.

(** variable.cpp: Variable::permitsInterfaceType *)
Definition permits (iface : string) (t : itype) : bool :=
  let test := itype_string t in
  if String.eqb test permits_literal_none then true
  else if String.eqb iface permits_literal_both then true
  else String.eqb test iface.

(** validator.cpp: interfaceTypeIsCompatible *)
Definition iface_compatible (t : itype) (iface : string) : bool := contains (itype_string t) iface.

(* ------------------------------------------------------------------------------------------------ *)
(** * The interface a variable needs *)

(** utilities.cpp: areEntitiesSiblings(e1, e2) = (e1->parent() == e2->parent()), on the parents' tags *)
Definition siblings (pa pb : option nat) : bool := opt_nat_eqb pa pb.
(** utilities.cpp: isEntityChildOf(e1, e2) = (e1->parent() == e2) *)
Definition child_of (pa : option nat) (b : nat) : bool :=
  match pa with Some x => Nat.eqb x b | None => false end.

Inductive eclass := EPublic | EPrivate | EBad.

(** One pass of the loop body of publicAndOrPrivateInterfaceTypeRequired for the variable of component [c]
    (whose parent() is [p]) and its equivalent variable [e]. *)
Definition classify (L : list (nat * loc)) (c : nat) (p : option nat) (e : nat) : eclass :=
  match lookup_loc L e with
  | None => EBad                                          (* componentOfEquivalentVariable == nullptr *)
  | Some (ce, pe) =>
      if siblings p pe || child_of p ce then EPublic
      else if child_of pe c then EPrivate
      else EBad
  end.

(** utilities.cpp: publicAndOrPrivateInterfaceTypeRequired.  [fixed = false]: the loop condition carries
    [&& !(pair.first && pair.second)] (pinned tree); [fixed = true]: it does not (fixes/C19-interface-early-exit.diff). *)
Fixpoint required_loop (fixed : bool) (L : list (nat * loc)) (c : nat) (p : option nat) (es : list nat)
         (pair : bool * bool) : bool * bool :=
  match es with
  | [] => pair
  | e :: es' =>
      if negb fixed && (fst pair && snd pair) then pair
      else match classify L c p e with
           | EPublic => required_loop fixed L c p es' (true, snd pair)
           | EPrivate => required_loop fixed L c p es' (fst pair, true)
           | EBad => (false, false)
           end
  end.

Definition required (fixed : bool) (L : list (nat * loc)) (o : occ) : bool * bool :=
  required_loop fixed L (o_c o) (Some (o_p o)) (v_eqs (o_v o)) (false, false).

(** utilities.cpp: interfaceTypeFor *)
Definition itype_for (pair : bool * bool) : itype :=
  if fst pair && snd pair then IBoth else if fst pair then IPublic else if snd pair then IPrivate else INone.

(** utilities.cpp: determineInterfaceType *)
Definition determine (fixed : bool) (L : list (nat * loc)) (o : occ) : itype := itype_for (required fixed L o).

(* ------------------------------------------------------------------------------------------------ *)
(** * Model::fixVariableInterfaces *)

Definition has_eqs (v : var) : bool := match v_eqs v with [] => false | _ => true end.

(** utilities.cpp: findAllVariablesWithEquivalences (own variables first, then the children, depth first) *)
Fixpoint find_all_with_eqs (p : nat) (c : comp) : list occ :=
  match c with
  | Comp t i vs ks =>
      map (mkO p t (ci_import i)) (filter has_eqs vs) ++ flat_map (find_all_with_eqs t) ks
  end.
Definition model_with_eqs (m : model) : list occ := flat_map (find_all_with_eqs (m_tag m)) (m_comps m).

(** Body of the second loop of fixVariableInterfaces for one collected variable: the new attribute string. *)
Definition fix_iface (fixed : bool) (L : list (nat * loc)) (o : occ) : string :=
  let t := determine fixed L o in
  if itype_eqb t INone then v_iface (o_v o)
  else if permits (v_iface (o_v o)) t then v_iface (o_v o)
  else itype_string t.                                   (* variable->setInterfaceType(interfaceType) *)

Definition fix_var (fixed : bool) (L : list (nat * loc)) (p c : nat) (imp : bool) (v : var) : var :=
  if has_eqs v then set_iface v (fix_iface fixed L (mkO p c imp v)) else v.

(** The effect of the second loop on the tree (the C++ mutates the collected objects in place). *)
Fixpoint fix_comp (fixed : bool) (L : list (nat * loc)) (p : nat) (c : comp) : comp :=
  match c with
  | Comp t i vs ks => Comp t i (map (fix_var fixed L p t (ci_import i)) vs) (map (fix_comp fixed L t) ks)
  end.

(** allOk *)
Definition fix_ok (fixed : bool) (L : list (nat * loc)) (os : list occ) : bool :=
  forallb (fun o => negb (itype_eqb (determine fixed L o) INone)) os.

Definition fix_model (fixed : bool) (m : model) : model * bool :=
  let L := model_locs m in
  (mkM (m_tag m) (m_heap m) (m_units m) (map (fix_comp fixed L (m_tag m)) (m_comps m)) (m_ext m),
   fix_ok fixed L (model_with_eqs m)).

(** Does the early exit of the pinned loop hide something from it?  (used by the check to recognise the
    cases on which the pinned tree and the repaired tree differ) *)
Definition pair_eqb (a b : bool * bool) : bool := Bool.eqb (fst a) (fst b) && Bool.eqb (snd a) (snd b).
Definition hidden_bad (L : list (nat * loc)) (o : occ) : bool :=
  negb (pair_eqb (required false L o) (required true L o)).
Definition model_hidden_bad (m : model) : bool := existsb (hidden_bad (model_locs m)) (model_with_eqs m).

(* ------------------------------------------------------------------------------------------------ *)
(** * The validator's view (validateConnections without the units-equivalence check) *)

Inductive issue :=
| IssIface (v : nat)              (* MAP_VARIABLES_ELEMENT, item = the variable: wrong / missing interface type *)
| IssUnreach (v e : nat)          (* MAP_VARIABLES_ELEMENT, item = (v, e): neither siblings nor parent/child *)
| IssNoParent (v e : nat).        (* MAP_VARIABLES_VARIABLE1_ATTRIBUTE, item = (v, e): e has no parent component *)

(** validator.cpp: reachableEquivalence, on (parent component, its parent) of the two variables *)
Definition reachable (c1 : nat) (p1 : option nat) (c2 : nat) (p2 : option nat) : bool :=
  child_of p1 c2 || child_of p2 c1 || siblings p1 p2.

Definition pair_in (a b : nat) (l : list (nat * nat)) : bool :=
  existsb (fun q => Nat.eqb (fst q) a && Nat.eqb (snd q) b) l.

(** The NONE branch of validateVariableInterface: one issue per equivalent variable that has a parent
    component and is not reachable, unless the reversed pair was reported before. *)
Fixpoint unreach_issues (L : list (nat * loc)) (o : occ) (es : list nat) (already : list (nat * nat))
  : list issue * list (nat * nat) :=
  match es with
  | [] => ([], already)
  | e :: es' =>
      match lookup_loc L e with
      | Some (ce, pe) =>
          if negb (reachable (o_c o) (Some (o_p o)) ce pe) && negb (pair_in e (v_tag (o_v o)) already)
          then let r := unreach_issues L o es' (already ++ [(v_tag (o_v o), e)]) in
               (IssUnreach (v_tag (o_v o)) e :: fst r, snd r)
          else unreach_issues L o es' already
      | None => unreach_issues L o es' already
      end
  end.

(** validator.cpp: validateVariableInterface *)
Definition validate_interface (fixed : bool) (L : list (nat * loc)) (o : occ) (already : list (nat * nat))
  : list issue * list (nat * nat) :=
  let t := determine fixed L o in
  if itype_eqb t INone then unreach_issues L o (v_eqs (o_v o)) already
  else if iface_compatible t (v_iface (o_v o)) then ([], already)
  else ([IssIface (v_tag (o_v o))], already).

(** validator.cpp: validateEquivalenceStructure *)
Definition validate_structure (L : list (nat * loc)) (o : occ) : list issue :=
  flat_map (fun e => match lookup_loc L e with None => [IssNoParent (v_tag (o_v o)) e] | Some _ => [] end)
           (v_eqs (o_v o)).

(** validator.cpp: validateConnections (variables of importing components are skipped) *)
Fixpoint validate_loop (fixed : bool) (L : list (nat * loc)) (os : list occ) (already : list (nat * nat))
  : list issue :=
  match os with
  | [] => []
  | o :: os' =>
      if o_imp o then validate_loop fixed L os' already
      else let r := validate_interface fixed L o already in
           fst r ++ validate_structure L o ++ validate_loop fixed L os' (snd r)
  end.

Definition validate_connections (fixed : bool) (m : model) : list issue :=
  validate_loop fixed (model_locs m) (model_with_eqs m) [].

(* ------------------------------------------------------------------------------------------------ *)
(** * Unit linking *)

Fixpoint uget (heap : list uobj) (t : nat) : option uobj :=
  match heap with
  | [] => None
  | u :: h => if Nat.eqb (u_tag u) t then Some u else uget h t
  end.

(** utilities.cpp: isStandardUnitName *)
Definition is_standard_unit_name (n : string) : bool :=
  existsb (fun r => String.eqb (fst r) n) standard_units_list.
(** utilities.cpp: isStandardUnit *)
Definition is_standard_unit (u : uobj) : bool := Nat.eqb (u_nunit u) 0 && is_standard_unit_name (u_name u).

(** model.cpp: ModelImpl::findUnits(name) through Model::hasUnits(name) / Model::units(name): first units of
    the model's list with that name *)
Fixpoint find_units (heap : list uobj) (units : list nat) (n : string) : option nat :=
  match units with
  | [] => None
  | t :: r => match uget heap t with
              | Some u => if String.eqb (u_name u) n then Some t else find_units heap r n
              | None => find_units heap r n
              end
  end.

(** One pass of the loop of linkComponentVariableUnits: (variable afterwards, status contribution).
    owningModel(v) and owningModel(component) are the model being linked. *)
Definition link_var (m : model) (v : var) : var * bool :=
  match v_units v with
  | None => (v, true)
  | Some t =>
      match uget (m_heap m) t with
      | None => (v, true)                                 (* not an object of the heap: treated as no units *)
      | Some u =>
          if opt_nat_eqb (u_owner u) (Some (m_tag m)) then (v, true)        (* already linked *)
          else match u_owner u with
               | None =>
                   if negb (is_standard_unit u) then
                     match find_units (m_heap m) (m_units m) (u_name u) with
                     | Some t' => (set_units v (Some t'), true)             (* v->setUnits(model->units(name)) *)
                     | None => (v, false)
                     end
                   else (v, true)
               | Some _ => (v, false)                                        (* belongs to a different model *)
               end
      end
  end.

Fixpoint link_comp (m : model) (c : comp) : comp :=
  match c with Comp t i vs ks => Comp t i (map (fun v => fst (link_var m v)) vs) (map (link_comp m) ks) end.

(** utilities.cpp: traverseComponentEntityTreeLinkingUnits (every component is visited; no short circuit) *)
Fixpoint link_status (m : model) (c : comp) : bool :=
  match c with Comp t i vs ks => forallb (fun v => snd (link_var m v)) vs && forallb (link_status m) ks end.

Definition link_model (m : model) : model * bool :=
  (mkM (m_tag m) (m_heap m) (m_units m) (map (link_comp m) (m_comps m)) (m_ext m),
   forallb (link_status m) (m_comps m)).

(** One pass of the loop of areComponentVariableUnitsUnlinked *)
Definition var_unlinked (m : model) (v : var) : bool :=
  match v_units v with
  | None => false
  | Some t =>
      match uget (m_heap m) t with
      | None => false
      | Some u =>
          if negb (is_standard_unit u)
          then match u_owner u with None => true | Some w => negb (Nat.eqb w (m_tag m)) end
          else false
      end
  end.

(** model.cpp: traverseComponentTreeForUnlinkedUnits *)
Fixpoint comp_unlinked (m : model) (c : comp) : bool :=
  match c with Comp t i vs ks => existsb (var_unlinked m) vs || existsb (comp_unlinked m) ks end.

(** model.cpp: Model::hasUnlinkedUnits *)
Definition has_unlinked (m : model) : bool := existsb (comp_unlinked m) (m_comps m).

(* ------------------------------------------------------------------------------------------------ *)
(** * Model::clean *)

Definition str_empty (s : string) : bool := match s with EmptyString => true | _ => false end.

(** The test at the end of traverseHierarchyAndRemoveIfEmpty, on the component's own fields *)
Definition own_empty (i : cinfo) (vs : list var) : bool :=
  Nat.eqb (length vs + ci_resets i) 0 && str_empty (ci_math i) && negb (ci_import i)
  && str_empty (ci_name i) && str_empty (ci_id i).

(** model.cpp: traverseHierarchyAndRemoveIfEmpty: (the component afterwards, "it is empty").
    The C++ loop runs over the children from the last to the first and erases by index; the result is the
    list of the cleaned children that are not empty, in the original order. *)
Fixpoint clean_comp (c : comp) : comp * bool :=
  match c with
  | Comp t i vs ks =>
      let rk := map clean_comp ks in
      let ks' := map fst (filter (fun r => negb (snd r)) rk) in
      (Comp t i vs ks', Nat.eqb (length vs + ci_resets i + length ks') 0 && str_empty (ci_math i)
                        && negb (ci_import i) && str_empty (ci_name i) && str_empty (ci_id i))
  end.

(** The units test of Model::clean *)
Definition units_empty (u : uobj) : bool :=
  negb (u_import u) && str_empty (u_name u) && str_empty (u_id u) && Nat.eqb (u_nunit u) 0.

Definition units_removed (heap : list uobj) (t : nat) : bool :=
  match uget heap t with Some u => units_empty u | None => false end.

(** removeUnits(i) also clears the parent of the removed object *)
Definition orphan_removed (m : model) (u : uobj) : uobj :=
  if existsb (Nat.eqb (u_tag u)) (m_units m) && units_empty u
  then mkU (u_tag u) (u_name u) (u_id u) (u_nunit u) (u_import u) None else u.

(** model.cpp: Model::clean *)
Definition clean_model (m : model) : model :=
  mkM (m_tag m)
      (map (orphan_removed m) (m_heap m))
      (filter (fun t => negb (units_removed (m_heap m) t)) (m_units m))
      (map fst (filter (fun r => negb (snd r)) (map clean_comp (m_comps m))))
      (m_ext m).
