(* FlattenShape.v -- C06: the two facts the apply theorems of FlattenProofs.v took as hypotheses, proved for the model's own
   functions: Component::clone (clone_comp) yields a tree with a variable at every index stack the original has one, and
   indexStackOf (index_stack_of) returns the stack at which a variable sits.  Result: apply_generate_model. *)
From Coq Require Import List String Ascii ZArith QArith Bool Arith Lia.
From LC Require Import Common NumDefs UnitsDefs FlattenDefs FlattenProofs.
Import ListNotations.
Local Open Scope string_scope.
Local Open Scope nat_scope.
Local Open Scope list_scope.

(* ---------------------------------------------------------------- enumeration with a prefix = shifted enumeration *)

Definition shift (pre : path) (pv : path * variable) : path * variable := (pre ++ fst pv, snd pv).

Lemma idx_vars_shift : forall pre l i, idx_vars pre i l = map (shift pre) (idx_vars [] i l).
Proof. intros pre l. induction l as [|v r IH]; intros i; cbn [idx_vars map]; [reflexivity|]. rewrite IH. reflexivity. Qed.

Lemma shift_shift : forall a b l, map (shift a) (map (shift b) l) = map (shift (a ++ b)) l.
Proof. intros a b l. rewrite map_map. apply map_ext. intros [q v]. unfold shift. cbn. rewrite app_assoc. reflexivity. Qed.

Lemma comp_vars_at_shift : forall c pre, comp_vars_at pre c = map (shift pre) (comp_vars_at [] c).
Proof.
  intros c. induction c as [o n i mt vars kids IHk] using comp_ind3. intros pre. rewrite !comp_vars_at_unfold, map_app. f_equal.
  - apply idx_vars_shift.
  - generalize 0 as j. induction kids as [|k r IHr]; intros j; [reflexivity|]. inversion IHk as [|? ? Hk Hr]; subst.
    cbn [comps_vars_at]. rewrite map_app, (IHr Hr). f_equal. rewrite (Hk (pre ++ [j])), (Hk ([] ++ [j])), shift_shift. reflexivity.
Qed.

Lemma comps_vars_at_in : forall l pre j p v, In (p, v) (comps_vars_at pre j l) <->
  exists i c q, nth_error l i = Some c /\ In (q, v) (comp_vars_at [] c) /\ p = pre ++ [j + i] ++ q.
Proof.
  intros l. induction l as [|k r IH]; intros pre j p v; cbn [comps_vars_at].
  - split; [intros [] | intros [i [c [q [H _]]]]; destruct i; discriminate].
  - rewrite in_app_iff, IH. split.
    + intros [H|[i [c [q [H1 [H2 H3]]]]]].
      * rewrite comp_vars_at_shift in H. apply in_map_iff in H. destruct H as [[q w] [E Hq]]. unfold shift in E. cbn in E. inversion E; subst.
        exists 0, k, q. split; [reflexivity|]. split; [exact Hq|]. rewrite Nat.add_0_r, <- app_assoc. reflexivity.
      * exists (S i), c, q. split; [exact H1|]. split; [exact H2|]. rewrite H3. replace (S j + i) with (j + S i) by lia. reflexivity.
    + intros [i [c [q [H1 [H2 H3]]]]]. destruct i as [|i].
      * left. cbn in H1. inversion H1; subst c. rewrite comp_vars_at_shift. apply in_map_iff. exists (q, v). split; [|exact H2].
        unfold shift. cbn. rewrite H3, Nat.add_0_r, <- app_assoc. reflexivity.
      * right. exists i, c, q. split; [exact H1|]. split; [exact H2|]. rewrite H3. replace (S j + i) with (j + S i) by lia. reflexivity.
Qed.

Lemma idx_vars_in : forall l i q v, In (q, v) (idx_vars [] i l) <-> exists j, nth_error l j = Some v /\ q = [i + j].
Proof.
  intros l. induction l as [|x r IH]; intros i q v; cbn [idx_vars].
  - split; [intros [] | intros [j [H _]]; destruct j; discriminate].
  - cbn [In app]. rewrite IH. split.
    + intros [E|[j [H1 H2]]].
      * inversion E; subst. exists 0. split; [reflexivity | rewrite Nat.add_0_r; reflexivity].
      * exists (S j). split; [exact H1|]. rewrite H2. replace (S i + j) with (i + S j) by lia. reflexivity.
    + intros [j [H1 H2]]. destruct j as [|j].
      * left. cbn in H1. inversion H1; subst. rewrite Nat.add_0_r. reflexivity.
      * right. exists j. split; [exact H1|]. rewrite H2. replace (S i + j) with (i + S j) by lia. reflexivity.
Qed.

(* the variables of one component: its own (stack [j]) or those of child i (stack i :: q) *)
Lemma comp_vars_at_in : forall o n im mt vars kids q v,
  In (q, v) (comp_vars_at [] (Comp o n im mt vars kids)) <->
  (exists j, nth_error vars j = Some v /\ q = [j]) \/
  (exists i c q', nth_error kids i = Some c /\ In (q', v) (comp_vars_at [] c) /\ q = i :: q').
Proof.
  intros o n im mt vars kids q v. rewrite comp_vars_at_unfold, in_app_iff, idx_vars_in, comps_vars_at_in. cbn [app Nat.add]. tauto.
Qed.

(* ---------------------------------------------------------------- getVariableLocatedAt finds what the enumeration lists *)

Lemma removelast_cons2 : forall (A : Type) (a b : A) l, removelast (a :: b :: l) = a :: removelast (b :: l).
Proof. reflexivity. Qed.
Lemma last_cons2 : forall (A : Type) (a b d : A) l, last (a :: b :: l) d = last (b :: l) d.
Proof. reflexivity. Qed.

(* relative to one component *)
Fixpoint located_in (c : comp) (q : path) : option variable :=
  match q with
  | [] => None
  | [j] => nth_error (c_vars c) j
  | i :: q' => match nth_error (c_kids c) i with Some k => located_in k q' | None => None end
  end.

Lemma located_in_enumerated : forall c q v, In (q, v) (comp_vars_at [] c) -> located_in c q = Some v.
Proof.
  intros c. induction c as [o n im mt vars kids IHk] using comp_ind3. intros q v H. apply comp_vars_at_in in H.
  destruct H as [[j [H1 H2]]|[i [c [q' [H1 [H2 H3]]]]]]; subst q.
  - cbn. exact H1.
  - rewrite Forall_forall in IHk. pose proof (IHk c (nth_error_In _ _ H1) _ _ H2) as Hl.
    destruct q' as [|a q'']; [cbn in Hl; discriminate|]. cbn [located_in c_kids]. rewrite H1. exact Hl.
Qed.

Fixpoint comp_in (c : comp) (r : path) : option comp :=
  match r with
  | [] => Some c
  | i :: r' => match nth_error (c_kids c) i with Some k => comp_in k r' | None => None end
  end.

Lemma comp_at_cons : forall r cs i, comp_at cs (i :: r) = match nth_error cs i with Some c => comp_in c r | None => None end.
Proof.
  induction r as [|j r IH]; intros cs i; [cbn; destruct (nth_error cs i); reflexivity|].
  change (comp_at cs (i :: j :: r)) with (match nth_error cs i with Some c => comp_at (c_kids c) (j :: r) | None => None end).
  destruct (nth_error cs i) as [c|]; [|reflexivity]. rewrite IH. reflexivity.
Qed.

Lemma located_in_split : forall q c v, located_in c q = Some v ->
  q <> [] /\ exists c', comp_in c (removelast q) = Some c' /\ nth_error (c_vars c') (last q 0) = Some v.
Proof.
  induction q as [|a q IH]; intros c v H; [discriminate|]. split; [discriminate|]. destruct q as [|b q'].
  - exists c. split; [reflexivity | exact H].
  - cbn [located_in] in H. destruct (nth_error (c_kids c) a) as [k|] eqn:Ek; [|discriminate].
    destruct (IH k v H) as [_ [c' [H1 H2]]]. exists c'. rewrite removelast_cons2, last_cons2. cbn [comp_in]. rewrite Ek. split; assumption.
Qed.

Lemma var_located_cons : forall cs i c q v, nth_error cs i = Some c -> located_in c q = Some v -> var_located_at cs (i :: q) = LVar v.
Proof.
  intros cs i c q v Hc Hl. destruct (located_in_split _ _ _ Hl) as [Hne [c' [H1 H2]]].
  destruct q as [|a q']; [congruence|]. unfold var_located_at. rewrite removelast_cons2, last_cons2, comp_at_cons, Hc, H1, H2. reflexivity.
Qed.

Lemma located_enumerated : forall cs p v, In (p, v) (comps_vars_at [] 0 cs) -> var_located_at cs p = LVar v.
Proof.
  intros cs p v H. apply comps_vars_at_in in H. destruct H as [i [c [q [H1 [H2 H3]]]]]. subst p. cbn [app Nat.add].
  apply (var_located_cons cs i c q v H1 (located_in_enumerated _ _ _ H2)).
Qed.

(* a component found at a stack contributes its variables, at that stack, to the enumeration of the forest *)
Lemma comp_at_vars : forall p cs c q v, comp_at cs p = Some c -> In (q, v) (comp_vars_at [] c) -> In (p ++ q, v) (comps_vars_at [] 0 cs).
Proof.
  induction p as [|i p IH]; intros cs c q v Hc Hq; [discriminate|]. cbn [comp_at] in Hc. destruct p as [|j p'].
  - apply comps_vars_at_in. exists i, c, q. split; [exact Hc|]. split; [exact Hq | reflexivity].
  - destruct (nth_error cs i) as [c0|] eqn:E0; [|discriminate].
    specialize (IH (c_kids c0) c q v Hc Hq). apply comps_vars_at_in in IH. destruct IH as [i1 [c1 [q1 [H1 [H2 H3]]]]]. cbn [app Nat.add] in H3.
    apply comps_vars_at_in. exists i, c0, (i1 :: q1). split; [exact E0|]. split.
    + destruct c0 as [o n im mt vars kids]. apply comp_vars_at_in. right. exists i1, c1, q1. cbn [c_kids] in H1. repeat split; assumption.
    + cbn [app Nat.add]. cbn [app] in H3. rewrite <- H3. reflexivity.
Qed.

(* ---------------------------------------------------------------- indexStackOf *)

Lemma find_path_unique : forall l p v, NoDup (map (fun pv => v_oid (snd pv)) l) -> In (p, v) l -> find_path (v_oid v) l = Some p.
Proof.
  intros l. induction l as [|[p0 v0] r IH]; intros p v Hnd Hin; [destruct Hin|]. cbn [map snd] in Hnd. inversion Hnd as [|? ? Hn Hr]; subst.
  cbn [find_path]. destruct Hin as [E|Hin].
  - inversion E; subst. rewrite Nat.eqb_refl. reflexivity.
  - destruct (Nat.eqb (v_oid v0) (v_oid v)) eqn:Eo; [|apply IH; assumption].
    apply Nat.eqb_eq in Eo. exfalso. apply Hn. rewrite Eo. apply in_map_iff. exists (p, v). split; [reflexivity | exact Hin].
Qed.

(* index_stack_of returns the stack at which the variable sits (identity tags of the model pairwise distinct) *)
Theorem index_stack_of_position : forall m p v, NoDup (map (fun pv => v_oid (snd pv)) (model_vars m)) ->
  In (p, v) (model_vars m) -> index_stack_of m (v_oid v) = Some p.
Proof. intros m p v Hnd Hin. unfold index_stack_of. apply find_path_unique; assumption. Qed.

(* ---------------------------------------------------------------- Component::clone keeps the shape *)
From LC Require Import FlattenOwn.

Definition oids_of (l : list (path * variable)) : list nat := map (fun pv => v_oid (snd pv)) l.

Lemma clone_vars_spec : forall l n,
  snd (clone_vars l n) = n + List.length l /\
  (forall j v, nth_error l j = Some v -> exists v', nth_error (fst (clone_vars l n)) j = Some v' /\ v_oid v' = n + j) /\
  (forall j v', nth_error (fst (clone_vars l n)) j = Some v' -> v_oid v' = n + j /\ j < List.length l).
Proof.
  induction l as [|x r IH]; intros n; cbn [clone_vars].
  - split; [cbn; lia|]. split; intros j v H; destruct j; discriminate.
  - destruct (IH (S n)) as [H1 [H2 H3]]. destruct (clone_vars r (S n)) as [r' n'] eqn:E. cbn [fst snd] in *. split; [cbn [List.length]; lia|]. split.
    + intros j v H. destruct j as [|j].
      * eexists. split; [reflexivity|]. cbn. lia.
      * cbn in H. destruct (H2 j v H) as [v' [Hv Ho]]. exists v'. split; [exact Hv | lia].
    + intros j v' H. destruct j as [|j].
      * cbn in H. inversion H; subst. cbn. split; lia.
      * cbn in H. destruct (H3 j v' H) as [Ho Hl]. cbn [List.length]. split; lia.
Qed.

(* what the apply theorems need of a copy: a variable at every stack at which the original has one; tags in a range, distinct *)
Record clone_shape (c c' : comp) (lo hi : nat) : Prop := {
  cs_exists : forall q v, In (q, v) (comp_vars_at [] c) -> exists v', In (q, v') (comp_vars_at [] c');
  cs_range : forall q v', In (q, v') (comp_vars_at [] c') -> lo <= v_oid v' < hi;
  cs_inj : forall q1 v1 q2 v2, In (q1, v1) (comp_vars_at [] c') -> In (q2, v2) (comp_vars_at [] c') -> v_oid v1 = v_oid v2 -> q1 = q2 }.

Lemma clone_comp_shape : forall o c n, n <= snd (clone_comp o c n) /\ clone_shape c (fst (clone_comp o c n)) n (snd (clone_comp o c n)).
Proof.
  intros o c. induction c as [o0 nm im mt vars kids IHk] using comp_ind3. intros n. rewrite clone_comp_unfold.
  destruct (clone_vars_spec vars n) as [V1 [V2 V3]]. destruct (clone_vars vars n) as [vars' n1] eqn:Ev. cbn [fst snd] in V1, V2, V3.
  (* the children, one after the other *)
  assert (Hks : forall l m, Forall (fun c => forall n, n <= snd (clone_comp o c n) /\ clone_shape c (fst (clone_comp o c n)) n (snd (clone_comp o c n))) l ->
            m <= snd (clone_comps o l m) /\
            (forall i c q v, nth_error l i = Some c -> In (q, v) (comp_vars_at [] c) ->
               exists c' v', nth_error (fst (clone_comps o l m)) i = Some c' /\ In (q, v') (comp_vars_at [] c')) /\
            (forall i c' q v', nth_error (fst (clone_comps o l m)) i = Some c' -> In (q, v') (comp_vars_at [] c') -> m <= v_oid v' < snd (clone_comps o l m)) /\
            (forall i1 c1 q1 v1 i2 c2 q2 v2, nth_error (fst (clone_comps o l m)) i1 = Some c1 -> In (q1, v1) (comp_vars_at [] c1) ->
               nth_error (fst (clone_comps o l m)) i2 = Some c2 -> In (q2, v2) (comp_vars_at [] c2) -> v_oid v1 = v_oid v2 -> i1 = i2 /\ q1 = q2)).
  { induction l as [|k r IHr]; intros m Hall; cbn [clone_comps].
    - cbn [fst snd]. split; [lia|]. split; [intros i c q v H; destruct i; discriminate|]. split; [intros i c' q v' H; destruct i; discriminate|].
      intros i1 c1 q1 v1 i2 c2 q2 v2 H; destruct i1; discriminate.
    - inversion Hall as [|? ? Hk Hr]; subst. destruct (Hk m) as [Hle [Ke Kr Ki]].
      destruct (clone_comp o k m) as [k' m1] eqn:Ek. cbn [fst snd] in Hle, Ke, Kr, Ki.
      destruct (IHr m1 Hr) as [Rle [Re [Rr Ri]]]. destruct (clone_comps o r m1) as [r' m2] eqn:Er. cbn [fst snd] in *.
      split; [lia|]. split; [|split].
      + intros i c q v Hn Hin. destruct i as [|i].
        * cbn in Hn. inversion Hn; subst c. destruct (Ke _ _ Hin) as [v' Hv']. exists k', v'. split; [reflexivity | exact Hv'].
        * cbn in Hn. destruct (Re i c q v Hn Hin) as [c' [v' [H1 H2]]]. exists c', v'. split; [exact H1 | exact H2].
      + intros i c' q v' Hn Hin. destruct i as [|i].
        * cbn in Hn. inversion Hn; subst c'. specialize (Kr _ _ Hin). lia.
        * cbn in Hn. specialize (Rr i c' q v' Hn Hin). lia.
      + intros i1 c1 q1 v1 i2 c2 q2 v2 H1 I1 H2 I2 Eo. destruct i1 as [|i1]; destruct i2 as [|i2]; cbn in H1, H2.
        * inversion H1; inversion H2; subst. split; [reflexivity | apply (Ki _ _ _ _ I1 I2 Eo)].
        * inversion H1; subst c1. specialize (Kr _ _ I1). specialize (Rr _ _ _ _ H2 I2). lia.
        * inversion H2; subst c2. specialize (Kr _ _ I2). specialize (Rr _ _ _ _ H1 I1). lia.
        * destruct (Ri _ _ _ _ _ _ _ _ H1 I1 H2 I2 Eo) as [E1 E2]. split; [lia | exact E2]. }
  destruct (Hks kids n1 IHk) as [Kle [Ke [Kr Ki]]]. destruct (clone_comps o kids n1) as [kids' n2] eqn:Eks. cbn [fst snd] in *.
  split; [lia|]. constructor.
  - intros q v H. apply comp_vars_at_in in H. destruct H as [[j [H1 H2]]|[i [c [q' [H1 [H2 H3]]]]]]; subst q.
    + destruct (V2 j v H1) as [v' [Hv _]]. exists v'. apply comp_vars_at_in. left. exists j. split; [exact Hv | reflexivity].
    + destruct (Ke i c q' v H1 H2) as [c' [v' [Hc Hv]]]. exists v'. apply comp_vars_at_in. right. exists i, c', q'. repeat split; assumption.
  - intros q v' H. apply comp_vars_at_in in H. destruct H as [[j [H1 H2]]|[i [c' [q' [H1 [H2 H3]]]]]].
    + destruct (V3 j v' H1). lia.
    + specialize (Kr i c' q' v' H1 H2). lia.
  - intros q1 v1 q2 v2 H1 H2 Eo. apply comp_vars_at_in in H1. apply comp_vars_at_in in H2.
    destruct H1 as [[j1 [A1 A2]]|[i1 [c1 [p1 [A1 [A2 A3]]]]]]; destruct H2 as [[j2 [B1 B2]]|[i2 [c2 [p2 [B1 [B2 B3]]]]]]; subst.
    + destruct (V3 _ _ A1) as [E1 _]. destruct (V3 _ _ B1) as [E2 _]. f_equal. lia.
    + destruct (V3 _ _ A1) as [E1 L1]. specialize (Kr _ _ _ _ B1 B2). lia.
    + destruct (V3 _ _ B1) as [E1 L1]. specialize (Kr _ _ _ _ A1 A2). lia.
    + destruct (Ki _ _ _ _ _ _ _ _ A1 A2 B1 B2 Eo) as [E1 E2]. subst. reflexivity.
Qed.

(* ---------------------------------------------------------------- the apply theorem without hypotheses on locations *)

Lemma comp_vars_path_nonempty : forall c q v, In (q, v) (comp_vars_at [] c) -> q <> [].
Proof. intros [o n im mt vars kids] q v H. apply comp_vars_at_in in H. destruct H as [[j [_ E]]|[i [c [q' [_ [_ E]]]]]]; subst; discriminate. Qed.

Lemma comp_vars_path_functional : forall c q v w, In (q, v) (comp_vars_at [] c) -> In (q, w) (comp_vars_at [] c) -> v = w.
Proof.
  intros c q v w H1 H2. apply located_in_enumerated in H1. apply located_in_enumerated in H2. congruence.
Qed.

Lemma eqs_of_pair : forall eqs a b, has_pair eqs a b -> exists e, In e (eqs_of eqs a) /\ fst (fst e) = b.
Proof.
  intros eqs a b [e0 [Hin Hp]]. unfold eqs_of. destruct (pair_is_endpoints _ _ _ Hp) as [[E1 E2]|[E1 E2]].
  - exists (e_b e0, e_map e0, e_conn e0). split; [|exact E2]. apply in_flat_map. exists e0. split; [exact Hin|].
    rewrite E1, Nat.eqb_refl. left. reflexivity.
  - destruct (Nat.eqb (e_a e0) a) eqn:Ea.
    + apply Nat.eqb_eq in Ea. exists (e_b e0, e_map e0, e_conn e0). split; [|cbn; congruence]. apply in_flat_map. exists e0. split; [exact Hin|].
      rewrite Ea, Nat.eqb_refl. left. reflexivity.
    + exists (e_a e0, e_map e0, e_conn e0). split; [|exact E1]. apply in_flat_map. exists e0. split; [exact Hin|].
      rewrite Ea, E2, Nat.eqb_refl. left. reflexivity.
Qed.

(* apply_generate_model: record, rebase, apply -- for the model's own functions, no hypothesis on locations left.
   L: the library model (identity tags pairwise distinct), icomp the imported component found at stack origin, copy a
   component with the shape of icomp (what Component::clone returns: clone_comp_shape) sitting at stack dest of the forest
   cs.  Every equivalence of L between two variables of icomp's encapsulation tree is, after applying the rebased recorded
   map, an equivalence between the copy's variables at the same relative stacks. *)
Theorem apply_generate_model : forall (L : model) (icomp copy : comp) (origin dest : path) (cs : list comp) lo hi eqs eqs',
  NoDup (oids_of (model_vars L)) ->
  comp_at (m_comps L) origin = Some icomp ->
  dest <> [] -> comp_at cs dest = Some copy -> clone_shape icomp copy lo hi ->
  apply_map cs (rebase_map (record_comp L origin icomp []) origin dest) eqs = FOk eqs' ->
  forall q1 v q2 w,
    In (q1, v) (comp_vars_at [] icomp) -> In (q2, w) (comp_vars_at [] icomp) ->
    has_pair (m_eqs L) (v_oid v) (v_oid w) -> v_oid v <> v_oid w ->
    exists v' w', In (q1, v') (comp_vars_at [] copy) /\ In (q2, w') (comp_vars_at [] copy) /\ has_pair eqs' (v_oid v') (v_oid w').
Proof.
  intros L icomp copy origin dest cs lo hi eqs eqs' Hnd Hic Hd Hcp Hsh Happ q1 v q2 w Hv Hw Hpair Hne.
  destruct (cs_exists _ _ _ _ Hsh _ _ Hv) as [v' Hv']. destruct (cs_exists _ _ _ _ Hsh _ _ Hw) as [w' Hw'].
  exists v', w'. split; [exact Hv'|]. split; [exact Hw'|].
  pose proof (comp_vars_path_nonempty _ _ _ Hw) as Hq2.
  assert (Eq2 : q2 = removelast q2 ++ [last q2 0]) by (apply app_removelast_last; exact Hq2).
  (* w sits at origin ++ q2 in L, and index_stack_of finds it there *)
  assert (Hidx : index_stack_of L (v_oid w) = Some (origin ++ q2)).
  { apply index_stack_of_position; [exact Hnd|]. unfold model_vars. apply (comp_at_vars origin (m_comps L) icomp q2 w Hic Hw). }
  assert (Heq : equiv_at L v (origin ++ removelast q2 ++ [last q2 0])).
  { rewrite <- Eq2. destruct (eqs_of_pair _ _ _ Hpair) as [e [He1 He2]]. exists e. split; [exact He1 | rewrite He2; exact Hidx]. }
  assert (Hv0 : In (origin ++ q1, v) (comp_vars_at origin icomp)).
  { rewrite comp_vars_at_shift. apply in_map_iff. exists (q1, v). split; [reflexivity | exact Hv]. }
  assert (L1 : var_located_at cs (dest ++ q1) = LVar v') by (apply located_enumerated; apply (comp_at_vars dest cs copy q1 v' Hcp Hv')).
  assert (L2 : var_located_at cs (dest ++ removelast q2 ++ [last q2 0]) = LVar w').
  { rewrite <- Eq2. apply located_enumerated. apply (comp_at_vars dest cs copy q2 w' Hcp Hw'). }
  apply (apply_generate_recreates L icomp origin dest cs eqs eqs' Hd Happ q1 (removelast q2) (last q2 0) v v' w' Hv0 Heq L1 L2).
  intros Eo. pose proof (cs_inj _ _ _ _ Hsh _ _ _ _ Hv' Hw' Eo) as Eq. subst q2.
  apply Hne. rewrite (comp_vars_path_functional _ _ _ _ Hv Hw). reflexivity.
Qed.

(* the forest after replaceComponent has the copy at the destination stack *)
Lemma comp_at_update_at : forall p cs c f, comp_at cs p = Some c -> comp_at (update_at cs p f) p = Some (f c).
Proof.
  induction p as [|i p IH]; intros cs c f H; [discriminate|]. destruct p as [|j p'].
  - cbn [comp_at update_at] in *. rewrite H. cbn [comp_at]. clear IH. revert i H. induction cs as [|x r IHr]; intros [|i] H; try discriminate; cbn in *.
    + reflexivity.
    + apply IHr. exact H.
  - change (comp_at cs (i :: j :: p')) with (match nth_error cs i with Some c0 => comp_at (c_kids c0) (j :: p') | None => None end) in H.
    change (update_at cs (i :: j :: p') f) with (match nth_error cs i with Some c0 => set_nth i (c_set_kids (update_at (c_kids c0) (j :: p') f) c0) cs | None => cs end).
    destruct (nth_error cs i) as [c0|] eqn:E0; [|discriminate].
    change (comp_at (set_nth i (c_set_kids (update_at (c_kids c0) (j :: p') f) c0) cs) (i :: j :: p'))
      with (match nth_error (set_nth i (c_set_kids (update_at (c_kids c0) (j :: p') f) c0) cs) i with
            | Some c1 => comp_at (c_kids c1) (j :: p') | None => None end).
    assert (En : nth_error (set_nth i (c_set_kids (update_at (c_kids c0) (j :: p') f) c0) cs) i = Some (c_set_kids (update_at (c_kids c0) (j :: p') f) c0)).
    { clear -E0. revert i E0. induction cs as [|x r IHr]; intros [|i] E0; try discriminate; cbn in *; [reflexivity | apply IHr; exact E0]. }
    rewrite En. destruct c0 as [o n im mt vars kids]. cbn [c_set_kids c_kids]. apply IH. exact H.
Qed.

(* names play no role in the enumeration: the de-clash loop and setName keep the shape *)
Lemma rename_first_vars : forall o new c, comp_vars_at [] (fst (rename_first o new c)) = comp_vars_at [] c.
Proof.
  intros o new c. induction c as [ow nm im mt vars kids IHk] using comp_ind3. rewrite rename_first_unfold'.
  destruct (String.eqb nm o); [reflexivity|].
  assert (Hf : forall j, comps_vars_at [] j (fst (rename_first_in o new kids)) = comps_vars_at [] j kids).
  { induction kids as [|k r IHr]; intros j; [reflexivity|]. inversion IHk as [|? ? Hk Hr]; subst. cbn [rename_first_in].
    destruct (rename_first o new k) as [k' d] eqn:Ek. cbn [fst] in Hk. destruct d.
    - cbn [fst comps_vars_at]. rewrite (comp_vars_at_shift k'), Hk, <- comp_vars_at_shift. reflexivity.
    - specialize (IHr Hr (S j)). destruct (rename_first_in o new r) as [r' d']. cbn [fst comps_vars_at] in *. rewrite IHr. reflexivity. }
  specialize (Hf 0). destruct (rename_first_in o new kids) as [kids' d]. cbn [fst] in *. rewrite !comp_vars_at_unfold, Hf. reflexivity.
Qed.

Lemma clone_shape_same_vars : forall c c1 c2 lo hi, comp_vars_at [] c2 = comp_vars_at [] c1 -> clone_shape c c1 lo hi -> clone_shape c c2 lo hi.
Proof. intros c c1 c2 lo hi E [H1 H2 H3]. constructor; rewrite E; assumption. Qed.

Lemma clone_shape_set_name : forall c c1 n lo hi, clone_shape c c1 lo hi -> clone_shape c (c_set_name n c1) lo hi.
Proof. intros c [o nm im mt vars kids] n lo hi H. apply (clone_shape_same_vars c (Comp o nm im mt vars kids)); [reflexivity | exact H]. Qed.

Lemma rename_first_in_vars : forall o new l j, comps_vars_at [] j (fst (rename_first_in o new l)) = comps_vars_at [] j l.
Proof.
  intros o new l. induction l as [|k r IHr]; intros j; [reflexivity|]. cbn [rename_first_in].
  pose proof (rename_first_vars o new k) as Hk. destruct (rename_first o new k) as [k' d]. cbn [fst] in Hk. destruct d.
  - cbn [fst comps_vars_at]. rewrite (comp_vars_at_shift k'), Hk, <- comp_vars_at_shift. reflexivity.
  - specialize (IHr (S j)). destruct (rename_first_in o new r) as [r' d']. cbn [fst comps_vars_at] in *. rewrite IHr. reflexivity.
Qed.

(* the newComponentNames loop changes names only: both forests keep their variables at their stacks *)
Lemma declash_vars : forall fx N ck pk ck' pk' done, declash fx N ck pk = FOk (ck', pk', done) ->
  forall j, comps_vars_at [] j ck' = comps_vars_at [] j ck /\ comps_vars_at [] j pk' = comps_vars_at [] j pk.
Proof.
  intros fx N ck pk ck' pk' done H. unfold declash in H.
  assert (G : forall kl ck0 pk0 u d ck1 pk1 u1 d1, fold_left (declash_step fx N) kl (FOk (ck0, pk0, u, d)) = FOk (ck1, pk1, u1, d1) ->
                forall j, comps_vars_at [] j ck1 = comps_vars_at [] j ck0 /\ comps_vars_at [] j pk1 = comps_vars_at [] j pk0).
  { induction kl as [|k r IH]; intros ck0 pk0 u d ck1 pk1 u1 d1 E j; cbn [fold_left] in E; [inversion E; subst; split; reflexivity|].
    destruct (declash_step fx N (FOk (ck0, pk0, u, d)) k) as [[[[ck2 pk2] u2] d2]| | |] eqn:Es;
      try (exfalso; clear -E; induction r as [|x r IHr]; cbn [fold_left] in E; [discriminate | apply IHr; exact E]).
    destruct (IH _ _ _ _ _ _ _ _ E j) as [A B]. rewrite A, B. clear E IH.
    unfold declash_step in Es. cbn [fbind] in Es. destruct (mem_str k N); [|inversion Es; subst; split; reflexivity].
    destruct (if fx_clash fx then find_free (S (List.length u)) u k 1 else find_free (S (List.length N)) N k 1) as [nn|]; [|discriminate].
    pose proof (rename_first_in_vars k nn ck0 j) as Hc. destruct (rename_first_in k nn ck0) as [ck3 dd]. cbn [fst] in Hc.
    inversion Es; subst. split; [exact Hc|]. destruct dd; [reflexivity | apply rename_first_in_vars]. }
  match type of H with (do r <- ?X; _) = _ => destruct X as [[[[a b] c] d]| | |] eqn:E; cbn [fbind] in H; try discriminate end.
  inversion H; subst. apply (G _ _ _ _ _ _ _ _ _ E).
Qed.

(* hence the copy that flattenComponent puts in place -- clone, setName, renamed children -- has the shape of the imported component *)
Lemma clone_shape_set_kids : forall c c1 ks lo hi, comps_vars_at [] 0 ks = comps_vars_at [] 0 (c_kids c1) ->
  clone_shape c c1 lo hi -> clone_shape c (c_set_kids ks c1) lo hi.
Proof.
  intros c [o nm im mt vars kids] ks lo hi E H. apply (clone_shape_same_vars c (Comp o nm im mt vars kids)); [|exact H].
  cbn [c_set_kids c_kids] in *. rewrite !comp_vars_at_unfold, E. reflexivity.
Qed.
