(** LoggerRound5Proofs.v — proof depth round 5 for C15 (additive; uses LoggerDefs / LoggerProofs / LoggerRefineProofs).

    1. [abstraction_injective]: a coherent logger is a FUNCTION of its issue list — two states satisfying the
       invariant with the same issues are equal (all three index vectors included).  Hence [Refines s l] determines
       [s] from [l] and [l] from [s].
    2. [run_ops_app] / [run_spec_app]: composition law of the concrete and the abstract runs over concatenated
       operation sequences (a service re-used over several inputs = the concatenation of its traces).
    3. [spec_wf_app]: well-formedness of a concatenated history is exactly well-formedness of the first part and of
       the second part from the specification state the first part reaches (an iff), and
       [refinement_app]: the forward simulation composes over re-use. *)
From Coq Require Import String List Bool Arith Lia.
From LC Require Import LoggerDefs LoggerProofs LoggerRefineProofs.
Import ListNotations.

Lemma abstraction_injective : forall s s', Inv s -> Inv s' -> issues s = issues s' -> s = s'.
Proof.
  intros [i e w m] [i' e' w' m'] H H' Hi. cbn in Hi. subst i'.
  pose proof (H LError) as A1. pose proof (H LWarning) as A2. pose proof (H LMessage) as A3.
  pose proof (H' LError) as B1. pose proof (H' LWarning) as B2. pose proof (H' LMessage) as B3.
  cbn in *. congruence.
Qed.

Lemma refines_functional : forall s s' l l', Refines s l -> Refines s' l' -> (s = s' <-> l = l').
Proof.
  intros s s' l l' [Hs Is] [Hs' Is']. split; intro E.
  - subst s'. congruence.
  - apply abstraction_injective; try assumption. congruence.
Qed.

Lemma run_ops_app : forall a b s,
  run_ops (a ++ b) s = match run_ops a s with Ok s' => run_ops b s' | bad => bad end.
Proof.
  induction a as [|o r IH]; intros b s; cbn [app run_ops].
  - reflexivity.
  - destruct (step o s); [apply IH | reflexivity | reflexivity].
Qed.

Lemma run_spec_app : forall a b l,
  run_spec (a ++ b) l = match run_spec a l with Some l' => run_spec b l' | None => None end.
Proof.
  induction a as [|o r IH]; intros b l.
  - reflexivity.
  - cbn [app]. rewrite !run_spec_cons. destruct (spec_step o l); [apply IH | reflexivity].
Qed.

Lemma spec_wf_app : forall a b l,
  spec_wf (a ++ b) l <-> spec_wf a l /\ match run_spec a l with Some l' => spec_wf b l' | None => False end.
Proof.
  induction a as [|o r IH]; intros b l.
  - cbn. tauto.
  - cbn [app spec_wf]. rewrite run_spec_cons. destruct (spec_step o l) as [l1|].
    + rewrite IH. tauto.
    + tauto.
Qed.

Lemma refinement_app : forall a b s l, Refines s l -> spec_wf a l ->
  exists s1 l1, run_ops a s = Ok s1 /\ run_spec a l = Some l1 /\ Refines s1 l1 /\
    (spec_wf b l1 ->
     exists s2 l2, run_ops (a ++ b) s = Ok s2 /\ run_spec (a ++ b) l = Some l2 /\ Refines s2 l2 /\
                   run_ops b s1 = Ok s2 /\ run_spec b l1 = Some l2).
Proof.
  intros a b s l HR Ha. destruct (refinement_from a s l HR Ha) as (s1 & l1 & R1 & S1 & HR1).
  exists s1, l1. repeat split; try assumption; try apply HR1.
  intro Hb. destruct (refinement_from b s1 l1 HR1 Hb) as (s2 & l2 & R2 & S2 & HR2).
  exists s2, l2. rewrite run_ops_app, run_spec_app, R1, S1. repeat split; try assumption; apply HR2.
Qed.
