(** ExternalDepsConvProofs.v — the converse of ExternalDepsProofs: an EXTERNAL equation has NO other dependency than the
    API equations computing the declared dependencies of the variables it computes. *)
From Coq Require Import List Bool Arith PeanoNat Lia.
From LC Require Import AnalysisDefs AnalysisSpec AnalysisWfProofs ExternalDefs ExternalDepsProofs ExternalWitness.
Import ListNotations.
Local Open Scope bool_scope.

Lemma dedup_app_In_inv : forall l acc x, In x (dedup_app acc l) -> In x acc \/ In x l.
Proof.
  induction l as [|y t IH]; intros acc x H; cbn [dedup_app] in H; [left; exact H|].
  destruct (mem_nat y acc).
  - destruct (IH _ _ H) as [K|K]; [left; exact K|right; right; exact K].
  - destruct (IH _ _ H) as [K|K]; [|right; right; exact K].
    apply in_app_or in K. destruct K as [K|[<-|[]]]; [left; exact K|right; left; reflexivity].
Qed.

Lemma fold_dedup_In_inv : forall (look : vref -> option avar) vdeps acc x,
  In x (fold_left (fun acc d => match look d with Some a => dedup_app acc (av_eqs a) | None => acc end) vdeps acc) ->
  In x acc \/ exists d a, In d vdeps /\ look d = Some a /\ In x (av_eqs a).
Proof.
  intros look vdeps. induction vdeps as [|d t IH]; intros acc x H; cbn [fold_left] in H; [left; exact H|].
  destruct (IH _ _ H) as [K|(d0 & a & A & B & C)].
  - destruct (look d) as [a|] eqn:E; [|left; exact K].
    destruct (dedup_app_In_inv _ _ _ K) as [K1|K1]; [left; exact K1|right]. exists d, a. split; [left; reflexivity|]. split; assumption.
  - right. exists d0, a. split; [right; exact A|]. split; assumption.
Qed.

Lemma make_aeq_external_deps_only : forall s ivs es avs j q,
  make_aeq s ivs es avs j = Some q -> ae_type q = QExternal ->
  forall k, In k (ae_deps q) ->
    exists p d a, In p (ie_unknown (gete es j)) /\ In d (iv_deps (geti ivs p)) /\
                  dep_lookup dependency_fix s ivs avs d = Some a /\ In k (av_eqs a).
Proof.
  intros s ivs es avs j q H Ht k Hk. unfold make_aeq in H.
  set (e := gete es j) in *. set (vars := filter_map (lookup_avar avs) (ie_unknown e)) in *.
  destruct (forallb (fun a => atype_eqb (av_type a) AExternal) vars) eqn:Ex.
  - inversion H; subst q. cbn [ae_deps] in Hk.
    destruct (fold_dedup_In_inv _ _ _ _ Hk) as [[]|(d & a & Hd & Hl & Hx)].
    apply in_flat_map in Hd. destruct Hd as (p & Hp & Hd). exists p, d, a. repeat split; assumption.
  - destruct (ie_type e); try discriminate; inversion H; subst q; cbn in Ht; discriminate.
Qed.

(** the packaged result: every dependency of an EXTERNAL equation is an API equation of the analyser variable of a
    declared dependency of a variable the equation computes *)
Theorem equation_dependencies_are_declared : forall s ty voi ivs es,
  let es3 := es ++ map (new_var_eq ivs) (filter (fun p => vtype_eqb (iv_type (geti ivs p)) VConstant) (seq 0 (length ivs))) in
  let avs := make_avars es3 ivs 0 0 0 in
  let r := package s ty voi ivs es in
  forall e, In e (r_eqs r) -> ae_type e = QExternal ->
  forall k, In k (ae_deps e) ->
    In k (all_pos r) /\
    exists p d a, In p (ie_unknown (gete es3 (ae_pos e))) /\ In d (iv_deps (geti ivs p)) /\
                  dep_lookup dependency_fix s ivs avs d = Some a /\ In k (av_eqs a).
Proof.
  intros s ty voi ivs es es3 avs r e He Ht k Hk.
  unfold r, package in He. cbn [r_eqs] in He. fold es3 in He. fold avs in He.
  apply in_map_iff in He. destruct He as (q & <- & Hq).
  apply filter_map_In in Hq. destruct Hq as (j & _ & Hj).
  cbn [clean_deps ae_type ae_pos ae_deps] in *.
  apply filter_In in Hk. destruct Hk as (Hk & Hpop).
  destruct (make_aeq_external_deps s ivs es3 avs j q Hj Ht) as (Hpos & _).
  split.
  - apply mem_nat_In in Hpop. unfold all_pos, r, package. cbn [r_eqs]. fold es3. fold avs.
    rewrite map_map. cbn [clean_deps ae_pos]. exact Hpop.
  - rewrite Hpos. eapply make_aeq_external_deps_only; eassumption.
Qed.

(** non-vacuity: in sysA with z marked (declared dependency y), the placeholder equation of z has exactly one dependency,
    the equation of y; with no declared dependency it has none *)
Lemma converse_example :
  option_map (fun r => map (fun e => (ae_type e, ae_vars e, ae_deps e)) (filter (fun e => qtype_eqb (ae_type e) QExternal) (r_eqs r)))
             (result_of (analyse_x true sysA mark_z_dep_y)) = Some [(QExternal, [(1, 1)], [1])] /\
  option_map (fun r => map (fun e => (ae_type e, ae_vars e, ae_deps e)) (filter (fun e => qtype_eqb (ae_type e) QExternal) (r_eqs r)))
             (result_of (analyse_x true sysA mark_k)) = Some [(QExternal, [(0, 2)], [])].
Proof. vm_compute. split; reflexivity. Qed.
