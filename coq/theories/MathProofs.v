(** MathProofs.v — lemmas about the MathML contract model (MathDefs.v), C01. *)
From Coq Require Import String Ascii List Bool Arith ZArith Lia.
From LC Require Import Common NumDefs NumPosDefs NumProofs MathDefs.
From LCGen Require Import MathTables AstTypes.
Import ListNotations.
Local Open Scope string_scope.
Local Open Scope list_scope.
Local Open Scope nat_scope.

(* ------------------------------------------------------------------------------------------------ induction on xml *)

Section XmlInd.
  Variable P : xml -> Prop.
  Hypothesis HE : forall ns n a kids, Forall P kids -> P (Elem ns n a kids).
  Hypothesis HT : forall s, P (Text s).
  Hypothesis HC : forall s, P (Comment s).
  Fixpoint xml_ind2 (x : xml) : P x :=
    match x with
    | Elem ns n a kids =>
        HE ns n a kids ((fix go (l : list xml) : Forall P l :=
                           match l with [] => Forall_nil P | k :: r => Forall_cons k (xml_ind2 k) (go r) end) kids)
    | Text s => HT s
    | Comment s => HC s
    end.
End XmlInd.

(* ------------------------------------------------------------------------------------------------ the validator never goes through null *)

Notation NV l := (~ In V_NULL_DEREF l).

Lemma nv_nil : NV (@nil rule).
Proof. intros []. Qed.
Lemma nv_one : forall r, r <> V_NULL_DEREF -> NV [r].
Proof. intros r H [E|[]]. congruence. Qed.
Lemma nv_app : forall a b, NV a -> NV b -> NV (a ++ b).
Proof. intros a b Ha Hb H. apply in_app_or in H. tauto. Qed.
Lemma nv_chk : forall ok r k, r <> V_NULL_DEREF -> NV k -> NV (chk ok r k).
Proof. intros [] r k Hr Hk; cbn; [exact Hk|now apply nv_one]. Qed.
Lemma nv_mm : forall ok k, NV k -> NV (mm ok k).
Proof. intros. apply nv_chk; [discriminate|assumption]. Qed.
Lemma nv_nth : forall pk idx i k, i < length pk -> NV k -> NV (is_nth_sibling pk idx i k).
Proof.
  intros pk idx i k Hlt Hk. unfold is_nth_sibling.
  destruct (nth_error pk i) eqn:E; [now apply nv_mm|].
  apply nth_error_None in E. lia.
Qed.
Lemma nv_first : forall pk idx n k, 2 <= length pk -> NV k -> NV (first_sibling_named pk idx n k).
Proof.
  intros pk idx n k Hlt Hk. unfold first_sibling_named.
  destruct (nth_error pk (if idx =? 0 then 1 else 0)) eqn:E; [now apply nv_mm|].
  apply nth_error_None in E. destruct (idx =? 0); lia.
Qed.

Lemma nv_ci : forall kids, NV (val_ci_struct kids).
Proof.
  intro kids. unfold val_ci_struct.
  destruct (non_comment_kids kids) as [|c [|d r]]; try (apply nv_one; discriminate).
  apply nv_chk; [discriminate|apply nv_nil].
Qed.
Lemma nv_cn : forall attrs kids, NV (val_cn_struct attrs kids).
Proof.
  intros attrs kids. unfold val_cn_struct.
  destruct (negb (str_is_empty (attribute "base" attrs)) && negb (attribute "base" attrs =? "10")%string);
    [apply nv_one; discriminate|].
  destruct (str_is_empty (attribute "type" attrs) || (attribute "type" attrs =? "real")%string).
  - destruct (non_comment_kids kids) as [|c [|d r]]; try (apply nv_one; discriminate).
    apply nv_chk; [discriminate|apply nv_nil].
  - destruct (attribute "type" attrs =? "e-notation")%string; [|apply nv_one; discriminate].
    destruct (non_comment_kids kids) as [|c [|d [|e [|f r]]]]; try (apply nv_one; discriminate).
    apply nv_chk; [discriminate|apply nv_nil].
Qed.

Ltac len_from H := first [apply Nat.eqb_eq in H | apply Nat.leb_le in H | idtac].

Lemma nv_node : forall fx pk idx n attrs kids sub, NV sub -> NV (val_node fx pk idx n attrs kids sub).
Proof.
  intros fx pk idx n attrs kids sub Hsub. unfold val_node.
  destruct (vclass_of n).
  - apply nv_chk; [discriminate|exact Hsub].
  - destruct (length pk =? 3) eqn:E; cbn; [|apply nv_one; discriminate].
    len_from E. apply nv_nth; [lia|apply nv_nil].
  - destruct (3 <=? length pk) eqn:E; cbn; [|apply nv_one; discriminate].
    len_from E. apply nv_nth; [lia|apply nv_nil].
  - destruct (length pk =? 2) eqn:E; cbn; [|apply nv_one; discriminate].
    len_from E. apply nv_nth; [lia|apply nv_nil].
  - destruct (2 <=? length pk) eqn:E; cbn; [|apply nv_one; discriminate].
    len_from E. apply nv_nth; [lia|apply nv_nil].
  - destruct ((length pk =? 2) || (length pk =? 3)) eqn:E; cbn; [|apply nv_one; discriminate].
    apply orb_true_iff in E. destruct E as [E|E]; len_from E; (apply nv_nth; [lia|apply nv_nil]).
  - destruct ((length pk =? 2) || (length pk =? 3)) eqn:E; cbn; [|apply nv_one; discriminate].
    apply orb_true_iff in E.
    assert (H1 : 0 < length pk) by (destruct E as [E|E]; len_from E; lia).
    apply nv_nth; [exact H1|].
    destruct (length pk =? 3) eqn:E3; [|apply nv_nil]. len_from E3. apply nv_first; [lia|apply nv_nil].
  - destruct ((length pk =? 2) || (length pk =? 3)) eqn:E; cbn; [|apply nv_one; discriminate].
    apply orb_true_iff in E.
    assert (H1 : 0 < length pk) by (destruct E as [E|E]; len_from E; lia).
    apply nv_nth; [exact H1|].
    destruct (length pk =? 3) eqn:E3; [|apply nv_nil]. len_from E3. apply nv_first; [lia|apply nv_nil].
  - destruct fx; [|apply nv_nil]. destruct (n =? "rem")%string.
    + destruct (length pk =? 3) eqn:E; cbn; [|apply nv_one; discriminate].
      len_from E. apply nv_nth; [lia|apply nv_nil].
    + destruct (3 <=? length pk) eqn:E; cbn; [|apply nv_one; discriminate].
      len_from E. apply nv_nth; [lia|apply nv_nil].
  - destruct (length pk =? 3) eqn:E; cbn; [|apply nv_one; discriminate].
    len_from E. apply nv_nth; [lia|]. apply nv_first; [lia|apply nv_nil].
  - exact Hsub.
  - apply nv_mm. exact Hsub.
  - apply nv_mm. exact Hsub.
  - apply nv_ci.
  - apply nv_cn.
  - destruct (length pk =? 2) eqn:E2.
    + len_from E2. apply nv_nth; [lia|]. apply nv_mm, nv_nil.
    + destruct (length pk =? 3) eqn:E3; [|apply nv_one; discriminate].
      len_from E3. apply nv_first; [lia|]. apply nv_nth; [lia|]. apply nv_mm, nv_nil.
  - destruct (length pk =? 3) eqn:E; cbn; [|apply nv_one; discriminate].
    len_from E. apply nv_first; [lia|]. apply nv_nth; [lia|]. apply nv_mm, nv_nil.
  - destruct (length pk =? 3) eqn:E; cbn; [|apply nv_one; discriminate].
    len_from E. apply nv_first; [lia|]. apply nv_nth; [lia|]. apply nv_mm, nv_nil.
  - apply nv_nil.
Qed.

Lemma nv_qwrap : forall q n r sub, NV r -> NV sub -> NV (qwrap q n r sub).
Proof. intros q n r sub Hr Hs. unfold qwrap. destruct (q && is_qualifier n); [destruct r|]; assumption. Qed.

Lemma nv_struct : forall q fx x pk idx, NV (val_struct_q q fx pk idx x).
Proof.
  intros q fx. induction x as [ns n attrs kids IH|s|s] using xml_ind2; intros pk idx; cbn [val_struct_q]; try apply nv_nil.
  destruct (negb (ns =? MATHML_NS)%string); [apply nv_nil|].
  assert (Hsub : forall mk i, NV ((fix go (ks : list xml) (i : nat) {struct ks} : list rule :=
                    match ks with
                    | [] => []
                    | k :: r => if is_mathml k then val_struct_q q fx mk i k ++ go r (S i) else go r i
                    end) kids i)).
  { induction IH as [|k r Hk _ IHr]; intros mk i; [apply nv_nil|].
    destruct (is_mathml k); [apply nv_app; [apply Hk|apply IHr]|apply IHr]. }
  apply nv_qwrap; [|apply Hsub].
  apply nv_node. apply Hsub.
Qed.

Lemma nv_struct_old_unused : True.
Proof.
  assert (H : True) by exact I.
  exact H.
Qed.

Lemma nv_struct_kids : forall q fx ks mk i, NV (val_struct_kids_q q fx mk ks i).
Proof.
  intros q fx. induction ks as [|k r IH]; intros mk i; cbn; [apply nv_nil|].
  destruct (is_mathml k); [apply nv_app; [apply nv_struct|apply IH]|apply IH].
Qed.

Lemma nv_supported : forall x, NV (val_supported x).
Proof.
  induction x as [ns n attrs kids IH|s|s] using xml_ind2; cbn [val_supported]; try apply nv_nil.
  apply nv_app; [destruct (is_supported _); [apply nv_nil|apply nv_one; discriminate]|].
  induction IH as [|k r Hk _ IHr]; [apply nv_nil|apply nv_app; assumption].
Qed.

Lemma nv_attr_scan : forall attrs u, NV (snd (cn_attr_scan attrs u)).
Proof.
  induction attrs as [|[[ns n] v] r IH]; intro u; cbn [cn_attr_scan]; [apply nv_nil|].
  destruct (str_is_empty v); [apply IH|].
  destruct ((ns =? CELLML_2_0_NS)%string && (n =? "units")%string); [apply IH|].
  destruct (ns =? CELLML_2_0_NS)%string; [|apply IH].
  specialize (IH u). destruct (cn_attr_scan r u) as [u' is]. cbn in *.
  intros [E|H]; [discriminate|tauto].
Qed.

Lemma nv_cicn : forall vars units x, NV (val_cicn vars units x).
Proof.
  intros vars units.
  induction x as [ns n attrs kids IH|s|s] using xml_ind2; cbn [val_cicn]; try apply nv_nil.
  apply nv_app.
  - destruct (is_mathml_el "cn" _).
    + unfold val_cn_units. pose proof (nv_attr_scan attrs "") as H.
      destruct (cn_attr_scan attrs "") as [u is]. cbn in H.
      apply nv_app; [exact H|].
      destruct (is_cellml_identifier u); [destruct (in_list u units); [apply nv_nil|apply nv_one; discriminate]|apply nv_one; discriminate].
    + destruct (is_mathml_el "ci" _); [|apply nv_nil].
      unfold val_ci_name. destruct (str_is_empty _); [apply nv_nil|].
      destruct (in_list _ vars); [apply nv_nil|apply nv_one; discriminate].
  - induction IH as [|k r Hk _ IHr]; [apply nv_nil|apply nv_app; assumption].
Qed.

(** The validator's own three passes never call through a null handle, whatever the tree. *)
Theorem val_null_safe : forall q fx vars units root, ~ In V_NULL_DEREF (val_math_env_gen2 q fx vars units root).
Proof.
  intros q fx vars units root. unfold val_math_env_gen2.
  destruct (negb (is_mathml_el "math" root)); [apply nv_one; discriminate|].
  apply nv_app; [|apply nv_app; [apply nv_cicn|apply nv_struct_kids]].
  induction (kids_of root) as [|k r IH]; [apply nv_nil|apply nv_app; [apply nv_supported|exact IH]].
Qed.

(* ------------------------------------------------------------------------------------------------ the gaps: witnesses *)

Definition x_eq (rhs : xml) : xml := m_math [m_eqn (m_ci "x") rhs].

(** DESIGN #33 (1): no arity rule for min / max / rem *)
Definition w_min_no_operand : xml := x_eq (m_apply "min" []).
Definition w_max_no_operand : xml := x_eq (m_apply "max" []).
Definition w_rem_no_operand : xml := x_eq (m_apply "rem" []).
Definition w_min_one_operand : xml := x_eq (m_apply "min" [m_ci "y"]).
(** DESIGN #33 (2): diff applied to something that is not a ci *)
Definition w_diff_non_ci : xml :=
  m_math [m_eqn (m_apply "diff" [m_el "bvar" [m_ci "t"]; m_cn "1"]) (m_ci "y")].
(** DESIGN #33 (3): a bare ci directly under math *)
Definition w_bare_ci : xml := m_math [m_ci "x"].
(** DESIGN #33 (4): an empty piecewise *)
Definition w_empty_piecewise : xml := x_eq (m_leaf "piecewise").
(** found by the enumeration: *)
Definition w_ci_comment_first : xml := x_eq (m_el "ci" [Comment "c"; Text "y"]).      (* name check skipped, lookup fails *)
Definition w_apply_without_operand : xml := x_eq (m_el "apply" [m_ci "y"]).           (* apply needs only one child *)
Definition w_unvalidated_degree : xml :=                                               (* children of degree/logbase/bvar are never visited *)
  x_eq (m_apply "root" [m_el "degree" [m_apply "divide" [m_ci "y"]]; m_ci "y"]).
Definition w_unvalidated_bvar : xml :=
  m_math [m_eqn (m_apply "diff" [m_el "bvar" [m_leaf "piecewise"]; m_ci "x"]) (m_ci "y")].
Definition w_not_equation_min : xml := m_math [m_apply "plus" [m_ci "x"; m_leaf "min"]].
(* token elements below a qualifier are not visited either: their own format rules never run *)
Definition w_ci_empty_in_bvar : xml :=
  m_math [m_eqn (m_apply "diff" [m_el "bvar" [m_el "ci" []]; m_ci "t"]) (m_ci "y")].
Definition cn_units : list attr := [(CELLML_2_0_NS, "units", "dimensionless")].
Definition w_cn_empty_in_degree : xml :=
  x_eq (m_apply "root" [m_el "degree" [Elem MATHML_NS "cn" cn_units []]; m_ci "y"]).
Definition w_cn_sep_in_degree : xml :=
  x_eq (m_apply "root" [m_el "degree" [Elem MATHML_NS "cn" cn_units [m_leaf "sep"]]; m_ci "y"]).

(** the code as it is now ([fx] = false) *)
Definition val_now (root : xml) : list rule := val_math_env_gen2 false false std_vars std_units root.
Definition val_fixed (root : xml) : list rule := val_math_env_gen2 false true std_vars std_units root.
(** with the repair of C04 (the arity pass descends into degree / logbase / bvar) *)
Definition val_qfixed (root : xml) : list rule := val_math_env_gen2 true false std_vars std_units root.
Definition gap (root : xml) (s : site) : Prop :=
  val_now root = [] /\ ana_math root = Crash s.

Lemma gap_min_no_operand : gap w_min_no_operand S_NodeNull.           Proof. split; vm_compute; reflexivity. Qed.
Lemma gap_max_no_operand : gap w_max_no_operand S_NodeNull.           Proof. split; vm_compute; reflexivity. Qed.
Lemma gap_rem_no_operand : gap w_rem_no_operand S_NodeNull.           Proof. split; vm_compute; reflexivity. Qed.
Lemma gap_min_one_operand : gap w_min_one_operand S_EqnNotPrintable.  Proof. split; vm_compute; reflexivity. Qed.
Lemma gap_diff_non_ci : gap w_diff_non_ci S_DiffNotCi.                Proof. split; vm_compute; reflexivity. Qed.
Lemma gap_bare_ci : gap w_bare_ci S_ExprNotPrintable.                 Proof. split; vm_compute; reflexivity. Qed.
Lemma gap_empty_piecewise : gap w_empty_piecewise S_ChildNodeOfEmpty. Proof. split; vm_compute; reflexivity. Qed.
Lemma gap_ci_comment_first : gap w_ci_comment_first S_CiNoVariable.   Proof. split; vm_compute; reflexivity. Qed.
Lemma gap_apply_without_operand : gap w_apply_without_operand S_NodeNull. Proof. split; vm_compute; reflexivity. Qed.
Lemma gap_unvalidated_degree : gap w_unvalidated_degree S_EqnNotPrintable. Proof. split; vm_compute; reflexivity. Qed.
Lemma gap_unvalidated_bvar : gap w_unvalidated_bvar S_ChildNodeOfEmpty. Proof. split; vm_compute; reflexivity. Qed.
Lemma gap_not_equation_min : gap w_not_equation_min S_ExprNotPrintable. Proof. split; vm_compute; reflexivity. Qed.
Lemma gap_ci_empty_in_bvar : gap w_ci_empty_in_bvar S_CiNoChild.         Proof. split; vm_compute; reflexivity. Qed.
Lemma gap_cn_empty_in_degree : gap w_cn_empty_in_degree S_CnNoChild.     Proof. split; vm_compute; reflexivity. Qed.
Lemma gap_cn_sep_in_degree : gap w_cn_sep_in_degree S_CnSepChain.        Proof. split; vm_compute; reflexivity. Qed.

(** what fixes/C01-mathml-arity.diff closes: the witnesses about min / max / rem are rejected *)
Lemma arity_fix_closes :
  val_fixed w_min_no_operand <> [] /\ val_fixed w_max_no_operand <> [] /\ val_fixed w_rem_no_operand <> []
  /\ val_fixed w_min_one_operand <> [] /\ val_fixed w_not_equation_min <> [].
Proof. repeat split; vm_compute; discriminate. Qed.

(** what fixes/C04-mathml-qualifier-children.diff closes: the witnesses that hide below a qualifier *)
Lemma qualifier_fix_closes :
  val_qfixed w_unvalidated_degree <> [] /\ val_qfixed w_ci_empty_in_bvar <> []
  /\ val_qfixed w_cn_empty_in_degree <> [] /\ val_qfixed w_cn_sep_in_degree <> [].
Proof. repeat split; vm_compute; discriminate. Qed.

Lemma gap_is_refutation : forall root s, gap root s -> val_now root = [] /\ ana root = None.
Proof. intros root s [Hv Ha]. split; [exact Hv|]. unfold ana, ana_node_opt, ana_math in *. now rewrite Ha. Qed.

(* ------------------------------------------------------------------------------------------------ std::stod in the power exponent *)

Lemma is_real_strtod : forall s, is_real s = true -> strtod_converts s = true.
Proof.
  intros s H. pose proof (convert_double_total s) as T.
  unfold convert_to_double, convert_to_double_gen in T. fold (is_real s) in T. rewrite H in T.
  destruct (strtod_converts s); [reflexivity|congruence].
Qed.

(** what the guard on initial_value does establish: a CellML real always converts — only the range is open *)
Lemma stod_real_partial : forall s, is_real s = true -> stod s <> StodInvalidArgument.
Proof.
  intros s H. unfold stod. rewrite (is_real_strtod s H). cbn.
  destruct (real_parts s) as [[[ng m] e]|]; [destruct (surely_out_of_range m e)|]; discriminate.
Qed.

Definition w_pow_iv_name : xml := x_eq (m_apply "power" [m_ci "y"; m_ci "z"]).
Definition w_pow_cn_range : xml := x_eq (m_apply "power" [m_ci "y"; m_cn_e "1" "400"]).

Lemma stod_unguarded_refuted :
  (* an initial_value that names a variable *)
  (initial_value_accepted std_vars "y" = true /\ stod "y" = StodInvalidArgument
   /\ val_now w_pow_iv_name = [] /\ pow_math_env std_vars [("z", "y")] w_pow_iv_name = Some StodInvalidArgument)
  (* an initial_value that is a CellML real outside the range of double *)
  /\ (initial_value_accepted std_vars "1e400" = true /\ stod "1e400" = StodOutOfRange
      /\ pow_math_env std_vars [("z", "1e400")] w_pow_iv_name = Some StodOutOfRange)
  (* an e-notation cn whose parts are fine one by one *)
  /\ (val_now w_pow_cn_range = [] /\ pow_math_env std_vars [] w_pow_cn_range = Some StodOutOfRange).
Proof. repeat split; vm_compute; reflexivity. Qed.

Lemma pow_ok_example : pow_math_env std_vars [("z", "2")] w_pow_iv_name = None /\ ana w_pow_iv_name <> None.
Proof. split; vm_compute; [reflexivity|discriminate]. Qed.
