(** MathProofs.v — lemmas about the MathML contract model (MathDefs.v), C01. *)
From Coq Require Import String Ascii List Bool Arith ZArith Lia.
From LC Require Import Common NumDefs NumPosDefs NumProofs MathDefs.
From LCGen Require Import MathTables AstTypes.
Import ListNotations.
Local Open Scope string_scope.
Local Open Scope list_scope.
Local Open Scope nat_scope.

(* ------------------------------------------------------------------------------------------------ induction on xml *)

Section XmlInd.
  Variable P : xml -> Prop.
  Hypothesis HE : forall ns n a kids, Forall P kids -> P (Elem ns n a kids).
  Hypothesis HT : forall s, P (Text s).
  Hypothesis HC : forall s, P (Comment s).
  Fixpoint xml_ind2 (x : xml) : P x :=
    match x with
    | Elem ns n a kids =>
        HE ns n a kids ((fix go (l : list xml) : Forall P l :=
                           match l with [] => Forall_nil P | k :: r => Forall_cons k (xml_ind2 k) (go r) end) kids)
    | Text s => HT s
    | Comment s => HC s
    end.
End XmlInd.

(* ------------------------------------------------------------------------------------------------ the validator never goes through null *)

Notation NV l := (~ In V_NULL_DEREF l).

Lemma nv_nil : NV (@nil rule).
Proof. intros []. Qed.
Lemma nv_one : forall r, r <> V_NULL_DEREF -> NV [r].
Proof. intros r H [E|[]]. congruence. Qed.
Lemma nv_app : forall a b, NV a -> NV b -> NV (a ++ b).
Proof. intros a b Ha Hb H. apply in_app_or in H. tauto. Qed.
Lemma nv_chk : forall ok r k, r <> V_NULL_DEREF -> NV k -> NV (chk ok r k).
Proof. intros [] r k Hr Hk; cbn; [exact Hk|now apply nv_one]. Qed.
Lemma nv_mm : forall ok k, NV k -> NV (mm ok k).
Proof. intros. apply nv_chk; [discriminate|assumption]. Qed.
Lemma nv_nth : forall pk idx i k, i < length pk -> NV k -> NV (is_nth_sibling pk idx i k).
Proof.
  intros pk idx i k Hlt Hk. unfold is_nth_sibling.
  destruct (nth_error pk i) eqn:E; [now apply nv_mm|].
  apply nth_error_None in E. lia.
Qed.
Lemma nv_first : forall pk idx n k, 2 <= length pk -> NV k -> NV (first_sibling_named pk idx n k).
Proof.
  intros pk idx n k Hlt Hk. unfold first_sibling_named.
  destruct (nth_error pk (if idx =? 0 then 1 else 0)) eqn:E; [now apply nv_mm|].
  apply nth_error_None in E. destruct (idx =? 0); lia.
Qed.

Lemma nv_ci : forall kids, NV (val_ci_struct kids).
Proof.
  intro kids. unfold val_ci_struct.
  destruct (non_comment_kids kids) as [|c [|d r]]; try (apply nv_one; discriminate).
  apply nv_chk; [discriminate|apply nv_nil].
Qed.
Lemma nv_cn : forall attrs kids, NV (val_cn_struct attrs kids).
Proof.
  intros attrs kids. unfold val_cn_struct.
  destruct (negb (str_is_empty (attribute "base" attrs)) && negb (attribute "base" attrs =? "10")%string);
    [apply nv_one; discriminate|].
  destruct (str_is_empty (attribute "type" attrs) || (attribute "type" attrs =? "real")%string).
  - destruct (non_comment_kids kids) as [|c [|d r]]; try (apply nv_one; discriminate).
    apply nv_chk; [discriminate|apply nv_nil].
  - destruct (attribute "type" attrs =? "e-notation")%string; [|apply nv_one; discriminate].
    destruct (non_comment_kids kids) as [|c [|d [|e [|f r]]]]; try (apply nv_one; discriminate).
    apply nv_chk; [discriminate|apply nv_nil].
Qed.

Ltac len_from H := first [apply Nat.eqb_eq in H | apply Nat.leb_le in H | idtac].

Lemma nv_node : forall fx pk idx n attrs kids sub, NV sub -> NV (val_node fx pk idx n attrs kids sub).
Proof.
  intros fx pk idx n attrs kids sub Hsub. unfold val_node.
  destruct (vclass_of n).
  - apply nv_chk; [discriminate|exact Hsub].
  - destruct (length pk =? 3) eqn:E; cbn; [|apply nv_one; discriminate].
    len_from E. apply nv_nth; [lia|apply nv_nil].
  - destruct (3 <=? length pk) eqn:E; cbn; [|apply nv_one; discriminate].
    len_from E. apply nv_nth; [lia|apply nv_nil].
  - destruct (length pk =? 2) eqn:E; cbn; [|apply nv_one; discriminate].
    len_from E. apply nv_nth; [lia|apply nv_nil].
  - destruct (2 <=? length pk) eqn:E; cbn; [|apply nv_one; discriminate].
    len_from E. apply nv_nth; [lia|apply nv_nil].
  - destruct ((length pk =? 2) || (length pk =? 3)) eqn:E; cbn; [|apply nv_one; discriminate].
    apply orb_true_iff in E. destruct E as [E|E]; len_from E; (apply nv_nth; [lia|apply nv_nil]).
  - destruct ((length pk =? 2) || (length pk =? 3)) eqn:E; cbn; [|apply nv_one; discriminate].
    apply orb_true_iff in E.
    assert (H1 : 0 < length pk) by (destruct E as [E|E]; len_from E; lia).
    apply nv_nth; [exact H1|].
    destruct (length pk =? 3) eqn:E3; [|apply nv_nil]. len_from E3. apply nv_first; [lia|apply nv_nil].
  - destruct ((length pk =? 2) || (length pk =? 3)) eqn:E; cbn; [|apply nv_one; discriminate].
    apply orb_true_iff in E.
    assert (H1 : 0 < length pk) by (destruct E as [E|E]; len_from E; lia).
    apply nv_nth; [exact H1|].
    destruct (length pk =? 3) eqn:E3; [|apply nv_nil]. len_from E3. apply nv_first; [lia|apply nv_nil].
  - destruct fx; [|apply nv_nil]. destruct (n =? "rem")%string.
    + destruct (length pk =? 3) eqn:E; cbn; [|apply nv_one; discriminate].
      len_from E. apply nv_nth; [lia|apply nv_nil].
    + destruct (3 <=? length pk) eqn:E; cbn; [|apply nv_one; discriminate].
      len_from E. apply nv_nth; [lia|apply nv_nil].
  - destruct (length pk =? 3) eqn:E; cbn; [|apply nv_one; discriminate].
    len_from E. apply nv_nth; [lia|]. apply nv_first; [lia|apply nv_nil].
  - exact Hsub.
  - apply nv_mm. exact Hsub.
  - apply nv_mm. exact Hsub.
  - apply nv_ci.
  - apply nv_cn.
  - destruct (length pk =? 2) eqn:E2.
    + len_from E2. apply nv_nth; [lia|]. apply nv_mm, nv_nil.
    + destruct (length pk =? 3) eqn:E3; [|apply nv_one; discriminate].
      len_from E3. apply nv_first; [lia|]. apply nv_nth; [lia|]. apply nv_mm, nv_nil.
  - destruct (length pk =? 3) eqn:E; cbn; [|apply nv_one; discriminate].
    len_from E. apply nv_first; [lia|]. apply nv_nth; [lia|]. apply nv_mm, nv_nil.
  - destruct (length pk =? 3) eqn:E; cbn; [|apply nv_one; discriminate].
    len_from E. apply nv_first; [lia|]. apply nv_nth; [lia|]. apply nv_mm, nv_nil.
  - apply nv_nil.
Qed.

Lemma nv_qwrap : forall q n r sub, NV r -> NV sub -> NV (qwrap q n r sub).
Proof. intros q n r sub Hr Hs. unfold qwrap. destruct (q && is_qualifier n); [destruct r|]; assumption. Qed.

Lemma diff_nil_len : forall fx pk idx attrs kids sub, val_node fx pk idx "diff" attrs kids sub = [] -> length pk = 3.
Proof.
  intros fx pk idx attrs kids sub. unfold val_node. change (vclass_of "diff") with VDiff. cbn beta iota.
  destruct (length pk =? 3) eqn:E; [intros _; now apply Nat.eqb_eq in E|cbn; discriminate].
Qed.

Lemma nv_dwrap : forall df pk n r, NV r -> (n = "diff" -> r = [] -> 3 <= length pk) -> NV (dwrap df pk n r).
Proof.
  intros df pk n r Hr Hlen. unfold dwrap. destruct (df && (n =? "diff")%string) eqn:E; [|exact Hr].
  apply andb_true_iff in E. destruct E as [_ E]. apply String.eqb_eq in E.
  destruct r; [|exact Hr]. specialize (Hlen E eq_refl).
  destruct (nth_error pk 2) eqn:N; [apply nv_mm, nv_nil|]. apply nth_error_None in N. lia.
Qed.

Lemma nv_struct : forall df q fx x pk idx, NV (val_struct_d df q fx pk idx x).
Proof.
  intros df q fx. induction x as [ns n attrs kids IH|s|s] using xml_ind2; intros pk idx; cbn [val_struct_d]; try apply nv_nil.
  destruct (negb (ns =? MATHML_NS)%string); [apply nv_nil|].
  assert (Hsub : forall mk i, NV ((fix go (ks : list xml) (i : nat) {struct ks} : list rule :=
                    match ks with
                    | [] => []
                    | k :: r => if is_mathml k then val_struct_d df q fx mk i k ++ go r (S i) else go r i
                    end) kids i)).
  { induction IH as [|k r Hk _ IHr]; intros mk i; [apply nv_nil|].
    destruct (is_mathml k); [apply nv_app; [apply Hk|apply IHr]|apply IHr]. }
  apply nv_dwrap.
  - apply nv_qwrap; [|apply Hsub]. apply nv_node. apply Hsub.
  - intros -> Hr. unfold qwrap in Hr. change (is_qualifier "diff") with false in Hr. rewrite Bool.andb_false_r in Hr.
    rewrite (diff_nil_len _ _ _ _ _ _ Hr). lia.
Qed.

Lemma nv_struct_old_unused : True.
Proof.
  assert (H : True) by exact I.
  exact H.
Qed.

Lemma nv_struct_kids : forall df q fx ks mk i, NV (val_struct_kids_d df q fx mk ks i).
Proof.
  intros df q fx. induction ks as [|k r IH]; intros mk i; cbn; [apply nv_nil|].
  destruct (is_mathml k); [apply nv_app; [apply nv_struct|apply IH]|apply IH].
Qed.

Lemma nv_supported : forall x, NV (val_supported x).
Proof.
  induction x as [ns n attrs kids IH|s|s] using xml_ind2; cbn [val_supported]; try apply nv_nil.
  apply nv_app; [destruct (is_supported _); [apply nv_nil|apply nv_one; discriminate]|].
  induction IH as [|k r Hk _ IHr]; [apply nv_nil|apply nv_app; assumption].
Qed.

Lemma nv_attr_scan : forall attrs u, NV (snd (cn_attr_scan attrs u)).
Proof.
  induction attrs as [|[[ns n] v] r IH]; intro u; cbn [cn_attr_scan]; [apply nv_nil|].
  destruct (str_is_empty v); [apply IH|].
  destruct ((ns =? CELLML_2_0_NS)%string && (n =? "units")%string); [apply IH|].
  destruct (ns =? CELLML_2_0_NS)%string; [|apply IH].
  specialize (IH u). destruct (cn_attr_scan r u) as [u' is]. cbn in *.
  intros [E|H]; [discriminate|tauto].
Qed.

Lemma nv_cicn : forall cf vars units x, NV (val_cicn_gen cf vars units x).
Proof.
  intros cf vars units.
  induction x as [ns n attrs kids IH|s|s] using xml_ind2; cbn [val_cicn_gen]; try apply nv_nil.
  apply nv_app.
  - destruct (is_mathml_el "cn" _).
    + unfold val_cn_units. pose proof (nv_attr_scan attrs "") as H.
      destruct (cn_attr_scan attrs "") as [u is]. cbn in H.
      apply nv_app; [exact H|].
      destruct (is_cellml_identifier u); [destruct (in_list u units); [apply nv_nil|apply nv_one; discriminate]|apply nv_one; discriminate].
    + destruct (is_mathml_el "ci" _); [|apply nv_nil].
      unfold val_ci_name_gen, val_ci_name. destruct cf.
      * destruct (str_is_empty _); [apply nv_nil|].
        destruct (in_list _ vars); [apply nv_nil|apply nv_one; discriminate].
      * destruct (str_is_empty _); [apply nv_nil|].
        destruct (in_list _ vars); [apply nv_nil|apply nv_one; discriminate].
  - induction IH as [|k r Hk _ IHr]; [apply nv_nil|apply nv_app; assumption].
Qed.

(** The validator's own three passes never call through a null handle, whatever the tree. *)
Theorem val_null_safe : forall cf df q fx vars units root, ~ In V_NULL_DEREF (val_math_env_gen3 cf df q fx vars units root).
Proof.
  intros cf df q fx vars units root. unfold val_math_env_gen3.
  destruct (negb (is_mathml_el "math" root)); [apply nv_one; discriminate|].
  apply nv_app; [|apply nv_app; [apply nv_cicn|apply nv_struct_kids]].
  induction (kids_of root) as [|k r IH]; [apply nv_nil|apply nv_app; [apply nv_supported|exact IH]].
Qed.

(* ------------------------------------------------------------------------------------------------ the gaps: witnesses *)

Definition x_eq (rhs : xml) : xml := m_math [m_eqn (m_ci "x") rhs].

(** DESIGN #33 (1): no arity rule for min / max / rem *)
Definition w_min_no_operand : xml := x_eq (m_apply "min" []).
Definition w_max_no_operand : xml := x_eq (m_apply "max" []).
Definition w_rem_no_operand : xml := x_eq (m_apply "rem" []).
Definition w_min_one_operand : xml := x_eq (m_apply "min" [m_ci "y"]).
(** DESIGN #33 (2): diff applied to something that is not a ci *)
Definition w_diff_non_ci : xml :=
  m_math [m_eqn (m_apply "diff" [m_el "bvar" [m_ci "t"]; m_cn "1"]) (m_ci "y")].
(** DESIGN #33 (3): a bare ci directly under math *)
Definition w_bare_ci : xml := m_math [m_ci "x"].
(** DESIGN #33 (4): an empty piecewise *)
Definition w_empty_piecewise : xml := x_eq (m_leaf "piecewise").
(** found by the enumeration: *)
Definition w_ci_comment_first : xml := x_eq (m_el "ci" [Comment "c"; Text "y"]).      (* name check skipped, lookup fails *)
Definition w_apply_without_operand : xml := x_eq (m_el "apply" [m_ci "y"]).           (* apply needs only one child *)
Definition w_unvalidated_degree : xml :=                                               (* children of degree/logbase/bvar are never visited *)
  x_eq (m_apply "root" [m_el "degree" [m_apply "divide" [m_ci "y"]]; m_ci "y"]).
Definition w_unvalidated_bvar : xml :=
  m_math [m_eqn (m_apply "diff" [m_el "bvar" [m_leaf "piecewise"]; m_ci "x"]) (m_ci "y")].
Definition w_not_equation_min : xml := m_math [m_apply "plus" [m_ci "x"; m_leaf "min"]].
(* token elements below a qualifier are not visited either: their own format rules never run *)
Definition w_ci_empty_in_bvar : xml :=
  m_math [m_eqn (m_apply "diff" [m_el "bvar" [m_el "ci" []]; m_ci "t"]) (m_ci "y")].
Definition cn_units : list attr := [(CELLML_2_0_NS, "units", "dimensionless")].
Definition w_cn_empty_in_degree : xml :=
  x_eq (m_apply "root" [m_el "degree" [Elem MATHML_NS "cn" cn_units []]; m_ci "y"]).
Definition w_cn_sep_in_degree : xml :=
  x_eq (m_apply "root" [m_el "degree" [Elem MATHML_NS "cn" cn_units [m_leaf "sep"]]; m_ci "y"]).

(** the code as it is now ([fx] = false) *)
Definition val_now (root : xml) : list rule := val_math_env_gen3 false false false false std_vars std_units root.
Definition val_fixed (root : xml) : list rule := val_math_env_gen3 false false false true std_vars std_units root.
(** with the repair of C04 (the arity pass descends into degree / logbase / bvar) *)
Definition val_qfixed (root : xml) : list rule := val_math_env_gen3 false false true false std_vars std_units root.
(** with fixes/C01-diff-operand-ci.diff *)
Definition val_dfixed (root : xml) : list rule := val_math_env_gen3 false true false false std_vars std_units root.
(** the validator with every repair, and the analyser / generator with every repair *)
Definition val_all (root : xml) : list rule := val_math_env_gen3 true true true true std_vars std_units root.
Definition afix_all : afix := {| af_ci_comment := true; af_guards := true; af_gen_null := true |}.
Definition afix_ci : afix := {| af_ci_comment := true; af_guards := false; af_gen_null := false |}.
Definition gap (root : xml) (s : site) : Prop :=
  val_now root = [] /\ ana_math_gen afix_none root = Crash s.

Lemma gap_min_no_operand : gap w_min_no_operand S_NodeNull.           Proof. split; vm_compute; reflexivity. Qed.
Lemma gap_max_no_operand : gap w_max_no_operand S_NodeNull.           Proof. split; vm_compute; reflexivity. Qed.
Lemma gap_rem_no_operand : gap w_rem_no_operand S_NodeNull.           Proof. split; vm_compute; reflexivity. Qed.
Lemma gap_min_one_operand : gap w_min_one_operand S_EqnNotPrintable.  Proof. split; vm_compute; reflexivity. Qed.
Lemma gap_diff_non_ci : gap w_diff_non_ci S_DiffNotCi.                Proof. split; vm_compute; reflexivity. Qed.
Lemma gap_bare_ci : gap w_bare_ci S_ExprNotPrintable.                 Proof. split; vm_compute; reflexivity. Qed.
Lemma gap_empty_piecewise : gap w_empty_piecewise S_ChildNodeOfEmpty. Proof. split; vm_compute; reflexivity. Qed.
Lemma gap_ci_comment_first : gap w_ci_comment_first S_CiNoVariable.   Proof. split; vm_compute; reflexivity. Qed.
Lemma gap_apply_without_operand : gap w_apply_without_operand S_NodeNull. Proof. split; vm_compute; reflexivity. Qed.
Lemma gap_unvalidated_degree : gap w_unvalidated_degree S_EqnNotPrintable. Proof. split; vm_compute; reflexivity. Qed.
Lemma gap_unvalidated_bvar : gap w_unvalidated_bvar S_ChildNodeOfEmpty. Proof. split; vm_compute; reflexivity. Qed.
Lemma gap_not_equation_min : gap w_not_equation_min S_ExprNotPrintable. Proof. split; vm_compute; reflexivity. Qed.
Lemma gap_ci_empty_in_bvar : gap w_ci_empty_in_bvar S_CiNoChild.         Proof. split; vm_compute; reflexivity. Qed.
Lemma gap_cn_empty_in_degree : gap w_cn_empty_in_degree S_CnNoChild.     Proof. split; vm_compute; reflexivity. Qed.
Lemma gap_cn_sep_in_degree : gap w_cn_sep_in_degree S_CnSepChain.        Proof. split; vm_compute; reflexivity. Qed.

(** what fixes/C01-mathml-arity.diff closes: the witnesses about min / max / rem are rejected *)
Lemma arity_fix_closes :
  val_fixed w_min_no_operand <> [] /\ val_fixed w_max_no_operand <> [] /\ val_fixed w_rem_no_operand <> []
  /\ val_fixed w_min_one_operand <> [] /\ val_fixed w_not_equation_min <> [].
Proof. repeat split; vm_compute; discriminate. Qed.

(** what fixes/C04-mathml-qualifier-children.diff closes: the witnesses that hide below a qualifier *)
Lemma qualifier_fix_closes :
  val_qfixed w_unvalidated_degree <> [] /\ val_qfixed w_ci_empty_in_bvar <> []
  /\ val_qfixed w_cn_empty_in_degree <> [] /\ val_qfixed w_cn_sep_in_degree <> [].
Proof. repeat split; vm_compute; discriminate. Qed.

(** commit 064d865 (both sides take the first non-comment child of ci): the witness is read, and still accepted *)
Lemma ci_comment_fix_closes :
  val_math_env_gen3 true false false false std_vars std_units w_ci_comment_first = []
  /\ ana_gen afix_ci w_ci_comment_first <> None
  /\ ana_gen afix_none w_ci_comment_first = None.
Proof. repeat split; vm_compute; (reflexivity || discriminate). Qed.

(** fixes/C01-diff-operand-ci.diff: the validator rejects diff of a non-ci *)
Lemma diff_ci_fix_closes : val_dfixed w_diff_non_ci <> [] /\ val_now w_diff_non_ci = [].
Proof. split; vm_compute; (reflexivity || discriminate). Qed.

(** with every repair (committed and proposed) each of the fifteen witnesses is either rejected by the validator or read
    by the analyser without a null dereference *)
Definition closed (w : xml) : Prop := val_all w <> [] \/ ana_gen afix_all w <> None.
Lemma all_repairs_close :
  closed w_min_no_operand /\ closed w_max_no_operand /\ closed w_rem_no_operand /\ closed w_min_one_operand
  /\ closed w_diff_non_ci /\ closed w_bare_ci /\ closed w_not_equation_min /\ closed w_empty_piecewise
  /\ closed w_ci_comment_first /\ closed w_apply_without_operand /\ closed w_unvalidated_degree
  /\ closed w_unvalidated_bvar /\ closed w_ci_empty_in_bvar /\ closed w_cn_empty_in_degree /\ closed w_cn_sep_in_degree.
Proof.
  repeat split; first [left; vm_compute; discriminate | right; vm_compute; discriminate].
Qed.

Lemma gap_is_refutation : forall root s, gap root s -> val_now root = [] /\ ana_gen afix_none root = None.
Proof. intros root s [Hv Ha]. split; [exact Hv|]. unfold ana_gen. now rewrite Ha. Qed.

(* ------------------------------------------------------------------------------------------------ std::stod in the power exponent *)

Lemma is_real_strtod : forall s, is_real s = true -> strtod_converts s = true.
Proof.
  intros s H. pose proof (convert_double_total s) as T.
  unfold convert_to_double, convert_to_double_gen in T. fold (is_real s) in T. rewrite H in T.
  destruct (strtod_converts s); [reflexivity|congruence].
Qed.

(** what the guard on initial_value does establish: a CellML real always converts — only the range is open *)
Lemma stod_real_partial : forall s, is_real s = true -> stod s <> StodInvalidArgument.
Proof.
  intros s H. unfold stod. rewrite (is_real_strtod s H). cbn.
  destruct (real_parts s) as [[[ng m] e]|]; [destruct (surely_out_of_range m e)|]; discriminate.
Qed.

Definition w_pow_iv_name : xml := x_eq (m_apply "power" [m_ci "y"; m_ci "z"]).
Definition w_pow_cn_range : xml := x_eq (m_apply "power" [m_ci "y"; m_cn_e "1" "400"]).

Lemma stod_unguarded_refuted :
  (* an initial_value that names a variable *)
  (initial_value_accepted std_vars "y" = true /\ stod "y" = StodInvalidArgument
   /\ val_now w_pow_iv_name = [] /\ pow_math_env_gen afix_none false std_vars [("z", "y")] w_pow_iv_name = Some StodInvalidArgument)
  (* an initial_value that is a CellML real outside the range of double *)
  /\ (initial_value_accepted std_vars "1e400" = true /\ stod "1e400" = StodOutOfRange
      /\ pow_math_env_gen afix_none false std_vars [("z", "1e400")] w_pow_iv_name = Some StodOutOfRange)
  (* an e-notation cn whose parts are fine one by one *)
  /\ (val_now w_pow_cn_range = [] /\ pow_math_env_gen afix_none false std_vars [] w_pow_cn_range = Some StodOutOfRange).
Proof. repeat split; vm_compute; reflexivity. Qed.

Lemma pow_ok_example :
  pow_math_env_gen afix_none false std_vars [("z", "2")] w_pow_iv_name = None /\ ana_gen afix_none w_pow_iv_name <> None.
Proof. split; vm_compute; [reflexivity|discriminate]. Qed.

(** commit 82725c7 (convertToDouble instead of std::stod): the evaluation of an exponent never throws *)
Lemma number_of_fixed : forall s e, number_of true s <> PvThrow e.
Proof.
  intros s e. unfold number_of. destruct (is_real s) eqn:R; [|discriminate].
  pose proof (stod_real_partial s R) as H. destruct (stod s); try discriminate. congruence.
Qed.

Lemma power_value_a_fixed : forall ivs a avail e, power_value_a true ivs a avail <> PvThrow e.
Proof.
  intro ivs.
  fix IH 1. intros [t v x l r] avail e. cbn [power_value_a].
  destruct l as [cl|].
  - pose proof (IH cl avail) as Hl. destruct (power_value_a true ivs cl avail) as [[|]|el]; [|discriminate|now specialize (Hl el)].
    destruct r as [cr|].
    + pose proof (IH cr true) as Hr. destruct (power_value_a true ivs cr true) as [[|]|er]; [|discriminate|now specialize (Hr er)].
      destruct t; try (destruct (pv_unavailable_type _); discriminate);
        try (destruct (str_is_empty _); [discriminate|apply number_of_fixed]); apply number_of_fixed.
    + destruct t; try (destruct (pv_unavailable_type _); discriminate);
        try (destruct (str_is_empty _); [discriminate|apply number_of_fixed]); apply number_of_fixed.
  - destruct avail; [|discriminate].
    destruct r as [cr|].
    + pose proof (IH cr true) as Hr. destruct (power_value_a true ivs cr true) as [[|]|er]; [|discriminate|now specialize (Hr er)].
      destruct t; try (destruct (pv_unavailable_type _); discriminate);
        try (destruct (str_is_empty _); [discriminate|apply number_of_fixed]); apply number_of_fixed.
    + destruct t; try (destruct (pv_unavailable_type _); discriminate);
        try (destruct (str_is_empty _); [discriminate|apply number_of_fixed]); apply number_of_fixed.
Qed.

Theorem stod_fix_total :
  (forall ivs a avail e, power_value true ivs a avail <> PvThrow e)
  /\ (forall F vars ivs root, pow_math_env_gen F true vars ivs root = None).
Proof.
  assert (P : forall ivs a avail e, power_value true ivs a avail <> PvThrow e).
  { intros ivs [a|] avail e; cbn [power_value]; [apply power_value_a_fixed|discriminate]. }
  split; [exact P|].
  assert (U : forall ivs a, units_pass_a true ivs a = None).
  { intro ivs. fix IH 1. intros [t v x l r]. cbn [units_pass_a].
    assert (Hl : match l with Some c => units_pass_a true ivs c | None => None end = None) by (destruct l; [apply IH|reflexivity]).
    assert (Hr : match r with Some c => units_pass_a true ivs c | None => None end = None) by (destruct r; [apply IH|reflexivity]).
    rewrite Hl, Hr.
    destruct t; try reflexivity.
    - pose proof (P ivs r true) as H. destruct (power_value true ivs r true); [reflexivity|now specialize (H r0)].
    - destruct l as [[tl vl xl ll rl]|]; [|reflexivity]. destruct tl; try reflexivity.
      pose proof (P ivs (Some (Ast DEGREE vl xl ll rl)) true) as H.
      destruct (power_value true ivs (Some (Ast DEGREE vl xl ll rl)) true); [reflexivity|now specialize (H r0)]. }
  intros F vars ivs root. unfold pow_math_env_gen. destruct (ana_math_env_gen F vars root) as [eqs|]; [|reflexivity].
  induction eqs as [|a r IH]; [reflexivity|]. cbn [units_pass_all]. now rewrite U.
Qed.
