(** GlobalDefs.v — C12 "operations are pure": the process-global state of libxml2 that libcellml writes,
    made explicit, and the consumers of XML trees that read documents parsed under it.  No proofs here.

    What is modelled (each definition cites the code it transcribes, as it is NOW in /repo):

    * the process-global state [gstate]: libxml2's xmlKeepBlanksDefaultValue (written by
      src/printer.cpp: PrinterImpl::printMath, Printer::printModel -> 0; src/xmlnode.cpp:
      XmlNode::convertToString -> 1; read by every xmlCtxtReadDoc of src/xmldoc.cpp: XmlDoc::parse /
      parseMathML because they pass options = 0), the structured error handler (src/xmldoc.cpp: set, then
      reset to NULL by every parse) and the function-local static [mathMLDTD] cache of XmlDoc::parseMathML.
      The regenerated table LCGen.GlobalSites lists every writer of process-global state found in
      /repo/src; Properties_C12 proves that the list is exactly the one modelled here.
    * XML trees with text and comment nodes, and [strip]: what xmlKeepBlanksDefault(0) removes
      (libxml2 parser.c: areBlanks, the heuristic used when no DTD is present).
    * the XmlNode primitives (firstChild, convertToString, convertToStrippedString) with the side effect
      "sets the flag to 1" made explicit as a returned [touched] bit.
    * the consumers: the parser's structure loader (the child-dispatch loop shared by every load* function
      of src/parser.cpp), math capture, multiRootXml, the validator's walk over a math document, the
      analyser's walk, PrinterImpl::printMath.
    * the issue list of a service object and which entry points clear it (table LCGen.GlobalSites.reset_sites).
    * which objects a service writes to (frame model for Printer / Validator / Analyser / Generator /
      Importer::flattenModel).

    NOT modelled (assumption A-xml): the text -> tree step of libxml2 itself.  A document is given to the
    model as the tree libxml2 builds with xmlKeepBlanksDefault(1); [strip] of it is what it builds with 0;
    serialising a tree with xmlNodeDump and parsing the text again gives the same tree. *)
From Coq Require Import String Ascii List Bool Arith.
Import ListNotations.
Local Open Scope string_scope.
Local Open Scope bool_scope.

(** * 1. XML trees *)

(** [attrs]: qualified name and value, namespace declarations included, in document order (libxml2 keeps
    nsDef before properties; the generators write them in that order). *)
Inductive xml :=
| Elem (ns name : string) (attrs : list (string * string)) (kids : list xml)
| Text (s : string)
| Comment (s : string).

Definition is_text (x : xml) : bool := match x with Text _ => true | _ => false end.
Definition is_comment (x : xml) : bool := match x with Comment _ => true | _ => false end.
Definition is_elem (x : xml) : bool := match x with Elem _ _ _ _ => true | _ => false end.
Definition is_nil {A} (l : list A) : bool := match l with [] => true | _ => false end.

Definition CELLML_2_0_NS := "http://www.cellml.org/cellml/2.0#".
Definition MATHML_NS := "http://www.w3.org/1998/Math/MathML".

(* src/xmlnode.cpp: XmlNode::isElement(name, ns), isMathmlElement(name = nullptr) *)
Definition is_element (ns name : string) (x : xml) : bool :=
  match x with Elem n nm _ _ => String.eqb n ns && String.eqb nm name | _ => false end.
Definition is_mathml (x : xml) : bool :=
  match x with Elem n _ _ _ => String.eqb n MATHML_NS | _ => false end.
Definition xml_name (x : xml) : string := match x with Elem _ n _ _ => n | Text _ => "text" | Comment _ => "comment" end.
Definition xml_kids (x : xml) : list xml := match x with Elem _ _ _ k => k | _ => [] end.
Definition xml_attrs (x : xml) : list (string * string) := match x with Elem _ _ a _ => a | _ => [] end.

Fixpoint str_all (p : ascii -> bool) (s : string) : bool :=
  match s with EmptyString => true | String c r => p c && str_all p r end.

(** libxml2 IS_BLANK_CH is 0x20 | 0x9 | 0xA | 0xD.  A CR never reaches areBlanks: in character data it is
    normalised to LF first (XML 1.0 2.11) and a CR written as a character reference is delivered by
    xmlParseReference straight to characters().  So the blank characters of a text node are these three. *)
Definition is_blank_ch (c : ascii) : bool :=
  match nat_of_ascii c with 32 | 9 | 10 => true | _ => false end.
(** C isspace in the "C" locale (used by convertToStrippedString, hasNonWhitespaceCharacters) *)
Definition is_space_ch (c : ascii) : bool :=
  match nat_of_ascii c with 32 | 9 | 10 | 11 | 12 | 13 => true | _ => false end.

(** a text node libxml2 may treat as ignorable: non-empty (the parser never builds an empty text node) and blank *)
Definition xml_blank (s : string) : bool := negb (String.eqb s "") && str_all is_blank_ch s.
Definition is_blank_text (x : xml) : bool := match x with Text s => xml_blank s | _ => false end.

(** * 2. What xmlKeepBlanksDefault(0) removes — libxml2 parser.c: areBlanks (no DTD, no xml:space)

    [st] describes the children already attached to the element being parsed when the blank run ends:
    [None] = none yet (ctxt->node->children == NULL), [Some (f, l)] = the first / the last child is a text
    node.  [last] = the run is followed by the end tag of the element.

      if (ctxt->node->children == NULL && RAW == '<' && NXT(1) == '/') return 0;     keep
      lastChild == NULL                                     -> falls through to      return 1 (ignore)
      xmlNodeIsText(lastChild)                              -> return 0;             keep
      ctxt->node->children != NULL && xmlNodeIsText(children) -> return 0;           keep
      return 1;                                                                     ignore            *)
Definition are_blanks (st : option (bool * bool)) (last : bool) : bool :=
  match st with
  | None => negb last
  | Some (f, l) => negb l && negb f
  end.

Definition push_child (st : option (bool * bool)) (txt : bool) : option (bool * bool) :=
  match st with
  | None => Some (txt, txt)
  | Some (f, _) => Some (f, txt)
  end.

Fixpoint strip_kids (st : option (bool * bool)) (ks : list xml) : list xml :=
  match ks with
  | [] => []
  | k :: rest =>
      if is_blank_text k && are_blanks st (is_nil rest) then strip_kids st rest
      else k :: strip_kids (push_child st (is_text k)) rest
  end.

Fixpoint strip (t : xml) : xml :=
  match t with
  | Elem ns n a ks => Elem ns n a (strip_kids None (map strip ks))
  | _ => t
  end.

(** the children of an element (or the top-level nodes of a wrapped fragment) as parsed with the flag off *)
Definition strip_forest (ks : list xml) : list xml := strip_kids None (map strip ks).

(** src/xmldoc.cpp: XmlDoc::parse under the flag value [g] (options = 0: the default is used) *)
Definition as_parsed (g : bool) (t : xml) : xml := if g then t else strip t.
Definition forest_as_parsed (g : bool) (ks : list xml) : list xml := if g then ks else strip_forest ks.

(** * 3. Serialisation — xmlNodeDump(buffer, doc, node, 0, 0), as used by XmlNode::convertToString *)

Definition esc_text_ch (c : ascii) : string :=
  match nat_of_ascii c with
  | 38 => "&amp;" | 60 => "&lt;" | 62 => "&gt;" | 13 => "&#13;"
  | _ => String c EmptyString
  end.
Definition esc_attr_ch (c : ascii) : string :=
  match nat_of_ascii c with
  | 38 => "&amp;" | 60 => "&lt;" | 62 => "&gt;" | 34 => "&quot;"
  | 9 => "&#9;" | 10 => "&#10;" | 13 => "&#13;"
  | _ => String c EmptyString
  end.
Fixpoint str_flat_map (f : ascii -> string) (s : string) : string :=
  match s with EmptyString => EmptyString | String c r => f c ++ str_flat_map f r end.
Definition esc_text := str_flat_map esc_text_ch.
Definition esc_attr := str_flat_map esc_attr_ch.

Definition dquote : string := String (ascii_of_nat 34) EmptyString.

Fixpoint ser_attrs (a : list (string * string)) : string :=
  match a with
  | [] => ""
  | (n, v) :: r => " " ++ n ++ "=" ++ dquote ++ esc_attr v ++ dquote ++ ser_attrs r
  end.

Fixpoint concat_str (l : list string) : string := match l with [] => "" | x :: r => x ++ concat_str r end.

Fixpoint ser (t : xml) : string :=
  match t with
  | Elem _ n a ks =>
      match ks with
      | [] => "<" ++ n ++ ser_attrs a ++ "/>"
      | _ => "<" ++ n ++ ser_attrs a ++ ">" ++ concat_str (map ser ks) ++ "</" ++ n ++ ">"
      end
  | Text s => esc_text s
  | Comment s => "<!--" ++ s ++ "-->"
  end.

(** * 4. XmlNode primitives; the [bool] is "convertToString ran", i.e. xmlKeepBlanksDefault(1) was called *)

Fixpoint ltrim (s : string) : string :=
  match s with EmptyString => EmptyString | String c r => if is_space_ch c then ltrim r else s end.
Fixpoint str_rev_app (s acc : string) : string :=
  match s with EmptyString => acc | String c r => str_rev_app r (String c acc) end.
Definition str_rev (s : string) : string := str_rev_app s EmptyString.
(* src/xmlnode.cpp: XmlNode::convertToStrippedString — erase leading and trailing isspace characters *)
Definition trim (s : string) : string := str_rev (ltrim (str_rev (ltrim s))).

Definition all_space (s : string) : bool := str_all is_space_ch s.
(** the text of a text node as the library sees it: convertToString escapes, then the test is on the escaped text *)
Definition text_is_space (s : string) : bool := all_space (esc_text s).

(* src/xmlnode.cpp: XmlNode::firstChild — skips leading text nodes whose stripped string is empty; when EVERY
   child is such a text node the handle of the last one is returned (not nullptr).  Result: the node list
   starting at the returned node (so that next() is the tail), and whether convertToStrippedString ran. *)
Fixpoint first_child (ks : list xml) : list xml * bool :=
  match ks with
  | [] => ([], false)
  | Text s :: r =>
      if negb (text_is_space s) then (ks, true)
      else match r with
           | [] => (ks, true)
           | _ => (fst (first_child r), true)
           end
  | _ :: _ => (ks, false)
  end.

(* src/utilities.cpp: nonCommentChildCount / nonCommentChildNode *)
Definition non_comment_children (ks : list xml) : list xml :=
  filter (fun x => negb (is_comment x)) (fst (first_child ks)).
(* src/utilities.cpp: mathmlChildCount / mathmlChildNode — isMathmlElement() with no name *)
Definition mathml_children (ks : list xml) : list xml := filter is_mathml (fst (first_child ks)).

(** * 5. The parser (src/parser.cpp), CellML 2.0 documents

    Every load* function has the same loop over [node->firstChild(); ...; next()]:
      known child element -> its loader;  math (component, test_value, reset_value) -> capture;
      text -> convertToString, an issue (XML_UNEXPECTED_CHARACTER) iff it has a non-whitespace character;
      comment -> nothing;  anything else -> an issue.
    loadModel :508-600, loadComponent :655-722, loadUnits :773-798, loadUnit :808-830, loadVariable :907-930,
    loadReset :1877-1910, loadResetChild :1714-1745, loadImport :1575-1670, loadEncapsulation :1487-1525,
    loadComponentRef :1440-1475, loadConnection :1133-1280.
    (Encapsulation and connection nodes are loaded after the loop of loadModel; here they are loaded in
    place: only the order of the issues differs, and issues are compared as multisets.) *)

Inductive kind := KModel | KComponent | KUnits | KUnit | KVariable | KReset | KTestValue | KResetValue
  | KImport | KImportUnits | KImportComponent | KEncapsulation | KComponentRef | KConnection | KMapVariables.

Definition child_kind (k : kind) (ns name : string) : option kind :=
  if negb (String.eqb ns CELLML_2_0_NS) then None else
  match k with
  | KModel => if String.eqb name "component" then Some KComponent
              else if String.eqb name "units" then Some KUnits
              else if String.eqb name "import" then Some KImport
              else if String.eqb name "encapsulation" then Some KEncapsulation
              else if String.eqb name "connection" then Some KConnection else None
  | KComponent => if String.eqb name "variable" then Some KVariable
                  else if String.eqb name "reset" then Some KReset else None
  | KUnits => if String.eqb name "unit" then Some KUnit else None
  | KReset => if String.eqb name "test_value" then Some KTestValue
              else if String.eqb name "reset_value" then Some KResetValue else None
  | KImport => if String.eqb name "component" then Some KImportComponent
               else if String.eqb name "units" then Some KImportUnits else None
  | KEncapsulation | KComponentRef => if String.eqb name "component_ref" then Some KComponentRef else None
  | KConnection => if String.eqb name "map_variables" then Some KMapVariables else None
  | _ => None
  end.

(** loaders that only read the attributes of the node (import component / import units, map_variables) *)
Definition leaf_kind (k : kind) : bool :=
  match k with KImportUnits | KImportComponent | KMapVariables => true | _ => false end.
(** loaders that capture a MathML [math] child as a string *)
Definition captures_math (k : kind) : bool :=
  match k with KComponent | KTestValue | KResetValue => true | _ => false end.
(** loaders that test [node->firstChild() == nullptr]: loadModel for an encapsulation child (:544, warning
    ENCAPSULATION_CHILD), loadImport (:1577, warning IMPORT_CHILD) *)
Definition tests_empty (k : kind) : bool :=
  match k with KEncapsulation | KImport => true | _ => false end.

(** the result: the entity tree with the captured math SUBTREES (the captured string is [math_string]) *)
Inductive ent :=
| Ent (k : kind) (attrs : list (string * string)) (kids : list ent)
| EMath (m : xml).

Inductive issue :=
| IText (k : kind)                 (* XML_UNEXPECTED_CHARACTER: non-whitespace text under a [k] *)
| IElem (k : kind) (name : string) (* unexpected child element under a [k] *)
| IEmpty (k : kind)                (* the element has no child node at all *)
| INotModel.                       (* the root is not a CellML 2.0 model *)

(* src/parser.cpp:695, :1717 — std::string math = childNode->convertToString() + "\n" *)
Definition newline : string := String (ascii_of_nat 10) EmptyString.
Definition math_string (m : xml) : string := ser m ++ newline.

(** one turn of the loop: the child [c], given the outcome [acc] of the children after it *)
Definition load_step (ld : kind -> xml -> ent * list issue * bool) (k : kind) (c : xml)
                     (acc : list ent * list issue * bool) : list ent * list issue * bool :=
  let '(es, iss, tch) := acc in
  match c with
  | Text s =>
      (* a leading blank text node is skipped inside firstChild(), any other text node reaches the isText()
         branch; both call convertToString and neither adds anything for a blank text *)
      (es, ((if text_is_space s then [] else [IText k]) ++ iss)%list, true)
  | Comment _ => (es, iss, tch)
  | Elem cns cn ca _ =>
      if captures_math k && is_element MATHML_NS "math" c then (EMath c :: es, iss, true)
      else match child_kind k cns cn with
           | Some k' =>
               if leaf_kind k' then (Ent k' ca [] :: es, iss, tch)
               else let '(e, iss', tch') := ld k' c in (e :: es, (iss' ++ iss)%list, tch' || tch)
           | None => (es, IElem k cn :: iss, tch)
           end
  end.

Fixpoint load (k : kind) (t : xml) {struct t} : ent * list issue * bool :=
  match t with
  | Elem _ _ a ks =>
      let fc := first_child ks in
      let empty_issue := if tests_empty k && is_nil (fst fc) then [IEmpty k] else [] in
      let '(es, iss, tch) := fold_right (load_step load k) ([], [], false) ks in
      (Ent k a es, (empty_issue ++ iss)%list, snd fc || tch)
  | _ => (Ent k [] [], [], false)
  end.

(* src/xmlutils.cpp: traverseTreeForElementNamespaces / traverseTreeForAttributeNamespaces, run by loadModel
   over the whole document before anything else: firstChild() is called on every element *)
Fixpoint trav_touch (t : xml) : bool :=
  match t with
  | Elem _ _ _ ks => snd (first_child ks) || existsb trav_touch ks
  | _ => false
  end.

(* src/parser.cpp: ParserImpl::parseModel / loadModel on a well-formed document whose keep-blanks tree is [doc] *)
Definition parse_model (g : bool) (doc : xml) : (ent * list issue) * bool :=
  let t := as_parsed g doc in
  let tt := trav_touch t in
  if is_element CELLML_2_0_NS "model" t
  then let '(e, iss, tch) := load KModel t in ((e, iss), g || tt || tch)
  else ((Ent KModel [] [], [INotModel]), g || tt).

(** the math subtrees captured, in document order *)
Fixpoint ent_maths (e : ent) : list xml :=
  match e with
  | EMath m => [m]
  | Ent _ _ ks => flat_map ent_maths ks
  end.
(** the entity tree with every captured math replaced by [f] of it *)
Fixpoint map_math (f : xml -> xml) (e : ent) : ent :=
  match e with
  | EMath m => EMath (f m)
  | Ent k a ks => Ent k a (map (map_math f) ks)
  end.
(** the part of the result that does not mention math: entities, attributes, nesting *)
Definition erase_math : ent -> ent := map_math (fun _ => Text "").

(** * 6. Re-reading a stored math string — src/xmlutils.cpp: multiRootXml

    [forest]: the nodes the string "<root>" + trimCopy(content) + "</root>" denotes under <root>.  The wrapped
    text is parsed under the current flag, each element child is serialised (convertToString: flag := 1)
    and parsed again on its own. *)
Definition multi_root (g : bool) (forest : list xml) : list xml * bool :=
  let fc := first_child (forest_as_parsed g forest) in
  let docs := filter is_elem (fst fc) in
  (docs, g || snd fc || negb (is_nil docs)).

(** * 7. The validator's walk over one math document (src/validator.cpp: validateMath :1551-1631) *)

Inductive vissue :=
| VNotMath                          (* MATH_ELEMENT: root is not MathML math *)
| VUnsupported (name : string)      (* MATH_CHILD *)
| VCiRef (txt : string)             (* MATH_CI_VARIABLE_REFERENCE from validateAndCleanCiNode *)
| VCiEmpty                          (* MATH_CI_VARIABLE_REFERENCE "no identifier as a child" *)
| VCnBase                           (* MATH_CN_BASE10 *)
| VCnFormat                         (* MATH_CN_FORMAT *)
| VCnUnits (k : nat)                (* issues of the cellml:units attribute of a cn: attribute-only *)
| VRule (k : nat).                  (* any issue of the arity / sibling table *)

Fixpoint lookup (key : string) (a : list (string * string)) : string :=
  match a with [] => "" | (n, v) :: r => if String.eqb n key then v else lookup key r end.

Definition names_of (l : list xml) : list string := map xml_name l.

Section Validate.
  (** everything the walk uses that does not look at text or comment nodes, kept abstract:
      [supported]: isSupportedMathMLElement; [cn_units]: validateCnUnits + the units lookup (attributes only);
      [rule]: the arity / sibling conditions of validateMathMLElementsChildrenAndSiblings — hasTwoMathmlSiblings,
      isFirstMathmlSibling, hasOneMathmlChild, … — which read only mathmlChildCount / mathmlChildNode of the
      parent and of the node: (names of the MathML element children of the parent, position of the node among
      them, name of the node, names of its own MathML element children);
      [is_basic_real], [is_integer]: XmlNode::isBasicReal / isInteger on the stripped string. *)
  Variable supported : string -> bool.
  Variable cn_units : list (string * string) -> list vissue.
  Variable rule : list string -> nat -> string -> list string -> list vissue.
  Variable is_basic_real : string -> bool.
  Variable is_integer : string -> bool.
  Variable names : list string.      (* the variable names of the component *)

  (* validateMathMLElements / validateMathMLElement :1749-1766: every element reached through firstChild()/next() *)
  Fixpoint v_elements (t : xml) : list vissue :=
    match t with
    | Elem ns n _ ks =>
        ((if String.eqb ns MATHML_NS && supported n then [] else [VUnsupported n]) ++ flat_map v_elements ks)%list
    | _ => []
    end.

  (* text(node) :1647-1655 applied to node->firstChild() *)
  Definition first_child_text (ks : list xml) : string :=
    match fst (first_child ks) with
    | Text s :: _ => trim (esc_text s)
    | _ => ""
    end.

  (* validateAndCleanMathCiCnNodes :1731-1747 with validateAndCleanCnNode / validateAndCleanCiNode *)
  Fixpoint v_cicn (t : xml) : list vissue :=
    match t with
    | Elem ns n a ks =>
        ((if String.eqb ns MATHML_NS && String.eqb n "cn" then cn_units a
         else if String.eqb ns MATHML_NS && String.eqb n "ci" then
           let tx := first_child_text ks in
           if String.eqb tx "" then [] else if existsb (String.eqb tx) names then [] else [VCiRef tx]
         else [])
        ++ flat_map v_cicn ks)%list
    | _ => []
    end.

  Definition stripped (x : xml) : string := trim (ser x).

  (* the 'ci' test :2168 *)
  Definition ci_ok (ks : list xml) : bool :=
    match non_comment_children ks with
    | [x] => negb (String.eqb (stripped x) "")
    | _ => false
    end.
  (* the 'cn' tests :2176-2208 *)
  Definition cn_issues (a : list (string * string)) (ks : list xml) : list vissue :=
    let base := lookup "base" a in
    if negb (String.eqb base "") && negb (String.eqb base "10") then [VCnBase] else
    let ty := lookup "type" a in
    if String.eqb ty "" || String.eqb ty "real" then
      match non_comment_children ks with
      | [x] => if is_basic_real (stripped x) then [] else [VCnFormat]
      | _ => [VCnFormat]
      end
    else if String.eqb ty "e-notation" then
      match non_comment_children ks with
      | [x; y; z] => if is_basic_real (stripped x) && is_element MATHML_NS "sep" y && is_integer (stripped z)
                     then [] else [VCnFormat]
      | _ => [VCnFormat]
      end
    else [VCnFormat].

  (* validateMathMLElementsChildrenAndSiblings :1967-2296 on the node at position [pos] among the MathML
     element children [sibs] of its parent; the recursion goes through mathmlChildNode only *)
  Fixpoint v_struct (sibs : list string) (pos : nat) (t : xml) : list vissue :=
    match t with
    | Elem ns n a ks =>
        if negb (String.eqb ns MATHML_NS) then [] else
        if String.eqb n "ci" then (if ci_ok ks then [] else [VCiEmpty])
        else if String.eqb n "cn" then cn_issues a ks
        else
          let mk := names_of (mathml_children ks) in
          (rule sibs pos n mk
           ++ (if String.eqb n "apply" || String.eqb n "piecewise" || String.eqb n "piece" || String.eqb n "otherwise"
               then snd (fold_left (fun st k => if is_mathml k then (S (fst st), (snd st ++ v_struct mk (fst st) k)%list)
                                                else st) ks (0, []))
               else []))%list
    | _ => []
    end.

  Definition validate_doc (d : xml) : list vissue :=
    if negb (is_element MATHML_NS "math" d) then [VNotMath] else
    let mk := names_of (mathml_children (xml_kids d)) in
    (v_elements d ++ v_cicn d
     ++ snd (fold_left (fun st k => if is_mathml k then (S (fst st), (snd st ++ v_struct mk (fst st) k)%list) else st)
                       (xml_kids d) (0, [])))%list.

  (* validateMath on one stored math string *)
  Definition validate_math (g : bool) (forest : list xml) : list vissue * bool :=
    let '(docs, g') := multi_root g forest in
    (flat_map validate_doc docs, g').
End Validate.

(** * 8. The analyser's walk (src/analyser.cpp: analyseNode :703-1077, analyseComponent :1079-1120)

    The AST is built from mathmlChildNode(node, i) (MathML element children only) and, for ci / cn, from the
    stripped string of firstChild() (and, for e-notation, of firstChild()->next()->next()). *)
Inductive ast :=
| ANode (name : string) (kids : list ast)
| ATok (name : string) (txt : list string).

Definition tok_texts (ks : list xml) : list string :=
  match fst (first_child ks) with
  | x :: _ :: z :: _ => [trim (ser x); trim (ser z)]
  | x :: _ => [trim (ser x)]
  | [] => []
  end.

Fixpoint ana (t : xml) : ast :=
  match t with
  | Elem ns n _ ks =>
      if String.eqb n "ci" || String.eqb n "cn" then ATok n (tok_texts ks)
      else ANode n (fold_right (fun k acc => if is_mathml k then ana k :: acc else acc) [] ks)
  | _ => ATok "" []
  end.

Definition analyse_math (g : bool) (forest : list xml) : list ast * bool :=
  let '(docs, g') := multi_root g forest in (map ana docs, g').

(** * 9. PrinterImpl::printMath (src/printer.cpp:135-167)

    xmlKeepBlanksDefault(0); parse "<wrap>" + math + "</wrap>"; concatenate the stripped strings of the
    children; then the two regular expressions  ">[\s\n\t]*" -> ">"  and  "[\s\n\t]*<" -> "<". *)
Fixpoint drop_space_after (tag : ascii) (skip : bool) (s : string) : string :=
  match s with
  | EmptyString => EmptyString
  | String c r => if skip && is_space_ch c then drop_space_after tag true r
                  else String c (drop_space_after tag (Ascii.eqb c tag) r)
  end.
(** the second expression removes the space that PRECEDES '<': the same scan on the reversed text *)
Definition ws_clean (s : string) : string :=
  str_rev (drop_space_after "<" false (str_rev (drop_space_after ">" false s))).

(** [forest]: the nodes the stored math string denotes.  Returns the printed math and the flag afterwards. *)
Definition print_math (forest : list xml) : string * bool :=
  let fc := first_child (strip_forest forest) in
  (ws_clean (concat_str (map (fun c => trim (ser c)) (fst fc))), snd fc || negb (is_nil (fst fc))).

(** Printer::printModel on a non-null model whose math strings (component math, test values, reset values, in
    the order they are printed) denote [maths]: the flag after each printMath, then xmlKeepBlanksDefault(0)
    before the final parse + prettyPrint (:595).  The printed math texts are returned (the rest of the
    document is built from attribute strings that no global state influences). *)
Definition print_model (g : bool) (maths : list (list xml)) : list string * bool :=
  (map (fun f => fst (print_math f)) maths,
   (fun _ : bool => false)                                       (* xmlKeepBlanksDefault(0) at :595 *)
     (fold_left (fun _ f => snd (print_math f)) maths g)).      (* the flag after each printMath *)

(** * 10. Histories of service calls and the flag *)

Inductive op :=
| OParse (doc : xml)                        (* Parser::parseModel of a well-formed document *)
| OPrint (maths : list (list xml))          (* Printer::printModel of a non-null model *)
| OPrintNull                                (* Printer::printModel(nullptr): returns "" before anything else *)
| OValidate (maths : list (list xml))       (* Validator::validateModel: the non-empty math strings it reads *)
| OAnalyse (maths : list (list xml)) (valid : bool)   (* Analyser::analyseModel: validates, then reads the math again *)
| OResolve (docs : list xml) (maths : list (list xml))
                                            (* Importer::resolveImports: the documents parsed during the call, then the math strings of
                                               imported components it re-reads for their cn units (also when the file was cached) *)
| OFlatten (maths : list (list xml))        (* Importer::flattenModel: the math strings re-read while units are renamed *)
| OOther                                    (* Generator, Annotator, clone, equals, entity API: no libxml2 call *)
| OConvert                                  (* a bare XmlNode::convertToString *)
| OSet (b : bool).                          (* the application calls xmlKeepBlanksDefault(b) itself *)

Definition reread (g : bool) (maths : list (list xml)) : bool :=
  fold_left (fun g f => snd (multi_root g f)) maths g.

Definition step (g : bool) (o : op) : bool :=
  match o with
  | OParse doc => snd (parse_model g doc)
  | OPrint maths => snd (print_model g maths)
  | OPrintNull => g
  | OValidate maths => reread g maths
  | OAnalyse maths valid => let g1 := reread g maths in if valid then reread g1 maths else g1
  | OResolve docs maths => reread (fold_left (fun g d => snd (parse_model g d)) docs g) maths
  | OFlatten maths => reread g maths
  | OOther => g
  | OConvert => true
  | OSet b => b
  end.

Definition flag_after (g0 : bool) (h : list op) : bool := fold_left step h g0.

(** the effect of a call on the flag does not depend on the history *)
Inductive eff := SetF | SetT | Keep.
Definition apply_eff (e : eff) (g : bool) : bool := match e with SetF => false | SetT => true | Keep => g end.
Definition touch_eff (b : bool) : eff := if b then SetT else Keep.
Definition effect (o : op) : eff :=
  match o with
  | OPrint _ => SetF
  | OPrintNull | OOther => Keep
  | OConvert => SetT
  | OSet b => if b then SetT else SetF
  | _ => touch_eff (step false o)
  end.

(** closed form: the last call that is not [Keep] decides *)
Fixpoint flag_char (g0 : bool) (h : list op) : bool :=
  match h with
  | [] => g0
  | o :: r => flag_char (apply_eff (effect o) g0) r
  end.
Fixpoint last_decisive (h : list op) : option bool :=
  match h with
  | [] => None
  | o :: r => match last_decisive r with
              | Some b => Some b
              | None => match effect o with SetF => Some false | SetT => Some true | Keep => None end
              end
  end.

(** the whole process-global state the library writes *)
Record gstate := { keep_blanks : bool; dtd_cached : bool; err_handler : option nat }.
Definition uses_parse (o : op) : bool :=
  match o with
  | OParse _ | OPrint _ => true
  | OValidate m | OFlatten m | OAnalyse m _ => negb (is_nil m)
  | OResolve d m => negb (is_nil d) || negb (is_nil m)
  | _ => false
  end.
Definition uses_dtd (o : op) : bool :=
  match o with
  | OValidate m | OAnalyse m _ => existsb (fun f => negb (is_nil (filter is_elem f))) m
  | _ => false
  end.
(* src/xmldoc.cpp: every parse ends with xmlSetStructuredErrorFunc(nullptr, nullptr); parseMathML fills the static *)
Definition gstep (s : gstate) (o : op) : gstate :=
  {| keep_blanks := step (keep_blanks s) o;
     dtd_cached := dtd_cached s || uses_dtd o;
     err_handler := if uses_parse o then None else err_handler s |}.

(** * 11. What two parses of the same document look like: the K19 class *)

(** the document has a math subtree that the blank removal changes *)
Definition math_sensitive (doc : xml) : bool :=
  negb (forallb (fun m => String.eqb (ser (strip m)) (ser m)) (ent_maths (fst (fst (parse_model true doc))))).

(** * 12. Issue lists (src/logger.cpp: LoggerImpl::removeAllIssues and its callers) *)

Inductive service := SParser | SValidator | SAnalyser | SResolve | SFlatten | SAnnotator | SPrinter.
Definition service_site (s : service) : string :=
  match s with
  | SParser => "Parser::ParserImpl::parseModel"
  | SValidator => "Validator::validateModel"
  | SAnalyser => "Analyser::analyseModel"
  | SResolve => "Importer::resolveImports"
  | SFlatten => "Importer::flattenModel"
  | SAnnotator => "Annotator::AnnotatorImpl::update"
  | SPrinter => "Printer::printModel"
  end.
(** [table]: the regenerated list (entry point, clears its issue list before doing anything that can add an issue) *)
Fixpoint site_resets (table : list (string * bool)) (site : string) : bool :=
  match table with [] => false | (n, b) :: r => if String.eqb n site then b else site_resets r site end.
Definition call_issues {I} (resets : bool) (old body : list I) : list I := ((if resets then [] else old) ++ body)%list.

(** * 13. Which objects a call writes to (frame)

    Objects are numbered; a world gives the content (an opaque number standing for "everything the getters
    return") of each object and the next free number.  A call is a list of actions: creations (create / clone)
    and mutator calls, each applied to an object.  The tables below transcribe, per service, every mutator of
    the object model that the cited functions call, with the origin of its receiver. *)
Record world := { next_id : nat; content : nat -> nat }.

Inductive action :=
| Alloc                       (* create() / clone(): a new object, numbered next_id *)
| Write (target : nat) (v : nat).

Definition act (w : world) (a : action) : world :=
  match a with
  | Alloc => {| next_id := S (next_id w); content := content w |}
  | Write t v => {| next_id := next_id w; content := fun i => if Nat.eqb i t then v else content w i |}
  end.
Definition run (w : world) (l : list action) : world := fold_left act l w.

(** every write goes to an object allocated earlier in the same call ([base] = next_id at entry) *)
Fixpoint fresh_only (base nxt : nat) (l : list action) : bool :=
  match l with
  | [] => true
  | Alloc :: r => fresh_only base (S nxt) r
  | Write t _ :: r => Nat.leb base t && Nat.ltb t nxt && fresh_only base nxt r
  end.

Inductive recv :=
| RFresh      (* an object created during the call: the clone of the model, a clone of an imported model, ... *)
| RGiven.     (* an object that existed before the call: the model passed in, a model of the importer's library,
                 a result handed out by an earlier call *)

Inductive svc := VPrinter | VValidator | VAnalyser | VGenerator | VFlatten | VAnalyserResult (valid : bool).

(** [fixed_flatten] / [fixed_analyser]: the two repairs prepared in fixes/C12-*.diff *)
Definition service_writes (fixed_flatten fixed_analyser : bool) (s : svc) : list (string * recv) :=
  match s with
  | VPrinter => []      (* src/printer.cpp: getters only; ids for autoIds go into a local IdList *)
  | VValidator => []    (* src/validator.cpp: removeAttribute / removeNamespaceDefinition act on the private XmlDoc of validateMath *)
  | VAnalyser => []     (* src/analyser.cpp: reads the model; fills its own AnalyserModel *)
  | VGenerator => []    (* src/generator.cpp: reads the AnalyserModel *)
  | VFlatten =>         (* src/importer.cpp *)
      [ ("flattenUnitsImports:814 importedUnits->setName (units of importSource->model()->clone())", RFresh);
        ("flattenUnitsImports:815 flatModel->replaceUnits", RFresh);
        ("retrieveUnitsDependencies:797 flatModel->addUnits(childUnits) (childUnits belongs to the clone)", RFresh);
        ("retrieveUnitsDependencies:801 u->setUnitAttributeReference", RFresh);
        ("transferUnitsRenamingIfRequired:752 units->setUnitAttributeReference (clone)", RFresh);
        ("transferUnitsRenamingIfRequired:761 units->setName", RFresh);
        ("transferUnitsRenamingIfRequired:765 targetModel->addUnits", RFresh);
        ("findAndReplaceComponentCnUnitsNames utilities.cpp:609 component->setMath (components of flatModel)", RFresh);
        ("flattenComponent:843 importedComponentCopy->setName", RFresh);
        ("flattenComponent:845 importedComponentCopy->addComponent(component->component(i)) (children of flatModel)", RFresh);
        ("flattenComponent:866 requiredUnitsModel->addUnits(units->clone())", RFresh);
        ("flattenComponent:879 entry.second->setName (components of the copy)", RFresh);
        ("flattenComponent:890 Variable::addEquivalence (variables of the copy and of flatModel)", RFresh);
        ("flattenComponent:893 parent->replaceComponent", RFresh);
        ("flattenComponent:897 applyEquivalenceMapToModel(flatModel)", RFresh);
        ("flattenComponent:919 replacementUnits->setUnitAttributeReference", RFresh);
        ("updateComponentsVariablesUnitsNames:722 variable->setUnits — for a still-imported child component the receiver is the variable of importSource()->model() itself",
         if fixed_flatten then RFresh else RGiven);
        ("flattenModel:992 flatModel->linkUnits", RFresh) ]
  | VAnalyserResult valid =>   (* src/analyser.cpp:3339-3385, :2554: the AnalyserModel objects *)
      if fixed_analyser then [ ("Analyser::analyseModel: mModel = create(model)", RFresh) ]
      else if valid then [ ("AnalyserImpl::analyseModel:2554 mModel = create(model)", RFresh) ]
      else [ ("Analyser::analyseModel:3365 pFunc()->mModel->mPimpl->mType = INVALID (the object of the previous call)", RGiven) ]
  end.

(** the call as actions: one creation, then each mutator applied to the new object or to the given object [old] *)
Definition actions_of (base old : nat) (l : list (string * recv)) : list action :=
  Alloc :: map (fun sr => match snd sr with RFresh => Write base 1 | RGiven => Write old 1 end) l.

(** * 14. Per-instance state: what survives in a service object from one call to the next

    Every service keeps its state in a private implementation class.  The regenerated table
    LCGen.GlobalSites.instance_members lists every member variable of those classes with whether it is assigned / cleared
    unconditionally at the head of the top-level call; [classify] says, for each, why it cannot make a result depend on
    earlier calls.  A member that is not listed here is [MUnknown], which Properties_C12 refutes — so a new member has to be
    classified (and, if it is per-call scratch, reset) before the obligations check again. *)
Inductive mclass :=
| MBackRef       (* pointer to the owning public object *)
| MReset         (* per-call scratch: (re)initialised unconditionally at the head of every top-level call *)
| MDocumented    (* state the public API documents and sets: strictness, profile, model of a generator / annotator, external
                    variables, the importer's library and import list *)
| MConst         (* set in the constructor, never written again *)
| MConstCache    (* a cache whose entries depend on the key alone (standard units by name) *)
| MDerived       (* a cache of a function of documented state, guarded by a hash of that state (the annotator's id list) *)
| MCounter       (* a counter that only grows (the annotator's automatic-id counter): deliberately history dependent *)
| MUnknown.

Definition classify (cls member : string) : mclass :=
  if String.eqb cls "Logger::LoggerImpl" then
    (if String.eqb member "mErrors" || String.eqb member "mWarnings" || String.eqb member "mMessages" || String.eqb member "mIssues"
     then MReset else MUnknown)
  else if String.eqb cls "Parser::ParserImpl" then
    (if String.eqb member "mParser" then MBackRef
     else if String.eqb member "mParsing1XVersion" || String.eqb member "mParsing20Version" then MReset else MUnknown)
  else if String.eqb cls "Validator::ValidatorImpl" then (if String.eqb member "mValidator" then MBackRef else MUnknown)
  else if String.eqb cls "Analyser::AnalyserImpl" then
    (if String.eqb member "mAnalyser" then MBackRef
     else if String.eqb member "mModel" || String.eqb member "mInternalVariables" || String.eqb member "mInternalEquations"
             || String.eqb member "mCiCnUnits" then MReset
     else if String.eqb member "mExternalVariables" then MDocumented
     else if String.eqb member "mGeneratorProfile" then MConst
     else if String.eqb member "mStandardUnits" then MConstCache else MUnknown)
  else if String.eqb cls "Generator::GeneratorImpl" then
    (if String.eqb member "mCode" then MReset
     else if String.eqb member "mModel" || String.eqb member "mProfile" then MDocumented else MUnknown)
  else if String.eqb cls "Printer::PrinterImpl" then (if String.eqb member "mPrinter" then MBackRef else MUnknown)
  else if String.eqb cls "Importer::ImporterImpl" then
    (if String.eqb member "mImporter" then MBackRef
     else if String.eqb member "mLibrary" || String.eqb member "mImports" then MDocumented else MUnknown)
  else if String.eqb cls "Annotator::AnnotatorImpl" then
    (if String.eqb member "mAnnotator" then MBackRef
     else if String.eqb member "mModel" then MDocumented
     else if String.eqb member "mIdList" || String.eqb member "mHash" then MDerived
     else if String.eqb member "mCounter" then MCounter else MUnknown)
  else if String.eqb cls "Strict::StrictImpl" then (if String.eqb member "mStrict" then MDocumented else MUnknown)
  else MUnknown.

Definition is_reset (c : mclass) : bool := match c with MReset => true | _ => false end.
Definition is_cache (c : mclass) : bool := match c with MConstCache | MDerived => true | _ => false end.
Definition is_fixed (c : mclass) : bool := match c with MBackRef | MConst | MDocumented => true | _ => false end.
Definition is_classified (c : mclass) : bool := match c with MUnknown => false | _ => true end.

(** every member of the regenerated table is classified, and the ones classified per-call scratch are reset at the head *)
Definition members_ok (table : list (string * string * bool)) : bool :=
  forallb (fun e => let '(c, m, r) := e in
                    is_classified (classify c m) && (if is_reset (classify c m) then r else true)) table.

(** one service object: the value of each member; a top-level call = the head (every MReset member back to its initial
    value) followed by the body, which may read and write every member *)
Definition istate := string -> nat.
Section Instance.
  Variables (A R : Type).
  Variable cls : string -> mclass.
  Variable init : istate.
  Variable body : A -> istate -> R * istate.
  Definition head (s : istate) : istate := fun m => if is_reset (cls m) then init m else s m.
  Definition call (a : A) (s : istate) : R * istate := body a (head s).
  Fixpoint run_history (s : istate) (l : list A) : istate :=
    match l with [] => s | a :: r => run_history (snd (call a s)) r end.
  Definition result_after (ys : list A) (x : A) : R := fst (call x (run_history init ys)).
End Instance.

(** * 15. flattenModel's result and its argument (src/importer.cpp: Importer::flattenModel)

    [actions_of] starts with the creation of the result ([flatModel = model->clone()]): the result is the object numbered
    [next_id] at entry.  The regenerated tables GlobalSites.flatten_result_exprs / flatten_calls / flatten_model_passed give
    every expression assigned to the returned variable, every [receiver->method(] call of the function and every function
    its parameter is handed to; the parameter itself may only be read: *)
Definition result_object (w : world) : nat := next_id w.
Definition model_reader_methods : list string := ["clone"; "isDefined"; "hasImports"; "hasUnresolvedImports"; "name"].
Definition model_reader_functions : list string := ["hasImportIssues"].
Definition flatten_reads_argument_only (calls : list (string * string)) (passed : list string) : bool :=
  forallb (fun rm => if String.eqb (fst rm) "model" then existsb (String.eqb (snd rm)) model_reader_methods else true) calls
  && forallb (fun f => existsb (String.eqb f) model_reader_functions) passed.

(** what a caller can observe of an object: the dump of its content, which objects it refers to (parent, the units object of a
    variable, children, import source) and the lazily fixable status predicates — hasUnlinkedUnits, hasUnresolvedImports,
    isDefined, interface types, ids.  All of it is a function of [content]. *)
Definition observation (X : Type) := nat -> X.
