(** EvalProofs.v — re-association ([norm]) does not change the value of a tree over the rationals, and the
    intended readings under the C and the Python profile have the same value when the Python helper functions
    are interpreted by their definitions (C03). *)
From Coq Require Import String List Bool QArith Qcanon.
From LC Require Import AstDefs GenDefs GramDefs ReadDefs EvalDefs.
Local Open Scope Qc_scope.

Lemma truth_of_bool b : truth (of_bool b) = b.
Proof.
  destruct b; unfold truth, of_bool; destruct (Qc_eq_dec _ 0) as [E|E]; try reflexivity.
  - discriminate E.
  - exfalso. apply E. reflexivity.
Qed.

Section Norm.
Variable E : env.

Lemma eval_graft_add Lh R : eval E (graft_add Lh R) = eval E Lh + eval E R.
Proof.
  induction R; cbn; try reflexivity.
  destruct op; cbn; try reflexivity; rewrite IHR1; ring.
Qed.

Lemma eval_graft_mul Lh R : eval E (graft_mul Lh R) = eval E Lh * eval E R.
Proof.
  induction R; cbn; try reflexivity.
  destruct op; cbn; try reflexivity; rewrite IHR1; unfold Qcdiv; ring.
Qed.

Lemma eval_graft_and Lh R : eval E (graft_and Lh R) = eval_bin And (eval E Lh) (eval E R).
Proof.
  induction R; cbn; try reflexivity.
  destruct op; cbn; try reflexivity. rewrite IHR1. cbn. rewrite !truth_of_bool, andb_assoc. reflexivity.
Qed.

Lemma eval_graft_or Lh R : eval E (graft_or Lh R) = eval_bin Or (eval E Lh) (eval E R).
Proof.
  induction R; cbn; try reflexivity.
  destruct op; cbn; try reflexivity. rewrite IHR1. cbn. rewrite !truth_of_bool, orb_assoc. reflexivity.
Qed.

Lemma eval_neg_left t : eval E (neg_left t) = - eval E t.
Proof.
  induction t; cbn; try reflexivity.
  destruct op; cbn; try reflexivity; rewrite IHt1; unfold Qcdiv; ring.
Qed.

(** re-association keeps the value *)
Theorem norm_sound t : eval E (norm t) = eval E t.
Proof.
  induction t; cbn; try reflexivity; try congruence.
  - rewrite eval_neg_left. congruence.
  - destruct op; cbn; rewrite ?eval_graft_add, ?eval_graft_mul, ?eval_graft_and, ?eval_graft_or; cbn; congruence.
  - rewrite IHt1, IHt2, IHt3. reflexivity.
Qed.

Corollary norm_eq_eval t t' : norm t = norm t' -> eval E t = eval E t'.
Proof. intros H. rewrite <- (norm_sound t), <- (norm_sound t'), H. reflexivity. Qed.

End Norm.

(** ** the two profiles' readings agree *)

(* from the C reading to the Python reading: operators become calls of the Python helper functions *)
Definition py_fun2 (op : binop) : option string :=
  match op with
  | Eq => Some "eq_func" | Ne => Some "neq_func" | Lt => Some "lt_func" | Le => Some "leq_func"
  | Gt => Some "gt_func" | Ge => Some "geq_func" | And => Some "and_func" | Or => Some "or_func"
  | _ => None
  end%string.

Fixpoint c2py (t : tree) : tree :=
  match t with
  | TVar s => if String.eqb s "INFINITY" then TVar "inf" else if String.eqb s "NAN" then TVar "nan" else TVar s
  | TLit s => TLit s
  | TNeg a => TNeg (c2py a)
  | TNot a => TCall1 "not_func" (c2py a)
  | TBin op a b => match py_fun2 op with Some f => TCall2 f (c2py a) (c2py b) | None => TBin op (c2py a) (c2py b) end
  | TCond c a b => TCond (c2py c) (c2py a) (c2py b)
  | TCall1 f a => TCall1 f (c2py a)
  | TCall2 f a b => TCall2 (if String.eqb f "xor" then "xor_func" else f) (c2py a) (c2py b)
  end%string.

(* the Python helper functions, by their definitions in generatorprofile.cpp (mEqFunctionString ...) *)
Definition helpers_ok (E : env) : Prop :=
  (forall x y, e_f2 E "eq_func" x y = eval_bin Eq x y) /\ (forall x y, e_f2 E "neq_func" x y = eval_bin Ne x y)
  /\ (forall x y, e_f2 E "lt_func" x y = eval_bin Lt x y) /\ (forall x y, e_f2 E "leq_func" x y = eval_bin Le x y)
  /\ (forall x y, e_f2 E "gt_func" x y = eval_bin Gt x y) /\ (forall x y, e_f2 E "geq_func" x y = eval_bin Ge x y)
  /\ (forall x y, e_f2 E "and_func" x y = eval_bin And x y) /\ (forall x y, e_f2 E "or_func" x y = eval_bin Or x y)
  /\ (forall x, e_f1 E "not_func" x = of_bool (negb (truth x)))
  /\ (forall x y, e_f2 E "xor_func" x y = e_f2 E "xor" x y)
  /\ e_var E "inf" = e_var E "INFINITY" /\ e_var E "nan" = e_var E "NAN".

Lemma eval_c2py E t : helpers_ok E -> eval E (c2py t) = eval E t.
Proof.
  intros (H1 & H2 & H3 & H4 & H5 & H6 & H7 & H8 & H9 & H10 & H11 & H12).
  induction t; cbn [c2py eval].
  - destruct (String.eqb s "INFINITY") eqn:E1; [apply String.eqb_eq in E1; subst; exact H11|].
    destruct (String.eqb s "NAN") eqn:E2; [apply String.eqb_eq in E2; subst; exact H12|reflexivity].
  - reflexivity.
  - congruence.
  - cbn. rewrite H9. congruence.
  - destruct op; cbn [py_fun2 eval]; rewrite ?H1, ?H2, ?H3, ?H4, ?H5, ?H6, ?H7, ?H8; congruence.
  - rewrite IHt1, IHt2, IHt3. reflexivity.
  - congruence.
  - destruct (String.eqb f "xor") eqn:E1; [apply String.eqb_eq in E1; subst; rewrite H10|]; congruence.
Qed.

Lemma c2py_lit_is t n d : lit_is (c2py t) n d = lit_is t n d.
Proof.
  destruct t; cbn; try reflexivity.
  - destruct (String.eqb s "INFINITY"); [reflexivity|]. destruct (String.eqb s "NAN"); reflexivity.
  - destruct (py_fun2 op); reflexivity.
Qed.

(* a model variable is not called like the C spellings of infinity / not-a-number *)
Fixpoint plain_names (a : ast) : bool :=
  match a with
  | Null => true
  | Node t v l r =>
      (match t with CI => negb (String.eqb v "INFINITY") && negb (String.eqb v "NAN") | _ => true end)
      && plain_names l && plain_names r
  end.

Definition TP (a : ast) : Prop := plain_names a = true -> tr profile_Py a = c2py (tr profile_C a).

Lemma plain_children t v l r : plain_names (Node t v l r) = true -> plain_names l = true /\ plain_names r = true.
Proof.
  cbn [plain_names]. intros H. apply andb_prop in H. destruct H as [H Hr]. apply andb_prop in H. destruct H as [_ Hl]. auto.
Qed.

Theorem tr_py_of_c_all a : TP a /\ TP (left_of a) /\ TP (right_of a).
Proof.
  induction a as [|t v l IHl r IHr]; [repeat split; intros _; reflexivity|].
  destruct IHl as (Pl & Pll & Prl). destruct IHr as (Pr & Plr & Prr).
  split; [|split; [exact Pl|exact Pr]].
  intros H. destruct (plain_children _ _ _ _ H) as [Hl Hr].
  pose proof (Pl Hl) as El. pose proof (Pr Hr) as Er.
  destruct t; cbn [ReadDefs.tr]; try (rewrite ?El, ?Er, ?c2py_lit_is; reflexivity).
  - (* PLUS *) rewrite ?El, ?Er. destruct (is_nil r); reflexivity.
  - (* MINUS *) rewrite ?El, ?Er. destruct (is_nil r); reflexivity.
  - (* POWER *) rewrite ?El, ?Er, ?c2py_lit_is. destruct (lit_is (tr profile_C r) 1 2); reflexivity.
  - (* ROOT *) rewrite ?El, ?Er, ?c2py_lit_is. destruct (is_nil r); [reflexivity|]. destruct (lit_is (tr profile_C l) 2 1); reflexivity.
  - (* LOG *) rewrite ?El, ?Er, ?c2py_lit_is. destruct (is_nil r); [reflexivity|]. destruct (lit_is (tr profile_C l) 10 1); reflexivity.
  - (* PIECEWISE *)
    assert (Els : match r with
                  | Null => TVar (nan_string profile_Py)
                  | Node PIECE _ v2 c2' => TCond (tr profile_Py c2') (tr profile_Py v2) (TVar (nan_string profile_Py))
                  | _ => tr profile_Py r
                  end =
                  c2py match r with
                       | Null => TVar (nan_string profile_C)
                       | Node PIECE _ v2 c2' => TCond (tr profile_C c2') (tr profile_C v2) (TVar (nan_string profile_C))
                       | _ => tr profile_C r
                       end).
    { destruct r as [|t0 v0 l0 r0]; [reflexivity|].
      destruct (plain_children _ _ _ _ Hr) as [Hl0 Hr0]. cbn [left_of right_of] in *.
      destruct t0; try exact Er. cbn [c2py]. rewrite (Plr Hl0), (Prr Hr0). reflexivity. }
    destruct l as [|t0 v0 l0 r0].
    + cbn [c2py]. rewrite Els. reflexivity.
    + destruct (plain_children _ _ _ _ Hl) as [Hl0 Hr0]. cbn [left_of right_of] in *.
      destruct t0; cbn [c2py]; rewrite ?Els, ?El; try reflexivity.
      rewrite (Pll Hl0), (Prl Hr0). reflexivity.
  - (* CI *)
    cbn [plain_names] in H. apply andb_prop in H. destruct H as [H _]. apply andb_prop in H. destruct H as [H _].
    apply andb_prop in H. destruct H as [H1 H2]. apply negb_true_iff in H1. apply negb_true_iff in H2.
    cbn [c2py]. rewrite H1, H2. reflexivity.
  - (* CN *) unfold lit_tree. destruct (cn_neg v); reflexivity.
Qed.

(** under the helper functions' definitions, the reading of an AST under the C profile and under the Python
    profile have the same value *)
Theorem profiles_agree E a :
  helpers_ok E -> plain_names a = true -> eval E (tr profile_Py a) = eval E (tr profile_C a).
Proof.
  intros HE Hp. destruct (tr_py_of_c_all a) as (H & _ & _). rewrite (H Hp). apply eval_c2py. exact HE.
Qed.
