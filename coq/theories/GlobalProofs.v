(** GlobalProofs.v — lemmas about GlobalDefs.v (C12). *)
From Coq Require Import String Ascii List Bool Arith Lia.
From LC Require Import GlobalDefs.
Import ListNotations.
Local Open Scope string_scope.
Local Open Scope bool_scope.

(** * Induction on XML trees *)
Section XmlInd.
  Variable P : xml -> Prop.
  Hypothesis HE : forall ns n a ks, Forall P ks -> P (Elem ns n a ks).
  Hypothesis HT : forall s, P (Text s).
  Hypothesis HC : forall s, P (Comment s).
  Fixpoint xml_ind' (t : xml) : P t :=
    match t with
    | Elem ns n a ks =>
        HE ns n a ks ((fix go (l : list xml) : Forall P l :=
                         match l with [] => Forall_nil P | k :: r => Forall_cons k (xml_ind' k) (go r) end) ks)
    | Text s => HT s
    | Comment s => HC s
    end.
End XmlInd.

(** * strip *)

Lemma is_blank_text_strip : forall t, is_blank_text (strip t) = is_blank_text t.
Proof. destruct t; reflexivity. Qed.
Lemma is_text_strip : forall t, is_text (strip t) = is_text t.
Proof. destruct t; reflexivity. Qed.
Lemma is_nil_map : forall A B (f : A -> B) l, is_nil (map f l) = is_nil l.
Proof. destruct l; reflexivity. Qed.

Lemma strip_kids_map_strip : forall l st, map strip (strip_kids st l) = strip_kids st (map strip l).
Proof.
  induction l as [|k r IH]; intros st; cbn [map strip_kids]; [reflexivity|].
  rewrite is_blank_text_strip, is_text_strip, is_nil_map.
  destruct (is_blank_text k && are_blanks st (is_nil r)); cbn [map]; rewrite IH; reflexivity.
Qed.

Lemma strip_kids_idem : forall l st, strip_kids st (strip_kids st l) = strip_kids st l.
Proof.
  induction l as [|k r IH]; intros st; cbn [strip_kids]; [reflexivity|].
  destruct (is_blank_text k) eqn:Hb; cbn [andb].
  - destruct (are_blanks st (is_nil r)) eqn:Ha.
    + apply IH.
    + cbn [strip_kids]. rewrite Hb. cbn [andb].
      assert (Hk : are_blanks st (is_nil (strip_kids (push_child st (is_text k)) r)) = false).
      { destruct st as [[f l]|]; cbn [are_blanks] in *; [exact Ha|].
        destruct r; cbn in Ha; [reflexivity|discriminate]. }
      rewrite Hk, IH. reflexivity.
  - cbn [strip_kids]. rewrite Hb. cbn [andb]. rewrite IH. reflexivity.
Qed.

Lemma strip_idem : forall t, strip (strip t) = strip t.
Proof.
  induction t as [ns n a ks IH| |] using xml_ind'; [|reflexivity|reflexivity].
  cbn [strip]. f_equal.
  rewrite strip_kids_map_strip, strip_kids_idem. f_equal.
  rewrite map_map. apply map_ext_Forall. exact IH.
Qed.

Lemma strip_forest_idem : forall l, strip_forest (strip_forest l) = strip_forest l.
Proof.
  intros l. unfold strip_forest. rewrite strip_kids_map_strip, strip_kids_idem. f_equal.
  rewrite map_map. apply map_ext. intros; apply strip_idem.
Qed.

Lemma strip_kids_nil : forall l, strip_kids None l = [] -> l = [].
Proof.
  induction l as [|k r IH]; [reflexivity|]. cbn [strip_kids are_blanks].
  destruct (is_blank_text k && negb (is_nil r)) eqn:E; [|discriminate].
  intros H. apply IH in H. subst r. rewrite andb_false_r in E. discriminate.
Qed.

Lemma strip_forest_nil : forall l, is_nil (strip_forest l) = is_nil l.
Proof.
  intros l. destruct l as [|k r]; [reflexivity|].
  destruct (strip_forest (k :: r)) eqn:E; [|reflexivity].
  apply strip_kids_nil in E. discriminate.
Qed.

(** * blank for libxml2 implies whitespace for libcellml *)

Lemma blank_ch_space : forall c, is_blank_ch c = true -> is_space_ch c = true /\ esc_text_ch c = String c EmptyString.
Proof.
  intros c. unfold is_blank_ch, is_space_ch, esc_text_ch.
  destruct (nat_of_ascii c) as [|[|[|[|[|[|[|[|[|[|[|[|[|[|[|[|[|[|[|[|[|[|[|[|[|[|[|[|[|[|[|[|[|n]]]]]]]]]]]]]]]]]]]]]]]]]]]]]]]]];
    try discriminate; intros _; split; reflexivity.
Qed.

Lemma str_all_blank_space : forall s, str_all is_blank_ch s = true -> esc_text s = s /\ str_all is_space_ch s = true.
Proof.
  induction s as [|c r IH]; cbn; [split; reflexivity|].
  intros H. apply andb_prop in H. destruct H as [Hc Hr].
  destruct (blank_ch_space c Hc) as [Hs He]. destruct (IH Hr) as [IH1 IH2].
  unfold esc_text in *. cbn. rewrite He, IH1, Hs, IH2. split; reflexivity.
Qed.

Lemma xml_blank_space : forall s, xml_blank s = true -> text_is_space s = true.
Proof.
  intros s H. unfold xml_blank in H. apply andb_prop in H. destruct H as [_ H].
  destruct (str_all_blank_space s H) as [He Hs]. unfold text_is_space, all_space. rewrite He. exact Hs.
Qed.

(** * firstChild *)

Lemma first_child_nil : forall l, is_nil (fst (first_child l)) = is_nil l.
Proof.
  induction l as [|k r IH]; [reflexivity|].
  destruct k; cbn [first_child]; try reflexivity.
  destruct (negb (text_is_space s)); [reflexivity|].
  destruct r; [reflexivity|]. cbn [fst]. exact IH.
Qed.

(** the element children are not affected by the skipping done in firstChild *)
Lemma filter_first_child : forall (p : xml -> bool), (forall s, p (Text s) = false) ->
  forall l, filter p (fst (first_child l)) = filter p l.
Proof.
  intros p Hp. induction l as [|k r IH]; [reflexivity|].
  destruct k; cbn [first_child]; try reflexivity.
  destruct (negb (text_is_space s)); [reflexivity|].
  destruct r as [|k' r']; [reflexivity|]. cbn [fst]. rewrite IH. cbn [filter]. rewrite Hp. reflexivity.
Qed.

(** * the loader and strip *)

Definition load_list (k : kind) (l : list xml) : list ent * list issue * bool :=
  fold_right (load_step load k) ([], [], false) l.

Lemma load_elem : forall k ns n a ks,
  load k (Elem ns n a ks) =
  let fc := first_child ks in
  let empty_issue := if tests_empty k && is_nil (fst fc) then [IEmpty k] else [] in
  let '(es, iss, tch) := load_list k ks in
  (Ent k a es, (empty_issue ++ iss)%list, snd fc || tch).
Proof. reflexivity. Qed.

Lemma load_list_cons : forall k c r, load_list k (c :: r) = load_step load k c (load_list k r).
Proof. reflexivity. Qed.

Definition load_ents (k : kind) (t : xml) : ent := fst (fst (load k t)).
Definition load_issues (k : kind) (t : xml) : list issue := snd (fst (load k t)).

Lemma is_math_strip : forall c, is_element MATHML_NS "math" (strip c) = is_element MATHML_NS "math" c.
Proof. destruct c; reflexivity. Qed.

Lemma load_list_strip : forall k l,
  Forall (fun t => forall k, load_ents k (strip t) = map_math strip (load_ents k t)
                             /\ load_issues k (strip t) = load_issues k t) l ->
  forall st,
    fst (fst (load_list k (strip_kids st (map strip l)))) = map (map_math strip) (fst (fst (load_list k l)))
    /\ snd (fst (load_list k (strip_kids st (map strip l)))) = snd (fst (load_list k l)).
Proof.
  intros k l H. induction H as [|c r Hc Hr IH]; intros st; [split; reflexivity|].
  cbn [map strip_kids]. rewrite is_blank_text_strip, is_text_strip, is_nil_map.
  destruct (is_blank_text c && are_blanks st (is_nil r)) eqn:E.
  - (* the blank text node is removed: it contributed nothing *)
    apply andb_prop in E. destruct E as [Eb _].
    destruct c as [| s |]; try discriminate. cbn in Eb.
    destruct (IH st) as [IH1 IH2]. rewrite load_list_cons.
    destruct (load_list k r) as [[es iss] tch]. cbn [fst snd load_step] in *.
    rewrite (xml_blank_space s Eb). cbn [app fst snd]. split; assumption.
  - set (st' := push_child st (is_text c)). destruct (IH st') as [IH1 IH2]. clear IH.
    rewrite !load_list_cons.
    destruct (load_list k (strip_kids st' (map strip r))) as [[es1 iss1] tch1].
    destruct (load_list k r) as [[es iss] tch]. cbn [fst snd] in IH1, IH2. subst es1 iss1.
    destruct c as [cns cn ca cks| s | s].
    + cbn [strip].
      change (Elem cns cn ca (strip_kids None (map strip cks))) with (strip (Elem cns cn ca cks)).
      unfold load_step. cbn [strip]. fold (strip_forest cks).
      change (Elem cns cn ca (strip_forest cks)) with (strip (Elem cns cn ca cks)).
      rewrite is_math_strip.
      destruct (captures_math k && is_element MATHML_NS "math" (Elem cns cn ca cks)).
      * cbn [fst snd map map_math]. split; reflexivity.
      * destruct (child_kind k cns cn) as [k'|]; [|cbn [fst snd]; split; reflexivity].
        destruct (leaf_kind k'); [cbn [fst snd map map_math]; split; reflexivity|].
        destruct (Hc k') as [H1 H2]. unfold load_ents, load_issues in H1, H2.
        destruct (load k' (strip (Elem cns cn ca cks))) as [[e1 i1] t1].
        destruct (load k' (Elem cns cn ca cks)) as [[e0 i0] t0]. cbn [fst snd] in *. subst.
        split; reflexivity.
    + cbn [strip fst snd load_step]. split; reflexivity.
    + cbn [strip fst snd load_step]. split; reflexivity.
Qed.

Lemma load_strip : forall t k,
  load_ents k (strip t) = map_math strip (load_ents k t) /\ load_issues k (strip t) = load_issues k t.
Proof.
  induction t as [ns n a ks IH| |] using xml_ind'; intros k; [|split; reflexivity|split; reflexivity].
  unfold load_ents, load_issues. cbn [strip]. rewrite !load_elem. cbv zeta.
  change (strip_kids None (map strip ks)) with (strip_forest ks).
  rewrite !first_child_nil, strip_forest_nil.
  destruct (load_list_strip k ks IH None) as [H1 H2]. unfold strip_forest.
  destruct (load_list k (strip_kids None (map strip ks))) as [[es1 iss1] tch1].
  destruct (load_list k ks) as [[es iss] tch]. cbn [fst snd] in *. subst.
  cbn [map_math]. split; reflexivity.
Qed.

(** * Entity trees *)
Section EntInd.
  Variable P : ent -> Prop.
  Hypothesis HE : forall k a ks, Forall P ks -> P (Ent k a ks).
  Hypothesis HM : forall m, P (EMath m).
  Fixpoint ent_ind' (e : ent) : P e :=
    match e with
    | Ent k a ks =>
        HE k a ks ((fix go (l : list ent) : Forall P l :=
                      match l with [] => Forall_nil P | x :: r => Forall_cons x (ent_ind' x) (go r) end) ks)
    | EMath m => HM m
    end.
End EntInd.

Lemma map_math_compose : forall f g e, map_math f (map_math g e) = map_math (fun m => f (g m)) e.
Proof.
  intros f g. induction e as [k a ks IH|m] using ent_ind'; [|reflexivity].
  cbn [map_math]. f_equal. rewrite map_map. apply map_ext_Forall. exact IH.
Qed.

Lemma erase_map_math : forall f e, erase_math (map_math f e) = erase_math e.
Proof. intros. unfold erase_math. apply map_math_compose. Qed.

Lemma ent_maths_map_math : forall f e, ent_maths (map_math f e) = map f (ent_maths e).
Proof.
  intros f. induction e as [k a ks IH|m] using ent_ind'; [|reflexivity].
  cbn [map_math ent_maths]. induction IH as [|x r Hx Hr IHr]; [reflexivity|].
  cbn [map flat_map]. rewrite map_app, Hx, IHr. reflexivity.
Qed.

(** a tree is determined by its math-free part and its math subtrees *)
Lemma map_math_ext_maths : forall f e, Forall (fun m => f m = m) (ent_maths e) -> map_math f e = e.
Proof.
  intros f. induction e as [k a ks IH|m] using ent_ind'; cbn [ent_maths map_math]; intros H.
  - f_equal. induction IH as [|x r Hx Hr IHr]; [reflexivity|].
    cbn [flat_map] in H. apply Forall_app in H. destruct H as [H1 H2].
    cbn [map]. rewrite (Hx H1), (IHr H2). reflexivity.
  - inversion H; subst. f_equal. assumption.
Qed.

Lemma map_math_id_maths : forall f e, map_math f e = e -> Forall (fun m => f m = m) (ent_maths e).
Proof.
  intros f. induction e as [k a ks IH|m] using ent_ind'; cbn [ent_maths map_math]; intros H.
  - injection H as H. induction IH as [|x r Hx Hr IHr]; [constructor|].
    cbn [map] in H. injection H as H1 H2. cbn [flat_map]. apply Forall_app. split; auto.
  - injection H as H. constructor; [assumption|constructor].
Qed.

(** * Parsing the same document under the two flag values *)

Definition parse_ent (g : bool) (doc : xml) : ent := fst (fst (parse_model g doc)).
Definition parse_issues (g : bool) (doc : xml) : list issue := snd (fst (parse_model g doc)).

Lemma is_model_strip : forall t, is_element CELLML_2_0_NS "model" (strip t) = is_element CELLML_2_0_NS "model" t.
Proof. destruct t; reflexivity. Qed.

Lemma parse_false_true : forall doc,
  parse_ent false doc = map_math strip (parse_ent true doc) /\ parse_issues false doc = parse_issues true doc.
Proof.
  intros doc. unfold parse_ent, parse_issues, parse_model, as_parsed. rewrite is_model_strip.
  destruct (is_element CELLML_2_0_NS "model" doc); [|split; reflexivity].
  destruct (load_strip doc KModel) as [H1 H2]. unfold load_ents, load_issues in *.
  destruct (load KModel (strip doc)) as [[e1 i1] t1]. destruct (load KModel doc) as [[e0 i0] t0].
  cbn [fst snd] in *. subst. split; reflexivity.
Qed.

Theorem blank_insensitive_load_structure : forall g1 g2 doc,
  erase_math (parse_ent g1 doc) = erase_math (parse_ent g2 doc) /\ parse_issues g1 doc = parse_issues g2 doc.
Proof.
  intros g1 g2 doc. destruct (parse_false_true doc) as [H1 H2].
  destruct g1, g2; rewrite ?H1, ?H2, ?erase_map_math; split; reflexivity.
Qed.

Theorem captured_math_by_flag : forall doc,
  ent_maths (parse_ent false doc) = map strip (ent_maths (parse_ent true doc)).
Proof. intros. rewrite (proj1 (parse_false_true doc)). apply ent_maths_map_math. Qed.

(** the captures agree once blank nodes are ignored *)
Theorem math_capture_modulo_blanks : forall g1 g2 doc,
  map strip (ent_maths (parse_ent g1 doc)) = map strip (ent_maths (parse_ent g2 doc)).
Proof.
  intros g1 g2 doc. pose proof (captured_math_by_flag doc) as H.
  assert (I : forall l, map strip (map strip l) = map strip l).
  { intros l. rewrite map_map. apply map_ext. intros; apply strip_idem. }
  destruct g1, g2; rewrite ?H, ?I; reflexivity.
Qed.

(** tree level: the two parses are equal exactly when no captured math subtree contains a removable blank *)
Theorem parses_equal_iff : forall doc,
  (parse_ent false doc = parse_ent true doc /\ parse_issues false doc = parse_issues true doc)
  <-> Forall (fun m => strip m = m) (ent_maths (parse_ent true doc)).
Proof.
  intros doc. destruct (parse_false_true doc) as [H1 H2]. rewrite H1, H2. split.
  - intros [H _]. apply map_math_id_maths. exact H.
  - intros H. split; [apply map_math_ext_maths; exact H|reflexivity].
Qed.

(** * The flag *)

Lemma multi_root_true : forall f, snd (multi_root true f) = true.
Proof. reflexivity. Qed.
Lemma reread_true : forall maths, reread true maths = true.
Proof. induction maths as [|f r IH]; [reflexivity|]. unfold reread in *. cbn [fold_left]. exact IH. Qed.
Lemma parse_model_true : forall doc, snd (parse_model true doc) = true.
Proof.
  intros. unfold parse_model. destruct (is_element CELLML_2_0_NS "model" (as_parsed true doc)); [|reflexivity].
  destruct (load KModel (as_parsed true doc)) as [[e i] t]. reflexivity.
Qed.
Lemma resolve_true : forall docs, fold_left (fun g d => snd (parse_model g d)) docs true = true.
Proof. induction docs as [|d r IH]; [reflexivity|]. cbn [fold_left]. rewrite parse_model_true. exact IH. Qed.

Lemma step_true : forall o, effect o <> SetF -> step true o = true.
Proof.
  intros o H. destruct o; cbn [step]; try reflexivity.
  - apply parse_model_true.
  - exfalso; apply H; reflexivity.
  - apply reread_true.
  - rewrite reread_true. destruct valid; [apply reread_true|reflexivity].
  - rewrite resolve_true. apply reread_true.
  - apply reread_true.
  - destruct b; [reflexivity|exfalso; apply H; reflexivity].
Qed.

Theorem step_is_effect : forall g o, step g o = apply_eff (effect o) g.
Proof.
  intros g o.
  assert (T : forall o', effect o' = touch_eff (step false o') -> step g o' = apply_eff (effect o') g).
  { intros o' E. destruct g.
    - rewrite step_true; [rewrite E; destruct (step false o'); reflexivity|].
      rewrite E; destruct (step false o'); discriminate.
    - rewrite E. destruct (step false o'); reflexivity. }
  destruct o; try (apply T; reflexivity); try reflexivity.
  destruct b; reflexivity.
Qed.

Theorem print_leaves_flag_false : forall g maths, step g (OPrint maths) = false.
Proof. reflexivity. Qed.

Theorem convert_sets_flag_true : forall g, step g OConvert = true.
Proof. reflexivity. Qed.

(** printMath on its own (the Printer calls it for every math string before the final reset): afterwards the
    flag is on as soon as the math has a node *)
Theorem print_math_flag : forall f, snd (print_math f) = negb (is_nil f).
Proof.
  intros f. unfold print_math. rewrite first_child_nil, strip_forest_nil.
  destruct f as [|k r]; [reflexivity|]. cbn [is_nil negb]. apply orb_true_r.
Qed.

Theorem flag_after_is_fold : forall g0 h, flag_after g0 h = flag_char g0 h.
Proof.
  intros g0 h. revert g0. induction h as [|o r IH]; intros g0; [reflexivity|].
  unfold flag_after in *. cbn [fold_left flag_char]. rewrite step_is_effect. apply IH.
Qed.

Lemma flag_char_last : forall h g0,
  flag_char g0 h = match last_decisive h with Some b => b | None => g0 end.
Proof.
  induction h as [|o r IH]; intros g0; [reflexivity|].
  cbn [flag_char last_decisive]. rewrite IH.
  destruct (last_decisive r); [reflexivity|]. destruct (effect o); reflexivity.
Qed.

Theorem flag_after_last_decisive : forall g0 h,
  flag_after g0 h = match last_decisive h with Some b => b | None => g0 end.
Proof. intros. rewrite flag_after_is_fold. apply flag_char_last. Qed.

(** no library call other than printModel ever turns the flag off *)
Theorem only_print_clears : forall g o, step g o = false -> g = false \/ effect o = SetF.
Proof.
  intros g o H. destruct g; [right|left; reflexivity].
  destruct (effect o) eqn:E; [reflexivity| |]; rewrite step_true in H; try discriminate; rewrite E; discriminate.
Qed.

(** the history-dependence of parsing, exactly: the results of parsing [doc] after the histories [h1] and [h2]
    (from the same initial flag) differ iff the flags differ and the document is math-sensitive *)
Definition parse_after (g0 : bool) (h : list op) (doc : xml) : ent * list issue :=
  fst (parse_model (flag_after g0 h) doc).

Theorem parse_after_equal_iff : forall g0 h1 h2 doc,
  parse_after g0 h1 doc = parse_after g0 h2 doc
  <-> (flag_after g0 h1 = flag_after g0 h2 \/ Forall (fun m => strip m = m) (ent_maths (parse_ent true doc))).
Proof.
  intros g0 h1 h2 doc. unfold parse_after.
  assert (K : fst (parse_model false doc) = fst (parse_model true doc)
              <-> Forall (fun m => strip m = m) (ent_maths (parse_ent true doc))).
  { rewrite <- parses_equal_iff. unfold parse_ent, parse_issues.
    destruct (fst (parse_model false doc)) as [e1 i1]. destruct (fst (parse_model true doc)) as [e0 i0].
    cbn [fst snd]. split; [intros H; injection H; auto|intros [H1 H2]; subst; reflexivity]. }
  destruct (flag_after g0 h1), (flag_after g0 h2); split; intros H; auto.
  - right. apply K. symmetry. exact H.
  - destruct H as [H|H]; [discriminate|]. symmetry. apply K. exact H.
  - right. apply K. exact H.
  - destruct H as [H|H]; [discriminate|]. apply K. exact H.
Qed.

(** * String level: the captured strings differ as soon as the trees do *)

Lemma length_app : forall a b, String.length (a ++ b) = String.length a + String.length b.
Proof. induction a as [|c a IH]; intros b; cbn; [reflexivity|]. rewrite IH. reflexivity. Qed.

Definition slen (t : xml) : nat := String.length (ser t).
Definition body_len (l : list xml) : nat := String.length (concat_str (map ser l)).

Lemma body_len_cons : forall k r, body_len (k :: r) = slen k + body_len r.
Proof. intros. unfold body_len, slen. cbn [map concat_str]. apply length_app. Qed.

Lemma blank_text_len : forall s, xml_blank s = true -> 1 <= slen (Text s).
Proof.
  intros s H. unfold xml_blank in H. apply andb_prop in H. destruct H as [Hn Hb].
  destruct (str_all_blank_space s Hb) as [He _]. unfold slen. cbn [ser]. rewrite He.
  destruct s; [discriminate|cbn; lia].
Qed.

Lemma body_len_strip_kids : forall l,
  Forall (fun k => slen (strip k) <= slen k /\ (slen (strip k) = slen k -> strip k = k)) l ->
  forall st, body_len (strip_kids st (map strip l)) <= body_len l
             /\ (body_len (strip_kids st (map strip l)) = body_len l -> strip_kids st (map strip l) = l).
Proof.
  intros l H. induction H as [|c r Hc Hr IH]; intros st; [split; reflexivity|].
  cbn [map strip_kids]. rewrite is_blank_text_strip, is_text_strip, is_nil_map.
  destruct (is_blank_text c && are_blanks st (is_nil r)) eqn:E.
  - apply andb_prop in E. destruct E as [Eb _]. destruct c as [|s|]; try discriminate. cbn in Eb.
    pose proof (blank_text_len s Eb) as L. destruct (IH st) as [I1 _]. rewrite body_len_cons. split; lia.
  - destruct (IH (push_child st (is_text c))) as [I1 I2]. destruct Hc as [C1 C2].
    rewrite !body_len_cons. split; [lia|]. intros Heq.
    assert (A : slen (strip c) = slen c) by lia. rewrite (C2 A) in *.
    f_equal. apply I2. lia.
Qed.

Lemma ser_elem_len : forall ns n a ks,
  slen (Elem ns n a ks) =
  String.length ("<" ++ n ++ ser_attrs a) + (if is_nil ks then 2 else 4 + String.length n + body_len ks).
Proof.
  intros. unfold slen, body_len. destruct ks as [|k r]; cbn [ser is_nil].
  - rewrite !length_app. change (String.length "/>") with 2. change (String.length "<") with 1. lia.
  - rewrite !length_app. change (String.length "</") with 2. change (String.length ">") with 1.
    change (String.length "<") with 1. lia.
Qed.

Lemma slen_strip : forall t, slen (strip t) <= slen t /\ (slen (strip t) = slen t -> strip t = t).
Proof.
  induction t as [ns n a ks IH| |] using xml_ind'; [|split; reflexivity|split; reflexivity].
  cbn [strip]. change (strip_kids None (map strip ks)) with (strip_forest ks).
  rewrite !ser_elem_len, strip_forest_nil.
  destruct (body_len_strip_kids ks IH None) as [B1 B2]. fold (strip_forest ks) in B1, B2.
  destruct (is_nil ks) eqn:N.
  - destruct ks; [|discriminate]. split; reflexivity.
  - split; [lia|]. intros H. f_equal. apply B2. lia.
Qed.

Theorem ser_strip_inj : forall t, ser (strip t) = ser t -> strip t = t.
Proof. intros t H. apply (proj2 (slen_strip t)). unfold slen. rewrite H. reflexivity. Qed.

Theorem math_string_strip_inj : forall m, math_string (strip m) = math_string m -> strip m = m.
Proof.
  intros m H. apply (proj2 (slen_strip m)). unfold math_string in H.
  apply (f_equal String.length) in H. rewrite !length_app in H. unfold slen. lia.
Qed.

Definition parse_math_strings (g : bool) (doc : xml) : list string := map math_string (ent_maths (parse_ent g doc)).

(** string level: the math strings of the two parses are the same exactly when no captured subtree has a removable blank *)
Theorem math_strings_equal_iff : forall doc,
  parse_math_strings false doc = parse_math_strings true doc
  <-> Forall (fun m => strip m = m) (ent_maths (parse_ent true doc)).
Proof.
  intros doc. unfold parse_math_strings. rewrite captured_math_by_flag.
  generalize (ent_maths (parse_ent true doc)) as l. induction l as [|m r IH]; cbn [map].
  - split; [constructor|reflexivity].
  - split.
    + intros H. injection H as H1 H2. constructor; [apply math_string_strip_inj; exact H1|apply IH; exact H2].
    + intros H. inversion H; subst. f_equal; [congruence|apply IH; assumption].
Qed.

Theorem math_sensitive_iff : forall doc,
  math_sensitive doc = false <-> Forall (fun m => strip m = m) (ent_maths (parse_ent true doc)).
Proof.
  intros doc. unfold math_sensitive. fold (parse_ent true doc).
  rewrite negb_false_iff, forallb_forall, Forall_forall.
  split; intros H m Hm; specialize (H m Hm).
  - apply String.eqb_eq in H. apply ser_strip_inj. exact H.
  - apply String.eqb_eq. rewrite H. reflexivity.
Qed.

(** * The K19 witness: the same document, the two flag values, different math strings (and equal everything else) *)
Definition k19_doc : xml :=
  Elem CELLML_2_0_NS "model" [("xmlns", CELLML_2_0_NS); ("name", "m")]
    [ Text " ";
      Elem CELLML_2_0_NS "component" [("name", "c")]
        [ Text " ";
          Elem CELLML_2_0_NS "variable" [("name", "x"); ("units", "second")] [];
          Text " ";
          Elem MATHML_NS "math" [("xmlns", MATHML_NS); ("xmlns:cellml", CELLML_2_0_NS)]
            [ Text " ";
              Elem MATHML_NS "apply" []
                [ Elem MATHML_NS "eq" [] []; Text " ";
                  Elem MATHML_NS "ci" [] [Text "x"]; Text " ";
                  Elem MATHML_NS "cn" [("cellml:units", "second")] [Text "1"]; Text " " ];
              Text " " ];
          Text " " ];
      Text " " ].

Theorem math_capture_refuted :
  exists doc, is_element CELLML_2_0_NS "model" doc = true
              /\ parse_math_strings true doc <> parse_math_strings false doc
              /\ parse_issues true doc = [] /\ parse_issues false doc = [].
Proof. exists k19_doc. repeat split; vm_compute; congruence. Qed.

(** * Consumers of a stored math string *)

Lemma filter_strip_kids : forall (p : xml -> bool),
  (forall t, p (strip t) = p t) -> (forall s, p (Text s) = false) ->
  forall l st, filter p (strip_kids st (map strip l)) = map strip (filter p l).
Proof.
  intros p Hs Ht. induction l as [|c r IH]; intros st; [reflexivity|].
  cbn [map strip_kids]. rewrite is_blank_text_strip, is_text_strip, is_nil_map.
  destruct (is_blank_text c && are_blanks st (is_nil r)) eqn:E.
  - apply andb_prop in E. destruct E as [Eb _]. destruct c as [|s|]; try discriminate.
    cbn [filter]. rewrite Ht. apply IH.
  - cbn [filter]. rewrite Hs. destruct (p c); cbn [map]; rewrite IH; reflexivity.
Qed.

Lemma is_elem_strip : forall t, is_elem (strip t) = is_elem t. Proof. destruct t; reflexivity. Qed.
Lemma is_mathml_strip : forall t, is_mathml (strip t) = is_mathml t. Proof. destruct t; reflexivity. Qed.
Lemma xml_name_strip : forall t, xml_name (strip t) = xml_name t. Proof. destruct t; reflexivity. Qed.

Lemma names_of_map_strip : forall l, names_of (map strip l) = names_of l.
Proof. intros. unfold names_of. rewrite map_map. apply map_ext. apply xml_name_strip. Qed.

Lemma mathml_children_strip : forall ks,
  names_of (mathml_children (strip_forest ks)) = names_of (mathml_children ks).
Proof.
  intros. unfold mathml_children. rewrite !filter_first_child by reflexivity.
  unfold strip_forest. rewrite filter_strip_kids by (try apply is_mathml_strip; reflexivity).
  apply names_of_map_strip.
Qed.

(** the documents multiRootXml hands out under the two flag values *)
Lemma multi_root_docs : forall f,
  fst (multi_root false f) = map strip (fst (multi_root true f)).
Proof.
  intros f. unfold multi_root, forest_as_parsed. cbn [fst].
  rewrite !filter_first_child by reflexivity. unfold strip_forest.
  apply filter_strip_kids; [apply is_elem_strip|reflexivity].
Qed.

(** the hypothesis under which the consumers agree: the blank removal changes no ci / cn element *)
Fixpoint tokens_stable (t : xml) : Prop :=
  match t with
  | Elem ns n a ks =>
      if String.eqb n "ci" || String.eqb n "cn" then strip t = t
      else (fix all (l : list xml) : Prop := match l with [] => True | k :: r => tokens_stable k /\ all r end) ks
  | _ => True
  end.

Lemma tokens_stable_kids : forall ns n a ks,
  String.eqb n "ci" || String.eqb n "cn" = false ->
  tokens_stable (Elem ns n a ks) -> Forall tokens_stable ks.
Proof.
  intros ns n a ks E H. cbn [tokens_stable] in H. rewrite E in H.
  induction ks as [|k r IH]; [constructor|]. destruct H as [H1 H2]. constructor; auto.
Qed.

Lemma flat_map_strip_kids : forall X (F : xml -> list X),
  (forall s, F (Text s) = []) ->
  forall l, Forall (fun k => F (strip k) = F k) l ->
  forall st, flat_map F (strip_kids st (map strip l)) = flat_map F l.
Proof.
  intros X F Ht l H. induction H as [|c r Hc Hr IH]; intros st; [reflexivity|].
  cbn [map strip_kids]. rewrite is_blank_text_strip, is_text_strip, is_nil_map.
  destruct (is_blank_text c && are_blanks st (is_nil r)) eqn:E.
  - apply andb_prop in E. destruct E as [Eb _]. destruct c as [|s|]; try discriminate.
    cbn [flat_map]. rewrite Ht. cbn [app]. apply IH.
  - cbn [flat_map]. rewrite Hc, IH. reflexivity.
Qed.

Lemma fold_struct_strip_kids : forall X (G : nat -> xml -> list X),
  forall l, Forall (fun k => forall i, G i (strip k) = G i k) l ->
  forall st acc,
    fold_left (fun s k => if is_mathml k then (S (fst s), (snd s ++ G (fst s) k)%list) else s)
              (strip_kids st (map strip l)) acc
    = fold_left (fun s k => if is_mathml k then (S (fst s), (snd s ++ G (fst s) k)%list) else s) l acc.
Proof.
  intros X G l H. induction H as [|c r Hc Hr IH]; intros st acc; [reflexivity|].
  cbn [map strip_kids]. rewrite is_blank_text_strip, is_text_strip, is_nil_map.
  destruct (is_blank_text c && are_blanks st (is_nil r)) eqn:E.
  - apply andb_prop in E. destruct E as [Eb _]. destruct c as [|s|]; try discriminate.
    cbn [fold_left is_mathml]. apply IH.
  - cbn [fold_left]. rewrite is_mathml_strip, Hc. apply IH.
Qed.

Lemma fold_right_ana_strip_kids : forall (A : xml -> ast),
  forall l, Forall (fun k => A (strip k) = A k) l ->
  forall st,
    fold_right (fun k acc => if is_mathml k then A k :: acc else acc) [] (strip_kids st (map strip l))
    = fold_right (fun k acc => if is_mathml k then A k :: acc else acc) [] l.
Proof.
  intros A l H. induction H as [|c r Hc Hr IH]; intros st; [reflexivity|].
  cbn [map strip_kids]. rewrite is_blank_text_strip, is_text_strip, is_nil_map.
  destruct (is_blank_text c && are_blanks st (is_nil r)) eqn:E.
  - apply andb_prop in E. destruct E as [Eb _]. destruct c as [|s|]; try discriminate.
    cbn [fold_right is_mathml]. apply IH.
  - cbn [fold_right]. rewrite is_mathml_strip, Hc, IH. reflexivity.
Qed.

Section ValidateProofs.
  Variable supported : string -> bool.
  Variable cn_units : list (string * string) -> list vissue.
  Variable rule : list string -> nat -> string -> list string -> list vissue.
  Variable is_basic_real : string -> bool.
  Variable is_integer : string -> bool.
  Variable names : list string.

  Notation v_elements := (v_elements supported).
  Notation v_cicn := (v_cicn cn_units names).
  Notation v_struct := (v_struct rule is_basic_real is_integer).
  Notation validate_doc := (validate_doc supported cn_units rule is_basic_real is_integer names).
  Notation validate_math := (validate_math supported cn_units rule is_basic_real is_integer names).

  (** the unsupported-element scan ignores text altogether: no hypothesis needed *)
  Lemma v_elements_strip : forall t, v_elements (strip t) = v_elements t.
  Proof.
    induction t as [ns n a ks IH| |] using xml_ind'; [|reflexivity|reflexivity].
    cbn [strip GlobalDefs.v_elements]. f_equal. apply flat_map_strip_kids; [reflexivity|exact IH].
  Qed.

  Lemma v_cicn_strip : forall t, tokens_stable t -> v_cicn (strip t) = v_cicn t.
  Proof.
    induction t as [ns n a ks IH| |] using xml_ind'; [|reflexivity|reflexivity].
    intros H. destruct (String.eqb n "ci" || String.eqb n "cn") eqn:E.
    - cbn [tokens_stable] in H. rewrite E in H. rewrite H. reflexivity.
    - pose proof (tokens_stable_kids _ _ _ _ E H) as K.
      cbn [strip GlobalDefs.v_cicn]. apply orb_false_elim in E. destruct E as [E1 E2].
      rewrite E1, E2, !andb_false_r. cbn [app].
      apply flat_map_strip_kids; [reflexivity|].
      rewrite Forall_forall in *. intros k Hk. apply IH; [exact Hk|apply K; exact Hk].
  Qed.

  Lemma v_struct_strip : forall t sibs pos, tokens_stable t -> v_struct sibs pos (strip t) = v_struct sibs pos t.
  Proof.
    induction t as [ns n a ks IH| |] using xml_ind'; [|reflexivity|reflexivity].
    intros sibs pos H. destruct (String.eqb n "ci" || String.eqb n "cn") eqn:E.
    - cbn [tokens_stable] in H. rewrite E in H. rewrite H. reflexivity.
    - pose proof (tokens_stable_kids _ _ _ _ E H) as K.
      cbn [strip GlobalDefs.v_struct]. apply orb_false_elim in E. destruct E as [E1 E2]. rewrite E1, E2.
      destruct (negb (String.eqb ns MATHML_NS)); [reflexivity|].
      fold (strip_forest ks). rewrite mathml_children_strip. f_equal.
      destruct (String.eqb n "apply" || String.eqb n "piecewise" || String.eqb n "piece" || String.eqb n "otherwise");
        [|reflexivity].
      f_equal. unfold strip_forest. apply fold_struct_strip_kids.
      rewrite Forall_forall in *. intros k Hk i. apply IH; [exact Hk|apply K; exact Hk].
  Qed.

  Lemma validate_doc_strip : forall d, tokens_stable d -> validate_doc (strip d) = validate_doc d.
  Proof.
    intros d H. unfold GlobalDefs.validate_doc. rewrite is_math_strip.
    destruct (negb (is_element MATHML_NS "math" d)) eqn:M; [reflexivity|].
    rewrite v_elements_strip, v_cicn_strip by exact H.
    destruct d as [ns n a ks| |]; try discriminate.
    cbn [strip xml_kids]. fold (strip_forest ks). rewrite mathml_children_strip.
    assert (E : String.eqb n "ci" || String.eqb n "cn" = false).
    { cbn in M. apply negb_false_iff, andb_prop in M. destruct M as [_ M]. apply String.eqb_eq in M. subst n. reflexivity. }
    pose proof (tokens_stable_kids _ _ _ _ E H) as K.
    do 3 f_equal. unfold strip_forest. apply fold_struct_strip_kids.
    rewrite Forall_forall in *. intros k Hk i. apply v_struct_strip. apply K; exact Hk.
  Qed.

  Theorem validate_math_insensitive_partial : forall f,
    Forall tokens_stable f -> fst (validate_math false f) = fst (validate_math true f).
  Proof.
    intros f H. unfold GlobalDefs.validate_math.
    pose proof (multi_root_docs f) as D.
    assert (S : Forall tokens_stable (fst (multi_root true f))).
    { unfold multi_root, forest_as_parsed. cbn [fst]. rewrite filter_first_child by reflexivity.
      rewrite Forall_forall in *. intros k Hk. apply filter_In in Hk. apply H. tauto. }
    destruct (multi_root false f) as [d0 g0]. destruct (multi_root true f) as [d1 g1]. cbn [fst] in *. subst d0.
    induction S as [|d r Hd Hr IH]; [reflexivity|].
    cbn [map flat_map]. rewrite validate_doc_strip by exact Hd. f_equal. exact IH.
  Qed.
End ValidateProofs.

(** the analyser's AST under the same hypothesis *)
Lemma ana_strip : forall t, tokens_stable t -> ana (strip t) = ana t.
Proof.
  induction t as [ns n a ks IH| |] using xml_ind'; [|reflexivity|reflexivity].
  intros H. destruct (String.eqb n "ci" || String.eqb n "cn") eqn:E.
  - cbn [tokens_stable] in H. rewrite E in H. rewrite H. reflexivity.
  - pose proof (tokens_stable_kids _ _ _ _ E H) as K.
    cbn [strip ana]. rewrite E. f_equal. apply fold_right_ana_strip_kids.
    rewrite Forall_forall in *. intros k Hk. apply IH; [exact Hk|apply K; exact Hk].
Qed.

Theorem analyse_math_insensitive_partial : forall f,
  Forall tokens_stable f -> fst (analyse_math false f) = fst (analyse_math true f).
Proof.
  intros f H. unfold analyse_math. pose proof (multi_root_docs f) as D.
  assert (S : Forall tokens_stable (fst (multi_root true f))).
  { unfold multi_root, forest_as_parsed. cbn [fst]. rewrite filter_first_child by reflexivity.
    rewrite Forall_forall in *. intros k Hk. apply filter_In in Hk. apply H. tauto. }
  destruct (multi_root false f) as [d0 g0]. destruct (multi_root true f) as [d1 g1]. cbn [fst] in *. subst d0.
  rewrite map_map. apply map_ext_Forall. rewrite Forall_forall in *. intros d Hd. apply ana_strip. apply S; exact Hd.
Qed.

(** the witness of the validator's sensitivity: <ci><!--a--> <!--b-->x</ci> *)
Definition token_comment_forest : list xml :=
  [ Elem MATHML_NS "math" [("xmlns", MATHML_NS)]
      [ Elem MATHML_NS "apply" []
          [ Elem MATHML_NS "eq" [] [];
            Elem MATHML_NS "ci" [] [Comment "a"; Text " "; Comment "b"; Text "x"];
            Elem MATHML_NS "cn" [("cellml:units", "second")] [Text "1"] ] ] ].

Theorem validate_math_refuted :
  exists f,
    fst (validate_math (fun _ => true) (fun _ => []) (fun _ _ _ _ => []) (fun _ => true) (fun _ => true) ["x"] true f) = [VCiEmpty]
    /\ fst (validate_math (fun _ => true) (fun _ => []) (fun _ _ _ _ => []) (fun _ => true) (fun _ => true) ["x"] false f) = [].
Proof. exists token_comment_forest. split; vm_compute; reflexivity. Qed.

(** the printer: printMath parses under xmlKeepBlanksDefault(0) whatever the flag was, so the printed math
    does not depend on the flag under which the string was captured *)
Theorem blank_insensitive_print : forall g f, fst (print_math (forest_as_parsed g f)) = fst (print_math f).
Proof.
  intros g f. destruct g; [reflexivity|]. unfold print_math, forest_as_parsed. cbn [fst].
  rewrite strip_forest_idem. reflexivity.
Qed.

Theorem blank_insensitive_print_model : forall g g1 g2 maths,
  fst (print_model g (map (forest_as_parsed g1) maths)) = fst (print_model g (map (forest_as_parsed g2) maths)).
Proof.
  intros. unfold print_model. cbn [fst]. rewrite !map_map. apply map_ext. intros f.
  rewrite !blank_insensitive_print. reflexivity.
Qed.

(** non-vacuity of the hypothesis: a math with removable blanks whose tokens are stable *)
Definition k19_math : xml :=
  Elem MATHML_NS "math" [("xmlns", MATHML_NS)]
    [ Text " ";
      Elem MATHML_NS "apply" []
        [ Elem MATHML_NS "eq" [] []; Text " "; Elem MATHML_NS "ci" [] [Text "x"]; Text " ";
          Elem MATHML_NS "cn" [("cellml:units", "second")] [Text "1"] ];
      Text " " ].

Lemma tokens_stable_nonvacuous : tokens_stable k19_math /\ strip k19_math <> k19_math.
Proof. split; [cbn; repeat split|vm_compute; discriminate]. Qed.

(** * Issue lists *)
From LCGen Require GlobalSites.

Definition resets_now (s : service) : bool := site_resets GlobalSites.reset_sites (service_site s).

Theorem call_resets_issues : forall (I : Type) (s : service) (old body : list I),
  call_issues (resets_now s) old body = body.
Proof. intros I s old body. destruct s; vm_compute; reflexivity. Qed.

(** what an entry point without the reset does (the Printer before fixes/C12-printer-issues-reset.diff) *)
Theorem call_without_reset_refuted : exists (old body : list nat), call_issues false old body <> body.
Proof. exists [1], [2]. discriminate. Qed.

(** * The writers of process-global state are the modelled ones *)
Theorem flag_writers_are_modelled :
  GlobalSites.flag_writers =
  [("printer.cpp", "Printer::PrinterImpl::printMath", 0); ("printer.cpp", "Printer::printModel", 0);
   ("xmlnode.cpp", "XmlNode::convertToString", 1)].
Proof. vm_compute. reflexivity. Qed.

Theorem other_global_calls_are_modelled :
  GlobalSites.other_global_calls =
  [("xmldoc.cpp", "XmlDoc::parse", "xmlCleanupParser"); ("xmldoc.cpp", "XmlDoc::parse", "xmlInitParser");
   ("xmldoc.cpp", "XmlDoc::parse", "xmlSetStructuredErrorFunc");
   ("xmldoc.cpp", "XmlDoc::parseMathML", "xmlCleanupParser"); ("xmldoc.cpp", "XmlDoc::parseMathML", "xmlInitParser");
   ("xmldoc.cpp", "XmlDoc::parseMathML", "xmlSetStructuredErrorFunc")].
Proof. vm_compute. reflexivity. Qed.

Theorem mutable_statics_are_modelled :
  GlobalSites.mutable_statics =
  [("debug.cpp", "astAsCode", "GeneratorProfilePtr generatorProfile = nullptr");
   ("xmldoc.cpp", "XmlDoc::parseMathML", "std::string mathMLDTD")].
Proof. vm_compute. reflexivity. Qed.

Theorem tree_is_repaired :
  GlobalSites.flatten_writes_library = false /\ GlobalSites.analyser_starts_fresh = true
  /\ resets_now SPrinter = true.
Proof. vm_compute. repeat split; reflexivity. Qed.

(** the other global state: a result never reads it *)
Theorem gstep_flag : forall s o, keep_blanks (gstep s o) = step (keep_blanks s) o.
Proof. reflexivity. Qed.
Theorem parse_clobbers_error_handler : forall s o, uses_parse o = true -> err_handler (gstep s o) = None.
Proof. intros s o H. cbn [gstep err_handler]. rewrite H. reflexivity. Qed.
Theorem dtd_cache_monotone : forall s o, dtd_cached s = true -> dtd_cached (gstep s o) = true.
Proof. intros s o H. cbn [gstep dtd_cached]. rewrite H. reflexivity. Qed.

(** * Frame *)
Lemma run_frame : forall l w base,
  base <= next_id w -> fresh_only base (next_id w) l = true ->
  forall i, i < base -> content (run w l) i = content w i.
Proof.
  induction l as [|a r IH]; intros w base Hb Hf i Hi; [reflexivity|].
  unfold run in *. cbn [fold_left]. destruct a as [|t v]; cbn [fresh_only] in Hf.
  - rewrite (IH (act w Alloc) base); [reflexivity|cbn; lia|exact Hf|exact Hi].
  - apply andb_prop in Hf. destruct Hf as [Hf1 Hf2]. apply andb_prop in Hf1. destruct Hf1 as [H1 H2].
    apply Nat.leb_le in H1.
    rewrite (IH (act w (Write t v)) base); [|cbn; lia|exact Hf2|exact Hi].
    cbn [act content]. destruct (Nat.eqb i t) eqn:E; [apply Nat.eqb_eq in E; lia|reflexivity].
Qed.

Definition all_fresh (l : list (string * recv)) : bool :=
  forallb (fun sr => match snd sr with RFresh => true | RGiven => false end) l.

Lemma actions_fresh : forall l base old, all_fresh l = true -> fresh_only base base (actions_of base old l) = true.
Proof.
  intros l base old H. unfold actions_of. cbn [fresh_only].
  induction l as [|[s r] l IH]; [reflexivity|].
  cbn [all_fresh forallb snd] in H. apply andb_prop in H. destruct H as [H1 H2].
  destruct r; [|discriminate]. cbn [map snd fresh_only].
  rewrite Nat.leb_refl. assert (L : Nat.ltb base (S base) = true) by (apply Nat.ltb_lt; lia). rewrite L.
  cbn [andb]. apply IH. exact H2.
Qed.

Theorem repaired_services_write_fresh : forall s, all_fresh (service_writes true true s) = true.
Proof. intros s. destruct s as [| | | | |valid]; try reflexivity. Qed.

Theorem services_do_not_mutate : forall (s : svc) (w : world) (old i : nat),
  i < next_id w ->
  content (run w (actions_of (next_id w) old (service_writes true true s))) i = content w i.
Proof.
  intros s w old i Hi. apply (run_frame _ w (next_id w)); [lia| |exact Hi].
  apply actions_fresh. apply repaired_services_write_fresh.
Qed.

(** the readers do not even depend on the repairs *)
Theorem readers_do_not_mutate : forall ff fa (s : svc) (w : world) (old i : nat),
  (s = VPrinter \/ s = VValidator \/ s = VAnalyser \/ s = VGenerator) ->
  i < next_id w ->
  content (run w (actions_of (next_id w) old (service_writes ff fa s))) i = content w i.
Proof. intros ff fa s w old i [H|[H|[H|H]]] Hi; subst s; reflexivity. Qed.

(** before the repairs: flattenModel writes to a pre-existing (library) object; analysing an invalid model
    writes to the result of the previous call *)
Theorem flatten_unrepaired_refuted : exists (w : world) (old : nat),
  old < next_id w /\ content (run w (actions_of (next_id w) old (service_writes false true VFlatten))) old <> content w old.
Proof. exists {| next_id := 1; content := fun _ => 0 |}, 0. split; [cbn; lia|vm_compute; discriminate]. Qed.

Theorem analyser_unrepaired_refuted : exists (w : world) (old : nat),
  old < next_id w
  /\ content (run w (actions_of (next_id w) old (service_writes true false (VAnalyserResult false)))) old <> content w old.
Proof. exists {| next_id := 1; content := fun _ => 0 |}, 0. split; [cbn; lia|vm_compute; discriminate]. Qed.

(** the models an Importer parses into its library: the same statement, file by file *)
Theorem blank_insensitive_import : forall g1 g2 docs,
  map (fun d => (erase_math (parse_ent g1 d), parse_issues g1 d)) docs
  = map (fun d => (erase_math (parse_ent g2 d), parse_issues g2 d)) docs.
Proof.
  intros. apply map_ext. intros d. destruct (blank_insensitive_load_structure g1 g2 d) as [H1 H2].
  rewrite H1, H2. reflexivity.
Qed.

(** resolving can only set the flag, never clear it *)
Theorem resolve_keeps_or_sets : forall g docs maths, step g (OResolve docs maths) = false -> g = false.
Proof.
  intros g docs maths H. destruct g; [|reflexivity]. cbn [step] in H. rewrite resolve_true, reread_true in H. discriminate.
Qed.
Theorem flatten_keeps_or_sets : forall g maths, step g (OFlatten maths) = false -> g = false.
Proof.
  intros g maths H. destruct g; [|reflexivity]. cbn [step] in H. rewrite reread_true in H. discriminate.
Qed.

(** * Per-instance state *)
Theorem instance_members_ok : members_ok GlobalSites.instance_members = true.
Proof. vm_compute. reflexivity. Qed.

Theorem instance_members_are_the_modelled_ones :
  map (fun e : string * string * bool => let '(c, m, _) := e in (c, m)) GlobalSites.instance_members =
  [("Logger::LoggerImpl", "mErrors"); ("Logger::LoggerImpl", "mWarnings"); ("Logger::LoggerImpl", "mMessages");
   ("Logger::LoggerImpl", "mIssues");
   ("Parser::ParserImpl", "mParser"); ("Parser::ParserImpl", "mParsing1XVersion"); ("Parser::ParserImpl", "mParsing20Version");
   ("Validator::ValidatorImpl", "mValidator");
   ("Analyser::AnalyserImpl", "mAnalyser"); ("Analyser::AnalyserImpl", "mModel"); ("Analyser::AnalyserImpl", "mExternalVariables");
   ("Analyser::AnalyserImpl", "mInternalVariables"); ("Analyser::AnalyserImpl", "mInternalEquations");
   ("Analyser::AnalyserImpl", "mGeneratorProfile"); ("Analyser::AnalyserImpl", "mStandardUnits"); ("Analyser::AnalyserImpl", "mCiCnUnits");
   ("Generator::GeneratorImpl", "mModel"); ("Generator::GeneratorImpl", "mCode"); ("Generator::GeneratorImpl", "mProfile");
   ("Printer::PrinterImpl", "mPrinter");
   ("Importer::ImporterImpl", "mImporter"); ("Importer::ImporterImpl", "mLibrary"); ("Importer::ImporterImpl", "mImports");
   ("Annotator::AnnotatorImpl", "mAnnotator"); ("Annotator::AnnotatorImpl", "mIdList"); ("Annotator::AnnotatorImpl", "mModel");
   ("Annotator::AnnotatorImpl", "mCounter"); ("Annotator::AnnotatorImpl", "mHash");
   ("Strict::StrictImpl", "mStrict")].
Proof. vm_compute. reflexivity. Qed.

Section InstanceProofs.
  Variables (A R : Type).
  Variable cls : string -> mclass.
  Variable init : istate.
  Variable body : A -> istate -> R * istate.

  (** what is assumed of the code of a call (and observed by the same-instance histories of every run):
      it does not write the members that only the constructor / the setters of the API write, and caches are transparent *)
  Hypothesis untouched : forall a s m, is_fixed (cls m) = true -> snd (body a s) m = s m.
  Hypothesis transparent : forall a s1 s2, (forall m, is_cache (cls m) = false -> s1 m = s2 m) -> fst (body a s1) = fst (body a s2).
  (** every member is per-call scratch, fixed, or a transparent cache: no counter, nothing unclassified *)
  Hypothesis classified : forall m, is_reset (cls m) || is_fixed (cls m) || is_cache (cls m) = true.

  Lemma run_history_fixed : forall ys s m, is_fixed (cls m) = true -> run_history A R cls init body s ys m = s m.
  Proof.
    induction ys as [|a r IH]; intros s m Hm; [reflexivity|].
    cbn [run_history]. rewrite IH by exact Hm. unfold call. rewrite untouched by exact Hm.
    unfold head. destruct (is_reset (cls m)) eqn:E; [|reflexivity].
    destruct (cls m); discriminate.
  Qed.

  Theorem same_instance_history_irrelevant : forall ys x,
    result_after A R cls init body ys x = result_after A R cls init body [] x.
  Proof.
    intros ys x. unfold result_after, call. apply transparent. intros m Hc.
    cbn [run_history]. unfold head. destruct (is_reset (cls m)) eqn:E; [reflexivity|].
    apply run_history_fixed. pose proof (classified m) as K. rewrite E, Hc in K.
    rewrite orb_false_r in K. exact K.
  Qed.

  (** without the assumption that calls leave documented state alone (Importer: the library grows; Generator / Annotator:
      set through the API between calls): the result is a function of the argument and of the members that are neither
      per-call scratch nor caches *)
  Theorem result_depends_on_persistent_state_only : forall x s1 s2,
    (forall m, is_reset (cls m) = false -> is_cache (cls m) = false -> s1 m = s2 m) ->
    fst (call A R cls init body x s1) = fst (call A R cls init body x s2).
  Proof.
    intros x s1 s2 H. unfold call. apply transparent. intros m Hc. unfold head.
    destruct (is_reset (cls m)) eqn:E; [reflexivity|]. apply H; assumption.
  Qed.
End InstanceProofs.

(** the services all of whose members are scratch / fixed / caches: everything but the Annotator (its counter) *)
Theorem services_members_classified : forall c m,
  (c = "Logger::LoggerImpl" \/ c = "Parser::ParserImpl" \/ c = "Validator::ValidatorImpl" \/ c = "Analyser::AnalyserImpl"
   \/ c = "Generator::GeneratorImpl" \/ c = "Printer::PrinterImpl" \/ c = "Importer::ImporterImpl" \/ c = "Strict::StrictImpl") ->
  In m (map (fun e : string * string * bool => let '(_, m, _) := e in m)
            (filter (fun e : string * string * bool => let '(c', _, _) := e in String.eqb c' c) GlobalSites.instance_members)) ->
  is_reset (classify c m) || is_fixed (classify c m) || is_cache (classify c m) = true.
Proof.
  intros c m H Hin.
  repeat (destruct H as [H|H]; [subst c; vm_compute in Hin; repeat (destruct Hin as [Hin|Hin]; [subst m; reflexivity|]); contradiction|]).
  subst c; vm_compute in Hin; repeat (destruct Hin as [Hin|Hin]; [subst m; reflexivity|]); contradiction.
Qed.

(** a member that is a counter makes the result depend on the history: one member, read and incremented by the call *)
Theorem counter_member_refuted :
  exists (cls : string -> mclass) (init : istate) (body : nat -> istate -> nat * istate),
    (forall m, cls m = MCounter) /\
    result_after nat nat cls init body [0] 0 <> result_after nat nat cls init body [] 0.
Proof.
  exists (fun _ => MCounter), (fun _ => 0),
         (fun _ s => (s "mCounter", fun m => if String.eqb m "mCounter" then S (s m) else s m)).
  split; [reflexivity|vm_compute; discriminate].
Qed.

(** * flattenModel: the result is a new object, the argument is only read *)
Theorem flatten_result_is_a_clone : GlobalSites.flatten_result_exprs = ["model->clone()"].
Proof. vm_compute. reflexivity. Qed.

Theorem flatten_argument_only_read :
  flatten_reads_argument_only GlobalSites.flatten_calls GlobalSites.flatten_model_passed = true.
Proof. vm_compute. reflexivity. Qed.

(** linkUnits (the statement that repairs unlinked units) is applied to the clone *)
Theorem flatten_links_the_clone :
  filter (fun rm => String.eqb (snd rm) "linkUnits") GlobalSites.flatten_calls = [("flatModel", "linkUnits")].
Proof. vm_compute. reflexivity. Qed.

Lemma next_id_mono : forall l v, next_id v <= next_id (fold_left act l v).
Proof.
  induction l as [|a r IH]; intros v; [cbn; lia|]. cbn [fold_left].
  specialize (IH (act v a)).
  assert (K : next_id v <= next_id (act v a)) by (destruct a; cbn; lia).
  lia.
Qed.

Theorem result_is_new_object : forall (s : svc) (w : world) (old : nat),
  (forall i, i < next_id w -> i <> result_object w)
  /\ result_object w < next_id (run w (actions_of (next_id w) old (service_writes true true s))).
Proof.
  intros s w old. split; [unfold result_object; intros i H E; subst i; lia|].
  unfold result_object, actions_of, run. cbn [fold_left].
  match goal with |- _ < next_id (fold_left act ?l ?v) => pose proof (next_id_mono l v) as G end.
  assert (K : next_id (act w Alloc) = S (next_id w)) by reflexivity.
  lia.
Qed.

(** every observation of every pre-existing object — content, references, status predicates — is unchanged *)
Theorem services_preserve_every_observation : forall (X : Type) (f : observation X) (s : svc) (w : world) (old i : nat),
  i < next_id w ->
  f (content (run w (actions_of (next_id w) old (service_writes true true s))) i) = f (content w i).
Proof. intros X f s w old i H. rewrite services_do_not_mutate by exact H. reflexivity. Qed.
