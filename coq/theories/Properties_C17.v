(** Properties_C17.v — placeholder while the proofs are being written. *)
From LC Require Import EmitDefs.
Example C17_placeholder : is_valid (mkAmodel MOde None nil nil false nil nil) = true.
Proof. reflexivity. Qed.
Print Assumptions C17_placeholder.
