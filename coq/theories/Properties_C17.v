(** Properties_C17.v — statements only.  Each theorem is closed by [exact <lemma of EmitProofs>] and followed by
    Print Assumptions.  C17: the declared structure of the generated code matches the analysed model.

    Model: EmitDefs.v (transcription of generator.cpp's count / info-table / buffer-size / helper / method-frame
    emission, of Generator::interfaceCode / implementationCode with their guards, of the (ODE, externals) selectors of
    generatorprofile.cpp and of analyser.cpp's analyseNode with its mNeed*Function flags), over the profile tables
    LCGen.ProfileStrings regenerated from generatorprofile.cpp on every run: every statement below that mentions
    profile_C / profile_Py / prof k is re-checked against the strings the library has NOW. *)
From Coq Require Import String Ascii List Bool Arith.
From LC Require Import Common AstDefs GenDefs EmitDefs EmitProofs EmitIndexProofs EmitRefsProofs.
From LCGen Require Import AstTypes ProfileStrings ProfileMembers.
Import ListNotations.
Local Open Scope string_scope.

(** ** 1. counts *)

(** The implementation carries "STATE_COUNT = <number of states>" (only for a model with ODEs) and
    "VARIABLE_COUNT = <number of variables>", in the syntax of the profile; the C interface declares the same names. *)
Theorem C17_counts_match : forall k m,
  state_and_variable_count_code (prof k) m false =
    (if has_odes m then count_line k "STATE_COUNT" (length (am_states m)) else "")
    ++ count_line k "VARIABLE_COUNT" (length (am_variables m))
  /\ state_and_variable_count_code (prof k) m true =
    (if has_odes m then count_decl k "STATE_COUNT" else "") ++ count_decl k "VARIABLE_COUNT".
Proof. exact EmitProofs.counts_match. Qed.
Print Assumptions C17_counts_match.

(** ... and the number can be read back: different counts give different text. *)
Theorem C17_count_line_inj : forall k name n n', count_line k name n = count_line k name n' -> n = n'.
Proof. exact EmitProofs.count_line_inj. Qed.
Print Assumptions C17_count_line_inj.

(** ** 2. info tables: row i describes the analyser variable with index i
    Hypothesis [wf_indices]: state indices are 0..n-1 in list order, variable indices likewise.  That is C05's theorem
    Properties_C05.C05_result_wf_indices (analyse s = Done r -> wf_indices r = true) about the analyser's index
    assignment; the check re-validates it on the accessor dump of every generated model. *)
Theorem C17_info_entry_i : forall k m v, wf_indices m -> In v (am_variables m) ->
  nth_error (variable_info_table (prof k) m) (av_index v) = Some (variable_info (prof k) v).
Proof. exact EmitProofs.info_entry_i. Qed.
Print Assumptions C17_info_entry_i.

Theorem C17_state_info_entry_i : forall k m v, wf_indices m -> In v (am_states m) ->
  nth_error (state_info_table (prof k) m) (av_index v) = Some (state_info (prof k) v).
Proof. exact EmitProofs.state_entry_i. Qed.
Print Assumptions C17_state_info_entry_i.

(** conversely every row is the row of the variable whose index is the row number, and there are exactly
    STATE_COUNT / VARIABLE_COUNT rows *)
Theorem C17_info_row_i : forall k m i r, wf_indices m -> nth_error (variable_info_table (prof k) m) i = Some r ->
  exists v, In v (am_variables m) /\ av_index v = i /\ r = variable_info (prof k) v.
Proof. exact EmitProofs.info_row_i. Qed.
Print Assumptions C17_info_row_i.

Theorem C17_info_table_lengths : forall k m,
  length (state_info_table (prof k) m) = length (am_states m)
  /\ length (variable_info_table (prof k) m) = length (am_variables m).
Proof. exact EmitProofs.info_lengths. Qed.
Print Assumptions C17_info_table_lengths.

(** the type column: CONSTANT / COMPUTED_CONSTANT / ALGEBRAIC / EXTERNAL (with the "VariableType." prefix in Python) *)
Theorem C17_variable_type_text : forall k t, variable_type_string (prof k) t = type_text k t.
Proof. exact EmitProofs.variable_type_text. Qed.
Print Assumptions C17_variable_type_text.

(** one row as text: {"name", "units", "component", TYPE} — for names without '[' (CellML identifiers) *)
Theorem C17_info_entry_text : forall k i,
  ident_ok (i_name i) = true -> ident_ok (i_units i) = true -> ident_ok (i_component i) = true ->
  info_entry_code (prof k) i = entry_text k i.
Proof. exact EmitProofs.info_entry_text. Qed.
Print Assumptions C17_info_entry_text.

(** the emitted table is the rows, in order, joined by ",\n": row i of the text is row i of the table *)
Theorem C17_info_rows_in_order : forall k rows,
  info_elements_code (prof k) rows =
  str_concat (array_element_separator_string (prof k) ++ nl)
             (map (fun i => indent_string (prof k) ++ info_entry_code (prof k) i) rows).
Proof. exact EmitProofs.info_rows_in_order. Qed.
Print Assumptions C17_info_rows_in_order.

(** VOI_INFO and STATE_INFO are emitted exactly for models with ODEs, VARIABLE_INFO always, with these frames *)
Theorem C17_voi_info_text : forall k m code v, am_voi m = Some v ->
  add_implementation_voi_info (prof k) m code =
  if has_odes m then code ++ nlin code ++ voi_line k (info_entry_code (prof k) (voi_info (prof k) v)) else code.
Proof. exact EmitProofs.implementation_voi_info_text. Qed.
Print Assumptions C17_voi_info_text.

Theorem C17_state_info_text : forall k m code,
  add_implementation_state_info (prof k) m code =
  if has_odes m
  then code ++ nlin code ++ table_text k "STATE_INFO" (info_elements_code (prof k) (state_info_table (prof k) m) ++ nl)
  else code.
Proof. exact EmitProofs.implementation_state_info_text. Qed.
Print Assumptions C17_state_info_text.

Theorem C17_variable_info_text : forall k m code,
  add_implementation_variable_info (prof k) m code =
  code ++ nlin code ++ table_text k "VARIABLE_INFO"
    (let e := info_elements_code (prof k) (variable_info_table (prof k) m) in if is_empty e then e else e ++ nl).
Proof. exact EmitProofs.implementation_variable_info_text. Qed.
Print Assumptions C17_variable_info_text.

(** ** 3. buffers *)

(** every name / units / component string that goes into a VariableInfo record (the voi and the states only for a
    model with ODEs, the variables always) is strictly shorter than the declared size of its buffer *)
Theorem C17_buffers_fit : forall m v, In v (info_vars m) -> fits v (info_sizes m).
Proof. exact EmitProofs.buffers_fit. Qed.
Print Assumptions C17_buffers_fit.

(** and no byte is wasted: each size is 1 + the length of the longest string of its kind *)
Theorem C17_sizes_tight : forall m, info_vars m <> [] ->
  (exists v, In v (info_vars m) /\ sz_component (info_sizes m) = String.length (av_comp v) + 1)
  /\ (exists v, In v (info_vars m) /\ sz_name (info_sizes m) = String.length (av_name v) + 1)
  /\ (exists v, In v (info_vars m) /\ sz_units (info_sizes m) = String.length (av_units v) + 1).
Proof. exact EmitProofs.sizes_tight. Qed.
Print Assumptions C17_sizes_tight.

(** the sizes are what the C interface declares *)
Theorem C17_declared_buffer_sizes : forall m,
  variable_info_object_code m (variable_info_object_string profile_C) =
  "typedef struct {" ++ nl ++ "    char name[" ++ nat_to_string (sz_name (info_sizes m)) ++ "];" ++ nl
  ++ "    char units[" ++ nat_to_string (sz_units (info_sizes m)) ++ "];" ++ nl
  ++ "    char component[" ++ nat_to_string (sz_component (info_sizes m)) ++ "];" ++ nl
  ++ "    VariableType type;" ++ nl ++ "} VariableInfo;" ++ nl.
Proof. exact EmitProofs.variable_info_object_text. Qed.
Print Assumptions C17_declared_buffer_sizes.

(** ** 4. need-flags *)

(** AST level: the flag of helper h is set exactly when a node of h's type occurs in the equation's AST — anywhere:
    [occurs] descends through both children of every node, so an operator inside a DEGREE / LOGBASE / BVAR qualifier,
    a PIECE value or condition, an OTHERWISE or an n-ary tail is found (by induction on the AST). *)
Theorem C17_flag_iff_occurs : forall h a, get_flag h (need_flags a) = true <-> occurs (ty_of_helper h) a.
Proof. exact EmitProofs.flag_iff_occurs. Qed.
Print Assumptions C17_flag_iff_occurs.

Theorem C17_flags_of_equations : forall l h,
  get_flag h (need_flags_list l) = true <-> exists a, In a l /\ occurs (ty_of_helper h) a.
Proof. exact EmitProofs.need_flags_list_spec. Qed.
Print Assumptions C17_flags_of_equations.

(** qualifier and piecewise skeleton nodes flag nothing themselves and hide nothing *)
Theorem C17_qualifier_transparent : forall h q v a, In q [DEGREE; LOGBASE; BVAR; PIECE; OTHERWISE; PIECEWISE] ->
  get_flag h (need_flags (Node q v a Null)) = get_flag h (need_flags a).
Proof. exact EmitProofs.qualifier_transparent. Qed.
Print Assumptions C17_qualifier_transparent.

(** MathML level (analyseNode itself): the flags after analysing a tree are the flags before plus exactly the helper
    types of the AST that was built (the operator of every apply being an element without children) ... *)
Theorem C17_analyse_flags_are_ast_flags : forall n, heads_leaf n = true -> forall pm gp fl h,
  get_flag h (snd (analyse pm gp n fl)) = get_flag h fl || occurs_b (ty_of_helper h) (fst (analyse pm gp n fl)).
Proof. exact EmitProofs.analyse_flags_ok. Qed.
Print Assumptions C17_analyse_flags_are_ast_flags.

(** ... and, on trees of the arity the MathML DTD / the validator let through, plus exactly the helper elements
    that occur in the tree at any depth *)
Theorem C17_analyse_flags_are_elements : forall n, wf_mml n = true -> forall pm gp fl h,
  get_flag h (snd (analyse pm gp n fl)) = get_flag h fl || uses pm gp h n.
Proof. exact EmitProofs.analyse_uses. Qed.
Print Assumptions C17_analyse_flags_are_elements.

Theorem C17_uses_iff_element : forall h, h <> HEq -> forall n pm gp,
  uses pm gp h n = true <-> has_element (element_name h) n.
Proof. exact EmitProofs.uses_iff_element. Qed.
Print Assumptions C17_uses_iff_element.

(** `eq`: the equality of an equation is not an operator, every other eq element is *)
Theorem C17_eq_equation : forall args,
  uses true false HEq (El "apply" (El "eq" [] :: args)) = existsb (uses false true HEq) args.
Proof. exact EmitProofs.uses_eq_equation. Qed.
Print Assumptions C17_eq_equation.

Theorem C17_eq_operand : forall name kids, name <> "eq" ->
  (uses false true HEq (El name kids) = true <-> has_element "eq" (El name kids)).
Proof. exact EmitProofs.uses_eq_operand. Qed.
Print Assumptions C17_eq_operand.

(** the flags of a whole model (every top-level child of every <math>, all components) *)
Theorem C17_model_flags : forall eqs, forallb wf_mml eqs = true ->
  forall h, get_flag h (snd (analyse_math eqs)) = existsb (uses true false h) eqs.
Proof. exact EmitProofs.analyse_math_uses. Qed.
Print Assumptions C17_model_flags.

(** ** 5. helper functions *)

(** a helper's definition is emitted iff its flag is set and the profile has no native operator for it — for both
    built-in profiles, over the regenerated table (this includes: every helper that might be needed HAS a
    non-empty definition string) *)
Theorem C17_helper_iff : forall k m h, is_valid m = true ->
  (In h (helpers_emitted (prof k) m) <-> get_flag h (am_flags m) = true /\ has_operator (prof k) h = false).
Proof. exact EmitProofs.helper_iff. Qed.
Print Assumptions C17_helper_iff.

Theorem C17_profile_lacks_C : forall h, has_operator profile_C h = false <->
  In h [HXor; HMin; HMax; HSec; HCsc; HCot; HSech; HCsch; HCoth; HAsec; HAcsc; HAcot; HAsech; HAcsch; HAcoth].
Proof. exact EmitProofs.profile_lacks_C. Qed.
Print Assumptions C17_profile_lacks_C.

Theorem C17_profile_lacks_Py : forall h, has_operator profile_Py h = false.
Proof. exact EmitProofs.profile_lacks_Py. Qed.
Print Assumptions C17_profile_lacks_Py.

(** the definition defines the very name that generateCode prints for the operator *)
Theorem C17_helper_defines_called_name : forall k h, has_operator (prof k) h = false ->
  sig_name (def_sig (function_string (prof k) h)) = call_string (prof k) h.
Proof. exact EmitProofs.helper_defines_called_name. Qed.
Print Assumptions C17_helper_defines_called_name.

(** nothing is emitted "just in case": no flag or no valid model, no helper *)
Theorem C17_helper_needs_flag : forall p m h, In h (helpers_emitted p m) ->
  is_valid m = true /\ get_flag h (am_flags m) = true.
Proof. exact EmitProofs.helper_needs_flag. Qed.
Print Assumptions C17_helper_needs_flag.

(** "helper functions are emitted exactly when the equations use them": read against the equations of the ANALYSED
    model (AnalyserModel::equations()) this is refuted — an equation replaced by an external variable keeps the flags
    that analyseNode set while reading its MathML (known finding C17-helper-for-externalised-equation, pinned by the
    expected files of tests/generator) ... *)
Theorem C17_helper_iff_used_refuted :
  is_valid ext_model = true /\ wf_mml ext_equation = true
  /\ In HSec (helpers_emitted profile_C ext_model) /\ In HSec (helpers_emitted profile_Py ext_model)
  /\ ~ equations_use ext_model HSec.
Proof. exact EmitProofs.helper_iff_used_refuted. Qed.
Print Assumptions C17_helper_iff_used_refuted.

(** ... and it holds whenever the flags are those of the ASTs the model kept (no equation externalised or dropped;
    the check compares the two on every model) *)
Theorem C17_helper_iff_used_partial : forall k m h, is_valid m = true -> flags_from_equations m ->
  (In h (helpers_emitted (prof k) m) <-> equations_use m h /\ has_operator (prof k) h = false).
Proof. exact EmitProofs.helper_iff_used_partial. Qed.
Print Assumptions C17_helper_iff_used_partial.

(** the flags analyseNode leaves in the model are those of the ASTs it built, over all equations *)
Theorem C17_model_flags_are_ast_flags : forall eqs, forallb heads_leaf eqs = true ->
  forall h, get_flag h (snd (analyse_math eqs)) = get_flag h (need_flags_list (fst (analyse_math eqs))).
Proof. exact EmitProofs.analyse_math_flags_ast. Qed.
Print Assumptions C17_model_flags_are_ast_flags.

(** ** 6. interface and implementation agree *)

(** what the C interface declares, for each (model has ODEs, model has external variables) *)
Theorem C17_declared_sigs_table : forall m, declared_sigs profile_C m = declared_C (has_odes m) (am_has_ext m).
Proof. exact EmitProofs.declared_sigs_table. Qed.
Print Assumptions C17_declared_sigs_table.

Theorem C17_declared_names : forall m,
  map sig_name (declared_sigs profile_C m) =
  ((if has_odes m then ["createStatesArray"] else [])
   ++ ["createVariablesArray"; "deleteArray"; "initialiseVariables"; "computeComputedConstants"]
   ++ (if has_odes m then ["computeRates"] else []) ++ ["computeVariables"])%list.
Proof. exact EmitProofs.declared_names. Qed.
Print Assumptions C17_declared_names.

(** every function declared in the interface is defined exactly once in the implementation with the same signature
    string — whatever helpers are emitted and whatever NLA systems the model has (their functions have other names) *)
Theorem C17_declared_defined_once : forall m s, In s (declared_sigs profile_C m) ->
  count_occ string_dec (defined_sigs profile_C m) s = 1.
Proof. exact EmitProofs.declared_defined_once. Qed.
Print Assumptions C17_declared_defined_once.

(** the Python profile has no interface at all *)
Theorem C17_python_has_no_interface : forall ver m, interface_code PPy (Some profile_Py) ver m = "".
Proof. exact EmitProofs.python_has_no_interface. Qed.
Print Assumptions C17_python_has_no_interface.

(** the other interface pieces by combination *)
Theorem C17_interface_info_declarations : forall m code,
  add_interface_voi_state_and_variable_info profile_C m code =
  code ++ nl ++ (if has_odes m then "extern const VariableInfo VOI_INFO;" ++ nl ++ "extern const VariableInfo STATE_INFO[];" ++ nl else "")
  ++ "extern const VariableInfo VARIABLE_INFO[];" ++ nl.
Proof. exact EmitProofs.interface_info_declarations. Qed.
Print Assumptions C17_interface_info_declarations.

Theorem C17_external_typedef : forall m code,
  add_external_variable_method_type_definition profile_C m code =
  if am_has_ext m
  then code ++ nl ++ (if has_odes m
                      then ("typedef double (" ++ "* ExternalVariable)(double voi, double *states, double *rates, double *variables, size_t index);")
                      else ("typedef double (" ++ "* ExternalVariable)(double *variables, size_t index);")) ++ nl
  else code.
Proof. exact EmitProofs.external_typedef_iff. Qed.
Print Assumptions C17_external_typedef.

Theorem C17_variable_type_enum : forall fdm wev,
  variable_type_object_string profile_C fdm wev =
  "typedef enum {" ++ nl
  ++ (if fdm then "    VARIABLE_OF_INTEGRATION," ++ nl ++ "    STATE," ++ nl else "")
  ++ "    CONSTANT," ++ nl ++ "    COMPUTED_CONSTANT," ++ nl ++ "    ALGEBRAIC"
  ++ (if wev then "," ++ nl ++ "    EXTERNAL" else "") ++ nl ++ "} VariableType;" ++ nl.
Proof. exact EmitProofs.variable_type_object_C. Qed.
Print Assumptions C17_variable_type_enum.

(** objectiveFunction<i> / findRoot<i> are emitted exactly for models with NLA systems (type NLA or DAE), one pair per
    system in the order of addNlaSystemsCode; a model without NLA equations has no system *)
Theorem C17_nla_methods_iff : forall k m,
  nla_templates (prof k) m =
  if has_nlas m
  then flat_map (fun '(idx, size) => [objective_function_template (prof k) m idx; find_root_template (prof k) m idx size]) (nla_systems m)
  else [].
Proof. exact EmitProofs.nla_methods_iff. Qed.
Print Assumptions C17_nla_methods_iff.

Theorem C17_nla_systems_none : forall m,
  forallb (fun e => negb (is_nla (ae_type e))) (am_equations m) = true -> nla_systems m = [].
Proof. exact EmitProofs.nla_systems_none. Qed.
Print Assumptions C17_nla_systems_none.

(** the pairs are numbered by AnalyserEquation::nlaSystemIndex() (the number the call sites print), not by a running
    counter: every emitted (index, size) is the index and unknown count of an NLA equation of the model, and every NLA
    equation's index is emitted — also when indices have gaps because an earlier system was eliminated by external
    variables ([sibs_consistent]: nlaSiblings() are equations of the same system) *)
Theorem C17_nla_systems_sound : forall m idx n, In (idx, n) (nla_systems m) ->
  exists e, In e (am_equations m) /\ is_nla (ae_type e) = true /\ ae_nla_index e = idx /\ length (ae_vars e) = n.
Proof. exact EmitProofs.nla_systems_sound. Qed.
Print Assumptions C17_nla_systems_sound.

Theorem C17_nla_systems_complete : forall m e, sibs_consistent (am_equations m) -> In e (am_equations m) ->
  is_nla (ae_type e) = true -> exists n, In (ae_nla_index e, n) (nla_systems m).
Proof. exact EmitProofs.nla_systems_complete. Qed.
Print Assumptions C17_nla_systems_complete.

(** degenerate case: a model of type ODE / DAE WITHOUT states (every state handed to addExternalVariable).  All theorems of
    this file quantify over such models too (nothing assumes am_states <> []); the generator selects by the model's TYPE
    (modelHasOdes()), never by stateCount() — generator.cpp: addStateAndVariableCountCode, addInterfaceCreateDeleteArrayMethodsCode,
    addImplementationCreateStatesArrayMethodCode, addInterfaceComputeModelMethodsCode, addImplementationComputeRatesMethodCode,
    addImplementationVoiInfoCode, addImplementationStateInfoCode — and so does EmitDefs ([has_odes]).  Explicitly: *)
Theorem C17_declared_are_defined : forall m s, In s (declared_sigs profile_C m) -> In s (defined_sigs profile_C m).
Proof. exact EmitProofs.declared_are_defined. Qed.
Print Assumptions C17_declared_are_defined.

Theorem C17_ode_frames_by_type : forall m, has_odes m = true ->
  In "double * createStatesArray()" (declared_sigs profile_C m)
  /\ In "double * createStatesArray()" (defined_sigs profile_C m)
  /\ (exists s, In s (declared_sigs profile_C m) /\ In s (defined_sigs profile_C m) /\ sig_name s = "computeRates")
  /\ In "def create_states_array():" (defined_sigs profile_Py m)
  /\ In (if am_has_ext m then "def compute_rates(voi, states, rates, variables, external_variable):"
         else "def compute_rates(voi, states, rates, variables):") (defined_sigs profile_Py m).
Proof. exact EmitProofs.ode_frames_by_type. Qed.
Print Assumptions C17_ode_frames_by_type.

(** generateMethodBodyCode: an empty body stays empty in C and becomes "    pass" in Python — a Python frame (e.g.
    compute_rates of a model whose states are all external) is never left without a body *)
Theorem C17_method_body_python_nonempty : forall body, method_body_code profile_Py body <> "".
Proof. exact EmitProofs.method_body_python_nonempty. Qed.
Print Assumptions C17_method_body_python_nonempty.

Theorem C17_method_body_empty : method_body_code profile_C "" = "" /\ method_body_code profile_Py "" = "    pass" ++ nl.
Proof. exact EmitProofs.method_body_empty. Qed.
Print Assumptions C17_method_body_empty.

Example C17_zero_states_example :
  is_valid ex_zero_states = true /\ has_odes ex_zero_states = true /\ am_states ex_zero_states = []
  /\ state_and_variable_count_code profile_C ex_zero_states false
     = "const size_t STATE_COUNT = 0;" ++ nl ++ "const size_t VARIABLE_COUNT = 2;" ++ nl
  /\ length (declared_sigs profile_C ex_zero_states) = 7
  /\ map sig_name (defined_sigs profile_Py ex_zero_states)
     = ["create_states_array"; "create_variables_array"; "initialise_variables"; "compute_computed_constants"; "compute_rates"; "compute_variables"]
  /\ add_implementation_state_info profile_C ex_zero_states "" = "const VariableInfo STATE_INFO[] = {" ++ nl ++ nl ++ "};" ++ nl.
Proof. exact EmitProofs.zero_states_example. Qed.
Print Assumptions C17_zero_states_example.

(** ** 6b. the profile object and its history (member lists regenerated from generatorprofile.cpp on every run)
    setProfile(p) = loadProfile(p): whatever setters were called before, every member that loadProfile assigns has the
    built-in value afterwards ... *)
Theorem C17_set_profile_resets_assigned_members :
  forall (value : Type) (builtin : pkind -> string -> value) k h h' st st' n, In n assigned_members ->
  set_profile value builtin k (apply_history value h st) n = set_profile value builtin k (apply_history value h' st') n.
Proof. exact EmitProofs.set_profile_resets_assigned. Qed.
Print Assumptions C17_set_profile_resets_assigned_members.

Theorem C17_set_profile_is_builtin :
  forall (value : Type) (builtin : pkind -> string -> value) k st n, In n assigned_members ->
  set_profile value builtin k st n = builtin k n.
Proof. exact EmitProofs.set_profile_is_builtin. Qed.
Print Assumptions C17_set_profile_is_builtin.

(** ... every data member of GeneratorProfileImpl is assigned by loadProfile or is one of at most two known exceptions
    (mPiecewiseIfString, mPiecewiseElseString on the unrepaired tree; none after fixes/C17-setprofile-piecewise-strings.diff) *)
Theorem C17_struct_members_covered : forall n, In n struct_members -> In n assigned_members \/ In n unassigned_members.
Proof. exact EmitProofs.struct_members_covered. Qed.
Print Assumptions C17_struct_members_covered.

Theorem C17_unassigned_members_known : incl unassigned_members known_unassigned_members.
Proof. exact EmitProofs.unassigned_members_known. Qed.
Print Assumptions C17_unassigned_members_known.

(** "setProfile(p) makes every member equal to the built-in profile p regardless of history": true exactly when
    loadProfile leaves no member out ... *)
Theorem C17_set_profile_resets_all_members_partial :
  forall (value : Type) (builtin : pkind -> string -> value), unassigned_members = [] ->
  forall k h h' st st' n, In n struct_members ->
  set_profile value builtin k (apply_history value h st) n = set_profile value builtin k (apply_history value h' st') n.
Proof. exact EmitProofs.set_profile_resets_all_members_partial. Qed.
Print Assumptions C17_set_profile_resets_all_members_partial.

(** ... and refuted for each member it leaves out (known finding C17-setprofile-keeps-piecewise-strings) *)
Theorem C17_set_profile_refuted_when_unassigned :
  forall (value : Type) (builtin : pkind -> string -> value) n, In n unassigned_members -> forall (v w : value), v <> w ->
  forall k st, In n struct_members /\
    set_profile value builtin k (apply_history value [(n, v)] st) n <> set_profile value builtin k (apply_history value [(n, w)] st) n.
Proof. exact EmitProofs.set_profile_refuted_when_unassigned. Qed.
Print Assumptions C17_set_profile_refuted_when_unassigned.

(** ** 6c. index safety and two-way agreement (EmitIndexProofs.v)
    Every index with which the generated code can address an array cell is strictly below the declared constant: the
    index of every state is below STATE_COUNT, of every variable below VARIABLE_COUNT, and every (type, index) an equation
    lists (what addNlaSystemsCode / generateVariableNameCode print as rates[i] / states[i] / variables[i]) is below the
    length of the array chosen for that type — for every analysed model, unbounded; hypotheses: C05's wf_indices
    (re-validated on every accessor dump) and [refs_resolve] (the variables an equation lists are states / variables of the
    model: how the analyser builds AnalyserEquation::variables(); stated, not re-validated by the check). *)
Theorem C17_every_index_below_count : forall m, wf_indices m ->
  (forall v, In v (am_states m) -> av_index v < length (am_states m))
  /\ (forall v, In v (am_variables m) -> av_index v < length (am_variables m))
  /\ (refs_resolve m -> forall e t i, In e (am_equations m) -> In (t, i) (ae_vars e) -> i < array_length m t).
Proof. exact EmitIndexProofs.every_index_below_count. Qed.
Print Assumptions C17_every_index_below_count.

(** those lengths are the numbers the code declares, in both profiles *)
Theorem C17_count_constants_are_bounds : forall k m, has_odes m = true ->
  state_and_variable_count_code (prof k) m false =
  count_line k "STATE_COUNT" (array_length m VState) ++ count_line k "VARIABLE_COUNT" (array_length m VConstant).
Proof. exact EmitIndexProofs.count_constants_are_bounds. Qed.
Print Assumptions C17_count_constants_are_bounds.

(** NLA systems: the declared size of u[] is the number of unknowns, so every position of an unknown is below it, and
    every unknown's own cell is below its array's COUNT *)
Theorem C17_nla_indices_below_size : forall m idx size, wf_indices m -> refs_resolve m -> In (idx, size) (nla_systems m) ->
  exists e, In e (am_equations m) /\ ae_nla_index e = idx /\ size = length (ae_vars e)
            /\ (forall j, j < length (ae_vars e) -> j < size)
            /\ (forall t i, In (t, i) (ae_vars e) -> i < array_length m t).
Proof. exact EmitIndexProofs.nla_indices_below_size. Qed.
Print Assumptions C17_nla_indices_below_size.

(** the converse of C17_declared_defined_once: whatever the C implementation defines is declared in the interface, or is a
    helper's definition, or an NLA function; hence declared = defined minus helpers minus NLA functions, exactly *)
Theorem C17_defined_are_declared_or_internal : forall m s, In s (defined_sigs profile_C m) ->
  In s (declared_sigs profile_C m)
  \/ (exists h, In h (helpers_emitted profile_C m) /\ s = def_sig (function_string profile_C h))
  \/ In s (map def_sig (nla_templates profile_C m)).
Proof. exact EmitIndexProofs.defined_are_declared_or_internal. Qed.
Print Assumptions C17_defined_are_declared_or_internal.

Theorem C17_declared_iff_defined : forall m s,
  In s (declared_sigs profile_C m) <->
  (In s (defined_sigs profile_C m)
   /\ (forall h, s <> def_sig (function_string profile_C h))
   /\ ~ In s (map def_sig (nla_templates profile_C m))).
Proof. exact EmitIndexProofs.declared_iff_defined. Qed.
Print Assumptions C17_declared_iff_defined.

Example C17_index_example :
  wf_indices ex_model /\ refs_resolve ex_model /\ In (0, 1) (nla_systems ex_model)
  /\ array_length ex_model VAlgebraic = 3 /\ array_length ex_model VState = 1
  /\ In "void computeRates(double voi, double *states, double *rates, double *variables, ExternalVariable externalVariable)" (declared_sigs profile_C ex_model)
  /\ In "void findRoot0(double voi, double *states, double *rates, double *variables)" (defined_sigs profile_C ex_model)
  /\ ~ In "void findRoot0(double voi, double *states, double *rates, double *variables)" (declared_sigs profile_C ex_model).
Proof. exact EmitIndexProofs.index_example. Qed.
Print Assumptions C17_index_example.

(** ** 6d. [refs_resolve] as a decidable premise (EmitRefsProofs.v)
    The analysed model is an INPUT of the generator model (the accessor dump), so the premise cannot be derived inside it;
    it is decidable, and it is the generator-side image of C05's analysis-side statement C05_result_wf_equation_vars
    (AnalysisEqVarsProofs.v: every variable an equation lists is a variable of the result that lists the equation back). *)
Theorem C17_refs_resolveb_spec : forall m, refs_resolveb m = true <-> refs_resolve m.
Proof. exact EmitRefsProofs.refs_resolveb_spec. Qed.
Print Assumptions C17_refs_resolveb_spec.

(** index safety with computable premises only *)
Theorem C17_every_index_below_count_b : forall m, wf_indices_b m = true -> refs_resolveb m = true ->
  (forall v, In v (am_states m) -> av_index v < length (am_states m))
  /\ (forall v, In v (am_variables m) -> av_index v < length (am_variables m))
  /\ (forall e t i, In e (am_equations m) -> In (t, i) (ae_vars e) -> i < array_length m t).
Proof. exact EmitRefsProofs.every_index_below_count_b. Qed.
Print Assumptions C17_every_index_below_count_b.

(** non-vacuity on the accessor dump of a REAL generated model (xor__piece_condition__dae_ext, library at 85ba0d4): both
    premises evaluate to true and every listed cell is in range; the premise is false on a model whose equation lists a
    cell that does not exist *)
Example C17_refs_example :
  wf_indices_b dumped_model = true /\ refs_resolveb dumped_model = true /\ nla_systems dumped_model = [(0, 1)]
  /\ (forall e t i, In e (am_equations dumped_model) -> In (t, i) (ae_vars e) -> i < array_length dumped_model t)
  /\ array_length dumped_model VState = 1 /\ array_length dumped_model VAlgebraic = 5
  /\ refs_resolveb bad_refs_model = false /\ refs_resolveb ex_model = true.
Proof. exact EmitRefsProofs.refs_example. Qed.
Print Assumptions C17_refs_example.

(** ** 7. validity guards *)

(** no model, no profile, or a model whose type is not ODE / DAE / NLA / ALGEBRAIC: both code strings are empty,
    for every profile *)
Theorem C17_invalid_empty : forall k p ver m,
  (m = None \/ p = None \/ exists m', m = Some m' /\ is_valid m' = false) ->
  interface_code k p ver m = "" /\ implementation_code k p ver m = [].
Proof. exact EmitProofs.invalid_empty. Qed.
Print Assumptions C17_invalid_empty.

Theorem C17_invalid_types : forall m, is_valid m = false <->
  In (am_type m) [MUnknown; MInvalid; MUnderconstrained; MOverconstrained; MUnsuitablyConstrained].
Proof. exact EmitProofs.invalid_types. Qed.
Print Assumptions C17_invalid_types.

(** ** 8. non-vacuity: a DAE model with an external variable, an NLA system and a helper; an equation whose only
    helper-requiring operator sits in a piecewise condition inside a logbase *)
Example C17_nonvacuous :
  is_valid ex_model = true /\ wf_indices ex_model
  /\ nth_error (variable_info_table profile_C ex_model) 1 = Some (mkInfo "i_long_name" "uA_per_cm2" "membrane" "ALGEBRAIC")
  /\ nth_error (variable_info_table profile_Py ex_model) 2 = Some (mkInfo "e" "dimensionless" "env" "VariableType.EXTERNAL")
  /\ info_sizes ex_model = mkSizes 9 12 14
  /\ helpers_emitted profile_C ex_model = [HXor] /\ helpers_emitted profile_Py ex_model = [HXor]
  /\ nla_systems ex_model = [(0, 1)]
  /\ interface_code PC (Some profile_C) "0.6.1" (Some ex_model) <> ""
  /\ implementation_code PPy (Some profile_Py) "0.6.1" (Some ex_model) <> []
  /\ length (declared_sigs profile_C ex_model) = 7
  /\ wf_mml ex_equation = true
  /\ snd (analyse_math [ex_equation]) = [HXor]
  /\ map ast_ty (fst (analyse_math [ex_equation])) = [EQUALITY].
Proof. exact EmitProofs.nonvacuous. Qed.
Print Assumptions C17_nonvacuous.

Example C17_helper_table_C :
  map (fun h => (helper_name h, sig_name (def_sig (function_string profile_C h))))
      (filter (fun h => negb (has_operator profile_C h)) all_helpers)
  = [("xor", "xor"); ("min", "min"); ("max", "max"); ("sec", "sec"); ("csc", "csc"); ("cot", "cot"); ("sech", "sech");
     ("csch", "csch"); ("coth", "coth"); ("asec", "asec"); ("acsc", "acsc"); ("acot", "acot"); ("asech", "asech");
     ("acsch", "acsch"); ("acoth", "acoth")].
Proof. exact EmitProofs.helper_table_C. Qed.
Print Assumptions C17_helper_table_C.

Example C17_helper_table_Py :
  map (fun h => sig_name (def_sig (function_string profile_Py h))) all_helpers
  = ["eq_func"; "neq_func"; "lt_func"; "leq_func"; "gt_func"; "geq_func"; "and_func"; "or_func"; "xor_func"; "not_func";
     "min"; "max"; "sec"; "csc"; "cot"; "sech"; "csch"; "coth"; "asec"; "acsc"; "acot"; "asech"; "acsch"; "acoth"].
Proof. exact EmitProofs.helper_table_Py. Qed.
Print Assumptions C17_helper_table_Py.

(* NOT PROVED (observed by the check only, never claimed as proved):
   - "the C code compiles without diagnostics other than unused-parameter / unused-variable" and "the Python code
     loads": compiler / interpreter behaviour (A-cc).  The check compiles and loads every generated model; two
     classes of gcc diagnostics are known findings (known_findings.d/C17.json).
   - (index safety of the text INSIDE method bodies is C03's domain: bodies are holes here; C17_every_index_below_count
     bounds every index the analysed model can hand to them)
   - the names of ALL defined functions are pairwise distinct, including objectiveFunction<i> / findRoot<i> over the
     NLA system indices (checked on the generated text; C17_declared_defined_once covers the declared functions).
   - the method bodies (generateEquationCode etc.) are C03's subject; here they are holes of the implementation.
   - wf_indices is a hypothesis (C05's result_wf_indices); no Coq-level composition with C05's model. *)
