(** IfaceMinProofs.v — C19, minimality: fixVariableInterfaces rewrites exactly the attributes that are not
    sufficient, and what it writes is the least interface type satisfying every equivalence. *)
From Coq Require Import String List Bool Arith.
From LC Require Import IfaceDefs IfaceSpec IfaceProofs.
Import ListNotations.
Local Open Scope string_scope.

Section Least.
  Variables (L : list (nat * loc)) (o : occ).
  Hypothesis Hne : has_eqs (o_v o) = true.
  Hypothesis Hall : AllPossible L o.

  Let P := existsb (fun e => is_pub (classify L (o_c o) (Some (o_p o)) e)) (v_eqs (o_v o)).
  Let Q := existsb (fun e => is_priv (classify L (o_c o) (Some (o_p o)) e)) (v_eqs (o_v o)).

  Lemma determine_PQ : determine true L o = itype_for (P, Q) /\ (P = true \/ Q = true).
  Proof.
    pose proof (proj1 (all_possible_no_bad L o) Hall) as Eb. split.
    - unfold determine. now rewrite required_fixed, Eb.
    - exact (pub_or_priv_nonempty L o Hne Eb).
  Qed.

  (** the type the repaired code computes is sufficient ... *)
  Lemma least_sufficient : Sufficient (itype_string (determine true L o)) L o.
  Proof.
    destruct determine_PQ as [E _]. rewrite E. intros e He. split; [now apply Hall|]. split; intros Hn.
    - assert (X : P = true) by (apply existsb_pub_iff; eauto).
      destruct (itype_for_pub (P, Q) X) as [Y|Y]; rewrite Y; cbn; auto.
    - assert (X : Q = true) by (apply existsb_priv_iff; eauto).
      destruct (itype_for_priv (P, Q) X) as [Y|Y]; rewrite Y; cbn; auto.
  Qed.

  (** ... and it is the least: every sufficient attribute is that type or public_and_private *)
  Lemma sufficient_least s :
    Sufficient s L o -> s = itype_string (determine true L o) \/ s = "public_and_private".
  Proof.
    intros HS. destruct determine_PQ as [E HPQ]. rewrite E.
    assert (HP : P = true -> s = "public" \/ s = "public_and_private").
    { intros X. apply existsb_pub_iff in X. destruct X as [e [He Hn]]. exact (proj1 (proj2 (HS e He)) Hn). }
    assert (HQ : Q = true -> s = "private" \/ s = "public_and_private").
    { intros X. apply existsb_priv_iff in X. destruct X as [e [He Hn]]. exact (proj2 (proj2 (HS e He)) Hn). }
    destruct P, Q; cbn.
    - destruct (HP eq_refl) as [A|A]; [|auto]. destruct (HQ eq_refl) as [B|B]; [congruence | auto].
    - destruct (HP eq_refl); auto.
    - destruct (HQ eq_refl); auto.
    - destruct HPQ; discriminate.
  Qed.

  Lemma determine_not_none : determine true L o <> INone.
  Proof. destruct determine_PQ as [E [X|X]]; rewrite E, X; [destruct Q | destruct P]; discriminate. Qed.

  (** permitsInterfaceType is exactly "sufficient" *)
  Lemma sufficient_iff_permits s : Sufficient s L o <-> permits s (determine true L o) = true.
  Proof.
    rewrite permits_spec. split.
    - intros HS. destruct (sufficient_least s HS); auto.
    - intros [H|[H|H]].
      + exfalso. exact (determine_not_none H).
      + subst s. intros e He. split; [now apply Hall|]. split; auto.
      + subst s. exact least_sufficient.
  Qed.

  (** the attribute afterwards: kept when sufficient, otherwise the least sufficient type (both loops) *)
  Lemma fix_occ_least f :
    (Sufficient (v_iface (o_v o)) L o -> fix_occ f L o = o) /\
    (~ Sufficient (v_iface (o_v o)) L o ->
       v_iface (o_v (fix_occ f L o)) = itype_string (determine true L o) /\ fix_occ f L o <> o) /\
    Sufficient (v_iface (o_v (fix_occ f L o))) L o.
  Proof.
    destruct (fix_occ_result f L o Hne Hall) as [_ E]. split; [apply fix_occ_unchanged_sufficient|]. split.
    - intros Hn. assert (Ep : permits (v_iface (o_v o)) (determine true L o) = false).
      { apply not_true_is_false. intros X. apply Hn. now apply sufficient_iff_permits. }
      rewrite Ep in E. split; [exact E|]. intros X. rewrite X in E. apply Hn. rewrite E. exact least_sufficient.
    - rewrite E. destruct (permits (v_iface (o_v o)) (determine true L o)) eqn:Ep.
      + now apply sufficient_iff_permits.
      + exact least_sufficient.
  Qed.

  Lemma fix_occ_unchanged_iff f : fix_occ f L o = o <-> Sufficient (v_iface (o_v o)) L o.
  Proof.
    split; [|apply fix_occ_unchanged_sufficient]. intros X.
    destruct (fix_occ_least f) as [_ [_ S]]. now rewrite X in S.
  Qed.
End Least.

(** Whole models, repaired loop: what fixVariableInterfaces does to every variable and what it answers. *)
Lemma fix_exact m :
  let L := model_locs m in
  model_occs (fst (fix_model true m)) = map (fix_occ true L) (model_occs m) /\
  (snd (fix_model true m) = true <-> forall o, In o (model_occs m) -> AllPossible L o) /\
  forall o, In o (model_occs m) ->
    (has_eqs (o_v o) = false -> fix_occ true L o = o) /\
    (~ AllPossible L o -> fix_occ true L o = o) /\
    (has_eqs (o_v o) = true -> AllPossible L o ->
       (Sufficient (v_iface (o_v o)) L o -> fix_occ true L o = o) /\
       (~ Sufficient (v_iface (o_v o)) L o ->
          v_iface (o_v (fix_occ true L o)) = itype_string (determine true L o) /\ fix_occ true L o <> o) /\
       Sufficient (v_iface (o_v (fix_occ true L o))) L o /\
       (forall s, Sufficient s L o -> s = itype_string (determine true L o) \/ s = "public_and_private")).
Proof.
  cbn zeta. split; [apply model_occs_fix|]. split.
  - split.
    + intros Hok o Ho e He Hi.
      assert (X : snd (fix_model true m) = false) by (apply fix_false_iff; exists o, e; auto). congruence.
    + intros H. apply not_false_iff_true. intros X. apply fix_false_iff in X.
      destruct X as [o [e [Ho [He Hi]]]]. exact (H o Ho e He Hi).
  - intros o Ho. split; [apply fix_occ_no_eqs|]. split.
    + intros Hn. apply fix_occ_unchanged_impossible.
      destruct (existsb (fun e => is_bad (classify (model_locs m) (o_c o) (Some (o_p o)) e)) (v_eqs (o_v o))) eqn:Eb.
      * now apply existsb_bad_iff.
      * exfalso. apply Hn. now apply all_possible_no_bad.
    + intros Hne Hall. destruct (fix_occ_least _ o Hne Hall true) as [A [B C]].
      split; [exact A|]. split; [exact B|]. split; [exact C|]. intros s. now apply sufficient_least.
Qed.

(** non-vacuity on m_ok (IfaceProofs): "bogus" -> private (least), "public" with a public and a private need ->
    public_and_private (least), the sufficient public_and_private of the leaf is kept although "public" would do *)
Lemma fix_least_nonvacuous :
  let L := model_locs m_ok in
  let oa := mkO 0 1 false (mkV 4 "bogus" [5] None) in
  let oc := mkO 2 3 false (mkV 6 "public_and_private" [5] None) in
  In oa (model_occs m_ok) /\ In oc (model_occs m_ok) /\
  AllPossible L oa /\ ~ Sufficient "bogus" L oa /\ determine true L oa = IPrivate /\
  v_iface (o_v (fix_occ true L oa)) = "private" /\
  AllPossible L oc /\ determine true L oc = IPublic /\ Sufficient "public" L oc /\ fix_occ true L oc = oc.
Proof.
  cbn zeta.
  assert (A1 : AllPossible (model_locs m_ok) (mkO 0 1 false (mkV 4 "bogus" [5] None))) by (apply all_possible_no_bad; reflexivity).
  assert (A2 : AllPossible (model_locs m_ok) (mkO 2 3 false (mkV 6 "public_and_private" [5] None))) by (apply all_possible_no_bad; reflexivity).
  split; [cbn; auto|]. split; [cbn; auto|]. split; [exact A1|]. split.
  - intros S. apply (proj1 (sufficient_iff_permits (model_locs m_ok) (mkO 0 1 false (mkV 4 "bogus" [5] None)) eq_refl A1 _)) in S. vm_compute in S. discriminate.
  - split; [reflexivity|]. split; [reflexivity|]. split; [exact A2|]. split; [reflexivity|]. split.
    + apply (proj2 (sufficient_iff_permits (model_locs m_ok) (mkO 2 3 false (mkV 6 "public_and_private" [5] None)) eq_refl A2 _)). reflexivity.
    + reflexivity.
Qed.

(** assembled for Properties_C19.C19_fix_least *)
Lemma fix_least L o : has_eqs (o_v o) = true -> AllPossible L o ->
  Sufficient (itype_string (determine true L o)) L o /\
  (forall s, Sufficient s L o -> s = itype_string (determine true L o) \/ s = "public_and_private") /\
  (forall s, Sufficient s L o <-> permits s (determine true L o) = true) /\
  forall fixed,
    (fix_occ fixed L o = o <-> Sufficient (v_iface (o_v o)) L o) /\
    (~ Sufficient (v_iface (o_v o)) L o ->
       v_iface (o_v (fix_occ fixed L o)) = itype_string (determine true L o) /\ fix_occ fixed L o <> o) /\
    Sufficient (v_iface (o_v (fix_occ fixed L o))) L o.
Proof.
  intros Hne Hall. split; [now apply least_sufficient|]. split; [intros s; now apply sufficient_least|].
  split; [intros s; now apply sufficient_iff_permits|]. intros f.
  destruct (fix_occ_least L o Hne Hall f) as [_ [B C]]. split; [now apply fix_occ_unchanged_iff|]. split; assumption.
Qed.
