(** EqualsSummary.v — statements assembled for Properties_C10.v (C10). *)
From Coq Require Import String List Bool ZArith QArith Arith Permutation Lia.
From LC Require Import EqualsDefs EqualsSpec EqualsProofs EqualsSimProofs EqualsCorrect EqualsAsIs EqualsMut.
Import ListNotations.
Local Close Scope Q_scope.
Local Open Scope bool_scope.
Local Open Scope string_scope.

(** count sensitivity, for the code as it is and for the repaired code *)
Theorem equals_count_sensitive : forall neq fl,
  (forall a b, length (u_defs a) <> length (u_defs b) -> eq_entity neq fl (EUnits a) (EUnits b) = false)
  /\ (forall a b, length (kids a) <> length (kids b) -> eq_entity neq fl (EComponent a) (EComponent b) = false)
  /\ (forall a b, length (c_resets (shell a)) <> length (c_resets (shell b)) -> eq_entity neq fl (EComponent a) (EComponent b) = false)
  /\ (f_varcount fl = true ->
      forall a b, length (c_vars (shell a)) <> length (c_vars (shell b)) -> eq_entity neq fl (EComponent a) (EComponent b) = false)
  /\ (forall a b, length (m_comps a) <> length (m_comps b) -> eq_entity neq fl (EModel a) (EModel b) = false)
  /\ (forall a b, length (m_units a) <> length (m_units b) -> eq_entity neq fl (EModel a) (EModel b) = false).
Proof.
  intros neq fl. cbn [eq_entity]. repeat split.
  - apply count_units_defs.
  - apply count_component_kids.
  - apply count_component_resets.
  - apply count_component_vars.
  - apply count_model_comps.
  - apply count_model_units.
Qed.

(** the oracle instance run by the check ([equals_ideal]) is an equivalence relation *)
Theorem equals_ideal_equivalence :
  (forall a, equals_ideal a a = true)
  /\ (forall a b, equals_ideal a b = equals_ideal b a)
  /\ (forall a b c, equals_ideal a b = true -> equals_ideal b c = true -> equals_ideal a c = true).
Proof.
  unfold equals_ideal. repeat split.
  - apply equals_refl. exact Qeq_bool_laws.
  - apply equals_sym. exact Qeq_bool_laws.
  - apply equals_trans. exact Qeq_bool_laws.
Qed.

(** non-vacuity of the `_partial` theorems: the components all of whose sub-components hold exactly one
    variable form a domain for the code as it is now (flags_now), and it contains distinct, equal trees *)
Definition one_var (c : component) : Prop :=
  Forall (fun k => length (c_vars (shell k)) = 1) (subcomponents c).

Lemma one_var_closed : closed_dom one_var.
Proof.
  intros s ks k H Hin. unfold one_var in *. cbn [subcomponents] in H. inversion H as [|? ? _ Hrest]; subst.
  rewrite Forall_forall in *. intros x Hx. apply Hrest. apply in_flat_map. exists k. split; assumption.
Qed.

Lemma one_var_varcount_ok : forall neq fl, varcount_ok neq fl one_var.
Proof.
  intros neq fl _ [sa ka] [sb kb] Ha Hb _. unfold one_var in *. cbn [subcomponents] in Ha, Hb.
  inversion Ha; subst. inversion Hb; subst. cbn [shell] in *. congruence.
Qed.

Lemma one_var_kids_distinct : forall neq, kids_distinct neq flags_now one_var.
Proof. intros neq H. discriminate. Qed.

Example partial_nonvacuous :
  let a := mkc "p" [mkv "v"] [mkc "k" [mkv "x"] []; mkc "l" [mkv "y"] []] in
  let b := mkc "p" [mkv "v"] [mkc "l" [mkv "y"] []; mkc "k" [mkv "x"] []] in
  one_var a /\ one_var b /\ a <> b
  /\ eq_entity Qeq_bool flags_now (EComponent a) (EComponent b) = true
  /\ eq_entity Qeq_bool flags_now (EComponent b) (EComponent a) = true.
Proof.
  cbv zeta. repeat split.
  - unfold one_var. cbn. repeat constructor.
  - unfold one_var. cbn. repeat constructor.
  - discriminate.
Qed.
