(** EqualsSummary.v — statements assembled for Properties_C10.v (C10). *)
From Coq Require Import String List Bool ZArith QArith Arith Permutation Lia.
From LC Require Import EqualsDefs EqualsSpec EqualsProofs EqualsSimProofs EqualsCorrect EqualsAsIs EqualsMut.
Import ListNotations.
Local Close Scope Q_scope.
Local Open Scope bool_scope.
Local Open Scope string_scope.

(** count sensitivity, for the code as it is and for the repaired code *)
Theorem equals_count_sensitive : forall neq fl,
  (forall a b, length (u_defs a) <> length (u_defs b) -> eq_entity neq fl (EUnits a) (EUnits b) = false)
  /\ (forall a b, length (kids a) <> length (kids b) -> eq_entity neq fl (EComponent a) (EComponent b) = false)
  /\ (forall a b, length (c_resets (shell a)) <> length (c_resets (shell b)) -> eq_entity neq fl (EComponent a) (EComponent b) = false)
  /\ (f_varcount fl = true ->
      forall a b, length (c_vars (shell a)) <> length (c_vars (shell b)) -> eq_entity neq fl (EComponent a) (EComponent b) = false)
  /\ (forall a b, length (m_comps a) <> length (m_comps b) -> eq_entity neq fl (EModel a) (EModel b) = false)
  /\ (forall a b, length (m_units a) <> length (m_units b) -> eq_entity neq fl (EModel a) (EModel b) = false).
Proof.
  intros neq fl. cbn [eq_entity]. repeat split.
  - apply count_units_defs.
  - apply count_component_kids.
  - apply count_component_resets.
  - apply count_component_vars.
  - apply count_model_comps.
  - apply count_model_units.
Qed.

(** the oracle instance run by the check ([equals_ideal]) is an equivalence relation *)
Theorem equals_ideal_equivalence :
  (forall a, equals_ideal a a = true)
  /\ (forall a b, equals_ideal a b = equals_ideal b a)
  /\ (forall a b c, equals_ideal a b = true -> equals_ideal b c = true -> equals_ideal a c = true).
Proof.
  unfold equals_ideal. repeat split.
  - apply equals_refl. exact Qeq_bool_laws.
  - apply equals_sym. exact Qeq_bool_laws.
  - apply equals_trans. exact Qeq_bool_laws.
Qed.

(** equality of variables depends only on the CONTENT of the units they hold (up to the order of the unit children),
    not on who owns the units object *)
Theorem units_ownership_irrelevant : forall neq, neq_laws neq ->
  forall (v w : variable) (o1 o2 o1' o2' : ownership),
    eq_owned_variable neq (v, o1) (w, o2) = eq_owned_variable neq (v, o1') (w, o2')
    /\ (eq_owned_variable neq (v, o1) (w, o2) = true <->
        v_name v = v_name w /\ v_id v = v_id w /\ v_init v = v_init w /\ v_iface v = v_iface w
        /\ opt_rel (sim_units neq) (v_units v) (v_units w))
    /\ (forall u u', v_units v = Some u -> sim_units neq u u' ->
        eq_owned_variable neq ({| v_name := v_name v; v_id := v_id v; v_units := Some u'; v_init := v_init v; v_iface := v_iface v |}, o1') (w, o2)
        = eq_owned_variable neq (v, o1) (w, o2)).
Proof.
  intros neq L v w o1 o2 o1' o2'. unfold eq_owned_variable. cbn [fst]. split; [reflexivity|]. split.
  - apply (eq_variable_iff neq L).
  - intros u u' Hu Hs. apply eq_true_iff_eq. rewrite !(eq_variable_iff neq L). unfold sim_variable. cbn. rewrite Hu.
    destruct (v_units w) as [uw|]; cbn [opt_rel]; [|tauto].
    split; intros (H1 & H2 & H3 & H4 & H5); refine (conj H1 (conj H2 (conj H3 (conj H4 _)))).
    + exact (sim_units_trans neq L u u' uw Hs H5).
    + exact (sim_units_trans neq L u' u uw (sim_units_sym neq L u u' Hs) H5).
Qed.

(** equality of import sources depends only on url and id, not on the model they are resolved to *)
Theorem import_resolution_irrelevant : forall (a b : isrc) (r1 r2 r1' r2' : resolution),
  eq_resolved_isrc (a, r1) (b, r2) = eq_resolved_isrc (a, r1') (b, r2')
  /\ (eq_resolved_isrc (a, r1) (b, r2) = true <-> is_url a = is_url b /\ is_id a = is_id b).
Proof.
  intros a b r1 r2 r1' r2'. unfold eq_resolved_isrc. cbn [fst]. split; [reflexivity|].
  rewrite eq_isrc_iff. destruct a as [au ai], b as [bu bi]. cbn. split.
  - intros H. injection H as -> ->. auto.
  - intros [-> ->]. reflexivity.
Qed.

(** non-vacuity of the `_partial` theorems: the components all of whose sub-components hold exactly one
    variable form a domain for the code as it is now (flags_now), and it contains distinct, equal trees *)
Definition one_var (c : component) : Prop :=
  Forall (fun k => length (c_vars (shell k)) = 1) (subcomponents c).

Lemma one_var_closed : closed_dom one_var.
Proof.
  intros s ks k H Hin. unfold one_var in *. cbn [subcomponents] in H. inversion H as [|? ? _ Hrest]; subst.
  rewrite Forall_forall in *. intros x Hx. apply Hrest. apply in_flat_map. exists k. split; assumption.
Qed.

Lemma one_var_varcount_ok : forall neq fl, varcount_ok neq fl one_var.
Proof.
  intros neq fl _ [sa ka] [sb kb] Ha Hb _. unfold one_var in *. cbn [subcomponents] in Ha, Hb.
  inversion Ha; subst. inversion Hb; subst. cbn [shell] in *. congruence.
Qed.

Lemma one_var_kids_distinct : forall neq, kids_distinct neq flags_now one_var.
Proof. intros neq H. discriminate. Qed.

Example partial_nonvacuous :
  let a := mkc "p" [mkv "v"] [mkc "k" [mkv "x"] []; mkc "l" [mkv "y"] []] in
  let b := mkc "p" [mkv "v"] [mkc "l" [mkv "y"] []; mkc "k" [mkv "x"] []] in
  one_var a /\ one_var b /\ a <> b
  /\ eq_entity Qeq_bool flags_now (EComponent a) (EComponent b) = true
  /\ eq_entity Qeq_bool flags_now (EComponent b) (EComponent a) = true.
Proof.
  cbv zeta. repeat split.
  - unfold one_var. cbn. repeat constructor.
  - unfold one_var. cbn. repeat constructor.
  - discriminate.
Qed.
