(** IfaceSpec.v — what C19 demands, stated without the loops of the code.

    Positions are read from the same index [model_locs] the model uses (variable tag -> tag of its component and
    tag of that component's parent entity); everything else here is declarative. *)
From Coq Require Import String List Bool Arith.
From LC Require Import IfaceDefs.
Import ListNotations.
Local Open Scope string_scope.

(* ------------------------------------------------------------------------------------------------ *)
(** * What an equivalence asks of a variable *)

(** The equivalent variable [e] sits in a sibling of the occurrence's component (or in the same component), or
    in the parent of the occurrence's component: the occurrence needs a public interface. *)
Definition NeedsPublic (L : list (nat * loc)) (o : occ) (e : nat) : Prop :=
  exists l, lookup_loc L e = Some l /\ (snd l = Some (o_p o) \/ fst l = o_p o).

(** [e] sits in a child of the occurrence's component (and not in one of the positions above): private. *)
Definition NeedsPrivate (L : list (nat * loc)) (o : occ) (e : nat) : Prop :=
  exists l, lookup_loc L e = Some l /\ ~ (snd l = Some (o_p o) \/ fst l = o_p o) /\ snd l = Some (o_c o).

(** Neither: [e] has no parent component, or the two components are neither siblings nor parent and child. *)
Definition Impossible (L : list (nat * loc)) (o : occ) (e : nat) : Prop :=
  ~ NeedsPublic L o e /\ ~ NeedsPrivate L o e.

(** The attribute string [s] is enough for the equivalence with [e]. *)
Definition Covers (s : string) (L : list (nat * loc)) (o : occ) (e : nat) : Prop :=
  (NeedsPublic L o e -> s = "public" \/ s = "public_and_private") /\
  (NeedsPrivate L o e -> s = "private" \/ s = "public_and_private").

(** [s] is sufficient for all equivalences of the occurrence (in particular none of them is impossible). *)
Definition Sufficient (s : string) (L : list (nat * loc)) (o : occ) : Prop :=
  forall e, In e (v_eqs (o_v o)) -> ~ Impossible L o e /\ Covers s L o e.

Definition AllPossible (L : list (nat * loc)) (o : occ) : Prop :=
  forall e, In e (v_eqs (o_v o)) -> ~ Impossible L o e.

(** The early exit of the pinned loop hides an impossible equivalence from it: the equivalences listed before
    it are all possible and ask for a public and for a private interface. *)
Definition HiddenImpossible (L : list (nat * loc)) (o : occ) : Prop :=
  exists l1 e l2, v_eqs (o_v o) = (l1 ++ e :: l2)%list /\
    (forall x, In x l1 -> ~ Impossible L o x) /\
    (exists x, In x l1 /\ NeedsPublic L o x) /\ (exists x, In x l1 /\ NeedsPrivate L o x) /\
    Impossible L o e.

(** The image of an occurrence under fixVariableInterfaces (component, position, tag, equivalences and units
    stay; only the attribute string may change). *)
Definition fix_occ (fixed : bool) (L : list (nat * loc)) (o : occ) : occ :=
  mkO (o_p o) (o_c o) (o_imp o) (fix_var fixed L (o_p o) (o_c o) (o_imp o) (o_v o)).

(** Forgetting the interface attributes. *)
Definition strip_var (v : var) : var := set_iface v "".
Fixpoint strip_comp (c : comp) : comp :=
  match c with Comp t i vs ks => Comp t i (map strip_var vs) (map strip_comp ks) end.

Definition valid_iface (s : string) : Prop :=
  s = "none" \/ s = "public" \/ s = "private" \/ s = "public_and_private".

(* ------------------------------------------------------------------------------------------------ *)
(** * Unit linking *)

(** Units in the model's list are objects of the heap whose parent is the model (ownership invariant, C09). *)
Definition units_owned (m : model) : Prop :=
  forall t, In t (m_units m) -> exists u, uget (m_heap m) t = Some u /\ u_owner u = Some (m_tag m).

(** [t] is the first units of the model's list named [n]. *)
Definition FirstNamed (m : model) (n : string) (t : nat) : Prop :=
  exists l1 l2 u, m_units m = (l1 ++ t :: l2)%list /\ uget (m_heap m) t = Some u /\ u_name u = n /\
    forall t' u', In t' l1 -> uget (m_heap m) t' = Some u' -> u_name u' <> n.

Definition link_occ (m : model) (o : occ) : occ :=
  mkO (o_p o) (o_c o) (o_imp o) (fst (link_var m (o_v o))).

(** No units of the model's list is named [n]. *)
Definition NoneNamed (m : model) (n : string) : Prop :=
  forall t u, In t (m_units m) -> uget (m_heap m) t = Some u -> u_name u <> n.

(** What linkUnits does with one variable: the variable afterwards and its contribution to the status. *)
Inductive LinkCase (m : model) (v : var) : var -> bool -> Prop :=
| LC_none : v_units v = None -> LinkCase m v v true
| LC_dangling t : v_units v = Some t -> uget (m_heap m) t = None -> LinkCase m v v true
| LC_linked t u : v_units v = Some t -> uget (m_heap m) t = Some u -> u_owner u = Some (m_tag m) ->
    LinkCase m v v true                                             (* already the model's own: kept *)
| LC_standard t u : v_units v = Some t -> uget (m_heap m) t = Some u -> u_owner u = None ->
    is_standard_unit u = true -> LinkCase m v v true                (* standard unit by name: nothing to link *)
| LC_byname t u t' : v_units v = Some t -> uget (m_heap m) t = Some u -> u_owner u = None ->
    is_standard_unit u = false -> FirstNamed m (u_name u) t' ->
    LinkCase m v (set_units v (Some t')) true                       (* now holds the model's first units of that name *)
| LC_missing t u : v_units v = Some t -> uget (m_heap m) t = Some u -> u_owner u = None ->
    is_standard_unit u = false -> NoneNamed m (u_name u) -> LinkCase m v v false
| LC_foreign t u w : v_units v = Some t -> uget (m_heap m) t = Some u -> u_owner u = Some w -> w <> m_tag m ->
    LinkCase m v v false.                                           (* object of another model: left, reported *)

Definition nounits_var (v : var) : var := set_units v None.
Fixpoint nounits_comp (c : comp) : comp :=
  match c with Comp t i vs ks => Comp t i (map nounits_var vs) (map nounits_comp ks) end.

(* ------------------------------------------------------------------------------------------------ *)
(** * Cleaning *)

(** "Empty" by the documented definition (model.h, Model::clean): no name, identifier, resets, variables,
    maths or non-empty child components — and, as the code requires, not an import. *)
Inductive Empty : comp -> Prop :=
| Empty_intro t i ks :
    ci_name i = "" -> ci_id i = "" -> ci_resets i = 0 -> ci_math i = "" -> ci_import i = false ->
    Forall Empty ks -> Empty (Comp t i [] ks).

Fixpoint emptyb (c : comp) : bool :=
  match c with Comp t i vs ks => own_empty i vs && forallb emptyb ks end.

(** The tree without its empty components. *)
Fixpoint prune (c : comp) : comp :=
  match c with
  | Comp t i vs ks => Comp t i vs (flat_map (fun k => if emptyb k then [] else [prune k]) ks)
  end.

(** One row per component, pre-order: (tag of the parent entity, tag, own data, variables, "is empty"). *)
Fixpoint comp_rows (p : nat) (c : comp) : list (nat * nat * cinfo * list var * bool) :=
  match c with Comp t i vs ks => (p, t, i, vs, emptyb c) :: flat_map (comp_rows t) ks end.
Definition model_rows (m : model) := flat_map (comp_rows (m_tag m)) (m_comps m).
Definition row_empty (r : nat * nat * cinfo * list var * bool) : bool := snd r.

(** Units: no name, identifier or child units (and not an import). *)
Definition EmptyUnits (u : uobj) : Prop :=
  u_name u = "" /\ u_id u = "" /\ u_nunit u = 0 /\ u_import u = false.
