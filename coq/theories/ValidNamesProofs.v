(** ValidNamesProofs.v — C04 proofs: rule_cited for "component names must be unique": a component whose (non-empty) name was
    met earlier in the pre-order traversal is flagged, whatever else the traversal reports. *)
From Coq Require Import String Ascii List Bool Arith Lia.
From LC Require Import Common NumDefs MathDefs ValidDefs ValidSpec ValidLeaf ValidCompProofs ValidCitedProofs.
Import ListNotations.
Local Open Scope string_scope.
Local Open Scope list_scope.

(** some element of [l] occurs in [ns] or earlier in [l] *)
Fixpoint clash (ns l : list string) : Prop :=
  match l with [] => False | n :: r => In n ns \/ clash (n :: ns) r end.

Lemma clash_mono : forall l ns ns', incl ns ns' -> clash ns l -> clash ns' l.
Proof.
  induction l as [|n r IH]; intros ns ns' Hi H; [exact H|]. cbn in *. destruct H as [H|H]; [left; apply Hi; exact H|].
  right. apply (IH (n :: ns)); [|exact H]. intros x [Hx|Hx]; [left; exact Hx | right; apply Hi; exact Hx].
Qed.

Lemma clash_app : forall a ns b, clash ns (a ++ b) -> clash ns a \/ clash (a ++ ns) b.
Proof.
  induction a as [|x a IH]; intros ns b H; [right; exact H|]. cbn in H. destruct H as [H|H]; [left; left; exact H|].
  destruct (IH _ _ H) as [H1|H1]; [left; right; exact H1|]. right. apply (clash_mono b (a ++ x :: ns)); [|exact H1].
  intros y Hy. apply in_app_or in Hy. destruct Hy as [Hy|[Hy|Hy]]; [right; apply in_or_app; left; exact Hy | left; exact Hy | right; apply in_or_app; right; exact Hy].
Qed.

(** a list with a repeated element clashes with itself *)
Lemma clash_of_repeat : forall l1 n l2 l3, clash [] (l1 ++ n :: l2 ++ n :: l3).
Proof.
  intros l1 n l2 l3. assert (H : forall ns, In n ns -> clash ns (l2 ++ n :: l3)).
  { induction l2 as [|x l2 IH]; intros ns Hn; cbn; [left; exact Hn | right; apply IH; right; exact Hn]. }
  assert (G : forall ns, clash ns (l1 ++ n :: l2 ++ n :: l3)).
  { induction l1 as [|x l1 IH]; intro ns; cbn; [right; apply H; left; reflexivity | right; apply IH]. }
  apply G.
Qed.

Section Names.
  Variable q : bool.
  Variable fuel : nat.
  Variable W : world.

  Definition grows (res : list vrule * list string) (names : list string) (cs : list comp) : Prop :=
    incl names (snd res) /\ incl (nenames cs) (snd res).
  Definition flags (res : list vrule * list string) (names : list string) (cs : list comp) : Prop :=
    clash names (nenames cs) -> exists c', In c' cs /\ In (unique_name_rule (c_info c')) (fst res).

  Lemma list_names : forall ks,
    Forall (fun c => forall names, grows (validate_tree q fuel W names c) names (comp_all c)
                                   /\ flags (validate_tree q fuel W names c) names (comp_all c)) ks ->
    forall names, grows (validate_tree_list q fuel W ks names) names (flat_map comp_all ks)
                  /\ flags (validate_tree_list q fuel W ks names) names (flat_map comp_all ks).
  Proof.
    intros ks HF. induction HF as [|k r Hk Hr IH]; intro names.
    - cbn. split; [split; [apply incl_refl | intros x []] | intros []].
    - cbn [validate_tree_list flat_map]. specialize (Hk names). destruct (validate_tree q fuel W names k) as [a ns1].
      specialize (IH ns1). destruct (validate_tree_list q fuel W r ns1) as [b ns2]. unfold grows, flags in *. cbn [fst snd] in *.
      destruct Hk as [[G1 G2] F1]. destruct IH as [[G3 G4] F2]. rewrite nenames_app. split; [split|].
      + intros x Hx. apply G3. apply G1. exact Hx.
      + intros x Hx. apply in_app_or in Hx. destruct Hx as [Hx|Hx]; [apply G3; apply G2; exact Hx | apply G4; exact Hx].
      + intro Hc. apply clash_app in Hc. destruct Hc as [Hc|Hc].
        * destruct (F1 Hc) as [c' [H1 H2]]. exists c'. split; [apply in_or_app; left; exact H1 | apply in_or_app; left; exact H2].
        * assert (Hc' : clash ns1 (nenames (flat_map comp_all r))).
          { apply (clash_mono _ (nenames (comp_all k) ++ names)); [|exact Hc]. intros x Hx. apply in_app_or in Hx.
            destruct Hx as [Hx|Hx]; [apply G2; exact Hx | apply G1; exact Hx]. }
          destruct (F2 Hc') as [c' [H1 H2]]. exists c'. split; [apply in_or_app; right; exact H1 | apply in_or_app; right; exact H2].
  Qed.

  Lemma tree_names : forall c names, grows (validate_tree q fuel W names c) names (comp_all c)
                                     /\ flags (validate_tree q fuel W names c) names (comp_all c).
  Proof.
    induction c as [i kids IH] using comp_ind2. intro names. rewrite validate_tree_unfold, comp_all_unfold.
    pose proof (list_names kids IH) as HL.
    assert (Hne : nenames (Comp i kids :: flat_map comp_all kids)
                  = (if nonempty (c_name i) then [c_name i] else []) ++ nenames (flat_map comp_all kids)).
    { unfold nenames. cbn [map filter]. unfold cname at 1 2. cbn [c_info]. destruct (nonempty (c_name i)); reflexivity. }
    unfold grows, flags. rewrite Hne.
    destruct (nonempty (c_name i)) eqn:E1; [destruct (str_in (c_name i) names) eqn:E2|].
    - apply str_in_iff in E2. specialize (HL names). destruct (validate_tree_list q fuel W kids names) as [sub names2].
      unfold grows, flags in HL. cbn [fst snd] in *. destruct HL as [[G1 G2] F]. split; [split|].
      + exact G1.
      + intros x [Hx|Hx]; [subst; apply G1; exact E2 | apply G2; exact Hx].
      + intros _. exists (Comp i kids). split; [left; reflexivity | left; reflexivity].
    - apply str_in_false_iff in E2. specialize (HL (names ++ [c_name i])).
      destruct (validate_tree_list q fuel W kids (names ++ [c_name i])) as [sub names2].
      unfold grows, flags in HL. cbn [fst snd app] in *. destruct HL as [[G1 G2] F]. split; [split|].
      + intros x Hx. apply G1. apply in_or_app. left. exact Hx.
      + intros x [Hx|Hx]; [subst; apply G1; apply in_or_app; right; left; reflexivity | apply G2; exact Hx].
      + intros [Hc|Hc]; [contradiction|].
        assert (Hc' : clash (names ++ [c_name i]) (nenames (flat_map comp_all kids))).
        { apply (clash_mono _ (c_name i :: names)); [|exact Hc]. intros x [Hx|Hx]; [subst; apply in_or_app; right; left; reflexivity | apply in_or_app; left; exact Hx]. }
        destruct (F Hc') as [c' [H1 H2]]. exists c'. split; [right; exact H1 | apply in_or_app; left; exact H2].
    - specialize (HL names). destruct (validate_tree_list q fuel W kids names) as [sub names2].
      unfold grows, flags in HL. cbn [fst snd app] in *. destruct HL as [[G1 G2] F]. split; [split; assumption|].
      intro Hc. destruct (F Hc) as [c' [H1 H2]]. exists c'. split; [right; exact H1 | apply in_or_app; left; exact H2].
  Qed.

  Lemma validate_trees_list : forall cs names, validate_trees q fuel W names cs = fst (validate_tree_list q fuel W cs names).
  Proof.
    induction cs as [|c r IH]; intro names; [reflexivity|]. cbn [validate_trees validate_tree_list].
    destruct (validate_tree q fuel W names c) as [a ns]. rewrite IH. destruct (validate_tree_list q fuel W r ns). reflexivity.
  Qed.
End Names.

(** two components (anywhere in the hierarchy) with the same non-empty name: the later one in pre-order is cited with
    COMPONENT_NAME_UNIQUE, or IMPORT_COMPONENT_NAME_UNIQUE when it is an import *)
Theorem component_name_unique_cited : forall fx ueq early W,
  clash [] (nenames (model_comps (model_at W 0))) ->
  exists c', In c' (model_comps (model_at W 0)) /\ In (Error, unique_name_rule (c_info c')) (validate fx ueq early W).
Proof.
  intros fx ueq early W Hc.
  assert (HF : Forall (fun c => forall names, grows (validate_tree (fx_math_qual fx) (comp_fuel W) W names c) names (comp_all c)
                                /\ flags (validate_tree (fx_math_qual fx) (comp_fuel W) W names c) names (comp_all c))
                     (m_comps (model_at W 0))).
  { rewrite Forall_forall. intros c _. apply tree_names. }
  destruct (list_names _ _ _ _ HF []) as [_ F]. destruct (F Hc) as [c' [H1 H2]]. exists c'. split; [exact H1|].
  apply plain_cited. unfold validate_raw. cbv zeta. do 2 (apply in_or_app; right). apply in_or_app. left.
  unfold plains. apply in_map. rewrite validate_trees_list. exact H2.
Qed.
