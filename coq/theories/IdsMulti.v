(** IdsMulti.v — one annotator, several models handed to it in turn (property C13): every look-up consults the id
    list of the model the annotator holds NOW, and the items it returns are objects of that model. *)
From Coq Require Import String Ascii List NArith Arith Bool Lia.
From LC Require Import Common IdsDefs IdsProofs IdsProofs2 IdsProofs3 IdsProofs4 IdsHash.
Import ListNotations.
Open Scope string_scope.
Open Scope list_scope.

(* setModel always rebuilds: the list, its owner and the stored hash describe the model just handed over,
   whatever the annotator held before (in particular a model with the same identifiers in the same layout) *)
Theorem set_model_rebuilds : forall c st s,
  a_cache (s_ann (set_model c st s)) = build_cache c st (s_ids s) /\
  a_owner (s_ann (set_model c st s)) = a_model (s_ann s) /\
  a_model (s_ann (set_model c st s)) = a_model (s_ann s) /\
  a_hash (s_ann (set_model c st s)) = Some (hash_string c st (s_ids s)) /\
  a_has_model (s_ann (set_model c st s)) = true.
Proof. intros c st s. unfold set_model, update. cbn. repeat split; reflexivity. Qed.

(* ------------------------------------------------------------------------------------------------ which model *)

Lemma update_model : forall c st s, a_model (s_ann (update c st s)) = a_model (s_ann s).
Proof.
  intros; unfold update. destruct (negb (a_has_model (s_ann s))); [destruct (a_hash (s_ann s)); reflexivity|].
  destruct (opt_str_eqb _ _); reflexivity.
Qed.
Lemma assign_visit_model : forall s v, a_model (s_ann (assign_visit s v)) = a_model (s_ann s) /\
                                       a_owner (s_ann (assign_visit s v)) = a_owner (s_ann s).
Proof.
  intros s v. unfold assign_visit. destruct (is_empty _); [|split; reflexivity].
  destruct (make_unique _ _) as [[id n] ok]. split; reflexivity.
Qed.
Lemma assign_visits_model : forall vs s, a_model (s_ann (assign_visits s vs)) = a_model (s_ann s) /\
                                         a_owner (s_ann (assign_visits s vs)) = a_owner (s_ann s).
Proof.
  induction vs as [|v vs IH]; intro s; [split; reflexivity|]. rewrite assign_visits_cons.
  destruct (IH (assign_visit s v)) as [A B]. destruct (assign_visit_model s v) as [C D]. split; congruence.
Qed.
Lemma pre_assign_model : forall c st s, a_model (s_ann (pre_assign c st s)) = a_model (s_ann s).
Proof. intros; unfold pre_assign. destruct (fx_refresh c); reflexivity. Qed.

Lemma step_model : forall c st s o, a_model (s_ann (fst (step c st s o))) = a_model (s_ann s).
Proof.
  intros c st s o. rewrite step_fst. destruct o; unfold step_state; try apply update_model; try reflexivity.
  - unfold assign_all. destruct (a_has_model (s_ann s)); cbn [fst]; [|reflexivity].
    rewrite (proj1 (assign_visits_model _ _)). apply pre_assign_model.
  - unfold assign_type. destruct (a_has_model (s_ann s)); cbn [fst]; [|reflexivity].
    unfold set_model. rewrite update_model. cbn [s_ann a_model].
    rewrite (proj1 (assign_visits_model _ _)). apply pre_assign_model.
  - unfold assign_item. destruct (a_has_model (s_ann s)); [|reflexivity].
    destruct (fx_refresh c); destruct (make_unique _ _) as [[id n] ok]; cbn [fst s_ann a_model]; [reflexivity | apply update_model].
  - unfold clear_all. destruct (a_has_model (s_ann s)); [|reflexivity]. cbn [s_ann]. unfold with_cache; cbn [a_model]. apply update_model.
Qed.

(* a stored hash implies that the list refers to the stored model *)
Definition OwnInv (a : astate) : Prop := a_hash a <> None -> a_owner a = a_model a.

Lemma update_own : forall c st s, OwnInv (s_ann s) -> OwnInv (s_ann (update c st s)).
Proof.
  intros c st s H. unfold update. destruct (negb (a_has_model (s_ann s))).
  - intro Hn. cbn in Hn. congruence.
  - destruct (opt_str_eqb _ _); [assumption|]. intros _. reflexivity.
Qed.
Lemma hash_none_own : forall a, a_hash a = None -> OwnInv a.
Proof. intros a H Hn. congruence. Qed.

Lemma step_own : forall c st s o, fx_refresh c = true -> OwnInv (s_ann s) -> OwnInv (s_ann (fst (step c st s o))).
Proof.
  intros c st s o Hf H. rewrite step_fst. destruct o; unfold step_state; try (apply update_own; exact H); try exact H.
  - unfold set_model. apply update_own. apply hash_none_own. reflexivity.
  - unfold assign_all. destruct (a_has_model (s_ann s)); cbn [fst]; [|exact H].
    apply hash_none_own. rewrite assign_visits_hash. unfold pre_assign. rewrite Hf. reflexivity.
  - unfold assign_type. destruct (a_has_model (s_ann s)); cbn [fst]; [|exact H].
    unfold set_model. apply update_own. apply hash_none_own. reflexivity.
  - unfold assign_item. destruct (a_has_model (s_ann s)); [|exact H]. rewrite Hf.
    destruct (make_unique _ _) as [[id n] ok]. apply hash_none_own. reflexivity.
  - unfold clear_all. destruct (a_has_model (s_ann s)); [|exact H]. apply hash_none_own. reflexivity.
Qed.

(* ------------------------------------------------------------------------------------------------ vectors of several models *)

Definition eq_free_all (idss : list (list string)) : Prop := forall k, eq_free_vec (nth_ids idss k).
Definition mop_eq_free (o : mop) : Prop :=
  match o with
  | MEdit _ _ id => eq_freeb id = true
  | MOp o => op_eq_free o
  | MStruct _ _ => False      (* structural edits are outside this theorem: see lookups_current_multi *)
  | _ => True
  end.

Lemma nth_ids_set_cases : forall idss k j x, nth_ids (set_ids idss k x) j = x \/ nth_ids (set_ids idss k x) j = nth_ids idss j.
Proof.
  unfold nth_ids. induction idss as [|y r IH]; intros k j x; [right; destruct k; reflexivity|].
  destruct k as [|k], j as [|j]; simpl; auto.
Qed.
Lemma set_ids_eq_free : forall idss k x, eq_free_all idss -> eq_free_vec x -> eq_free_all (set_ids idss k x).
Proof.
  intros idss k x F Fx j. destruct (nth_ids_set_cases idss k j x) as [E|E]; rewrite E; [assumption | apply F].
Qed.

Definition cur_st (sts : list structure) (ms : mstate) : structure := st_of sts (m_st ms) (a_model (m_ann ms)).
Definition cur_state (ms : mstate) : state :=
  {| s_ids := nth_ids (m_ids ms) (a_model (m_ann ms)); s_ann := m_ann ms |}.

Definition MInv (c : cfg) (sts : list structure) (ms : mstate) : Prop :=
  eq_free_all (m_ids ms) /\ HashPart c (cur_st sts ms) (cur_state ms) /\ OwnInv (m_ann ms).

Lemma mstep_inv : forall c sts ms o, fx_refresh c = true -> mop_eq_free o ->
  MInv c sts ms -> MInv c sts (fst (mstep c sts ms o)).
Proof.
  intros c sts ms o Hf Ho [F [HP HO]]. destruct o as [k|k slot id| |k j|o]; unfold mstep; [| | |destruct Ho|].
  - (* setModel(model k) *)
    cbn [fst]. unfold MInv, cur_st, cur_state. cbn [m_ids m_ann m_st].
    set (s0 := {| s_ids := nth_ids (m_ids ms) k; s_ann := with_model (m_ann ms) k |}).
    destruct (set_model_rebuilds c (st_of sts (m_st ms) k) s0) as [R1 [R2 [R3 [R4 R5]]]].
    split; [exact F|]. split.
    + rewrite R3. cbn [s0 s_ann with_model a_model]. unfold HashPart. right. exists (nth_ids (m_ids ms) k).
      split; [apply F|]. cbn [s_ann]. split; [exact R4 | exact R1].
    + intros _. rewrite R2, R3. reflexivity.
  - (* an id edit on some model *)
    cbn [fst]. unfold MInv, cur_st, cur_state in *. cbn [m_ids m_ann m_st]. split; [|split; assumption].
    apply set_ids_eq_free; [assumption|]. apply set_eq_free; [apply F | exact Ho].
  - (* the stored model dies *)
    cbn [fst]. unfold MInv, cur_st, cur_state in *. cbn [m_ids m_ann m_st without_model a_model]. split; [exact F|]. split; assumption.
  - (* any operation on the stored model *)
    set (k := a_model (m_ann ms)) in *.
    set (s := {| s_ids := nth_ids (m_ids ms) k; s_ann := m_ann ms |}).
    assert (Fs : eq_free_vec (s_ids s)) by apply F.
    pose proof (step_eq_free c (st_of sts (m_st ms) k) s o Ho Fs) as F1.
    pose proof (step_hashpart c (st_of sts (m_st ms) k) s o Hf Ho Fs HP) as H1.
    pose proof (step_own c (st_of sts (m_st ms) k) s o Hf HO) as O1.
    pose proof (step_model c (st_of sts (m_st ms) k) s o) as M1.
    destruct (step c (st_of sts (m_st ms) k) s o) as [s' r]. cbn [fst] in *.
    unfold MInv, cur_st, cur_state. cbn [m_ids m_ann m_st]. rewrite M1. cbn [s s_ann]. fold k.
    split; [apply set_ids_eq_free; assumption|]. split; [|exact O1].
    unfold HashPart in *. exact H1.
Qed.

Lemma mrun_cons : forall c sts ms o h, fst (mrun c sts ms (o :: h)) = fst (mrun c sts (fst (mstep c sts ms o)) h).
Proof.
  intros. simpl. destruct (mstep c sts ms o) as [m1 x]. simpl. destruct (mrun c sts m1 h). reflexivity.
Qed.

Lemma mrun_inv : forall c sts h ms, fx_refresh c = true -> Forall mop_eq_free h -> MInv c sts ms -> MInv c sts (fst (mrun c sts ms h)).
Proof.
  induction h as [|o h IH]; intros ms Hf Hh H; [exact H|]. inversion Hh; subst.
  rewrite mrun_cons. apply IH; auto. apply mstep_inv; assumption.
Qed.

(* With the repairs, for ANY history over ANY number of models (setModel on a model, its clone, a look-alike with
   the same identifiers, a different model, the first one again, after the stored model died, ...) interleaved with
   id edits on any of them, assign*, clearAllIds and look-ups, identifiers free of '=':
   the list a look-up consults is the list of the model the annotator holds NOW, and its items are objects of
   that model. *)
Theorem lookups_current_multi : forall c sts h idss stx,
  fx_refresh c = true -> fx_hash c = true -> eq_free_all idss -> Forall mop_eq_free h ->
  let ms := fst (mrun c sts (minit idss stx) h) in
  let k := a_model (m_ann ms) in
  a_has_model (m_ann ms) = true ->
  let s := update c (st_of sts (m_st ms) k) {| s_ids := nth_ids (m_ids ms) k; s_ann := m_ann ms |} in
  a_cache (s_ann s) = build_cache c (st_of sts (m_st ms) k) (nth_ids (m_ids ms) k) /\ a_owner (s_ann s) = k.
Proof.
  intros c sts h idss stx Hf Hh F Hops ms k Hm s.
  assert (I : MInv c sts ms).
  { apply mrun_inv; auto. split; [exact F|]. split; [left; reflexivity | apply hash_none_own; reflexivity]. }
  destruct I as [Fs [HP HO]]. unfold cur_st, cur_state in HP. fold k in HP.
  subst s. unfold update. cbn [s_ann s_ids]. rewrite Hm. cbn [negb].
  destruct (opt_str_eqb (a_hash (m_ann ms)) (hash_string c (st_of sts (m_st ms) k) (nth_ids (m_ids ms) k))) eqn:E.
  - cbn [s_ann]. destruct HP as [Hn|[ids0 [F0 [Hh0 Hc]]]]; cbn [s_ann] in *.
    + rewrite Hn in E. discriminate.
    + split.
      * rewrite Hh0 in E. unfold opt_str_eqb in E. apply String.eqb_eq in E. rewrite Hc.
        apply hash_faithful; auto.
      * apply HO. congruence.
  - cbn [s_ann with_cache a_cache a_owner]. split; reflexivity.
Qed.
