(** IdsMulti.v — one annotator, several models handed to it in turn (property C13): every look-up consults the id
    list of the model the annotator holds NOW, and the items it returns are objects of that model. *)
From Coq Require Import String Ascii List NArith Arith Bool Lia.
From LC Require Import Common IdsDefs IdsProofs IdsProofs2 IdsProofs3 IdsProofs4 IdsHash.
Import ListNotations.
Open Scope string_scope.
Open Scope list_scope.

(* setModel always rebuilds: the list, its owner and the stored hash describe the model just handed over,
   whatever the annotator held before (in particular a model with the same identifiers in the same layout) *)
Theorem set_model_rebuilds : forall c st s,
  a_cache (s_ann (set_model c st s)) = build_cache c st (s_ids s) /\
  a_owner (s_ann (set_model c st s)) = a_model (s_ann s) /\
  a_model (s_ann (set_model c st s)) = a_model (s_ann s) /\
  a_hash (s_ann (set_model c st s)) = Some (hash_string c st (s_ids s)) /\
  a_has_model (s_ann (set_model c st s)) = true.
Proof. intros c st s. unfold set_model, update. cbn. repeat split; reflexivity. Qed.

(* ------------------------------------------------------------------------------------------------ which model *)

Lemma update_model : forall c st s, a_model (s_ann (update c st s)) = a_model (s_ann s).
Proof.
  intros; unfold update. destruct (negb (a_has_model (s_ann s))); [destruct (a_hash (s_ann s)); reflexivity|].
  destruct (opt_str_eqb _ _); reflexivity.
Qed.
Lemma assign_visit_model : forall s v, a_model (s_ann (assign_visit s v)) = a_model (s_ann s) /\
                                       a_owner (s_ann (assign_visit s v)) = a_owner (s_ann s).
Proof.
  intros s v. unfold assign_visit. destruct (is_empty _); [|split; reflexivity].
  destruct (make_unique _ _) as [[id n] ok]. split; reflexivity.
Qed.
Lemma assign_visits_model : forall vs s, a_model (s_ann (assign_visits s vs)) = a_model (s_ann s) /\
                                         a_owner (s_ann (assign_visits s vs)) = a_owner (s_ann s).
Proof.
  induction vs as [|v vs IH]; intro s; [split; reflexivity|]. rewrite assign_visits_cons.
  destruct (IH (assign_visit s v)) as [A B]. destruct (assign_visit_model s v) as [C D]. split; congruence.
Qed.
Lemma pre_assign_model : forall c st s, a_model (s_ann (pre_assign c st s)) = a_model (s_ann s).
Proof. intros; unfold pre_assign. destruct (fx_refresh c); reflexivity. Qed.

Lemma step_model : forall c st s o, a_model (s_ann (fst (step c st s o))) = a_model (s_ann s).
Proof.
  intros c st s o. rewrite step_fst. destruct o; unfold step_state; try apply update_model; try reflexivity.
  - unfold assign_all. destruct (a_has_model (s_ann s)); cbn [fst]; [|reflexivity].
    rewrite (proj1 (assign_visits_model _ _)). apply pre_assign_model.
  - unfold assign_type. destruct (a_has_model (s_ann s)); cbn [fst]; [|reflexivity].
    unfold set_model. rewrite update_model. cbn [s_ann a_model].
    rewrite (proj1 (assign_visits_model _ _)). apply pre_assign_model.
  - unfold assign_item. destruct (a_has_model (s_ann s)); [|reflexivity].
    destruct (fx_refresh c); destruct (make_unique _ _) as [[id n] ok]; cbn [fst s_ann a_model]; [reflexivity | apply update_model].
  - unfold clear_all. destruct (a_has_model (s_ann s)); [|reflexivity]. cbn [s_ann]. unfold with_cache; cbn [a_model]. apply update_model.
Qed.

(* a stored hash implies that the list refers to the stored model *)
Definition OwnInv (a : astate) : Prop := a_hash a <> None -> a_owner a = a_model a.

Lemma update_own : forall c st s, OwnInv (s_ann s) -> OwnInv (s_ann (update c st s)).
Proof.
  intros c st s H. unfold update. destruct (negb (a_has_model (s_ann s))).
  - intro Hn. cbn in Hn. congruence.
  - destruct (opt_str_eqb _ _); [assumption|]. intros _. reflexivity.
Qed.
Lemma hash_none_own : forall a, a_hash a = None -> OwnInv a.
Proof. intros a H Hn. congruence. Qed.

Lemma step_own : forall c st s o, fx_refresh c = true -> OwnInv (s_ann s) -> OwnInv (s_ann (fst (step c st s o))).
Proof.
  intros c st s o Hf H. rewrite step_fst. destruct o; unfold step_state; try (apply update_own; exact H); try exact H.
  - unfold set_model. apply update_own. apply hash_none_own. reflexivity.
  - unfold assign_all. destruct (a_has_model (s_ann s)); cbn [fst]; [|exact H].
    apply hash_none_own. rewrite assign_visits_hash. unfold pre_assign. rewrite Hf. reflexivity.
  - unfold assign_type. destruct (a_has_model (s_ann s)); cbn [fst]; [|exact H].
    unfold set_model. apply update_own. apply hash_none_own. reflexivity.
  - unfold assign_item. destruct (a_has_model (s_ann s)); [|exact H]. rewrite Hf.
    destruct (make_unique _ _) as [[id n] ok]. apply hash_none_own. reflexivity.
  - unfold clear_all. destruct (a_has_model (s_ann s)); [|exact H]. apply hash_none_own. reflexivity.
Qed.

(* ------------------------------------------------------------------------------------------------ vectors of several models *)

Definition eq_free_all (idss : list (list string)) : Prop := forall k, eq_free_vec (nth_ids idss k).
Definition mop_eq_free (o : mop) : Prop :=
  match o with
  | MEdit _ _ id => eq_freeb id = true
  | MOp o => op_eq_free o
  | MStruct _ _ => False      (* structural edits are outside this theorem: see lookups_current_multi *)
  | _ => True
  end.

Lemma nth_ids_set_cases : forall idss k j x, nth_ids (set_ids idss k x) j = x \/ nth_ids (set_ids idss k x) j = nth_ids idss j.
Proof.
  unfold nth_ids. induction idss as [|y r IH]; intros k j x; [right; destruct k; reflexivity|].
  destruct k as [|k], j as [|j]; simpl; auto.
Qed.
Lemma set_ids_eq_free : forall idss k x, eq_free_all idss -> eq_free_vec x -> eq_free_all (set_ids idss k x).
Proof.
  intros idss k x F Fx j. destruct (nth_ids_set_cases idss k j x) as [E|E]; rewrite E; [assumption | apply F].
Qed.

Definition cur_st (sts : list structure) (ms : mstate) : structure := st_of sts (m_st ms) (a_model (m_ann ms)).
Definition cur_state (ms : mstate) : state :=
  {| s_ids := nth_ids (m_ids ms) (a_model (m_ann ms)); s_ann := m_ann ms |}.

Definition MInv (c : cfg) (sts : list structure) (ms : mstate) : Prop :=
  eq_free_all (m_ids ms) /\ HashPart c (cur_st sts ms) (cur_state ms) /\ OwnInv (m_ann ms).

Lemma mstep_inv : forall c sts ms o, fx_refresh c = true -> mop_eq_free o ->
  MInv c sts ms -> MInv c sts (fst (mstep c sts ms o)).
Proof.
  intros c sts ms o Hf Ho [F [HP HO]]. destruct o as [k|k slot id| |k j|o]; unfold mstep; [| | |destruct Ho|].
  - (* setModel(model k) *)
    cbn [fst]. unfold MInv, cur_st, cur_state. cbn [m_ids m_ann m_st].
    set (s0 := {| s_ids := nth_ids (m_ids ms) k; s_ann := with_model (m_ann ms) k |}).
    destruct (set_model_rebuilds c (st_of sts (m_st ms) k) s0) as [R1 [R2 [R3 [R4 R5]]]].
    split; [exact F|]. split.
    + rewrite R3. cbn [s0 s_ann with_model a_model]. unfold HashPart. right. exists (nth_ids (m_ids ms) k).
      split; [apply F|]. cbn [s_ann]. split; [exact R4 | exact R1].
    + intros _. rewrite R2, R3. reflexivity.
  - (* an id edit on some model *)
    cbn [fst]. unfold MInv, cur_st, cur_state in *. cbn [m_ids m_ann m_st]. split; [|split; assumption].
    apply set_ids_eq_free; [assumption|]. apply set_eq_free; [apply F | exact Ho].
  - (* the stored model dies *)
    cbn [fst]. unfold MInv, cur_st, cur_state in *. cbn [m_ids m_ann m_st without_model a_model]. split; [exact F|]. split; assumption.
  - (* any operation on the stored model *)
    set (k := a_model (m_ann ms)) in *.
    set (s := {| s_ids := nth_ids (m_ids ms) k; s_ann := m_ann ms |}).
    assert (Fs : eq_free_vec (s_ids s)) by apply F.
    pose proof (step_eq_free c (st_of sts (m_st ms) k) s o Ho Fs) as F1.
    pose proof (step_hashpart c (st_of sts (m_st ms) k) s o Hf Ho Fs HP) as H1.
    pose proof (step_own c (st_of sts (m_st ms) k) s o Hf HO) as O1.
    pose proof (step_model c (st_of sts (m_st ms) k) s o) as M1.
    destruct (step c (st_of sts (m_st ms) k) s o) as [s' r]. cbn [fst] in *.
    unfold MInv, cur_st, cur_state. cbn [m_ids m_ann m_st]. rewrite M1. cbn [s s_ann]. fold k.
    split; [apply set_ids_eq_free; assumption|]. split; [|exact O1].
    unfold HashPart in *. exact H1.
Qed.

Lemma mrun_cons : forall c sts ms o h, fst (mrun c sts ms (o :: h)) = fst (mrun c sts (fst (mstep c sts ms o)) h).
Proof.
  intros. simpl. destruct (mstep c sts ms o) as [m1 x]. simpl. destruct (mrun c sts m1 h). reflexivity.
Qed.

Lemma mrun_inv : forall c sts h ms, fx_refresh c = true -> Forall mop_eq_free h -> MInv c sts ms -> MInv c sts (fst (mrun c sts ms h)).
Proof.
  induction h as [|o h IH]; intros ms Hf Hh H; [exact H|]. inversion Hh; subst.
  rewrite mrun_cons. apply IH; auto. apply mstep_inv; assumption.
Qed.

(* With the repairs, for ANY history over ANY number of models (setModel on a model, its clone, a look-alike with
   the same identifiers, a different model, the first one again, after the stored model died, ...) interleaved with
   id edits on any of them, assign*, clearAllIds and look-ups, identifiers free of '=':
   the list a look-up consults is the list of the model the annotator holds NOW, and its items are objects of
   that model. *)
Theorem lookups_current_multi : forall c sts h idss stx,
  fx_refresh c = true -> fx_hash c = true -> eq_free_all idss -> Forall mop_eq_free h ->
  let ms := fst (mrun c sts (minit idss stx) h) in
  let k := a_model (m_ann ms) in
  a_has_model (m_ann ms) = true ->
  let s := update c (st_of sts (m_st ms) k) {| s_ids := nth_ids (m_ids ms) k; s_ann := m_ann ms |} in
  a_cache (s_ann s) = build_cache c (st_of sts (m_st ms) k) (nth_ids (m_ids ms) k) /\ a_owner (s_ann s) = k.
Proof.
  intros c sts h idss stx Hf Hh F Hops ms k Hm s.
  assert (I : MInv c sts ms).
  { apply mrun_inv; auto. split; [exact F|]. split; [left; reflexivity | apply hash_none_own; reflexivity]. }
  destruct I as [Fs [HP HO]]. unfold cur_st, cur_state in HP. fold k in HP.
  subst s. unfold update. cbn [s_ann s_ids]. rewrite Hm. cbn [negb].
  destruct (opt_str_eqb (a_hash (m_ann ms)) (hash_string c (st_of sts (m_st ms) k) (nth_ids (m_ids ms) k))) eqn:E.
  - cbn [s_ann]. destruct HP as [Hn|[ids0 [F0 [Hh0 Hc]]]]; cbn [s_ann] in *.
    + rewrite Hn in E. discriminate.
    + split.
      * rewrite Hh0 in E. unfold opt_str_eqb in E. apply String.eqb_eq in E. rewrite Hc.
        apply hash_faithful; auto.
      * apply HO. congruence.
  - cbn [s_ann with_cache a_cache a_owner]. split; reflexivity.
Qed.

(* ------------------------------------------------------------------------------------------------ structural edits *)

(* index_consistent: the stored hash, when there is one, is the hash of SOME (structure, id vector) pair - the model
   as it was when the list was last built - and the list is exactly the list of that pair; and the list belongs to
   the stored model.  No condition on identifiers, and structural edits are allowed. *)
Definition IdxPart (c : cfg) (a : astate) : Prop :=
  a_hash a = None \/
  exists st0 ids0, a_hash a = Some (hash_string c st0 ids0) /\ a_cache a = build_cache c st0 ids0.
Definition index_consistent (c : cfg) (ms : mstate) : Prop := IdxPart c (m_ann ms) /\ OwnInv (m_ann ms).

Lemma update_idx : forall c st s, IdxPart c (s_ann s) -> IdxPart c (s_ann (update c st s)).
Proof.
  intros c st s H. unfold update. destruct (negb (a_has_model (s_ann s))); [left; reflexivity|].
  destruct (opt_str_eqb _ _); [assumption|]. right. exists st, (s_ids s). split; reflexivity.
Qed.
Lemma set_model_idx : forall c st s, IdxPart c (s_ann (set_model c st s)).
Proof. intros. unfold set_model. apply update_idx. left; reflexivity. Qed.

Lemma step_idx : forall c st s o, fx_refresh c = true -> IdxPart c (s_ann s) -> IdxPart c (s_ann (fst (step c st s o))).
Proof.
  intros c st s o Hf H. rewrite step_fst. destruct o; unfold step_state.
  1: apply set_model_idx.
  1: exact H.
  1: { unfold assign_all. destruct (a_has_model (s_ann s)); cbn [fst]; [|exact H].
       left. rewrite assign_visits_hash. unfold pre_assign. rewrite Hf. reflexivity. }
  1: { unfold assign_type. destruct (a_has_model (s_ann s)); cbn [fst]; [|exact H]. apply set_model_idx. }
  1: { unfold assign_item. destruct (a_has_model (s_ann s)); [|exact H]. rewrite Hf.
       destruct (make_unique _ _) as [[id n] ok]. left. reflexivity. }
  1: { unfold clear_all. destruct (a_has_model (s_ann s)); [|exact H]. left. reflexivity. }
  all: try (apply update_idx; exact H).
  exact H.
Qed.

Lemma mstep_idx : forall c sts ms o, fx_refresh c = true -> index_consistent c ms -> index_consistent c (fst (mstep c sts ms o)).
Proof.
  intros c sts ms o Hf [HI HO]. destruct o as [k|k slot id| |k j|o]; unfold mstep, index_consistent.
  - cbn [fst m_ann]. split; [apply set_model_idx|].
    unfold set_model. apply update_own. apply hash_none_own. reflexivity.
  - cbn [fst m_ann]. split; assumption.
  - cbn [fst m_ann]. split; assumption.
  - cbn [fst m_ann]. split; assumption.
  - set (k := a_model (m_ann ms)). set (s := {| s_ids := nth_ids (m_ids ms) k; s_ann := m_ann ms |}).
    pose proof (step_idx c (st_of sts (m_st ms) k) s o Hf HI) as I1.
    pose proof (step_own c (st_of sts (m_st ms) k) s o Hf HO) as O1.
    destruct (step c (st_of sts (m_st ms) k) s o) as [s' r]. cbn [fst m_ann] in *. split; assumption.
Qed.

Theorem mrun_index_consistent : forall c sts h idss stx,
  fx_refresh c = true -> index_consistent c (fst (mrun c sts (minit idss stx) h)).
Proof.
  intros c sts h idss stx Hf.
  assert (G : forall h ms, index_consistent c ms -> index_consistent c (fst (mrun c sts ms h))).
  { induction h0 as [|o h0 IH]; intros ms H; [exact H|]. rewrite mrun_cons. apply IH, mstep_idx; assumption. }
  apply G. split; [left; reflexivity | apply hash_none_own; reflexivity].
Qed.

(* decidable form of assumption A-hash for one pair of models: equal serialised strings imply equal id lists *)
Definition entry_eqb (x y : entry) : bool :=
  String.eqb (e_id x) (e_id y) && kind_eqb (e_kind x) (e_kind y) && Nat.eqb (e_slot x) (e_slot y)
  && Nat.eqb (e_a x) (e_a y) && Nat.eqb (e_b x) (e_b y).
Fixpoint cache_eqb (l l' : list entry) : bool :=
  match l, l' with
  | [], [] => true
  | x :: r, y :: r' => entry_eqb x y && cache_eqb r r'
  | _, _ => false
  end.
Lemma entry_eqb_eq : forall x y, entry_eqb x y = true -> x = y.
Proof.
  intros [i k s a b] [i' k' s' a' b'] H. unfold entry_eqb in H. cbn in H.
  repeat (apply andb_true_iff in H; destruct H as [H ?]).
  apply String.eqb_eq in H. apply kind_eqb_eq in H3. apply Nat.eqb_eq in H2, H1, H0. subst. reflexivity.
Qed.
Lemma cache_eqb_eq : forall l l', cache_eqb l l' = true -> l = l'.
Proof.
  induction l as [|x r IH]; destruct l' as [|y r']; simpl; intro H; try discriminate; [reflexivity|].
  apply andb_true_iff in H. destruct H as [H1 H2]. rewrite (entry_eqb_eq _ _ H1), (IH _ H2). reflexivity.
Qed.
Definition hash_separates (c : cfg) (st0 : structure) (ids0 : list string) (st : structure) (ids : list string) : bool :=
  negb (String.eqb (hash_string c st0 ids0) (hash_string c st ids))
  || cache_eqb (build_cache c st0 ids0) (build_cache c st ids).

(* what a new annotator that is handed the model computes *)
Definition fresh_cache (c : cfg) (st : structure) (ids : list string) : list entry :=
  a_cache (s_ann (set_model c st (init ids))).
Lemma fresh_cache_eq : forall c st ids, fresh_cache c st ids = build_cache c st ids.
Proof. intros. unfold fresh_cache. exact (proj1 (set_model_rebuilds c st (init ids))). Qed.

(* For ANY list of operations - setModel of any model, id edits on any model, structural edits of any model
   (MStruct: add / remove / replace of entities = the model has another structure from now on), the stored model
   dying, assign*, clearAllIds, look-ups, prints - and ANY identifiers: after the rebuild step ([update], the first
   thing every look-up does) the index is the index a fresh annotator builds from the model as it is now, and it
   belongs to the stored model, PROVIDED the hash separates the model the list was last built from and the model
   as it is now (decidable premise [hash_separates], assumption A-hash for that one pair). *)
Theorem lookups_after_any_ops : forall c sts h idss stx,
  fx_refresh c = true ->
  let ms := fst (mrun c sts (minit idss stx) h) in
  let k := a_model (m_ann ms) in
  let st := st_of sts (m_st ms) k in
  let ids := nth_ids (m_ids ms) k in
  a_has_model (m_ann ms) = true ->
  (forall st0 ids0, a_hash (m_ann ms) = Some (hash_string c st0 ids0) -> a_cache (m_ann ms) = build_cache c st0 ids0 ->
                    hash_separates c st0 ids0 st ids = true) ->
  let s := update c st {| s_ids := ids; s_ann := m_ann ms |} in
  a_cache (s_ann s) = fresh_cache c st ids /\ a_owner (s_ann s) = k /\
  (forall id, item_of (a_cache (s_ann s)) id = item_of (fresh_cache c st ids) id) /\
  ids_of (a_cache (s_ann s)) = ids_of (fresh_cache c st ids).
Proof.
  intros c sts h idss stx Hf ms k st ids Hm Hsep s.
  assert (Main : a_cache (s_ann s) = fresh_cache c st ids /\ a_owner (s_ann s) = k).
  { rewrite fresh_cache_eq.
    destruct (mrun_index_consistent c sts h idss stx Hf) as [HI HO]. fold ms in HI, HO.
    subst s. unfold update. cbn [s_ann s_ids]. rewrite Hm. cbn [negb].
    destruct (opt_str_eqb (a_hash (m_ann ms)) (hash_string c st ids)) eqn:E; [|split; reflexivity].
    cbn [s_ann]. destruct HI as [Hn|[st0 [ids0 [Hh Hc]]]].
    - rewrite Hn in E. discriminate.
    - split; [|apply HO; congruence].
      specialize (Hsep st0 ids0 Hh Hc). unfold hash_separates in Hsep.
      rewrite Hh in E. unfold opt_str_eqb in E. rewrite E in Hsep. cbn in Hsep.
      rewrite Hc. apply cache_eqb_eq. exact Hsep. }
  destruct Main as [M1 M2]. repeat split; auto; intros; rewrite M1; reflexivity.
Qed.
