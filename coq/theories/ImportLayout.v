(** ImportLayout.v — "every transitive import can be satisfied" does not depend on how the files are spread over
    directories, nor on how the import URLs are spelled, as long as corresponding URLs reach corresponding files (C07). *)
From Coq Require Import String Ascii List Bool Arith Lia.
From LC Require Import ImportDefs ImportSpec ImportProofs.
Import ListNotations.
Local Open Scope string_scope.
Local Open Scope list_scope.

(* ------------------------------------------------------------------------------------------ the same model up to URLs *)

Section Sim.
  Variable T : string -> string -> Prop.       (* corresponding URLs *)

  Definition usim (a b : units) : Prop :=
    match a, b with
    | ULocal n refs, ULocal n' refs' => n = n' /\ refs = refs'
    | UImp n _ u r, UImp n' _ u' r' => n = n' /\ r = r' /\ T u u'
    | _, _ => False
    end.

  Definition isim (a b : option (nat * string * string)) : Prop :=
    match a, b with
    | None, None => True
    | Some (_, u, r), Some (_, u', r') => r = r' /\ T u u'
    | _, _ => False
    end.

  Fixpoint csim (a b : comp) {struct a} : Prop :=
    match a, b with
    | Comp n i used kids, Comp n' i' used' kids' =>
      n = n' /\ used = used' /\ isim i i' /\
      (fix all2 (l l' : list comp) : Prop :=
         match l, l' with
         | [], [] => True
         | x :: r, y :: r' => csim x y /\ all2 r r'
         | _, _ => False
         end) kids kids'
    end.

  Fixpoint csims (l l' : list comp) : Prop :=
    match l, l' with
    | [], [] => True
    | x :: r, y :: r' => csim x y /\ csims r r'
    | _, _ => False
    end.

  Lemma csim_unfold : forall n i used kids n' i' used' kids',
    csim (Comp n i used kids) (Comp n' i' used' kids') <-> (n = n' /\ used = used' /\ isim i i' /\ csims kids kids').
  Proof.
    intros. cbn [csim]. assert (E : forall l l', (fix all2 (l l' : list comp) : Prop :=
         match l, l' with
         | [], [] => True
         | x :: r, y :: r' => csim x y /\ all2 r r'
         | _, _ => False
         end) l l' <-> csims l l').
    { induction l as [|x r IH]; intros [|y r']; cbn [csims]; tauto. }
    rewrite E. tauto.
  Qed.

  Definition msim (a b : model) : Prop := Forall2 usim (m_units a) (m_units b) /\ csims (m_comps a) (m_comps b).

  Lemma usim_name : forall a b, usim a b -> uname a = uname b.
  Proof. intros [n r|n s u r] [n' r'|n' s' u' r'] H; cbn in *; try contradiction; apply H. Qed.

  Lemma find_units_sim : forall l l' n a, Forall2 usim l l' -> find_units l n = Some a ->
    exists b, find_units l' n = Some b /\ usim a b.
  Proof.
    intros l l' n a H. induction H as [|x y r r' Hxy Hr IH]; intros E; [discriminate|].
    unfold find_units in *. cbn [find] in *. rewrite <- (usim_name _ _ Hxy).
    destruct (String.eqb (uname x) n); [inversion E; subst; eauto|apply IH; exact E].
  Qed.

  Lemma find_units_sim_back : forall l l' n b, Forall2 usim l l' -> find_units l' n = Some b ->
    exists a, find_units l n = Some a /\ usim a b.
  Proof.
    intros l l' n b H. induction H as [|x y r r' Hxy Hr IH]; intros E; [discriminate|].
    unfold find_units in *. cbn [find] in *. rewrite <- (usim_name _ _ Hxy) in E.
    destruct (String.eqb (uname x) n); [inversion E; subst; eauto|apply IH; exact E].
  Qed.

  Lemma find_units_none_sim : forall l l' n, Forall2 usim l l' -> find_units l n <> None -> find_units l' n <> None.
  Proof.
    intros l l' n H Hn. destruct (find_units l n) as [a|] eqn:E; [|contradiction].
    destruct (find_units_sim _ _ _ _ H E) as (b & Eb & _). congruence.
  Qed.

  Lemma csim_name : forall a b, csim a b -> cname a = cname b.
  Proof. intros [n i u k] [n' i' u' k'] H. apply csim_unfold in H. apply H. Qed.

  Lemma find_direct_sim : forall l l' n a, csims l l' -> find (fun k => String.eqb (cname k) n) l = Some a ->
    exists b, find (fun k => String.eqb (cname k) n) l' = Some b /\ csim a b.
  Proof.
    induction l as [|x r IH]; intros [|y r'] n a H E; cbn in H; try contradiction; [discriminate|].
    destruct H as [Hxy Hr]. cbn [find] in *. rewrite <- (csim_name _ _ Hxy).
    destruct (String.eqb (cname x) n); [inversion E; subst; eauto|eapply IH; eauto].
  Qed.

  Lemma find_direct_none_sim : forall l l' n, csims l l' -> find (fun k => String.eqb (cname k) n) l = None ->
    find (fun k => String.eqb (cname k) n) l' = None.
  Proof.
    induction l as [|x r IH]; intros [|y r'] n H E; cbn in H; try contradiction; [reflexivity|].
    destruct H as [Hxy Hr]. cbn [find] in *. rewrite <- (csim_name _ _ Hxy).
    destruct (String.eqb (cname x) n); [discriminate|eapply IH; eauto].
  Qed.

  Lemma find_comp_in_sim : forall a b n x, csim a b ->
    (find_comp_in a n = Some x -> exists y, find_comp_in b n = Some y /\ csim x y) /\
    (find_comp_in a n = None -> find_comp_in b n = None).
  Proof.
    induction a as [nm i used kids IHk] using comp_ind'. intros [nm' i' used' kids'] n x H.
    apply csim_unfold in H. destruct H as (_ & _ & _ & Hk). cbn [find_comp_in].
    destruct (find (fun k => String.eqb (cname k) n) kids) as [k|] eqn:Ef.
    - destruct (find_direct_sim _ _ _ _ Hk Ef) as (k' & Ef' & Hkk). rewrite Ef'. split; [|discriminate].
      intros E. inversion E; subst. eauto.
    - rewrite (find_direct_none_sim _ _ _ Hk Ef). clear Ef.
      revert kids' Hk. induction IHk as [|k r Hk1 Hr1 IHr]; intros [|k' r'] Hk; cbn in Hk; try contradiction.
      + split; [discriminate|reflexivity].
      + destruct Hk as [Hkk Hr].
        destruct (find_comp_in k n) as [y|] eqn:Ek.
        * destruct (Hk1 k' n y Hkk) as (Hs' & _). destruct (Hs' Ek) as (y' & Ey' & Hyy). rewrite Ey'.
          split; [|discriminate]. intros E. inversion E; subst. eauto.
        * destruct (Hk1 k' n x Hkk) as (_ & Hn). rewrite (Hn Ek). apply IHr. exact Hr.
  Qed.

  Lemma find_comp_sim : forall l l' n x, csims l l' -> find_comp l n = Some x ->
    exists y, find_comp l' n = Some y /\ csim x y.
  Proof.
    intros l l' n x H E. unfold find_comp in *.
    destruct (find (fun k => String.eqb (cname k) n) l) as [k|] eqn:Ef.
    - destruct (find_direct_sim _ _ _ _ H Ef) as (k' & Ef' & Hkk). rewrite Ef'. inversion E; subst. eauto.
    - rewrite (find_direct_none_sim _ _ _ H Ef). clear Ef.
      revert l' H E. induction l as [|k r IHr]; intros [|k' r'] H E; cbn in H; try contradiction; [discriminate|].
      destruct H as [Hkk Hr]. destruct (find_comp_in k n) as [y|] eqn:Ek.
      + destruct (proj1 (find_comp_in_sim k k' n y Hkk) Ek) as (y' & Ey' & Hyy). rewrite Ey'.
        inversion E; subst. eauto.
      + rewrite (proj2 (find_comp_in_sim k k' n x Hkk) Ek). apply IHr; assumption.
  Qed.
End Sim.

(* ------------------------------------------------------------------------------------------ two layouts of one graph *)

Section Layouts.
  Variables (fs1 fs2 : fsys) (m1 m2 : model).
  Variable R : owner -> owner -> Prop.       (* "the same file" in the two worlds; None = the origin model *)

  (* corresponding URLs written in corresponding files reach corresponding files (or nothing, in both worlds) *)
  Definition reach (o1 o2 : owner) (u1 u2 : string) : Prop :=
    (fs_model fs1 (key_of o1 u1) = None /\ fs_model fs2 (key_of o2 u2) = None) \/
    (exists sm1 sm2, fs_model fs1 (key_of o1 u1) = Some sm1 /\ fs_model fs2 (key_of o2 u2) = Some sm2 /\
                     R (Some (key_of o1 u1)) (Some (key_of o2 u2))).

  (* the two worlds hold the same graph: corresponding files hold the same model up to the spelling of the URLs *)
  Definition LayoutSim : Prop :=
    R None None /\
    forall o1 o2 cm1 cm2, R o1 o2 -> fcontent fs1 m1 o1 = Some cm1 -> fcontent fs2 m2 o2 = Some cm2 ->
                          msim (reach o1 o2) cm1 cm2.

  Hypothesis Hsim : LayoutSim.

  Lemma RU_layout : forall o1 cm1 u1, RU fs1 o1 cm1 u1 ->
    forall o2 cm2 u2, R o1 o2 -> fcontent fs1 m1 o1 = Some cm1 -> fcontent fs2 m2 o2 = Some cm2 ->
                      usim (reach o1 o2) u1 u2 -> RU fs2 o2 cm2 u2.
  Proof.
    intros o1 cm1 u1 HR. induction HR as [o1 cm1 n sid url ref sm su Hfm Hfu HRsu IH | o1 cm1 n refs Hex Hall IH];
      intros o2 cm2 u2 Ho Hc1 Hc2 Hu.
    - destruct u2 as [|n' sid' url' ref']; [contradiction|]. destruct Hu as (-> & -> & Hreach).
      destruct Hreach as [[Hn _]|(sm1 & sm2 & H1 & H2 & HR')]; [congruence|].
      assert (sm1 = sm) by congruence. subst sm1.
      destruct (proj2 Hsim _ _ sm sm2 HR' Hfm H2) as (Hus & _).
      destruct (find_units_sim _ _ _ _ _ Hus Hfu) as (su2 & Efu2 & Hsu).
      eapply RU_imp; eauto.
    - destruct u2 as [n' refs'|]; [|contradiction]. destruct Hu as (-> & ->).
      destruct (proj2 Hsim _ _ _ _ Ho Hc1 Hc2) as (Hus & _).
      apply RU_local.
      + intros r Hr Hs. eapply find_units_none_sim; eauto.
      + intros r cu2 Hr Hs E2. destruct (find_units_sim_back _ _ _ _ _ Hus E2) as (cu1 & E1 & Hcu).
        eapply IH; eauto.
  Qed.

  Lemma RC_layout : forall o1 cm1 c1, RC fs1 o1 cm1 c1 ->
    forall o2 cm2 c2, R o1 o2 -> fcontent fs1 m1 o1 = Some cm1 -> fcontent fs2 m2 o2 = Some cm2 ->
                      csim (reach o1 o2) c1 c2 -> RC fs2 o2 cm2 c2.
  Proof.
    intros o1 cm1 c1 HR.
    induction HR as [o1 cm1 n used kids Hex Hall Hk IHk
                    | o1 cm1 n sid url ref used kids sm sc Hfm Hfc HRsc IHsc Hex Hall Hk IHk];
      intros o2 cm2 c2 Ho Hc1 Hc2 Hc; destruct c2 as [n' i' used' kids']; apply csim_unfold in Hc;
        destruct Hc as (-> & -> & Hi & Hkids); destruct (proj2 Hsim _ _ _ _ Ho Hc1 Hc2) as (Hus & _).
    - destruct i' as [[[? ?] ?]|]; [contradiction|].
      apply RC_local.
      + intros un Hun Hs. eapply find_units_none_sim; eauto.
      + intros un su2 Hun Hs E2. destruct (find_units_sim_back _ _ _ _ _ Hus E2) as (su1 & E1 & Hsu).
        eapply RU_layout; eauto.
      + clear -IHk Hkids Ho Hc1 Hc2. revert kids' Hkids. induction kids as [|k r IHr]; intros [|k' r'] Hkids;
          cbn in Hkids; try contradiction.
        destruct Hkids as [Hkk Hr]. intros x [<-|Hx].
        * eapply (IHk k); eauto. left. reflexivity.
        * eapply IHr; eauto. intros y Hy. apply IHk. right. exact Hy.
    - destruct i' as [[[sid' url'] ref']|]; [|contradiction]. destruct Hi as (-> & Hreach).
      destruct Hreach as [[Hn _]|(sm1 & sm2 & H1 & H2 & HR')]; [congruence|].
      assert (sm1 = sm) by congruence. subst sm1.
      destruct (proj2 Hsim _ _ sm sm2 HR' Hfm H2) as (_ & Hcs).
      destruct (find_comp_sim _ _ _ _ _ Hcs Hfc) as (sc2 & Efc2 & Hsc).
      eapply RC_imp; eauto.
      + intros un Hun Hs. eapply find_units_none_sim; eauto.
      + intros un su2 Hun Hs E2. destruct (find_units_sim_back _ _ _ _ _ Hus E2) as (su1 & E1 & Hsu).
        eapply RU_layout; eauto.
      + clear -IHk Hkids Ho Hc1 Hc2. revert kids' Hkids. induction kids as [|k r IHr]; intros [|k' r'] Hkids;
          cbn in Hkids; try contradiction.
        destruct Hkids as [Hkk Hr]. intros x [<-|Hx].
        * eapply (IHk k); eauto. left. reflexivity.
        * eapply IHr; eauto. intros y Hy. apply IHk. right. exact Hy.
  Qed.
End Layouts.

Lemma Forall2_in_r {A B : Type} (P : A -> B -> Prop) : forall l l' b, Forall2 P l l' -> In b l' -> exists a, In a l /\ P a b.
Proof.
  intros l l' b H. induction H as [|x y r r' Hxy Hr IH]; intros Hb; [destruct Hb|].
  destruct Hb as [<-|Hb]; [exists x; split; [left; reflexivity|exact Hxy]|].
  destruct (IH Hb) as (a & Ha & Hp). exists a. split; [right; exact Ha|exact Hp].
Qed.

Lemma imported_comps_of_sim : forall T a b y, csim T a b -> In y (imported_comps_of b) ->
  exists x, In x (imported_comps_of a) /\ csim T x y.
Proof.
  intros T a. induction a as [n i used kids IHk] using comp_ind'. intros [n' i' used' kids'] y H Hy.
  pose proof H as H0. apply csim_unfold in H. destruct H as (-> & -> & Hi & Hk). cbn [imported_comps_of] in *.
  apply in_app_or in Hy. destruct Hy as [Hy|Hy].
  - destruct i' as [p'|]; [|destruct Hy]. destruct Hy as [<-|[]].
    destruct i as [p|]; [|destruct p' as [[? ?] ?]; contradiction].
    exists (Comp n' (Some p) used' kids). split; [apply in_or_app; left; left; reflexivity|exact H0].
  - assert (G : exists x, In x ((fix go (l : list comp) : list comp :=
                                   match l with [] => [] | k :: r => imported_comps_of k ++ go r end) kids) /\ csim T x y).
    { clear H0 Hi. revert kids' Hk Hy. induction IHk as [|k r Hk1 Hr1 IHr]; intros [|k' r'] Hk Hy; cbn in Hk; try contradiction.
      destruct Hk as [Hkk Hr]. apply in_app_or in Hy. destruct Hy as [Hy|Hy].
      - destruct (Hk1 k' y Hkk Hy) as (x & Hx & Hs). exists x. split; [apply in_or_app; left; exact Hx|exact Hs].
      - destruct (IHr r' Hr Hy) as (x & Hx & Hs). exists x. split; [apply in_or_app; right; exact Hx|exact Hs]. }
    destruct G as (x & Hx & Hs). exists x. split; [apply in_or_app; right; exact Hx|exact Hs].
Qed.

Lemma imported_comps_sim : forall T l l' y, csims T l l' -> In y (flat_map imported_comps_of l') ->
  exists x, In x (flat_map imported_comps_of l) /\ csim T x y.
Proof.
  intros T. induction l as [|a r IH]; intros [|b r'] y H Hy; cbn in H; try contradiction.
  destruct H as [Hab Hr]. cbn [flat_map] in *. apply in_app_or in Hy. destruct Hy as [Hy|Hy].
  - destruct (imported_comps_of_sim _ _ _ _ Hab Hy) as (x & Hx & Hs). exists x. split; [apply in_or_app; left; exact Hx|exact Hs].
  - destruct (IH _ _ Hr Hy) as (x & Hx & Hs). exists x. split; [apply in_or_app; right; exact Hx|exact Hs].
Qed.

(* if the second world holds the same graph as the first (LayoutSim), whatever is satisfiable in the first is in the second *)
Lemma resolvable_layout : forall fs1 fs2 m1 m2 R,
  LayoutSim fs1 fs2 m1 m2 R -> Resolvable fs1 m1 -> Resolvable fs2 m2.
Proof.
  intros fs1 fs2 m1 m2 R Hsim (Hu & Hc). pose proof (proj2 Hsim None None m1 m2 (proj1 Hsim) eq_refl eq_refl) as (Hus & Hcs).
  split.
  - intros u2 Hin. unfold imported_units in Hin. apply filter_In in Hin. destruct Hin as [Hin Himp].
    destruct (Forall2_in_r _ _ _ _ Hus Hin) as (u1 & Hin1 & Hs).
    assert (Hi1 : In u1 (imported_units m1)).
    { unfold imported_units. apply filter_In. split; [exact Hin1|].
      destruct u1, u2; cbn in *; try contradiction; try discriminate; reflexivity. }
    exact (RU_layout fs1 fs2 m1 m2 R Hsim None m1 u1 (Hu u1 Hi1) None m2 u2 (proj1 Hsim) eq_refl eq_refl Hs).
  - intros c2 Hin. unfold imported_comps in Hin.
    destruct (imported_comps_sim _ _ _ _ Hcs Hin) as (c1 & Hin1 & Hs).
    specialize (Hc c1 Hin1). destruct c1 as [n1 i1 used1 kids1], c2 as [n2 i2 used2 kids2].
    apply csim_unfold in Hs. destruct Hs as (_ & _ & Hi & _).
    destruct i2 as [[[sid2 url2] ref2]|]; [|exact I]. destruct i1 as [[[sid1 url1] ref1]|]; [|contradiction].
    destruct Hi as (-> & Hreach). cbn [RCimport] in *. destruct Hc as (sm & sc & Hfm & Hfc & HRC).
    destruct Hreach as [[Hn _]|(sm1 & sm2 & H1 & H2 & HR')]; [congruence|].
    assert (sm1 = sm) by congruence. subst sm1.
    destruct (proj2 Hsim _ _ sm sm2 HR' Hfm H2) as (_ & Hcs2).
    destruct (find_comp_sim _ _ _ _ _ Hcs2 Hfc) as (sc2 & Efc2 & Hsc).
    exists sm2, sc2. split; [exact H2|]. split; [exact Efc2|]. eapply RC_layout; eauto.
Qed.

(* resolveImports gives the same answer in two worlds that hold the same graph, whatever the directories and the
   spelling of the URLs, under the hypotheses of resolve_true_iff_partial for each world *)
Lemma resolve_layout_invariant_partial : forall fs1 fs2 m1 m2 R R' strict st1 st2 fuel1 fuel2,
  LayoutSim fs1 fs2 m1 m2 R -> LayoutSim fs2 fs1 m2 m1 R' ->
  NoErrs fs1 -> Shallow fs1 -> AcyclicFiles fs1 -> NoTwin fs1 m1 -> KeysOK fs1 -> cons fs1 st1 -> fuel_bound fs1 st1 <= fuel1 ->
  NoErrs fs2 -> Shallow fs2 -> AcyclicFiles fs2 -> NoTwin fs2 m2 -> KeysOK fs2 -> cons fs2 st2 -> fuel_bound fs2 st2 <= fuel2 ->
  exists b s1 s2, resolve_imports fuel1 strict fs1 st1 m1 = Ok (b, s1) /\ resolve_imports fuel2 strict fs2 st2 m2 = Ok (b, s2).
Proof.
  intros fs1 fs2 m1 m2 R R' strict st1 st2 fuel1 fuel2 S12 S21 A1 A2 A3 A4 A5 A6 A7 B1 B2 B3 B4 B5 B6 B7.
  destruct (resolve_true_iff_partial fs1 strict st1 m1 fuel1 A1 A2 A3 A4 A5 A6 A7) as (b1 & s1 & E1 & I1).
  destruct (resolve_true_iff_partial fs2 strict st2 m2 fuel2 B1 B2 B3 B4 B5 B6 B7) as (b2 & s2 & E2 & I2).
  exists b1, s1, s2. split; [exact E1|]. rewrite E2. f_equal. f_equal.
  destruct b1, b2; try reflexivity.
  - assert (H : false = true) by (apply I2; eapply resolvable_layout; [exact S12|]; apply I1; reflexivity). discriminate.
  - assert (H : false = true) by (apply I1; eapply resolvable_layout; [exact S21|]; apply I2; reflexivity). discriminate.
Qed.

(* non-vacuity: the example of [nonvacuous], in one directory and with its file in the sub-directory a/ *)
Definition lay_m0 := mdl "m_f0" [UImp "u" 0 "a/f1" "u"] [Comp "c" (Some (1, "a/f1", "c")) [] []].
Definition lay_fs : fsys := [(key_of None "a/f1", Parsed [] ex_m1)].
Definition lay_R (o1 o2 : owner) : Prop :=
  (o1 = None /\ o2 = None) \/ (o1 = Some (key_of None "f1") /\ o2 = Some (key_of None "a/f1")).
Definition lay_R' (o1 o2 : owner) : Prop := lay_R o2 o1.

Lemma layout_nonvacuous :
  LayoutSim ex_fs lay_fs ex_m0 lay_m0 lay_R /\ LayoutSim lay_fs ex_fs lay_m0 ex_m0 lay_R' /\
  (exists s1, resolve_imports (fuel_bound ex_fs empty_state) true ex_fs empty_state ex_m0 = Ok (true, s1)) /\
  (exists s2, resolve_imports (fuel_bound lay_fs empty_state) true lay_fs empty_state lay_m0 = Ok (true, s2)).
Proof.
  assert (Hleaf : forall T, msim T ex_m1 ex_m1).
  { intros T. split; [repeat constructor|]. cbn. repeat split. }
  split; [|split; [|split; eexists; vm_compute; reflexivity]].
  - split; [left; split; reflexivity|].
    intros o1 o2 cm1 cm2 [[-> ->]|[-> ->]] E1 E2.
    + inversion E1; inversion E2; subst. split.
      * constructor; [|constructor]. cbn. repeat split. right. exists ex_m1, ex_m1.
        split; [reflexivity|]. split; [reflexivity|]. right. split; reflexivity.
      * cbn. repeat split. right. exists ex_m1, ex_m1.
        split; [reflexivity|]. split; [reflexivity|]. right. split; reflexivity.
    + vm_compute in E1, E2. inversion E1; inversion E2; subst. apply Hleaf.
  - split; [left; split; reflexivity|].
    intros o1 o2 cm1 cm2 [[-> ->]|[-> ->]] E1 E2.
    + inversion E1; inversion E2; subst. split.
      * constructor; [|constructor]. cbn. repeat split. right. exists ex_m1, ex_m1.
        split; [reflexivity|]. split; [reflexivity|]. right. split; reflexivity.
      * cbn. repeat split. right. exists ex_m1, ex_m1.
        split; [reflexivity|]. split; [reflexivity|]. right. split; reflexivity.
    + vm_compute in E1, E2. inversion E1; inversion E2; subst. apply Hleaf.
Qed.
