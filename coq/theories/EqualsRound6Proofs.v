(** EqualsRound6Proofs.v — proof depth round 6 for C10.
    (1) reflexivity of the code AS IT IS (any switches) for ANY comparison of doubles, under the decidable premise
        on the values of the one entity (removes [neq_laws] from equals_refl_asis);
    (2) congruence: for ANY comparison of doubles, on chain-free values, entities the repaired equals reports equal
        are indistinguishable by equals on either side (equivalence classes are well defined);
    (3) the same congruence under [neq_laws]. *)
From Coq Require Import String List Bool ZArith QArith Arith Permutation.
From LC Require Import EqualsDefs EqualsSpec EqualsProofs EqualsCorrect EqualsAsIs EqualsExt EqualsValuesProofs.
Import ListNotations.
Local Close Scope Q_scope.

Lemma bool_eq_of_imp : forall x y : bool, (x = true -> y = true) -> (y = true -> x = true) -> x = y.
Proof. intros [|] [|] H1 H2; auto. symmetry; auto. Qed.

Theorem equals_congruent : forall neq, neq_laws neq -> forall a b c,
  eq_entity neq flags_fixed a b = true ->
  eq_entity neq flags_fixed a c = eq_entity neq flags_fixed b c
  /\ eq_entity neq flags_fixed c a = eq_entity neq flags_fixed c b.
Proof.
  intros neq HL a b c Hab.
  assert (Hba : eq_entity neq flags_fixed b a = true)
    by (rewrite <- (EqualsCorrect.equals_sym neq HL a b); exact Hab).
  split; apply bool_eq_of_imp; intro H.
  - exact (EqualsCorrect.equals_trans neq HL b a c Hba H).
  - exact (EqualsCorrect.equals_trans neq HL a b c Hab H).
  - exact (EqualsCorrect.equals_trans neq HL c a b H Hab).
  - exact (EqualsCorrect.equals_trans neq HL c b a H Hba).
Qed.

Theorem equals_refl_asis_on_values : forall neq fl a,
  equiv_on neq (doubles_e a) -> eq_entity neq fl a a = true.
Proof.
  intros neq fl a HV.
  destruct (EqualsValuesProofs.equals_transfer neq (doubles_e a) HV) as [neq' [HL HT]].
  rewrite (HT fl a a (incl_refl _) (incl_refl _)).
  exact (EqualsAsIs.equals_refl_asis neq' HL fl a).
Qed.

Theorem equals_congruent_on_values : forall neq a b c,
  equiv_on neq (doubles_e a ++ doubles_e b ++ doubles_e c) ->
  eq_entity neq flags_fixed a b = true ->
  eq_entity neq flags_fixed a c = eq_entity neq flags_fixed b c
  /\ eq_entity neq flags_fixed c a = eq_entity neq flags_fixed c b.
Proof.
  intros neq a b c HV Hab.
  destruct (EqualsValuesProofs.equals_transfer neq _ HV) as [neq' [HL HT]].
  assert (Ia : incl (doubles_e a) (doubles_e a ++ doubles_e b ++ doubles_e c))
    by (apply incl_appl, incl_refl).
  assert (Ib : incl (doubles_e b) (doubles_e a ++ doubles_e b ++ doubles_e c))
    by (apply incl_appr, incl_appl, incl_refl).
  assert (Ic : incl (doubles_e c) (doubles_e a ++ doubles_e b ++ doubles_e c))
    by (apply incl_appr, incl_appr, incl_refl).
  rewrite (HT flags_fixed a b Ia Ib) in Hab.
  rewrite (HT flags_fixed a c Ia Ic), (HT flags_fixed b c Ib Ic),
          (HT flags_fixed c a Ic Ia), (HT flags_fixed c b Ic Ib).
  exact (equals_congruent neq' HL a b c Hab).
Qed.
