(** ImportRound5Proofs.v -- proof depth round 5 for C07 (additive; uses ImportProofs only).
    1. the answer of resolveImports does not depend on the strict flag, on the fuel, nor on WHICH library state
       (any two states that cache the file system) the importer is in;
    2. after removeAllModels the exact characterisation holds from EVERY importer state (no [cons] hypothesis);
    3. the verdict is exact AND reported: satisfiable -> true; not satisfiable -> false with an issue attached to a
       top-level importing entity whose fetch failed. *)
From Coq Require Import String Ascii List Bool.
From LC Require Import ImportDefs ImportSpec ImportProofs.
Import ListNotations.

Lemma bool_iff_eq : forall (b1 b2 : bool) (P : Prop), (b1 = true <-> P) -> (b2 = true <-> P) -> b1 = b2.
Proof.
  intros b1 b2 P H1 H2. destruct b1, b2; try reflexivity.
  - symmetry. apply H2. apply H1. reflexivity.
  - apply H1. apply H2. reflexivity.
Qed.

Theorem resolve_answer_independent : forall fs m0 strict1 strict2 st1 st2 fuel1 fuel2,
  NoErrs fs -> cons fs st1 -> cons fs st2 ->
  fuel_bound fs st1 <= fuel1 -> fuel_bound fs st2 <= fuel2 ->
  exists b s1 s2, resolve_imports fuel1 strict1 fs st1 m0 = Ok (b, s1) /\
                  resolve_imports fuel2 strict2 fs st2 m0 = Ok (b, s2).
Proof.
  intros fs m0 strict1 strict2 st1 st2 fuel1 fuel2 Hne Hc1 Hc2 Hf1 Hf2.
  destruct (resolve_true_iff_code fs strict1 st1 m0 fuel1 Hne Hc1 Hf1) as (b1 & s1 & E1 & I1).
  destruct (resolve_true_iff_code fs strict2 st2 m0 fuel2 Hne Hc2 Hf2) as (b2 & s2 & E2 & I2).
  assert (b1 = b2) by (eapply bool_iff_eq; eauto). subst b2.
  exists b1, s1, s2. split; assumption.
Qed.

Theorem resolve_after_clear_iff_code : forall fs strict st m0 fuel,
  NoErrs fs -> fuel_bound fs empty_state <= fuel ->
  exists b st', resolve_imports fuel strict fs (remove_all_models st) m0 = Ok (b, st') /\
                (b = true <-> CodeResolvable fs m0).
Proof.
  intros fs strict st m0 fuel Hne Hf. rewrite resolve_after_clear.
  apply resolve_true_iff_code; [exact Hne | apply cons_empty_lib; reflexivity | exact Hf].
Qed.

Theorem resolve_verdict_reported : forall fs strict st m0 fuel,
  NoErrs fs -> Shallow fs -> AcyclicFiles fs -> NoTwin fs m0 -> KeysOK fs ->
  cons fs st -> fuel_bound fs st <= fuel ->
  (Resolvable fs m0 -> exists st', resolve_imports fuel strict fs st m0 = Ok (true, st')) /\
  (~ Resolvable fs m0 ->
     exists st', resolve_imports fuel strict fs st m0 = Ok (false, st') /\
       issues_rev st' <> [] /\
       exists i, In i (issues_rev st') /\
         ((exists u s1 s2, In u (imported_units m0) /\ i_item i = ItUnits None (uname u) /\
                           fetch_units fuel strict fs m0 s1 None [] u = Ok (false, s2))
          \/ (exists c s1 s2, In c (imported_comps m0) /\ i_item i = ItComp None (cname c) /\
                              fetch_comp fuel strict fs m0 s1 None [] c = Ok (false, s2)))).
Proof.
  intros fs strict st m0 fuel Hne Hsh Hac Hnt Hk Hc Hf.
  destruct (resolve_true_iff_partial fs strict st m0 fuel Hne Hsh Hac Hnt Hk Hc Hf) as (b & st' & E & I).
  split.
  - intros Hr. exists st'. rewrite E. apply I in Hr. subst b. reflexivity.
  - intros Hn. destruct b.
    + exfalso. apply Hn. apply I. reflexivity.
    + exists st'. split; [exact E|]. exact (resolve_false_issue fuel strict fs st m0 st' E).
Qed.
