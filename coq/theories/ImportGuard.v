(** ImportGuard.v — the guard hasUnitsCycle of /repo 85ba0d4 stays silent on resolved units (C07).
    [TU st o cm u] (ImportSpec: the units is resolved — an inductive, hence well-founded, derivation over the units
    references and the import links) implies [has_units_cycle st m0 o cm u = false]:
    - the derivation makes the node accessible for the successor relation, so no node below it reaches itself;
    - the path kept by [units_cycle_from] consists of ancestors of the current node, so the current node is not on it;
    - the path holds no node twice and all its nodes are units of the origin model or of a library model, so
      (pigeonhole: NoDup_incl_length) it is never longer than [units_total]: the fuel is never exhausted. *)
From Coq Require Import String Ascii List Bool Arith Lia Relations.
From LC Require Import ImportDefs ImportSpec ImportProofs.
Import ListNotations.
Local Open Scope string_scope.
Local Open Scope list_scope.

Lemma list_string_eqb_eq : forall a b, list_string_eqb a b = true -> a = b.
Proof.
  induction a as [|x a IH]; intros [|y b] H; cbn in H; try discriminate; [reflexivity|].
  apply andb_true_iff in H. destruct H as (H1 & H2). apply String.eqb_eq in H1. subst. f_equal. apply IH. exact H2.
Qed.

Lemma units_eqb_eq : forall a b, units_eqb a b = true -> a = b.
Proof.
  intros [n r|n s u r] [n' r'|n' s' u' r'] H; cbn in H; try discriminate.
  - apply andb_true_iff in H. destruct H as (H1 & H2). apply String.eqb_eq in H1. apply list_string_eqb_eq in H2.
    subst. reflexivity.
  - repeat (apply andb_true_iff in H; destruct H as (H & ?)).
    apply String.eqb_eq in H. apply Nat.eqb_eq in H2. apply String.eqb_eq in H1. apply String.eqb_eq in H0. subst. reflexivity.
Qed.

Lemma owner_eqb_true : forall a b, owner_eqb a b = true -> a = b.
Proof. intros [x|] [y|] H; cbn in H; try discriminate; [apply String.eqb_eq in H; subst|]; reflexivity. Qed.

Definition node := (owner * units)%type.

Lemma path_test_false : forall (path : list node) o u, ~ In (o, u) path ->
  existsb (fun p => owner_eqb (fst p) o && units_eqb (snd p) u) path = false.
Proof.
  intros path o u Hn. apply existsb_false. intros [o' u'] Hin. cbn [fst snd].
  destruct (owner_eqb o' o) eqn:E1; [|reflexivity]. destruct (units_eqb u' u) eqn:E2; [|reflexivity].
  apply owner_eqb_true in E1. apply units_eqb_eq in E2. subst. contradiction.
Qed.

Section Guard.
  Variable st : state.
  Variable m0 : model.

  (* all units objects: of the origin model and of the library models *)
  Definition all_nodes : list node :=
    fold_right (fun p acc => map (pair (Some (fst p))) (m_units (snd p)) ++ acc) (map (pair None) (m_units m0)) (lib st).

  Lemma all_nodes_length : length all_nodes = units_total st m0.
  Proof.
    unfold all_nodes, units_total. induction (lib st) as [|p l IH]; cbn [fold_right].
    - apply map_length.
    - rewrite app_length, map_length. f_equal. exact IH.
  Qed.

  Lemma lib_get_In : forall l k m, lib_get l k = Some m -> In (k, m) l.
  Proof.
    induction l as [|[k' m'] l IH]; intros k m H; cbn [lib_get] in H; [discriminate|].
    destruct (String.eqb k' k) eqn:E.
    - apply String.eqb_eq in E. inversion H; subst. left. reflexivity.
    - right. apply IH. exact H.
  Qed.

  Lemma node_in_all : forall o cm u, content st m0 o = Some cm -> In u (m_units cm) -> In (o, u) all_nodes.
  Proof.
    intros o cm u Hc Hin. unfold all_nodes. destruct o as [k|]; cbn [content] in Hc.
    - apply lib_get_In in Hc. induction (lib st) as [|p l IH]; [destruct Hc|]. cbn [fold_right]. apply in_or_app.
      destruct Hc as [->|Hc]; [left; cbn [fst snd]; apply in_map; exact Hin|right; apply IH; exact Hc].
    - inversion Hc; subst cm. induction (lib st) as [|p l IH]; cbn [fold_right]; [apply in_map; exact Hin|].
      apply in_or_app. right. exact IH.
  Qed.

  (* y is met next when the walk stands on x *)
  Definition succ (x y : node) : Prop :=
    exists cm, content st m0 (fst x) = Some cm /\
      match snd x with
      | ULocal _ refs => fst y = fst x /\ exists r, In r refs /\ is_std r = false /\ find_units (m_units cm) r = Some (snd y)
      | UImp _ sid url ref => exists sm, linked_model st (fst x) sid url = Some sm /\ fst y = Some (key_of (fst x) url) /\
                                         find_units (m_units sm) ref = Some (snd y)
      end.

  Lemma linked_content : forall o sid url sm, linked_model st o sid url = Some sm ->
    content st m0 (Some (key_of o url)) = Some sm.
  Proof. intros o sid url sm H. unfold linked_model in H. destruct (has_link st o sid); [exact H|discriminate]. Qed.

  Lemma TU_acc : forall o cm u, TU st o cm u -> content st m0 o = Some cm -> Acc (fun y x => succ x y) (o, u).
  Proof.
    intros o cm u HT. induction HT as [o cm n refs Hc IH | o cm n sid url ref sm iu Hl Hf Hi IH]; intros Hct.
    - constructor. intros [o' u'] (cm' & Hc' & H). cbn [fst snd] in *. rewrite Hct in Hc'. inversion Hc'; subst cm'.
      destruct H as (-> & r & Hr & Hs & Hfu). apply (IH r u' Hr Hs Hfu Hct).
    - constructor. intros [o' u'] (cm' & Hc' & H). cbn [fst snd] in *.
      destruct H as (sm' & Hl' & -> & Hfu). rewrite Hl in Hl'. inversion Hl'; subst sm'.
      rewrite Hf in Hfu. inversion Hfu; subst u'. apply IH. eapply linked_content; eauto.
  Qed.

  Lemma acc_no_loop : forall x, Acc (fun y x => succ x y) x -> ~ clos_trans node succ x x.
  Proof.
    intros x HA. induction HA as [x _ IH]. intros Hl.
    apply clos_trans_t1n in Hl. inversion Hl as [y Hs | y z Hs Hr]; subst.
    - apply (IH x Hs). apply t_step. exact Hs.
    - apply (IH y Hs). apply t_trans with x; [apply clos_t1n_trans; exact Hr|apply t_step; exact Hs].
  Qed.

  (* standing on a node that does not reach itself, with a path of ancestors: the node is not on the path, and
     there is fuel left *)
  Lemma entry : forall o cm u fuel (path : list node),
    ~ clos_trans node succ (o, u) (o, u) -> content st m0 o = Some cm -> In u (m_units cm) ->
    NoDup path -> incl path all_nodes -> units_total st m0 + 2 <= fuel + length path ->
    (forall p, In p path -> clos_trans node succ p (o, u)) ->
    ~ In (o, u) path /\ NoDup ((o, u) :: path) /\ incl ((o, u) :: path) all_nodes /\
    exists f, fuel = S f /\ units_total st m0 + 2 <= f + length ((o, u) :: path).
  Proof.
    intros o cm u fuel path Hnl Hct Hin Hnd Hincl Hfuel Hanc.
    assert (Hn : ~ In (o, u) path) by (intros H; apply Hnl; apply Hanc; exact H).
    assert (Hnd' : NoDup ((o, u) :: path)) by (constructor; assumption).
    assert (Hincl' : incl ((o, u) :: path) all_nodes).
    { intros p [<-|Hp]; [eapply node_in_all; eauto|apply Hincl; exact Hp]. }
    split; [exact Hn|]. split; [exact Hnd'|]. split; [exact Hincl'|].
    pose proof (NoDup_incl_length Hnd' Hincl') as Hlen. pose proof all_nodes_length as HL.
    unfold node in *. cbn [length] in Hlen |- *.
    destruct fuel as [|f]; [lia|]. exists f. split; [reflexivity|lia].
  Qed.

  Lemma TU_walk : forall o cm u, TU st o cm u -> content st m0 o = Some cm -> In u (m_units cm) ->
    forall fuel path, NoDup path -> incl path all_nodes -> units_total st m0 + 2 <= fuel + length path ->
      (forall p, In p path -> clos_trans node succ p (o, u)) ->
      units_cycle_from fuel st o cm path u = false.
  Proof.
    intros o cm u HT. induction HT as [o cm n refs Hc IH | o cm n sid url ref sm iu Hl Hf Hi IH];
      intros Hct Hin fuel path Hnd Hincl Hfuel Hanc.
    - assert (Hnl : ~ clos_trans node succ (o, ULocal n refs) (o, ULocal n refs)).
      { apply acc_no_loop. eapply TU_acc; [apply TU_local; exact Hc|exact Hct]. }
      destruct (entry _ _ _ _ _ Hnl Hct Hin Hnd Hincl Hfuel Hanc) as (Hn & Hnd' & Hincl' & f & -> & Hf').
      cbn [units_cycle_from]. rewrite (path_test_false _ _ _ Hn). cbv zeta.
      apply existsb_false. intros r Hr. destruct (is_std r) eqn:Es; [reflexivity|].
      destruct (find_units (m_units cm) r) as [cu|] eqn:Ecu; [|reflexivity].
      assert (Hstep : succ (o, ULocal n refs) (o, cu)).
      { exists cm. split; [exact Hct|]. cbn [fst snd]. split; [reflexivity|]. exists r. auto. }
      apply (IH r cu Hr Es Ecu Hct (find_units_In _ _ _ Ecu) f _ Hnd' Hincl' Hf').
      intros p [<-|Hp]; [apply t_step; exact Hstep|].
      apply t_trans with (o, ULocal n refs); [apply Hanc; exact Hp|apply t_step; exact Hstep].
    - assert (Hnl : ~ clos_trans node succ (o, UImp n sid url ref) (o, UImp n sid url ref)).
      { apply acc_no_loop. eapply TU_acc; [eapply TU_imp; eauto|exact Hct]. }
      destruct (entry _ _ _ _ _ Hnl Hct Hin Hnd Hincl Hfuel Hanc) as (Hn & Hnd' & Hincl' & f & -> & Hf').
      cbn [units_cycle_from]. rewrite (path_test_false _ _ _ Hn). cbv zeta. rewrite Hl, Hf.
      assert (Hstep : succ (o, UImp n sid url ref) (Some (key_of o url), iu)).
      { exists cm. split; [exact Hct|]. cbn [fst snd]. exists sm. auto. }
      apply (IH (linked_content _ _ _ _ Hl) (find_units_In _ _ _ Hf) f _ Hnd' Hincl' Hf').
      intros p [<-|Hp]; [apply t_step; exact Hstep|].
      apply t_trans with (o, UImp n sid url ref); [apply Hanc; exact Hp|apply t_step; exact Hstep].
  Qed.

  (* hasUnitsCycle answers false on every resolved units: the guard of 85ba0d4 is silent there *)
  Theorem TU_guard_silent : forall fx o cm u, TU st o cm u -> content st m0 o = Some cm -> In u (m_units cm) ->
    guarded fx st m0 o cm u = false.
  Proof.
    intros fx o cm u HT Hct Hin. unfold guarded, has_units_cycle.
    rewrite (TU_walk _ _ _ HT Hct Hin); [apply andb_false_r|constructor|intros p []|cbn [length]; lia|intros p []].
  Qed.
End Guard.
