(** NumPosDefs.v — which recogniser guards which public position where a number is expected (C16).
    parser.cpp: loadUnit (exponent, multiplier), loadReset (order); validator.cpp: validateUnitsUnitsItem
    (prefix), validateVariable (initial_value), validateMathMLElementsChildrenAndSiblings (cn);
    xmlnode.cpp: isBasicReal / isInteger on the stripped text. *)
From Coq Require Import String Ascii List Bool Arith ZArith.
From LC Require Import NumDefs.
Local Open Scope string_scope.

Fixpoint rev_string (acc s : string) : string :=
  match s with EmptyString => acc | String c r => rev_string (String c acc) r end.

(* XmlNode::convertToStrippedString: std::isspace on both ends *)
Definition strip (s : string) : string :=
  rev_string "" (skip_space (rev_string "" (skip_space s))).

Inductive position := PExponent | PMultiplier | PPrefix | POrder | PInitial | PCn | PCnMantissa | PCnExponent.

(* recogniser verdict; range is a separate question answered by the conversion *)
Definition pos_recognised (p : position) (s : string) : bool :=
  match p with
  | PExponent | PMultiplier => is_real s
  | PPrefix => str_is_empty s || is_int s          (* standard prefix names are handled by the table *)
  | POrder => is_int s
  | PInitial => str_is_empty s || is_real s        (* or the name of a variable of the component *)
  | PCn | PCnMantissa => is_basic_real (strip s)
  | PCnExponent => is_int (strip s)
  end.

(* does the position convert (so that out-of-range text is reported) or keep the text as is? *)
Definition pos_converts (p : position) : bool :=
  match p with PInitial => false | _ => true end.

Definition pos_int_in_range (p : position) (s : string) : bool :=
  match p with
  | PPrefix | POrder => match to_int s with OutOfRange => false | _ => true end
  | PCnExponent => match to_int (strip s) with OutOfRange => false | _ => true end
  | _ => true
  end.
