(** RedDefs.v — one representative recursive unit reducer without a visited set (C01, family K3).

    src/units.cpp: updateUnitMultiplier(units, direction, multiplier), called by Units::scalingFactor.
    For a non-imported units with children it walks every <unit>: a standard reference contributes directly, any other
    reference is looked up in the owning model (null -> return false) and REDUCED RECURSIVELY.  Nothing records which
    units are being reduced, so a reference cycle recurses until the stack is exhausted.  The same shape is shared by
    performTestWithHistory (Units::isDefined), updateUnitsMap (Units::compatible), validator.cpp updateBaseUnitCount,
    Units::requiresImports, utilities.cpp referencedUnits, importer.cpp flattening and analyser.cpp updateUnitsMap.

    The recursion becomes explicit fuel; [ROutOfFuel] is the model's stand-in for "does not return" (stack
    exhaustion in reality), never a value.  Multipliers are kept as integers (log10), exponents as integers: the
    arithmetic is not the point here (C08 models it over Q). *)
From Coq Require Import String List Bool Arith ZArith.
Import ListNotations.
Local Open Scope string_scope.

Record unit_item := { ui_ref : string; ui_exp : Z; ui_log : Z (* log10(multiplier) + prefix *) ; ui_prefix_ok : bool }.
Definition uenv : Type := list (string * list unit_item).   (* model->units(name): first match *)

Fixpoint lookup (env : uenv) (n : string) : option (list unit_item) :=
  match env with
  | [] => None
  | (m, its) :: r => if String.eqb m n then Some its else lookup r n
  end.

Inductive rres := RValue (z : Z) | RFalse | ROutOfFuel.

(** [is_std] : isStandardUnitName;  [std_log] : standardMultiplierList.at(ref) *)

  (** the for-loop over the unit children; [rec] reduces a referenced units *)
  Fixpoint items_loop (is_std : string -> bool) (std_log : string -> Z) (env : uenv) (rec : string -> rres) (its : list unit_item) (acc : Z) : rres :=
    match its with
    | [] => RValue acc
    | it :: r =>
        if negb (ui_prefix_ok it) then RFalse                          (* convertPrefixToInt failed *)
        else if is_std (ui_ref it) then
          items_loop is_std std_log env rec r (acc + ui_log it + std_log (ui_ref it) * ui_exp it)
        else
          match lookup env (ui_ref it) with
          | None => RFalse                                             (* refUnits == nullptr *)
          | Some _ =>
              match rec (ui_ref it) with
              | RValue b => items_loop is_std std_log env rec r (acc + ui_log it + b * ui_exp it)
              | RFalse => RFalse
              | ROutOfFuel => ROutOfFuel
              end
          end
    end.

  (** updateUnitMultiplier(units named n, 1, multiplier) for a units present in the model *)
  Fixpoint update_unit_multiplier (is_std : string -> bool) (std_log : string -> Z) (env : uenv) (fuel : nat) (n : string) : rres :=
    match fuel with
    | O => ROutOfFuel
    | S f =>
        match lookup env n with
        | None => RFalse
        | Some its => items_loop is_std std_log env (update_unit_multiplier is_std std_log env f) its 0
        end
    end.

(** the two-cycle  a = b^1,  b = a^1 *)
Definition item (r : string) : unit_item := {| ui_ref := r; ui_exp := 1; ui_log := 0; ui_prefix_ok := true |}.
Definition two_cycle : uenv := [("a", [item "b"]); ("b", [item "a"])].
Definition no_std (_ : string) : bool := false.
Definition no_log (_ : string) : Z := 0%Z.

(** acyclic: references strictly decrease a rank that is bounded by the number of units (the longest-path rank of a
    finite acyclic graph is such a rank) *)
Definition acyclic (is_std : string -> bool) (env : uenv) : Prop :=
  exists rank : string -> nat,
    (forall n, rank n < length env) /\
    forall n its it, lookup env n = Some its -> In it its -> is_std (ui_ref it) = false ->
                     lookup env (ui_ref it) <> None -> rank (ui_ref it) < rank n.

Definition chain3 : uenv := [("c", [item "b"; item "a"]); ("b", [item "a"]); ("a", [])].
