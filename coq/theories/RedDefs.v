(** RedDefs.v — one representative recursive unit reducer without a visited set (C01, family K3).

    src/units.cpp: updateUnitMultiplier(units, direction, multiplier), called by Units::scalingFactor.
    For a non-imported units with children it walks every <unit>: a standard reference contributes directly, any other
    reference is looked up in the owning model (null -> return false) and REDUCED RECURSIVELY.  Nothing records which
    units are being reduced, so a reference cycle recurses until the stack is exhausted.  The same shape is shared by
    performTestWithHistory (Units::isDefined), updateUnitsMap (Units::compatible), validator.cpp updateBaseUnitCount,
    Units::requiresImports, utilities.cpp referencedUnits, importer.cpp flattening and analyser.cpp updateUnitsMap.

    The recursion becomes explicit fuel; [ROutOfFuel] is the model's stand-in for "does not return" (stack
    exhaustion in reality), never a value.  Multipliers are kept as integers (log10), exponents as integers: the
    arithmetic is not the point here (C08 models it over Q). *)
From Coq Require Import String List Bool Arith ZArith.
Import ListNotations.
Local Open Scope string_scope.

Record unit_item := { ui_ref : string; ui_exp : Z; ui_log : Z (* log10(multiplier) + prefix *) ; ui_prefix_ok : bool }.
Definition uenv : Type := list (string * list unit_item).   (* model->units(name): first match *)

Fixpoint lookup (env : uenv) (n : string) : option (list unit_item) :=
  match env with
  | [] => None
  | (m, its) :: r => if String.eqb m n then Some its else lookup r n
  end.

Inductive rres := RValue (z : Z) | RFalse | ROutOfFuel.

(** [is_std] : isStandardUnitName;  [std_log] : standardMultiplierList.at(ref) *)

  (** the for-loop over the unit children; [rec] reduces a referenced units *)
  Fixpoint items_loop (is_std : string -> bool) (std_log : string -> Z) (env : uenv) (rec : string -> rres) (its : list unit_item) (acc : Z) : rres :=
    match its with
    | [] => RValue acc
    | it :: r =>
        if negb (ui_prefix_ok it) then RFalse                          (* convertPrefixToInt failed *)
        else if is_std (ui_ref it) then
          items_loop is_std std_log env rec r (acc + ui_log it + std_log (ui_ref it) * ui_exp it)
        else
          match lookup env (ui_ref it) with
          | None => RFalse                                             (* refUnits == nullptr *)
          | Some _ =>
              match rec (ui_ref it) with
              | RValue b => items_loop is_std std_log env rec r (acc + ui_log it + b * ui_exp it)
              | RFalse => RFalse
              | ROutOfFuel => ROutOfFuel
              end
          end
    end.

  (** updateUnitMultiplier(units named n, 1, multiplier) for a units present in the model *)
  Fixpoint update_unit_multiplier (is_std : string -> bool) (std_log : string -> Z) (env : uenv) (fuel : nat) (n : string) : rres :=
    match fuel with
    | O => ROutOfFuel
    | S f =>
        match lookup env n with
        | None => RFalse
        | Some its => items_loop is_std std_log env (update_unit_multiplier is_std std_log env f) its 0
        end
    end.

(** the two-cycle  a = b^1,  b = a^1 *)
Definition item (r : string) : unit_item := {| ui_ref := r; ui_exp := 1; ui_log := 0; ui_prefix_ok := true |}.
Definition two_cycle : uenv := [("a", [item "b"]); ("b", [item "a"])].
Definition no_std (_ : string) : bool := false.
Definition no_log (_ : string) : Z := 0%Z.

(** acyclic: references strictly decrease a rank that is bounded by the number of units (the longest-path rank of a
    finite acyclic graph is such a rank) *)
Definition acyclic (is_std : string -> bool) (env : uenv) : Prop :=
  exists rank : string -> nat,
    (forall n, rank n < length env) /\
    forall n its it, lookup env n = Some its -> In it its -> is_std (ui_ref it) = false ->
                     lookup env (ui_ref it) <> None -> rank (ui_ref it) < rank n.

Definition chain3 : uenv := [("c", [item "b"; item "a"]); ("b", [item "a"]); ("a", [])].

(** The repair fixes/C01-units-cycle-guard.diff: utilities.cpp hasUnitsCycle / unitsCycleFrom — a depth-first walk over the
    units references that keeps the PATH of units being followed and answers "cyclic" when it meets one of them again (the
    'done' list of the C++ only saves work).  The public entry points consult it first and give the answer they already
    give for undefined units.  [safe fuel path n] = "no units on the path is met again below n"; the walk is given fuel
    |env| + 1, which it cannot exhaust: the path never repeats a name and only holds names defined in env. *)
Fixpoint safe (is_std : string -> bool) (env : uenv) (fuel : nat) (path : list string) (n : string) : bool :=
  match fuel with
  | O => false
  | S f =>
      negb (existsb (String.eqb n) path)
      && match lookup env n with
         | None => true
         | Some its => forallb (fun it => is_std (ui_ref it)
                                          || match lookup env (ui_ref it) with
                                             | None => true                       (* unitsCycleFrom(nullptr) *)
                                             | Some _ => safe is_std env f (n :: path) (ui_ref it)
                                             end) its
         end
  end.
Definition has_units_cycle (is_std : string -> bool) (env : uenv) (n : string) : bool :=
  negb (safe is_std env (S (length env)) [] n).

(** Units::scalingFactor with the guard: 0.0 (here RFalse) for cyclic units, the unguarded reduction otherwise *)
Definition guarded_multiplier (is_std : string -> bool) (std_log : string -> Z) (env : uenv) (n : string) : rres :=
  if has_units_cycle is_std env n then RFalse else update_unit_multiplier is_std std_log env (S (length env)) n.

(** flipped to true by the orchestrator when fixes/C01-units-cycle-guard.diff is committed to /repo *)
Definition units_cycle_guard_committed : bool := true.
Definition multiplier_head (is_std : string -> bool) (std_log : string -> Z) (env : uenv) (n : string) : rres :=
  if units_cycle_guard_committed then guarded_multiplier is_std std_log env n
  else update_unit_multiplier is_std std_log env (S (length env)) n.
