(** Load1xDefs.v — executable model of Parser::parseModel on a CellML 1.0 / 1.1 document tree (C14): the
    [mParsing1XVersion] paths of /repo/src/parser.cpp, on top of LoadDefs (the CellML 2.0 paths, C02).  No proofs here.

    Transcribes, as the code is now (with the two repairs of this property behind the flags [fi], [fd]):
      ParserImpl::loadModel          load1x        version gate (mParsing20Version / mParsing1XVersion): a 1.x root is REFUSED
                                                   by the strict parser (one error, empty model) and announced by one
                                                   message in permissive mode; no MODEL_NAME issue; attribute / child
                                                   loops with "ignoring ..." messages; 1.x group (only when
                                                   isEncapsulationRelationship) and 1.x connection children; only the
                                                   FIRST encapsulation node is loaded, a second one is an ERROR
      ParserImpl::parseNode          is_1x         (the element must be in the 1.0 or the 1.1 namespace)
      isIdAttribute(a, true)         is_id_attr1   id, or id in the cmeta 1.0 namespace
      convertNonSiUnits              convert_nonsi liter -> litre, meter -> metre (unit references, variable units)
      isEncapsulationRelationship    is_enc_rel
      ParserImpl::loadComponent      load_component1  (+ the math branch: [rewrite_math])
      ParserImpl::loadUnitsFromComponent  units_from_component
      ParserImpl::loadUnits / loadUnit    load_units1 / load_unit1
      ParserImpl::loadVariable       load_variable1   public_interface / private_interface merged into one interface
      ParserImpl::loadConnection     load_connection1 map_components lookup (first 1.x map_components child)
      ParserImpl::loadEncapsulation / loadComponentRef   load_encapsulation1 / load_cref1 (relationship_ref skipped)
      ParserImpl::loadImport         load_import1
      src/xmlattribute.cpp XmlAttribute::value()   first_val / eff_attrs: xmlGetProp(parent, name) looks the attribute
                                                   up by LOCAL NAME only, so an attribute answers with the value of the
                                                   FIRST attribute of its element that has the same local name
      the MathML namespace rewriting (src/parser.cpp loadComponent math branch; src/xmlutils.cpp
      attributesWithCellml1XNamespace, removeCellml1XNamespaces; src/xmlattribute.cpp setNamespacePrefix;
      src/xmlnode.cpp addNamespaceDefinition / removeNamespaceDefinition)      rewrite_math / rewrite_attrs / move_attr

    Flags:
      [fi = true]  fix C14-interface-none: public_interface="none" / private_interface="none" grant no interface
                   (DESIGN.md section 5 row 31).  [fi = false]: the value of the two attributes is ignored.
      [fd = true]  fix C14-foreign-children: in a 1.x document a foreign child ELEMENT of units, unit, group / encapsulation,
                   component_ref, map_components, map_variables is ignored with a message, like everywhere else.
                   [fd = false]: it is an error (XML_UNEXPECTED_ELEMENT, ENCAPSULATION_CHILD, COMPONENT_REF_CHILD).

    The tree level of the namespace rewriting (stated; DESIGN.md section 6 C14 "P"): xmlns declarations are not part of
    XmlDefs trees, an attribute is (namespace URI, local name, value).  At that level the math branch does this to every
    element BELOW the math element: each attribute whose namespace is the 1.0 or 1.1 namespace, in document order, is
    re-created as (2.0 namespace, same local name, value) by xmlSetNsProp — appended at the END of the element's
    attribute list, or overwriting the value of an attribute (2.0 namespace, same name) already there — and the old one
    is removed.  Attributes in any other namespace, element names, text are untouched.  Not modelled (depends on WHERE
    the xmlns declarations sit, which the tree does not say): ELEMENTS in a 1.x namespace inside math, 1.x-namespaced
    attributes of the math element itself, and a prefix "cellml" bound to a foreign namespace inside math
    ([math_in_scope] says when a math element is free of the first two). *)
From Coq Require Import String Ascii List Bool ZArith Arith.
From LC Require Import Common NumDefs XmlDefs EntTreeDefs PrintDefs LoadDefs.
Import ListNotations.
Local Open Scope string_scope.
Local Open Scope bool_scope.
Local Open Scope list_scope.

Definition CMETA_1_0_NS := "http://www.cellml.org/metadata/1.0#".

(** an issue created without level / rule: level ERROR, rule UNDEFINED; the transformation messages: MESSAGE, UNDEFINED *)
Definition msg : issue := (LMessage, "UNDEFINED").
Definition is_message (i : issue) : bool := match fst i with LMessage => true | _ => false end.

(* XmlNode::isCellml1XElement(name) *)
Definition is_1x (name : string) (x : xml) : bool :=
  is_element CELLML_1_0_NS name x || is_element CELLML_1_1_NS name x.
Definition ns_is_1x (ns : string) : bool := String.eqb ns CELLML_1_0_NS || String.eqb ns CELLML_1_1_NS.

(* isIdAttribute(attribute, transforming = true) *)
Definition is_id_attr1 (a : attr) : bool := attr_is "id" a || attr_is_ns CMETA_1_0_NS "id" a.

(* convertNonSiUnits *)
Definition convert_nonsi (s : string) : string :=
  if String.eqb s "liter" then "litre" else if String.eqb s "meter" then "metre" else s.

(** XmlAttribute::value() = xmlGetProp(parent, local name): the value of the FIRST attribute with that local name *)
Definition first_val (all : list attr) (a : attr) : string :=
  match find (fun b => String.eqb (a_name b) (a_name a)) all with Some b => a_val b | None => a_val a end.
Definition eff_attrs (l : list attr) : list attr := map (fun a => mkAttr (a_ns a) (a_name a) (first_val l a)) l.
Definition xattrs (x : xml) : list attr := eff_attrs (xml_attrs x).

(** * The MathML namespace rewriting, at tree level *)

Definition attr_same (a b : attr) : bool := String.eqb (a_ns a) (a_ns b) && String.eqb (a_name a) (a_name b).

(* xmlSetNsProp(node, cellml 2.0, name, value): overwrite in place, else append *)
Definition set_ns_prop (l : list attr) (ns name val : string) : list attr :=
  if existsb (attr_is_ns ns name) l
  then map (fun b => if attr_is_ns ns name b then mkAttr ns name val else b) l
  else l ++ [mkAttr ns name val].

(* remove the (first) attribute with the namespace and name of a: xmlRemoveProp(oldAttribute) *)
Fixpoint remove_attr (a : attr) (l : list attr) : list attr :=
  match l with
  | [] => []
  | b :: r => if attr_same a b then r else b :: remove_attr a r
  end.

(* XmlAttribute::setNamespacePrefix("cellml") on one collected attribute; the value is read with value() at that moment *)
Definition move_attr (l : list attr) (a : attr) : list attr :=
  remove_attr a (set_ns_prop l CELLML_2_0_NS (a_name a) (first_val l a)).

Definition rewrite_attrs (l : list attr) : list attr :=
  fold_left move_attr (filter (fun a => ns_is_1x (a_ns a)) l) l.

(* every element below the math element *)
Fixpoint rewrite_below (x : xml) : xml :=
  match x with
  | Elem ns nm attrs ks =>
    Elem ns nm (rewrite_attrs attrs)
         ((fix go (l : list xml) : list xml := match l with [] => [] | k :: r => rewrite_below k :: go r end) ks)
  | Text s => Text s
  | Comment => Comment
  end.

Definition rewrite_math (x : xml) : xml :=
  match x with
  | Elem ns nm attrs ks => Elem ns nm attrs (map rewrite_below ks)
  | _ => x
  end.

(** the part of a math element the tree level determines: no element in a 1.x namespace below it, no 1.x-namespaced
    attribute on the math element itself *)
Fixpoint no_1x_elements (x : xml) : bool :=
  match x with
  | Elem ns _ _ ks =>
    negb (ns_is_1x ns)
    && (fix go (l : list xml) : bool := match l with [] => true | k :: r => no_1x_elements k && go r end) ks
  | _ => true
  end.
Definition math_in_scope (x : xml) : bool :=
  no_1x_elements x && forallb (fun a => negb (ns_is_1x (a_ns a))) (xml_attrs x).

Section Load1x.
Variable E : env.
Variable fx : bool.   (* fix C02-crossed-map-variables, as in LoadDefs *)
Variable fi : bool.   (* fix C14-interface-none *)
Variable fd : bool.   (* fix C14-foreign-children *)

(** a child no branch of a loop accepts, where the 1.x parser only reports a message for an element *)
Definition stray_msg (x : xml) : list issue :=
  match x with
  | Text s => if has_non_ws s then [err "XML_UNEXPECTED_CHARACTER"] else []
  | Comment => []
  | Elem _ _ _ _ => [msg]
  end.
(** ... and where it reports an error unless [fd] *)
Definition stray_fd (rule : string) (x : xml) : list issue := if fd then stray_msg x else stray_child rule x.

(** ** loadUnit *)
Definition load_unit_attr1 (st : unit_acc) (a : attr) : unit_acc :=
  if attr_is "units" a then
    {| ua_ref := convert_nonsi (a_val a); ua_prefix := ua_prefix st; ua_exp := ua_exp st; ua_mult := ua_mult st; ua_id := ua_id st;
       ua_has_units := true; ua_issues := ua_issues st |}
  else if attr_is "prefix" a then
    {| ua_ref := ua_ref st; ua_prefix := a_val a; ua_exp := ua_exp st; ua_mult := ua_mult st; ua_id := ua_id st;
       ua_has_units := ua_has_units st; ua_issues := ua_issues st |}
  else if attr_is "exponent" a then
    let r := real_attr E "UNIT_ATTRIBUTE_EXPONENT_VALUE" (a_val a) (ua_exp st) in
    {| ua_ref := ua_ref st; ua_prefix := ua_prefix st; ua_exp := fst r; ua_mult := ua_mult st; ua_id := ua_id st;
       ua_has_units := ua_has_units st; ua_issues := ua_issues st ++ snd r |}
  else if attr_is "multiplier" a then
    let r := real_attr E "UNIT_ATTRIBUTE_MULTIPLIER_VALUE" (a_val a) (ua_mult st) in
    {| ua_ref := ua_ref st; ua_prefix := ua_prefix st; ua_exp := ua_exp st; ua_mult := fst r; ua_id := ua_id st;
       ua_has_units := ua_has_units st; ua_issues := ua_issues st ++ snd r |}
  else if is_id_attr1 a then
    {| ua_ref := ua_ref st; ua_prefix := ua_prefix st; ua_exp := ua_exp st; ua_mult := ua_mult st; ua_id := a_val a;
       ua_has_units := ua_has_units st; ua_issues := ua_issues st |}
  else
    (* e.g. the 1.x attribute offset: still an ERROR *)
    {| ua_ref := ua_ref st; ua_prefix := ua_prefix st; ua_exp := ua_exp st; ua_mult := ua_mult st; ua_id := ua_id st;
       ua_has_units := ua_has_units st; ua_issues := ua_issues st ++ [err "UNIT_ATTRIBUTE_OPTIONAL"] |}.

Definition unit_acc0 : unit_acc :=
  {| ua_ref := ""; ua_prefix := "0"; ua_exp := num_one; ua_mult := num_one; ua_id := ""; ua_has_units := false; ua_issues := [] |}.

Definition load_unit1 (x : xml) : unitdef * list issue :=
  let kid_issues := flat_map (stray_fd "XML_UNEXPECTED_ELEMENT") (xml_kids x) in
  let st := fold_left load_unit_attr1 (xattrs x) unit_acc0 in
  ({| ud_ref := ua_ref st; ud_prefix := prefix_store (ua_prefix st); ud_exp := ua_exp st; ud_mult := ua_mult st;
      ud_id := ua_id st |},
   kid_issues ++ ua_issues st ++ (if ua_has_units st then [] else [err "UNIT_UNITS"])).

(** ** "name / id / other" attribute loop of model, component, units: another attribute is ignored with a message *)
Definition nid_attr1 (st : nid_acc) (a : attr) : nid_acc :=
  if attr_is "name" a then
    {| na_name := a_val a; na_id := na_id st; na_has_name := true; na_issues := na_issues st |}
  else if is_id_attr1 a then
    {| na_name := na_name st; na_id := a_val a; na_has_name := na_has_name st; na_issues := na_issues st |}
  else
    {| na_name := na_name st; na_id := na_id st; na_has_name := na_has_name st; na_issues := na_issues st ++ [msg] |}.

Definition nid_acc0 : nid_acc := {| na_name := ""; na_id := ""; na_has_name := false; na_issues := [] |}.
Definition nid_attrs1 (l : list attr) : nid_acc := fold_left nid_attr1 l nid_acc0.

(** ** loadUnits *)
Definition load_units_kid1 (acc : list unitdef * list issue) (k : xml) : list unitdef * list issue :=
  if is_1x "unit" k then
    let r := load_unit1 k in (fst acc ++ [fst r], snd acc ++ snd r)
  else (fst acc, snd acc ++ stray_fd "XML_UNEXPECTED_ELEMENT" k).

Definition load_units1 (x : xml) : units * list issue :=
  let st := nid_attrs1 (xattrs x) in
  let ks := fold_left load_units_kid1 (xml_kids x) ([], []) in
  ({| u_name := na_name st; u_id := na_id st; u_src := None; u_ref := ""; u_defs := fst ks |},
   na_issues st ++ (if na_has_name st then [] else [err "UNITS_NAME"]) ++ snd ks).

(** ** loadVariable: the interface merge *)
(* hasInterfaceType(T) is string equality with the name of T *)
Definition merge_public (cur : string) : string :=
  if String.eqb cur "private" then "public_and_private" else "public".
Definition merge_private (cur : string) : string :=
  if String.eqb cur "public" then "public_and_private" else "private".
(* with [fi]: the value "none" grants nothing; any other value (in, out, or anything else) grants the interface *)
Definition grants (val : string) : bool := negb (fi && String.eqb val "none").

Definition set_iface (v : variable) (i : string) : variable :=
  {| v_name := v_name v; v_id := v_id v; v_units := v_units v; v_init := v_init v; v_iface := i |}.

Definition load_variable_attr1 (st : var_acc) (a : attr) : var_acc :=
  let v := va_v st in
  if attr_is "name" a then
    {| va_v := {| v_name := a_val a; v_id := v_id v; v_units := v_units v; v_init := v_init v; v_iface := v_iface v |};
       va_has_name := true; va_has_units := va_has_units st; va_issues := va_issues st |}
  else if is_id_attr1 a then
    set_v st {| v_name := v_name v; v_id := a_val a; v_units := v_units v; v_init := v_init v; v_iface := v_iface v |}
  else if attr_is "units" a then
    {| va_v := {| v_name := v_name v; v_id := v_id v; v_units := Some (convert_nonsi (a_val a)); v_init := v_init v; v_iface := v_iface v |};
       va_has_name := va_has_name st; va_has_units := true; va_issues := va_issues st |}
  else if attr_is "interface" a then set_v st (set_iface v (a_val a))
  else if attr_is "initial_value" a then
    set_v st {| v_name := v_name v; v_id := v_id v; v_units := v_units v; v_init := a_val a; v_iface := v_iface v |}
  else if attr_is "public_interface" a then
    if grants (a_val a) then set_v st (set_iface v (merge_public (v_iface v))) else st
  else if attr_is "private_interface" a then
    if grants (a_val a) then set_v st (set_iface v (merge_private (v_iface v))) else st
  else
    {| va_v := v; va_has_name := va_has_name st; va_has_units := va_has_units st; va_issues := va_issues st ++ [msg] |}.

Definition var_acc0 : var_acc := {| va_v := empty_variable; va_has_name := false; va_has_units := false; va_issues := [] |}.

Definition load_variable1 (x : xml) : variable * list issue :=
  let kid_issues := flat_map stray_msg (xml_kids x) in
  let st := fold_left load_variable_attr1 (xattrs x) var_acc0 in
  (va_v st,
   kid_issues ++ va_issues st
   ++ (if va_has_name st && va_has_units st then [] else [err "VARIABLE_ATTRIBUTE_REQUIRED"])).

(** ** loadComponent *)
Definition load_component_kid1 (st : ckids_acc) (k : xml) : ckids_acc :=
  if is_cellml_any "variable" k then
    let r := load_variable1 k in
    {| ck_vars := ck_vars st ++ [fst r]; ck_resets := ck_resets st; ck_math := ck_math st; ck_issues := ck_issues st ++ snd r |}
  else if is_cellml20 "reset" k then
    (* a CellML 2.0 reset element inside a 1.x component is still loaded *)
    let r := load_reset E (ck_vars st) k in
    {| ck_vars := ck_vars st; ck_resets := ck_resets st ++ [fst r]; ck_math := ck_math st; ck_issues := ck_issues st ++ snd r |}
  else if is_mathml "math" k then
    {| ck_vars := ck_vars st; ck_resets := ck_resets st;
       ck_math := (ck_math st ++ math_text E (rewrite_math k) ++ String c_lf EmptyString)%string; ck_issues := ck_issues st |}
  else match k with
       | Elem _ nm _ _ =>
         (* units children are loaded by loadUnitsFromComponent: any element NAMED units is passed over here *)
         if String.eqb nm "units" then st
         else {| ck_vars := ck_vars st; ck_resets := ck_resets st; ck_math := ck_math st; ck_issues := ck_issues st ++ [msg] |}
       | _ => {| ck_vars := ck_vars st; ck_resets := ck_resets st; ck_math := ck_math st; ck_issues := ck_issues st ++ stray_msg k |}
       end.

Definition ckids_acc0 : ckids_acc := {| ck_vars := []; ck_resets := []; ck_math := ""; ck_issues := [] |}.

Definition load_component1 (x : xml) : component * list issue :=
  let st := nid_attrs1 (xattrs x) in
  let k := fold_left load_component_kid1 (xml_kids x) ckids_acc0 in
  (Comp {| c_name := na_name st; c_id := na_id st; c_encid := ""; c_src := None; c_ref := ""; c_math := ck_math k;
           c_vars := ck_vars k; c_resets := ck_resets k |} [],
   na_issues st ++ (if na_has_name st then [] else [err "COMPONENT_NAME"]) ++ ck_issues k).

(* loadUnitsFromComponent: the units children (1.x namespace) of a component element, hoisted to the model *)
Definition units_from_component (x : xml) : list units * list issue :=
  fold_left (fun acc k => if is_1x "units" k then let r := load_units1 k in (fst acc ++ [fst r], snd acc ++ snd r) else acc)
            (xml_kids x) ([], []).

(** ** loadImport *)
Definition load_import_attr1 (st : imp_acc) (a : attr) : imp_acc :=
  if attr_is_ns XLINK_NS "href" a then
    {| ia_url := a_val a; ia_id := ia_id st; ia_has_href := true; ia_issues := ia_issues st |}
  else if is_id_attr1 a then
    {| ia_url := ia_url st; ia_id := a_val a; ia_has_href := ia_has_href st; ia_issues := ia_issues st |}
  else if String.eqb (a_ns a) XLINK_NS then st
  else {| ia_url := ia_url st; ia_id := ia_id st; ia_has_href := ia_has_href st;
          ia_issues := ia_issues st ++ [err "IMPORT_ELEMENT"] |}.

Definition load_ient_attr1 (ref_attr other_rule : string) (st : ient_acc) (a : attr) : ient_acc :=
  if attr_is "name" a then
    {| ie_name := a_val a; ie_id := ie_id st; ie_ref := ie_ref st; ie_has_name := true; ie_issues := ie_issues st |}
  else if is_id_attr1 a then
    {| ie_name := ie_name st; ie_id := a_val a; ie_ref := ie_ref st; ie_has_name := ie_has_name st; ie_issues := ie_issues st |}
  else if attr_is ref_attr a then
    {| ie_name := ie_name st; ie_id := ie_id st; ie_ref := a_val a; ie_has_name := ie_has_name st; ie_issues := ie_issues st |}
  else {| ie_name := ie_name st; ie_id := ie_id st; ie_ref := ie_ref st; ie_has_name := ie_has_name st;
          ie_issues := ie_issues st ++ [err other_rule] |}.

Definition ient_acc0 : ient_acc := {| ie_name := ""; ie_id := ""; ie_ref := ""; ie_has_name := false; ie_issues := [] |}.
Definition load_ient1 (ref_attr other_rule : string) (x : xml) : ient_acc :=
  fold_left (load_ient_attr1 ref_attr other_rule) (xattrs x) ient_acc0.

Definition load_import_kid1 (src : isrc) (st : ikids_acc) (k : xml) : ikids_acc :=
  if is_1x "component" k then
    let a := load_ient1 "component_ref" "IMPORT_COMPONENT_ELEMENT" k in
    {| ik_units := ik_units st;
       ik_comps := ik_comps st ++ [Comp {| c_name := ie_name a; c_id := ie_id a; c_encid := ""; c_src := Some src;
                                           c_ref := ie_ref a; c_math := ""; c_vars := []; c_resets := [] |} []];
       ik_issues := ik_issues st ++ ie_issues a ++ (if ie_has_name a then [] else [err "IMPORT_COMPONENT_NAME"]) |}
  else if is_1x "units" k then
    let a := load_ient1 "units_ref" "IMPORT_UNITS_ELEMENT" k in
    {| ik_units := ik_units st ++ [{| u_name := ie_name a; u_id := ie_id a; u_src := Some src; u_ref := ie_ref a; u_defs := [] |}];
       ik_comps := ik_comps st;
       ik_issues := ik_issues st ++ ie_issues a ++ (if ie_has_name a then [] else [err "IMPORT_UNITS_NAME"]) |}
  else {| ik_units := ik_units st; ik_comps := ik_comps st; ik_issues := ik_issues st ++ stray_msg k |}.

Definition imp_acc0 : imp_acc := {| ia_url := ""; ia_id := ""; ia_has_href := false; ia_issues := [] |}.
Definition ikids_acc0 : ikids_acc := {| ik_units := []; ik_comps := []; ik_issues := [] |}.

Definition load_import1 (tag : nat) (x : xml) : list units * list component * list issue :=
  let a := fold_left load_import_attr1 (xattrs x) imp_acc0 in
  let src := {| is_tag := tag; is_url := ia_url a; is_id := ia_id a |} in
  let k := fold_left (load_import_kid1 src) (xml_kids x) ikids_acc0 in
  (ik_units k, ik_comps k,
   ia_issues a ++ (if ia_has_href a then [] else [err "IMPORT_HREF"])
   ++ (match xml_kids x with [] => [warn "IMPORT_CHILD"] | _ => [] end) ++ ik_issues k).

(** ** loadEncapsulation / loadComponentRef *)
Definition load_cref_attr1 (acc : cref_acc) (a : attr) : cref_acc :=
  let st := ca_st acc in
  if attr_is "component" a then
    let n := a_val a in
    let st1 := if existsb (String.eqb n) (es_used st)
               then es_issue st [err "COMPONENT_REF_COMPONENT_ATTRIBUTE_UNIQUE"]
               else {| es_comps := es_comps st; es_used := es_used st ++ [n]; es_issues := es_issues st |} in
    match take_comp n (es_comps st1) with
    | Some (t, cs') =>
      {| ca_parent := Some t; ca_name := n; ca_encid := ca_encid acc;
         ca_st := {| es_comps := cs'; es_used := es_used st1; es_issues := es_issues st1 |} |}
    | None =>
      {| ca_parent := ca_parent acc; ca_name := n; ca_encid := ca_encid acc;
         ca_st := es_issue st1 [err "COMPONENT_REF_COMPONENT_ATTRIBUTE_REFERENCE"] |}
    end
  else if is_id_attr1 a then
    {| ca_parent := ca_parent acc; ca_name := ca_name acc; ca_encid := a_val a; ca_st := st |}
  else
    {| ca_parent := ca_parent acc; ca_name := ca_name acc; ca_encid := ca_encid acc;
       ca_st := es_issue st [err "COMPONENT_REF_ELEMENT"] |}.

Fixpoint load_cref1 (x : xml) (st : enc_st) : option component * enc_st :=
  match x with
  | Elem _ _ attrs ks =>
    let a := fold_left load_cref_attr1 (eff_attrs attrs) {| ca_parent := None; ca_name := ""; ca_encid := ""; ca_st := st |} in
    let st1 := match ca_parent a with
               | None => if nonempty (ca_name a) then ca_st a
                         else es_issue (ca_st a) [err "COMPONENT_REF_COMPONENT_ATTRIBUTE"]
               | Some _ => ca_st a
               end in
    let parent1 := option_map (fun p => set_encid p (ca_encid a)) (ca_parent a) in
    (fix go (l : list xml) (parent : option component) (st : enc_st) : option component * enc_st :=
       match l with
       | [] => (parent, st)
       | k :: r =>
         if is_1x "component_ref" k then
           match load_cref1 k st with
           | (Some child, st') =>
             match parent with
             | Some p => go r (Some (add_kid p child)) st'
             | None => go r None {| es_comps := es_comps st' ++ [child]; es_used := es_used st'; es_issues := es_issues st' |}
             end
           | (None, st') => go r parent st'
           end
         else go r parent (es_issue st (stray_fd "COMPONENT_REF_CHILD" k))
       end) ks parent1 st1
  | _ => (None, st)
  end.

Definition load_encapsulation_kid1 (st : enc_st) (k : xml) : enc_st :=
  if is_1x "component_ref" k then
    match load_cref1 k st with
    | (Some p, st') =>
      let st2 := {| es_comps := es_comps st' ++ [p]; es_used := es_used st'; es_issues := es_issues st' |} in
      match kids p with [] => es_issue st2 [err "ENCAPSULATION_CHILD"] | _ => st2 end
    | (None, st') => es_issue st' [err "ENCAPSULATION_CHILD"]
    end
  else if is_1x "relationship_ref" k then st
  else es_issue st (stray_fd "ENCAPSULATION_CHILD" k).

Definition load_encapsulation1 (cs : list component) (x : xml) : list component * list issue :=
  let st := fold_left load_encapsulation_kid1 (xml_kids x) {| es_comps := cs; es_used := []; es_issues := [] |} in
  (es_comps st, es_issues st).

(* isEncapsulationRelationship: some relationship_ref child (1.x) has relationship = "encapsulation" *)
Definition is_enc_rel (x : xml) : bool :=
  existsb (fun k => is_1x "relationship_ref" k
                    && existsb (fun a => attr_is "relationship" a && String.eqb (a_val a) "encapsulation") (xattrs k))
          (xml_kids x).

(** ** loadConnection *)
Definition load_conn_attr1 (st : conn_attrs) (a : attr) : conn_attrs :=
  if attr_is "component_1" a then
    {| cn_c1 := a_val a; cn_c2 := cn_c2 st; cn_has1 := true; cn_has2 := cn_has2 st; cn_id := cn_id st; cn_issues := cn_issues st |}
  else if attr_is "component_2" a then
    {| cn_c1 := cn_c1 st; cn_c2 := a_val a; cn_has1 := cn_has1 st; cn_has2 := true; cn_id := cn_id st; cn_issues := cn_issues st |}
  else if is_id_attr1 a then
    {| cn_c1 := cn_c1 st; cn_c2 := cn_c2 st; cn_has1 := cn_has1 st; cn_has2 := cn_has2 st; cn_id := a_val a; cn_issues := cn_issues st |}
  else
    {| cn_c1 := cn_c1 st; cn_c2 := cn_c2 st; cn_has1 := cn_has1 st; cn_has2 := cn_has2 st; cn_id := cn_id st;
       cn_issues := cn_issues st ++ [msg] |}.

Definition load_mv_attr1 (st : mv_acc) (a : attr) : mv_acc :=
  if attr_is "variable_1" a then
    {| mv_v1 := a_val a; mv_v2 := mv_v2 st; mv_has1 := true; mv_has2 := mv_has2 st; mv_id := mv_id st; mv_issues := mv_issues st |}
  else if attr_is "variable_2" a then
    {| mv_v1 := mv_v1 st; mv_v2 := a_val a; mv_has1 := mv_has1 st; mv_has2 := true; mv_id := mv_id st; mv_issues := mv_issues st |}
  else if is_id_attr1 a then
    {| mv_v1 := mv_v1 st; mv_v2 := mv_v2 st; mv_has1 := mv_has1 st; mv_has2 := mv_has2 st; mv_id := a_val a; mv_issues := mv_issues st |}
  else
    {| mv_v1 := mv_v1 st; mv_v2 := mv_v2 st; mv_has1 := mv_has1 st; mv_has2 := mv_has2 st; mv_id := mv_id st;
       mv_issues := mv_issues st ++ [err "MAP_VARIABLES_ELEMENT"] |}.

Definition mv_acc0 : mv_acc := {| mv_v1 := ""; mv_v2 := ""; mv_has1 := false; mv_has2 := false; mv_id := ""; mv_issues := [] |}.
Definition ckid_acc0 : ckid_acc :=
  {| kk_maps := []; kk_found := false; kk_miss1 := false; kk_miss2 := false; kk_used := []; kk_issues := [] |}.

Definition load_conn_kid1 (st : ckid_acc) (k : xml) : ckid_acc :=
  let grand := flat_map (stray_fd "XML_UNEXPECTED_ELEMENT") (xml_kids k) in
  if is_1x "map_variables" k then
    let a := fold_left load_mv_attr1 (xattrs k) mv_acc0 in
    let i1 := if negb (mv_has1 a) then [err "MAP_VARIABLES_VARIABLE1_ATTRIBUTE"]
              else if negb (nonempty (mv_v1 a)) then [err "MAP_VARIABLES_VARIABLE1_ATTRIBUTE_REFERENCE"] else [] in
    let i2 := if negb (mv_has2 a) then [err "MAP_VARIABLES_VARIABLE2_ATTRIBUTE"]
              else if negb (nonempty (mv_v2 a)) then [err "MAP_VARIABLES_VARIABLE2_ATTRIBUTE_REFERENCE"] else [] in
    let miss1 := kk_miss1 st || negb (mv_has1 a) || negb (nonempty (mv_v1 a)) in
    let miss2 := kk_miss2 st || negb (mv_has2 a) || negb (nonempty (mv_v2 a)) in
    let pr := if fx then (mv_v1 a, mv_v2 a) else sort2 (mv_v1 a) (mv_v2 a) in
    let dup := negb miss1 && negb miss2 && pair_in pr (kk_used st) in
    {| kk_maps := kk_maps st ++ [(mv_v1 a, mv_v2 a, mv_id a)]; kk_found := true; kk_miss1 := miss1; kk_miss2 := miss2;
       kk_used := if negb miss1 && negb miss2 && negb dup then kk_used st ++ [pr] else kk_used st;
       kk_issues := kk_issues st ++ grand ++ mv_issues a ++ i1 ++ i2 ++ (if dup then [err "MAP_VARIABLES_UNIQUE"] else []) |}
  else
    {| kk_maps := kk_maps st; kk_found := kk_found st; kk_miss1 := kk_miss1 st; kk_miss2 := kk_miss2 st; kk_used := kk_used st;
       kk_issues := kk_issues st ++ grand
                    ++ match k with
                       | Elem _ nm _ _ => if String.eqb nm "map_components" then [] else [msg]
                       | _ => stray_msg k
                       end |}.

Definition conn_attrs0 : conn_attrs :=
  {| cn_c1 := ""; cn_c2 := ""; cn_has1 := false; cn_has2 := false; cn_id := ""; cn_issues := [] |}.

Definition load_connection1 (st : conn_st) (x : xml) : conn_st :=
  match find (is_1x "map_components") (xml_kids x) with
  | None =>
    (* "does not have a 'map_components' element": an issue with default level (ERROR) and no rule *)
    {| cs_comps := cs_comps st; cs_eqv := cs_eqv st; cs_used := cs_used st; cs_issues := cs_issues st ++ [(LError, "UNDEFINED")] |}
  | Some mc =>
    let a := fold_left load_conn_attr1 (xattrs mc) conn_attrs0 in
    let i1 := if negb (cn_has1 a) then [err "CONNECTION_COMPONENT1_ATTRIBUTE"]
              else if negb (nonempty (cn_c1 a)) then [err "CONNECTION_COMPONENT1_ATTRIBUTE_REFERENCE"] else [] in
    let i2 := if negb (cn_has2 a) then [err "CONNECTION_COMPONENT2_ATTRIBUTE"]
              else if negb (nonempty (cn_c2 a)) then [err "CONNECTION_COMPONENT2_ATTRIBUTE_REFERENCE"] else [] in
    let miss1 := negb (cn_has1 a) || negb (nonempty (cn_c1 a)) in
    let miss2 := negb (cn_has2 a) || negb (nonempty (cn_c2 a)) in
    let u := if negb miss1 && negb miss2 then
               if String.eqb (cn_c1 a) (cn_c2 a) then (cs_used st, [err "CONNECTION_EXCLUDE_SELF"])
               else if pair_in (sort2 (cn_c1 a) (cn_c2 a)) (cs_used st) then (cs_used st, [err "CONNECTION_UNIQUE"])
                    else (cs_used st ++ [(cn_c1 a, cn_c2 a)], [])
             else (cs_used st, []) in
    let st0 := {| cs_comps := cs_comps st; cs_eqv := cs_eqv st; cs_used := fst u;
                  cs_issues := cs_issues st ++ cn_issues a ++ i1 ++ i2 ++ snd u |} in
    let k := fold_left load_conn_kid1 (xml_kids x) ckid_acc0 in
    let cp1 := find_comp (cn_c1 a) (cs_comps st0) in
    let cp2 := find_comp (cn_c2 a) (cs_comps st0) in
    let ci1 := match cp1 with Some _ => [] | None => if miss1 then [] else [err "CONNECTION_COMPONENT1_ATTRIBUTE_REFERENCE"] end in
    let ci2 := match cp2 with Some _ => [] | None => if miss2 then [] else [err "CONNECTION_COMPONENT2_ATTRIBUTE_REFERENCE"] end in
    let st1 := {| cs_comps := cs_comps st0; cs_eqv := cs_eqv st0; cs_used := cs_used st0;
                  cs_issues := cs_issues st0 ++ kk_issues k ++ ci1 ++ ci2 |} in
    if kk_found k then fold_left (load_map cp1 cp2 (kk_miss1 k) (kk_miss2 k) (cn_id a)) (kk_maps k) st1
    else {| cs_comps := cs_comps st1; cs_eqv := cs_eqv st1; cs_used := cs_used st1;
            cs_issues := cs_issues st1 ++ [err "CONNECTION_CHILD"] |}
  end.

(** ** loadModel *)
Definition upd_issues (st : model_acc) (is : list issue) : model_acc :=
  {| ma_units := ma_units st; ma_comps := ma_comps st; ma_imports := ma_imports st; ma_encid := ma_encid st;
     ma_encs := ma_encs st; ma_conns := ma_conns st; ma_issues := ma_issues st ++ is |}.

Definition load_model_kid1 (st : model_acc) (k : xml) : model_acc :=
  if is_1x "component" k then
    let r := load_component1 k in
    let u := units_from_component k in
    {| ma_units := ma_units st ++ fst u; ma_comps := ma_comps st ++ [fst r]; ma_imports := ma_imports st; ma_encid := ma_encid st;
       ma_encs := ma_encs st; ma_conns := ma_conns st; ma_issues := ma_issues st ++ snd r ++ snd u |}
  else if is_1x "units" k then
    let r := load_units1 k in
    {| ma_units := ma_units st ++ [fst r]; ma_comps := ma_comps st; ma_imports := ma_imports st; ma_encid := ma_encid st;
       ma_encs := ma_encs st; ma_conns := ma_conns st; ma_issues := ma_issues st ++ snd r |}
  else if is_1x "import" k then
    match load_import1 (ma_imports st) k with
    | (us, cs, is) =>
      {| ma_units := ma_units st ++ us; ma_comps := ma_comps st ++ cs; ma_imports := S (ma_imports st); ma_encid := ma_encid st;
         ma_encs := ma_encs st; ma_conns := ma_conns st; ma_issues := ma_issues st ++ is |}
    end
  else if is_cellml20 "encapsulation" k then
    (* the CellML 2.0 branches stay active inside a 1.x model *)
    let a := fold_left (fun s a => if is_id_attr a then (a_val a, snd s) else (fst s, snd s ++ [err "ENCAPSULATION_ELEMENT"]))
                       (xattrs k) (ma_encid st, []) in
    match xml_kids k with
    | [] => {| ma_units := ma_units st; ma_comps := ma_comps st; ma_imports := ma_imports st; ma_encid := fst a;
               ma_encs := ma_encs st; ma_conns := ma_conns st; ma_issues := ma_issues st ++ snd a ++ [warn "ENCAPSULATION_CHILD"] |}
    | _ => {| ma_units := ma_units st; ma_comps := ma_comps st; ma_imports := ma_imports st; ma_encid := fst a;
              ma_encs := ma_encs st ++ [k]; ma_conns := ma_conns st; ma_issues := ma_issues st ++ snd a |}
    end
  else if is_cellml20 "connection" k then
    {| ma_units := ma_units st; ma_comps := ma_comps st; ma_imports := ma_imports st; ma_encid := ma_encid st;
       ma_encs := ma_encs st; ma_conns := ma_conns st ++ [k]; ma_issues := ma_issues st |}
  else if is_1x "group" k then
    (* a group of another relationship (containment, ...) is passed over without any issue *)
    if is_enc_rel k then
      {| ma_units := ma_units st; ma_comps := ma_comps st; ma_imports := ma_imports st; ma_encid := ma_encid st;
         ma_encs := ma_encs st ++ [k]; ma_conns := ma_conns st; ma_issues := ma_issues st |}
    else st
  else if is_1x "connection" k then
    {| ma_units := ma_units st; ma_comps := ma_comps st; ma_imports := ma_imports st; ma_encid := ma_encid st;
       ma_encs := ma_encs st; ma_conns := ma_conns st ++ [k]; ma_issues := ma_issues st |}
  else upd_issues st (stray_msg k).

Definition model_acc0 : model_acc :=
  {| ma_units := []; ma_comps := []; ma_imports := 0; ma_encid := ""; ma_encs := []; ma_conns := []; ma_issues := [] |}.

(** the permissive parser on a 1.x model element *)
Definition load_1x_root (x : xml) : model * list issue :=
  let a := nid_attrs1 (xattrs x) in
  let k := fold_left load_model_kid1 (xml_kids x) model_acc0 in
  let enc := match ma_encs k with
             | [] => (ma_comps k, [])
             | e :: r => let l := load_encapsulation1 (ma_comps k) e in
                         (fst l, snd l ++ match r with [] => [] | _ => [err "MODEL_MORE_THAN_ONE_ENCAPSULATION"] end)
             end in
  let c := fold_left load_connection1 (ma_conns k) {| cs_comps := fst enc; cs_eqv := []; cs_used := []; cs_issues := [] |} in
  ({| m_name := na_name a; m_id := na_id a; m_encid := ma_encid k; m_units := ma_units k; m_comps := cs_comps c;
      m_eqv := cs_eqv c |},
   [msg] ++ na_issues a ++ ma_issues k ++ snd enc ++ cs_issues c ++ link_units_issues (ma_units k) (cs_comps c)).

(** Parser::parseModel on any document tree: CellML 2.0 roots and refused roots as in LoadDefs.load; a 1.0 / 1.1 root
    in permissive mode is transformed *)
Definition load1x (strict : bool) (x : xml) : model * list issue :=
  if negb strict && negb (is_cellml20 "model" x) && is_1x "model" x then load_1x_root x
  else load E fx strict x.

End Load1x.
