(** Properties_C13.v — statements only (stub while the pipeline is brought up). *)
From LC Require Import IdsDefs.
Theorem C13_stub : True. Proof. exact I. Qed.
Print Assumptions C13_stub.
