(** Properties_C13.v — C13 "Identifier assignment is complete, unique and non-destructive": statements only.

    Model: IdsDefs.v (annotator.cpp / utilities.cpp / printer.cpp, as cited there).  [cfg] names the three repairs
    of fixes/C13-*.diff; the theorems that need a repair carry the corresponding flag as hypothesis, the
    [_refuted] theorems show the defect of the code without it (or a defect that remains: MathML ids, '=' in ids).
    [get ids slot] is the identifier of a position ("" = none); [positions st] is the independent traversal of
    all id-carrying positions outside MathML, [all_slots st] adds the ids inside MathML. *)
From Coq Require Import String List NArith Arith Bool.
From LC Require Import Common IdsDefs IdsProofs IdsProofs2 IdsProofs3 IdsProofs4 IdsHash IdsMulti IdsWitness IdsRound5Proofs.
Import ListNotations.
Open Scope string_scope.
Open Scope list_scope.

(* ---------------------------------------------------------------- the generator of identifiers *)

Theorem C13_hex_injective : forall a b : N, hex a = hex b -> a = b.
Proof. exact IdsProofs.hex_injective. Qed.
Print Assumptions C13_hex_injective.

Theorem C13_hex_nonempty : forall n : N, hex n <> "".
Proof. exact IdsProofs.hex_nonempty. Qed.
Print Assumptions C13_hex_nonempty.

Example C13_hex_b4da55 : hex 0xb4da55 = "b4da55" /\ hex 255 = "ff" /\ hex 0 = "0".
Proof. vm_compute. repeat split; reflexivity. Qed.
Print Assumptions C13_hex_b4da55.

(* pigeonhole: the loop of makeUniqueId stops within |id list| + 1 candidates *)
Theorem C13_make_unique_terminates : forall cache n, snd (make_unique cache n) = true.
Proof. exact IdsProofs.make_unique_terminates. Qed.
Print Assumptions C13_make_unique_terminates.

Theorem C13_make_unique_fresh : forall cache n id m ok,
  make_unique cache n = (id, m, ok) ->
  ok = true /\ ~ In id (keys_of cache) /\ id = hex m /\ id <> "" /\ (n <= m)%N.
Proof. exact IdsProofs.make_unique_fresh. Qed.
Print Assumptions C13_make_unique_fresh.

(* no fuelled loop of the model ever runs out of fuel, whatever the history (so no result below is a fuel artefact) *)
Theorem C13_no_fuel_exhaustion : forall c st h ids, a_err (s_ann (fst (run c st (init ids) h))) = false.
Proof. exact IdsProofs2.run_no_error. Qed.
Print Assumptions C13_no_fuel_exhaustion.

(* ---------------------------------------------------------------- assignAllIds *)

(* complete: every position assignAllIds is responsible for (all but the component_ref of a top-level component
   without children, which has no element) holds an identifier afterwards *)
Theorem C13_assign_complete : forall c st s,
  a_has_model (s_ann s) = true -> slots_in_range st (length (s_ids s)) = true ->
  forall p, In p (applicable_positions st) -> get (s_ids (fst (assign_all c st s))) (snd p) <> "".
Proof. exact IdsProofs2.assign_all_complete. Qed.
Print Assumptions C13_assign_complete.

(* non-destructive *)
Theorem C13_assign_preserves : forall c st s slot,
  get (s_ids s) slot <> "" -> get (s_ids (fst (assign_all c st s))) slot = get (s_ids s) slot.
Proof. exact IdsProofs2.assign_all_preserves. Qed.
Print Assumptions C13_assign_preserves.

(* fresh: for EVERY annotator state [s] (any id list, any stored hash, any counter) and every id vector -
   i.e. whatever happened between setModel and the call - each newly assigned identifier differs from every
   identifier present anywhere in the model at the time of the call, and from every other identifier of the
   model after the call (in particular new identifiers are pairwise distinct). *)
Theorem C13_assign_fresh : forall c st s,
  fx_refresh c = true ->
  a_has_model (s_ann s) = true -> slots_in_range st (length (s_ids s)) = true -> no_math_ids st (s_ids s) ->
  let s' := fst (assign_all c st s) in
  forall slot, get (s_ids s) slot = "" -> get (s_ids s') slot <> "" ->
    (forall slot', In slot' (all_slots st) -> get (s_ids s) slot' <> get (s_ids s') slot) /\
    (forall slot', In slot' (all_slots st) -> slot' <> slot -> get (s_ids s') slot' <> get (s_ids s') slot).
Proof. exact IdsProofs2.assign_all_fresh. Qed.
Print Assumptions C13_assign_fresh.

(* the same, spelled out for the state reached by an arbitrary history of operations *)
Theorem C13_assign_fresh_after_any_history : forall c st h ids0,
  fx_refresh c = true -> slots_in_range st (length ids0) = true ->
  let s := fst (run c st (init ids0) h) in
  a_has_model (s_ann s) = true -> no_math_ids st (s_ids s) ->
  let s' := fst (assign_all c st s) in
  forall slot, get (s_ids s) slot = "" -> get (s_ids s') slot <> "" ->
    (forall slot', In slot' (all_slots st) -> get (s_ids s) slot' <> get (s_ids s') slot) /\
    (forall slot', In slot' (all_slots st) -> slot' <> slot -> get (s_ids s') slot' <> get (s_ids s') slot).
Proof. exact IdsProofs4.assign_all_fresh_after_any_history. Qed.
Print Assumptions C13_assign_fresh_after_any_history.

Theorem C13_assign_complete_after_any_history : forall c st h ids0,
  slots_in_range st (length ids0) = true ->
  let s := fst (run c st (init ids0) h) in
  a_has_model (s_ann s) = true ->
  forall p, In p (applicable_positions st) -> get (s_ids (fst (assign_all c st s))) (snd p) <> "".
Proof. exact IdsProofs4.assign_all_complete_after_any_history. Qed.
Print Assumptions C13_assign_complete_after_any_history.

(* DESIGN row 20, the code before fixes/C13-refresh-before-assign.diff: setModel(m); c->setId("b4da55");
   assignAllIds() gives the model the id b4da55 as well *)
Theorem C13_assign_stale_refuted :
  exists c st s, fx_refresh c = false /\
    a_has_model (s_ann s) = true /\ slots_in_range st (length (s_ids s)) = true /\
    (forall m, In m (math_slots st) -> get (s_ids s) m = "") /\
    exists slot slot', get (s_ids s) slot = "" /\ In slot' (all_slots st) /\ slot' <> slot /\
      get (s_ids (fst (assign_all c st s))) slot <> "" /\
      get (s_ids s) slot' = get (s_ids (fst (assign_all c st s))) slot.
Proof. exact IdsWitness.assign_stale_refuted. Qed.
Print Assumptions C13_assign_stale_refuted.

(* ... and exactly what that code needs: an id list that covers the model when the assignment starts *)
Theorem C13_assign_fresh_partial : forall c st s,
  a_has_model (s_ann s) = true -> slots_in_range st (length (s_ids s)) = true ->
  Covered (listed_slots st) (pre_assign c st s) -> no_math_ids st (s_ids s) ->
  let s' := fst (assign_all c st s) in
  forall slot, get (s_ids s) slot = "" -> get (s_ids s') slot <> "" ->
    (forall slot', In slot' (all_slots st) -> get (s_ids s) slot' <> get (s_ids s') slot) /\
    (forall slot', In slot' (all_slots st) -> slot' <> slot -> get (s_ids s') slot' <> get (s_ids s') slot).
Proof. exact IdsProofs2.assign_all_fresh_gen. Qed.
Print Assumptions C13_assign_fresh_partial.

(* DESIGN row 34 (known finding C13-mathml-ids-invisible): the hypothesis no_math_ids cannot be dropped *)
Theorem C13_assign_fresh_math_refuted :
  exists st s, a_has_model (s_ann s) = true /\ slots_in_range st (length (s_ids s)) = true /\
    exists slot m, In m (math_slots st) /\ get (s_ids s) slot = "" /\
      get (s_ids (fst (assign_type cfg_fixed st KModel s))) slot <> "" /\
      get (s_ids s) m = get (s_ids (fst (assign_type cfg_fixed st KModel s))) slot.
Proof. exact IdsWitness.assign_fresh_math_refuted. Qed.
Print Assumptions C13_assign_fresh_math_refuted.

(* ---------------------------------------------------------------- assignIds(type) *)

Theorem C13_assign_type_complete : forall c st k s,
  a_has_model (s_ann s) = true -> slots_in_range st (length (s_ids s)) = true ->
  forall p, In p (applicable_positions st) -> fst p = k -> get (s_ids (fst (assign_type c st k s))) (snd p) <> "".
Proof. exact IdsProofs2.assign_type_complete. Qed.
Print Assumptions C13_assign_type_complete.

Theorem C13_assign_type_preserves : forall c st k s slot,
  get (s_ids s) slot <> "" -> get (s_ids (fst (assign_type c st k s))) slot = get (s_ids s) slot.
Proof. exact IdsProofs2.assign_type_preserves. Qed.
Print Assumptions C13_assign_type_preserves.

(* only positions of the requested kind receive identifiers *)
Theorem C13_assign_type_only_kind : forall c st k s slot,
  get (s_ids (fst (assign_type c st k s))) slot <> get (s_ids s) slot ->
  exists v, In v (assign_type_visits st k) /\ v_slot v = slot /\ v_kind v = k.
Proof. exact IdsProofs2.assign_type_only_kind. Qed.
Print Assumptions C13_assign_type_only_kind.

Theorem C13_assign_type_fresh : forall c st k s,
  fx_refresh c = true ->
  a_has_model (s_ann s) = true -> slots_in_range st (length (s_ids s)) = true -> no_math_ids st (s_ids s) ->
  let s' := fst (assign_type c st k s) in
  forall slot, get (s_ids s) slot = "" -> get (s_ids s') slot <> "" ->
    (forall slot', In slot' (all_slots st) -> get (s_ids s) slot' <> get (s_ids s') slot) /\
    (forall slot', In slot' (all_slots st) -> slot' <> slot -> get (s_ids s') slot' <> get (s_ids s') slot).
Proof. exact IdsProofs2.assign_type_fresh. Qed.
Print Assumptions C13_assign_type_fresh.

(* ---------------------------------------------------------------- assignId(item) *)

(* the item receives the returned (non-empty) identifier, nothing else changes, and the identifier differs from
   every identifier present in the model at the time of the call *)
Theorem C13_assign_item : forall c st v s,
  fx_refresh c = true ->
  a_has_model (s_ann s) = true -> v_slot v < length (s_ids s) ->
  let r := assign_item c st v s in
  let s' := fst r in
  get (s_ids s') (v_slot v) = snd r /\ snd r <> "" /\
  (forall slot, slot <> v_slot v -> get (s_ids s') slot = get (s_ids s) slot) /\
  (forall slot', In slot' (listed_slots st) -> get (s_ids s) slot' <> snd r) /\
  (no_math_ids st (s_ids s) -> forall slot', In slot' (all_slots st) -> get (s_ids s) slot' <> snd r).
Proof. exact IdsProofs2.assign_item_spec. Qed.
Print Assumptions C13_assign_item.

(* ---------------------------------------------------------------- look-ups *)

(* the annotator's traversal meets exactly the positions of the independent traversal *)
Theorem C13_traversal_meets_all_positions : forall st p,
  In p (map vpos (list_visits st)) <-> In p (positions st).
Proof. exact IdsProofs.listing_positions. Qed.
Print Assumptions C13_traversal_meets_all_positions.

(* item(id) returns exactly the position carrying that id *)
Theorem C13_lookup_exact : forall c st ids,
  forall id e, item_of (build_cache c st ids) id = Some e ->
    e_id e = id /\ id <> "" /\ get ids (e_slot e) = id /\ In (epos e) (positions st) /\
    forall p, In p (positions st) -> get ids (snd p) = id -> p = epos e.
Proof. exact IdsProofs3.item_exact. Qed.
Print Assumptions C13_lookup_exact.

(* ... and does return it when the id is unique *)
Theorem C13_lookup_found : forall c st ids, visits_once c st = true ->
  forall id p, id <> "" -> In p (positions st) -> get ids (snd p) = id ->
    (forall q, In q (positions st) -> get ids (snd q) = id -> q = p) ->
    exists e, item_of (build_cache c st ids) id = Some e /\ epos e = p.
Proof. exact IdsProofs3.item_found. Qed.
Print Assumptions C13_lookup_found.

(* behaviour on duplicates, as coded: item(id) finds nothing, item(id, index) a carrier *)
Theorem C13_lookup_duplicate : forall c st ids,
  forall id p q, In p (positions st) -> In q (positions st) -> p <> q ->
    get ids (snd p) = id -> get ids (snd q) = id -> item_of (build_cache c st ids) id = None.
Proof. exact IdsProofs3.item_duplicate. Qed.
Print Assumptions C13_lookup_duplicate.

Theorem C13_lookup_index : forall c st ids id i e, item_index_of (build_cache c st ids) id i = Some e ->
  e_id e = id /\ get ids (e_slot e) = id /\ In (epos e) (positions st).
Proof. exact IdsProofs3.item_index_carrier. Qed.
Print Assumptions C13_lookup_index.

(* ids(), itemCount() and duplicateIds() equal the independent traversal *)
Theorem C13_ids_agree_with_traversal : forall c st ids x,
  In x (ids_of (build_cache c st ids)) <-> x <> "" /\ exists p, In p (positions st) /\ get ids (snd p) = x.
Proof. exact IdsProofs3.ids_exact. Qed.
Print Assumptions C13_ids_agree_with_traversal.

Theorem C13_item_count_agrees_with_traversal : forall c st ids, visits_once c st = true ->
  forall x, x <> "" ->
    item_count_of (build_cache c st ids) x = length (filter (carries ids x) (positions st)).
Proof. exact IdsProofs3.item_count_exact. Qed.
Print Assumptions C13_item_count_agrees_with_traversal.

Theorem C13_duplicate_ids_agree_with_traversal : forall c st ids, visits_once c st = true ->
  forall x, In x (duplicate_ids_of (build_cache c st ids)) <->
            x <> "" /\ 2 <= length (filter (carries ids x) (positions st)).
Proof. exact IdsProofs3.duplicate_ids_exact. Qed.
Print Assumptions C13_duplicate_ids_agree_with_traversal.

Theorem C13_ids_sorted_nodup : forall cache, NoDup (ids_of cache) /\ Sorted.StronglySorted str_lt (ids_of cache).
Proof. exact IdsHash.ids_of_sorted. Qed.
Print Assumptions C13_ids_sorted_nodup.

(* a shared import source was listed once per importing entity (fixes/C13-shared-import-source.diff) *)
Theorem C13_import_shared_refuted :
  exists c st ids x, fx_import c = false /\
    item_count_of (build_cache c st ids) x <> length (filter (fun p => String.eqb (get ids (snd p)) x) (positions st)).
Proof. exact IdsWitness.import_shared_refuted. Qed.
Print Assumptions C13_import_shared_refuted.

(* update(): the id list is rebuilt exactly when the stored hash differs from the hash of the model *)
Theorem C13_update_refreshes_iff_hash_changes : forall c st s, a_has_model (s_ann s) = true ->
  (a_hash (s_ann s) = Some (hash_string c st (s_ids s)) -> update c st s = s) /\
  (a_hash (s_ann s) <> Some (hash_string c st (s_ids s)) ->
     a_cache (s_ann (update c st s)) = build_cache c st (s_ids s) /\
     a_hash (s_ann (update c st s)) = Some (hash_string c st (s_ids s))).
Proof. exact IdsProofs3.update_refreshes_iff_hash_changes. Qed.
Print Assumptions C13_update_refreshes_iff_hash_changes.

(* with the repairs, after ANY history the list a look-up consults is the list of the model as it is now,
   provided the serialised string determines the list ... *)
Theorem C13_lookups_current_after_any_history : forall c st h ids,
  fx_refresh c = true ->
  let s := fst (run c st (init ids) h) in
  a_has_model (s_ann s) = true -> HashFaithfulAt c st (s_ids s) ->
  a_cache (s_ann (update c st s)) = build_cache c st (s_ids s).
Proof. exact IdsProofs4.lookups_current_after_any_history. Qed.
Print Assumptions C13_lookups_current_after_any_history.

(* ... which it does (with the hash repair) for all identifiers free of the character '=' *)
Theorem C13_hash_faithful : forall c st ids ids0,
  fx_hash c = true -> eq_free_vec ids -> eq_free_vec ids0 ->
  hash_string c st ids0 = hash_string c st ids -> build_cache c st ids0 = build_cache c st ids.
Proof. exact IdsHash.hash_faithful. Qed.
Print Assumptions C13_hash_faithful.

(* hence, with the three repairs: after ANY history of setModel / id edits / assign* / clearAllIds / look-ups whose
   identifiers are free of '=', every look-up consults the id list of the model as it is NOW; the look-up theorems
   above (C13_lookup_..., C13_ids_..., C13_item_count_..., C13_duplicate_ids_...) therefore describe its answers *)
Theorem C13_lookups_current_for_all_histories : forall c st h ids,
  fx_refresh c = true -> fx_hash c = true -> eq_free_vec ids -> Forall op_eq_free h ->
  let s := fst (run c st (init ids) h) in
  a_has_model (s_ann s) = true ->
  a_cache (s_ann (update c st s)) = build_cache c st (s_ids s).
Proof. exact IdsHash.lookups_current_eq_free. Qed.
Print Assumptions C13_lookups_current_for_all_histories.

(* ---------------------------------------------------------------- several models handed to one annotator *)

(* setModel ALWAYS rebuilds: list, owner and stored hash describe the model just handed over, whatever the
   annotator held before - in particular a model (a clone, a look-alike) whose identifiers serialise to the same
   string.  (C13_lookups_current_for_all_histories above quantifies over histories on ONE structure: its setModel
   re-hands the same model.  The theorem after this one quantifies over histories on any number of structures.) *)
Theorem C13_set_model_rebuilds : forall c st s,
  a_cache (s_ann (set_model c st s)) = build_cache c st (s_ids s) /\
  a_owner (s_ann (set_model c st s)) = a_model (s_ann s) /\
  a_model (s_ann (set_model c st s)) = a_model (s_ann s) /\
  a_hash (s_ann (set_model c st s)) = Some (hash_string c st (s_ids s)) /\
  a_has_model (s_ann (set_model c st s)) = true.
Proof. exact IdsMulti.set_model_rebuilds. Qed.
Print Assumptions C13_set_model_rebuilds.

(* for ANY history over ANY list of models [sts] - setModel(model k) for arbitrary k in any order (a model, its
   clone, a look-alike with the same identifiers, a different model, the first again), id edits on any model, the
   stored model being destroyed, assign*, clearAllIds, look-ups - with identifiers free of '=':
   the list a look-up consults is the list of the model the annotator holds NOW and its items are objects of THAT
   model ([a_owner] = [a_model]); so the look-up theorems describe its answers with st := the current structure.
   [mop_eq_free] excludes the structural-edit operation [MStruct] (removeComponent, removeVariable, ... after
   hand-over) because the injectivity proof of the hash string is per structure; histories WITH structural edits are
   covered by C13_index_consistent / C13_lookups_after_structural_edits below, under the decidable premise
   [hash_separates] for the one pair (model at the last build, model now).  The assignment theorems (C13_assign_complete / _preserves / _fresh and the type and
   item variants) are stated for EVERY structure and state, so they cover models edited structurally after hand-over,
   including equivalences whose other end is outside the model (they stay with the variable that is inside). *)
Theorem C13_lookups_current_for_all_histories_multi : forall c sts h idss stx,
  fx_refresh c = true -> fx_hash c = true -> eq_free_all idss -> Forall mop_eq_free h ->
  let ms := fst (mrun c sts (minit idss stx) h) in
  let k := a_model (m_ann ms) in
  a_has_model (m_ann ms) = true ->
  let s := update c (st_of sts (m_st ms) k) {| s_ids := nth_ids (m_ids ms) k; s_ann := m_ann ms |} in
  a_cache (s_ann s) = build_cache c (st_of sts (m_st ms) k) (nth_ids (m_ids ms) k) /\ a_owner (s_ann s) = k.
Proof. exact IdsMulti.lookups_current_multi. Qed.
Print Assumptions C13_lookups_current_for_all_histories_multi.

Example C13_nonvacuous_multi :
  let h := [MEdit 0 2 "x"; MEdit 1 2 "x"; MSetModel 0; MOp (OItem "x"); MSetModel 1; MOp (OItem "x")] in
  let r := mrun cfg_fixed [st_one; st_one] (minit [ids5; ids5] [0; 1]) h in
  hash_string cfg_fixed st_one (nth_ids (m_ids (fst r)) 0) = hash_string cfg_fixed st_one (nth_ids (m_ids (fst r)) 1) /\
  a_owner (m_ann (fst r)) = 1 /\ a_model (m_ann (fst r)) = 1 /\
  nth 5 (snd r) RNone = REntry (Some (mk_entry "x" (vis KComp 2))).
Proof. exact IdsWitness.multi_witness. Qed.
Print Assumptions C13_nonvacuous_multi.

(* ---------------------------------------------------------------- structural edits: the index is a function of the current model *)

(* index_consistent holds after EVERY list of operations, structural edits included, for any identifiers: the stored
   hash (if any) is the hash of the (structure, ids) pair the list was last built from, the list is the list of
   that pair, and it belongs to the stored model *)
Theorem C13_index_consistent : forall c sts h idss stx,
  fx_refresh c = true -> index_consistent c (fst (mrun c sts (minit idss stx) h)).
Proof. exact IdsMulti.mrun_index_consistent. Qed.
Print Assumptions C13_index_consistent.

(* hence: after any operations (MStruct = add / remove / replace of entities after hand-over; id edits on any model;
   setModel of any model; the model dying; assign*; clearAllIds; look-ups; prints) followed by the annotator's
   rebuild step [update], every look-up answers as a FRESH annotator handed the model as it is now would
   ([fresh_cache] = the list of [set_model] on [init]), and the items are objects of the stored model - provided the
   hash separates the model the list was last built from and the current one: [hash_separates] is a boolean
   (assumption A-hash for that one pair; it fails only when the model changed and the serialised string did not:
   C13_hash_ambiguous_refuted) *)
Theorem C13_lookups_after_structural_edits : forall c sts h idss stx,
  fx_refresh c = true ->
  let ms := fst (mrun c sts (minit idss stx) h) in
  let k := a_model (m_ann ms) in
  let st := st_of sts (m_st ms) k in
  let ids := nth_ids (m_ids ms) k in
  a_has_model (m_ann ms) = true ->
  (forall st0 ids0, a_hash (m_ann ms) = Some (hash_string c st0 ids0) -> a_cache (m_ann ms) = build_cache c st0 ids0 ->
                    hash_separates c st0 ids0 st ids = true) ->
  let s := update c st {| s_ids := ids; s_ann := m_ann ms |} in
  a_cache (s_ann s) = fresh_cache c st ids /\ a_owner (s_ann s) = k /\
  (forall id, item_of (a_cache (s_ann s)) id = item_of (fresh_cache c st ids) id) /\
  ids_of (a_cache (s_ann s)) = ids_of (fresh_cache c st ids).
Proof. exact IdsMulti.lookups_after_any_ops. Qed.
Print Assumptions C13_lookups_after_structural_edits.

Theorem C13_fresh_cache_is_the_list : forall c st ids, fresh_cache c st ids = build_cache c st ids.
Proof. exact IdsMulti.fresh_cache_eq. Qed.
Print Assumptions C13_fresh_cache_is_the_list.

(* non-vacuity: a component is removed after hand-over (its variable stays equivalent from outside); the premise
   holds, ids() answers for the edited model, and assignAllIds then numbers the mapping/connection of the outside end *)
Example C13_nonvacuous_structural_edit :
  let h := [MEdit 0 4 "a"; MEdit 0 7 "b"; MEdit 0 8 "m"; MSetModel 0; MOp OIds; MStruct 0 1; MOp OIds; MOp OAssignAll] in
  let r := mrun cfg_fixed [st_eq; st_eq_removed] (minit [ids10] [0]) h in
  let ids := ["";"";"";"";"a";"";"";"b";"m";""] in
  nth 4 (snd r) RNone = RStrs ["a"; "b"; "m"] /\ nth 6 (snd r) RNone = RStrs ["a"; "m"] /\
  hash_separates cfg_fixed st_eq ids st_eq_removed ids = true /\
  a_has_model (m_ann (fst r)) = true /\
  nth_ids (m_ids (fst r)) 0 = ["b4da55"; "b4da58"; "b4da56"; ""; "a"; ""; ""; "b"; "m"; "b4da57"].
Proof. exact IdsWitness.structural_edit_witness. Qed.
Print Assumptions C13_nonvacuous_structural_edit.

(* DESIGN row 21, the code before fixes/C13-hash-equivalence-ids.diff: the hash ignored mapping and connection ids *)
Theorem C13_hash_blind_refuted :
  exists c st h ids slot, fx_hash c = false /\ fx_refresh c = true /\
    let r := run c st (init ids) (h ++ [OIds]) in
    In (KMap, slot) (positions st) /\ get (s_ids (fst r)) slot = "b4da55" /\ last (snd r) RNone = RStrs [].
Proof. exact IdsWitness.hash_blind_refuted. Qed.
Print Assumptions C13_hash_blind_refuted.

(* found by this check, repaired by fixes/C13-refresh-before-assign.diff: assignId stored the hash of the model
   BEFORE the assignment; a model that returns to that state was looked up in the list built AFTER it *)
Theorem C13_lookup_after_assign_refuted :
  exists st h ids, last (snd (run cfg_pinned st (init ids) (h ++ [OIds]))) RNone = RStrs ["b4da55"] /\
                   forall slot, get (s_ids (fst (run cfg_pinned st (init ids) (h ++ [OIds])))) slot <> "b4da55".
Proof. exact IdsWitness.lookup_after_assign_refuted. Qed.
Print Assumptions C13_lookup_after_assign_refuted.

(* known finding C13-hash-string-ambiguous: identifiers containing '=' can make two different models serialise
   to the same string, so the hypothesis of C13_hash_faithful cannot be dropped *)
Theorem C13_hash_ambiguous_refuted :
  exists st a b, hash_string cfg_fixed st a = hash_string cfg_fixed st b /\
                 build_cache cfg_fixed st a <> build_cache cfg_fixed st b.
Proof. exact IdsWitness.hash_ambiguous_refuted. Qed.
Print Assumptions C13_hash_ambiguous_refuted.

(* ---------------------------------------------------------------- printer *)

(* printModel(model, true): every element without an identifier receives a non-empty one that is not among the
   identifiers of the model (outside MathML) and differs from every other generated one; all loops terminate *)
Theorem C13_print_auto_ids_unique : forall st ids l ok, print_ids st ids = (l, ok) ->
  ok = true /\ length l = length (print_positions st ids) /\
  (forall p x, In (p, x) (combine (print_positions st ids) l) -> get ids (snd p) = "" ->
     x <> "" /\ ~ In x (list_ids st ids)) /\
  NoDup (map snd (filter (fun px => is_empty (get ids (snd (fst px)))) (combine (print_positions st ids) l))).
Proof. exact IdsProofs3.print_ids_unique. Qed.
Print Assumptions C13_print_auto_ids_unique.

Theorem C13_print_list_ids_complete : forall st ids slot,
  In slot (listed_slots st) -> get ids slot <> "" -> In (get ids slot) (list_ids st ids).
Proof. exact IdsProofs3.list_ids_complete. Qed.
Print Assumptions C13_print_list_ids_complete.

(* existing identifiers are written unchanged; the model value is an input only (in the functional model the
   argument cannot change: purity of the real printer is observed by the correspondence run) *)
Theorem C13_print_auto_ids_pure : forall st ids l ok, print_ids st ids = (l, ok) ->
  forall p x, In (p, x) (combine (print_positions st ids) l) -> get ids (snd p) <> "" -> x = get ids (snd p).
Proof. exact IdsProofs3.print_ids_pure. Qed.
Print Assumptions C13_print_auto_ids_pure.

(* ---------------------------------------------------------------- non-vacuity *)

Example C13_nonvacuous_assign :
  let s := fst (run cfg_fixed st_eq (init ids10) [OEdit 4 "b4da56"; OSetModel; OEdit 2 "b4da55"]) in
  a_has_model (s_ann s) = true /\ slots_in_range st_eq (length (s_ids s)) = true /\
  (forall m, In m (math_slots st_eq) -> get (s_ids s) m = "") /\
  s_ids (fst (assign_all cfg_fixed st_eq s)) =
    ["b4da57"; "b4da5c"; "b4da55"; ""; "b4da56"; "b4da5a"; ""; "b4da5b"; "b4da59"; "b4da58"] /\
  snd (assign_all cfg_fixed st_eq s) = true.
Proof. exact IdsWitness.nonvacuous_all. Qed.
Print Assumptions C13_nonvacuous_assign.

Example C13_nonvacuous_wf : wf cfg_fixed st_eq 10 = true /\ wf cfg_fixed st_imp 7 = true /\ wf cfg_no_import st_imp 7 = false.
Proof. exact IdsWitness.nonvacuous_wf. Qed.
Print Assumptions C13_nonvacuous_wf.

Example C13_nonvacuous_print :
  print_ids st_eq ["m"; ""; "b4da55"; ""; ""; ""; ""; "b4da56"; ""; ""] =
  (["m"; "b4da55"; "b4da57"; "b4da58"; "b4da56"; "b4da59"; "b4da5a"], true).
Proof. exact IdsWitness.nonvacuous_print. Qed.
Print Assumptions C13_nonvacuous_print.

Example C13_repaired_histories :
  (let s' := fst (run cfg_fixed st_one (init ids5) stale_history) in get (s_ids s') 0 = "b4da56" /\ get (s_ids s') 2 = "b4da55") /\
  snd (run cfg_fixed st_eq (init ids10) [OSetModel; OEdit 8 "b4da55"; OIds]) = [RNone; RNone; RStrs ["b4da55"]] /\
  item_count_of (build_cache cfg_fixed st_imp ids7) "imp" = 1.
Proof. split; [exact IdsWitness.stale_fixed | split; [exact IdsWitness.hash_blind_fixed | exact (proj1 IdsWitness.import_shared_fixed)]]. Qed.
Print Assumptions C13_repaired_histories.

(* ---------------------------------------------------------------- proof depth round 5: idempotence *)

(* assignAllIds(); assignAllIds(): for every annotator state, id vector and cfg the second call changes no
   identifier and returns false (nothing assigned) *)
Theorem C13_assign_all_idempotent : forall c st s,
  a_has_model (s_ann s) = true -> slots_in_range st (length (s_ids s)) = true ->
  let s1 := fst (assign_all c st s) in
  s_ids (fst (assign_all c st s1)) = s_ids s1 /\ snd (assign_all c st s1) = false.
Proof. exact IdsRound5Proofs.assign_all_idempotent. Qed.
Print Assumptions C13_assign_all_idempotent.

(* assignIds(type); assignIds(type): the second call changes no identifier *)
Theorem C13_assign_type_idempotent : forall c st k s,
  a_has_model (s_ann s) = true -> slots_in_range st (length (s_ids s)) = true ->
  let s1 := fst (assign_type c st k s) in
  s_ids (fst (assign_type c st k s1)) = s_ids s1.
Proof. exact IdsRound5Proofs.assign_type_idempotent. Qed.
Print Assumptions C13_assign_type_idempotent.

(* once every position of a traversal carries an identifier, any number of repetitions of the traversal leaves
   the WHOLE state (identifiers, id list, hash, counter) as it is *)
Theorem C13_assign_visits_repeat_noop : forall n vs s,
  (forall v, In v vs -> get (s_ids s) (v_slot v) <> "") ->
  Nat.iter n (fun t => assign_visits t vs) s = s.
Proof. exact IdsRound5Proofs.assign_visits_repeat_noop. Qed.
Print Assumptions C13_assign_visits_repeat_noop.
