(** OrderProofs.v — the emission order of the generated methods (C03): every equation of a method body comes after
    the dependencies the generator wants (emit_dependencies_first), each equation is emitted at most once
    (emit_each_once); the two orderings the dependency mechanism does not cover are refuted by witnesses
    (C03-rate-used-before-computed, C03-initial-value-reference-order) and proved under the hypotheses that exclude
    them.  The stack invariant of generateEquationCode follows LC.ExternalEmitProofs (C20), whose ordering predicate
    only speaks about external equations; it is re-proved here for [ordered_all] (every equation type). *)
From Coq Require Import List Bool Arith PeanoNat Lia.
From LC Require Import AnalysisDefs AnalysisSpec AnalysisWfProofs ExternalDefs ExternalEmitProofs OrderDefs.
Import ListNotations.
Local Open Scope bool_scope.

Section Emit.
Variable r : result.
Variable rank : nat -> nat.
Hypothesis Hacy : acyclic_by r rank.
Variable icc : bool.
Variable efd : list nat.
Variable rem0 : list nat.

(* what a piece of code marks as computed: the equations emitted and their NLA siblings *)
Definition clos (code : list nat) : list nat :=
  flat_map (fun p => match find_aeq r p with Some e => p :: ae_sibs e | None => [p] end) code.

Lemma clos_app : forall a b, clos (a ++ b) = clos a ++ clos b.
Proof. intros. unfold clos. apply flat_map_app. Qed.

Lemma ordered_all_app : forall c1 c2 done,
  ordered_all r icc efd rem0 done (c1 ++ c2) =
  ordered_all r icc efd rem0 done c1 && ordered_all r icc efd rem0 (done ++ clos c1) c2.
Proof.
  induction c1 as [|p t IH]; intros c2 done; cbn [app ordered_all clos flat_map].
  - rewrite app_nil_r. reflexivity.
  - destruct (find_aeq r p) as [e|] eqn:E; [|reflexivity].
    rewrite IH. rewrite <- andb_assoc. f_equal. f_equal. f_equal.
    fold (clos t). rewrite <- app_assoc. reflexivity.
Qed.

(* in progress: on the stack of calls, or an NLA sibling of an equation on the stack *)
Definition inprog (stk : list nat) (p : nat) : Prop :=
  exists a, In a stk /\ (p = a \/ exists e, find_aeq r a = Some e /\ In p (ae_sibs e)).

Definition Inv (stk rem done : list nat) : Prop :=
  forall p, mem_nat p rem0 = true -> mem_nat p rem = false -> In p done \/ inprog stk p.

Lemma Inv_done_mono : forall stk rem done extra, Inv stk rem done -> Inv stk rem (done ++ extra).
Proof.
  intros stk rem done extra H p H1 H2. destruct (H p H1 H2) as [K|K]; [left; apply in_or_app; left; exact K|right; exact K].
Qed.

Definition step (f : nat) (acc : list nat * list nat) (d : nat) : list nat * list nat :=
  match find_aeq r d with
  | Some de => if dep_wanted r icc efd de
               then let '(c, rm) := gen_eq r sfx f icc efd d (snd acc) in (fst acc ++ c, rm)
               else acc
  | None => acc
  end.

Definition gen_post (pos : nat) (rem : list nat) (stk done : list nat) (code rem' : list nat) : Prop :=
  ordered_all r icc efd rem0 done code = true /\ Inv stk rem' (done ++ clos code) /\
  (find_aeq r pos <> None -> mem_nat pos rem' = false) /\
  (forall x, mem_nat x rem' = true -> mem_nat x rem = true) /\ length rem' <= length rem /\ NoDup rem'.

Definition gen_ok (f : nat) : Prop :=
  forall pos rem code rem' stk done,
    gen_eq r sfx f icc efd pos rem = (code, rem') -> length rem < f -> NoDup rem ->
    (forall a, In a stk -> rank pos < rank a) -> Inv stk rem done ->
    gen_post pos rem stk done code rem'.

Lemma deps_fold_inv : forall f, gen_ok f ->
  forall deps stk acc_code acc_rem code2 rem2 done,
    fold_left (step f) deps (acc_code, acc_rem) = (code2, rem2) ->
    length acc_rem < f -> NoDup acc_rem ->
    (forall d de, In d deps -> find_aeq r d = Some de -> dep_wanted r icc efd de = true -> forall a, In a stk -> rank d < rank a) ->
    Inv stk acc_rem (done ++ clos acc_code) -> ordered_all r icc efd rem0 done acc_code = true ->
    ordered_all r icc efd rem0 done code2 = true /\ Inv stk rem2 (done ++ clos code2) /\ NoDup rem2 /\
    length rem2 <= length acc_rem /\ (forall x, mem_nat x rem2 = true -> mem_nat x acc_rem = true) /\
    (forall d de, In d deps -> find_aeq r d = Some de -> dep_wanted r icc efd de = true -> mem_nat d rem2 = false).
Proof.
  intros f Hf deps. induction deps as [|d t IH]; intros stk acc_code acc_rem code2 rem2 done H Hlen Hnd Hrank Hinv Hord; cbn [fold_left] in H.
  - inversion H; subst. repeat split; try assumption; try lia; [intros x Hx; exact Hx|intros d de []].
  - unfold step at 2 in H. cbn [fst snd] in H.
    destruct (find_aeq r d) as [de|] eqn:Ed.
    2:{ destruct (IH stk _ _ _ _ done H Hlen Hnd) as (A & B & C & D & E & F); try assumption.
        { intros d0 de0 Hin. apply Hrank. right. exact Hin. }
        repeat split; try assumption. intros d0 de0 [->|Hin] Hd0 Hw; [congruence|]. eapply F; eassumption. }
    destruct (dep_wanted r icc efd de) eqn:Ew.
    2:{ destruct (IH stk _ _ _ _ done H Hlen Hnd) as (A & B & C & D & E & F); try assumption.
        { intros d0 de0 Hin. apply Hrank. right. exact Hin. }
        repeat split; try assumption. intros d0 de0 [->|Hin] Hd0 Hw; [congruence|]. eapply F; eassumption. }
    destruct (gen_eq r sfx f icc efd d acc_rem) as [c rm] eqn:Eg.
    assert (Hr : forall a, In a stk -> rank d < rank a).
    { intros a Ha. eapply Hrank; [left; reflexivity|exact Ed|exact Ew|exact Ha]. }
    destruct (Hf _ _ _ _ stk (done ++ clos acc_code) Eg Hlen Hnd Hr Hinv) as (G1 & G2 & G3 & G4 & G5 & G6).
    assert (Hord1 : ordered_all r icc efd rem0 done (acc_code ++ c) = true).
    { rewrite ordered_all_app, Hord, G1. reflexivity. }
    assert (Hinv1 : Inv stk rm (done ++ clos (acc_code ++ c))).
    { rewrite clos_app, app_assoc. exact G2. }
    destruct (IH stk _ _ _ _ done H) as (A & B & C & D & E & F); try assumption; try lia.
    { intros d0 de0 Hin. apply Hrank. right. exact Hin. }
    repeat split; try assumption; try lia.
    + intros x Hx. apply G4. apply E. exact Hx.
    + intros d0 de0 [->|Hin] Hd0 Hw; [|eapply F; eassumption].
      destruct (mem_nat d0 rem2) eqn:M; [|reflexivity]. apply E in M.
      rewrite G3 in M; [discriminate|congruence].
Qed.

Lemma gen_eq_inv : forall f, gen_ok f.
Proof.
  induction f as [|f IH]; intros pos rem code rem' stk done H Hlen Hnd Hrank Hinv; [lia|].
  cbn [gen_eq] in H.
  destruct (mem_nat pos rem) eqn:Em; cbn [negb] in H.
  2:{ inversion H; subst. unfold gen_post. cbn [clos flat_map]. rewrite app_nil_r.
      split; [reflexivity|]. split; [exact Hinv|]. split; [intros _; exact Em|]. split; [auto|]. split; [lia|exact Hnd]. }
  destruct (find_aeq r pos) as [e|] eqn:Ee.
  2:{ inversion H; subst. unfold gen_post. cbn [clos flat_map]. rewrite app_nil_r.
      split; [reflexivity|]. split; [exact Hinv|]. split; [intro K; congruence|]. split; [auto|]. split; [lia|exact Hnd]. }
  change (fold_left (fun l sib => remove_nat sib l) (ae_sibs e) (remove_nat pos rem)) with (rm_all (ae_sibs e) (remove_nat pos rem)) in H.
  set (rem1 := rm_all (ae_sibs e) (remove_nat pos rem)) in *.
  destruct (find_aeq_In _ _ _ Ee) as (HeIn & Hepos).
  destruct (remove_nat_NoDup pos rem Hnd) as (Hnd0 & Hpos0).
  assert (Hnd1 : NoDup rem1) by (apply rm_all_NoDup; exact Hnd0).
  assert (Hlen1 : length rem1 < f).
  { pose proof (rm_all_length (ae_sibs e) (remove_nat pos rem)). pose proof (remove_nat_length_mem pos rem Em). unfold rem1. lia. }
  assert (Hsub1 : forall x, mem_nat x rem1 = true -> mem_nat x rem = true).
  { intros x Hx. eapply mem_remove_sub. eapply rm_all_sub. exact Hx. }
  assert (Hpos1 : mem_nat pos rem1 = false).
  { destruct (mem_nat pos rem1) eqn:M; [|reflexivity]. apply rm_all_sub in M. congruence. }
  assert (Hinv1 : Inv (pos :: stk) rem1 done).
  { intros p Hp0 Hp1. destruct (mem_nat p rem) eqn:Mp.
    - right. destruct (mem_nat p (remove_nat pos rem)) eqn:Mq.
      + exists pos. split; [left; reflexivity|]. right. exists e. split; [exact Ee|]. eapply rm_all_other; eassumption.
      + exists pos. split; [left; reflexivity|]. left. eapply mem_remove_other; eassumption.
    - destruct (Hinv p Hp0 Mp) as [K|(a & Ha & K)]; [left; exact K|right]. exists a. split; [right; exact Ha|exact K]. }
  (* the dependencies *)
  assert (Hfold : exists code2 rem2,
            (if is_some_constant e icc then ([], rem1) else
             fold_left (fun acc d => match find_aeq r d with
                                     | Some de => if dep_wanted r icc efd de
                                                  then let '(c, rm) := gen_eq r sfx f icc efd d (snd acc) in (fst acc ++ c, rm)
                                                  else acc
                                     | None => acc end) (system_deps r sfx e) ([], rem1)) = (code2, rem2)).
  { destruct (if is_some_constant e icc then _ else _) as [c2 r2]. exists c2, r2. reflexivity. }
  destruct Hfold as (code2 & rem2 & Hfold). rewrite Hfold in H. inversion H; subst code rem'. clear H.
  assert (Hsub : forall d, In d (ae_deps e) -> In d (system_deps r sfx e)).
  { intros d Hd. unfold system_deps, sfx, sibling_fix. apply in_or_app; left; exact Hd. }
  assert (Hrank1 : forall d de, In d (system_deps r sfx e) -> find_aeq r d = Some de -> dep_wanted r icc efd de = true ->
                    forall a, In a (pos :: stk) -> rank d < rank a).
  { intros d de Hd Hde Hw a Ha.
    assert (Hnode : ae_type de <> QOde).
    { unfold dep_wanted in Hw. apply andb_true_iff in Hw. destruct Hw as (Hw & _). apply andb_true_iff in Hw. destruct Hw as (Hw & _).
      intro K. rewrite K in Hw. discriminate. }
    assert (Hlt : rank d < rank pos).
    { destruct Hacy as (A1 & A2). rewrite <- Hepos.
      assert (Hcases : In d (ae_deps e) \/ exists sb se, In sb (ae_sibs e) /\ find_aeq r sb = Some se /\ In d (ae_deps se)).
      { unfold system_deps, sfx, sibling_fix in Hd.
        apply in_app_or in Hd. destruct Hd as [Hd|Hd]; [left; exact Hd|right].
        apply in_flat_map in Hd. destruct Hd as (sb & Hsb & Hd). destruct (find_aeq r sb) as [se|] eqn:Ese; [|destruct Hd].
        exists sb, se. repeat split; assumption. }
      destruct Hcases as [Hd1|(sb & se & Hsb & Hse & Hd1)].
      - eapply A1; [exact HeIn|exact Hd1|exact Hde|exact Hnode].
      - destruct (find_aeq_In _ _ _ Hse) as (S1 & S2).
        pose proof (A1 se d de S1 Hd1 Hde Hnode) as K1. pose proof (A2 e sb HeIn Hsb) as K2. rewrite S2 in K1. lia. }
    destruct Ha as [<-|Ha]; [exact Hlt|]. specialize (Hrank a Ha). lia. }
  assert (Hdeps : ordered_all r icc efd rem0 done code2 = true /\ Inv (pos :: stk) rem2 (done ++ clos code2) /\ NoDup rem2 /\
                  length rem2 <= length rem1 /\ (forall x, mem_nat x rem2 = true -> mem_nat x rem1 = true) /\
                  (is_some_constant e icc = false ->
                   forall d de, In d (system_deps r sfx e) -> find_aeq r d = Some de -> dep_wanted r icc efd de = true -> mem_nat d rem2 = false)).
  { destruct (is_some_constant e icc) eqn:Ec.
    - inversion Hfold; subst. cbn [clos flat_map]. rewrite app_nil_r.
      split; [reflexivity|]. split; [exact Hinv1|]. split; [exact Hnd1|]. split; [lia|]. split; [auto|discriminate].
    - change (fun acc d => _) with (step f) in Hfold.
      destruct (deps_fold_inv f IH (system_deps r sfx e) (pos :: stk) [] rem1 code2 rem2 done Hfold Hlen1 Hnd1 Hrank1) as (A & B & C & D & E & F).
      { cbn [clos flat_map]. rewrite app_nil_r. exact Hinv1. }
      { reflexivity. }
      split; [exact A|]. split; [exact B|]. split; [exact C|]. split; [exact D|]. split; [exact E|]. intros _. exact F. }
  destruct Hdeps as (D1 & D2 & D3 & D4 & D5 & D6).
  unfold gen_post. rewrite ordered_all_app, D1. cbn [andb ordered_all]. rewrite Ee.
  assert (Hpos2 : mem_nat pos rem2 = false).
  { destruct (mem_nat pos rem2) eqn:M; [|reflexivity]. apply D5 in M. congruence. }
  repeat split.
  - (* the emission of pos itself *)
    rewrite andb_true_r. destruct (is_some_constant e icc) eqn:Hc; [reflexivity|].
    apply forallb_forall. intros d Hd. destruct (find_aeq r d) as [de|] eqn:Ede; [|reflexivity].
    destruct (dep_wanted r icc efd de) eqn:Ew; [|reflexivity]. cbn [negb orb].
    unfold covered. destruct (mem_nat d rem0) eqn:M0; [|reflexivity]. cbn [negb orb].
    pose proof (D6 eq_refl d de Hd Ede Ew) as Md.
    destruct (D2 d M0 Md) as [K|(a & Ha & K)]; [apply mem_nat_In; exact K|exfalso].
    pose proof (Hrank1 d de Hd Ede Ew a Ha) as Hlt.
    destruct K as [->|(ea & Hea & Hsib)]; [lia|].
    destruct Hacy as (_ & A2). destruct (find_aeq_In _ _ _ Hea) as (I1 & I2).
    pose proof (A2 ea d I1 Hsib) as K. rewrite I2 in K. lia.
  - (* the invariant, with pos and its siblings now done *)
    rewrite clos_app. cbn [clos flat_map]. rewrite Ee, app_nil_r.
    intros p Hp0 Hp2. destruct (D2 p Hp0 Hp2) as [K|(a & [<-|Ha] & K)].
    + left. rewrite app_assoc. apply in_or_app. left. exact K.
    + left. apply in_or_app. right. apply in_or_app. right.
      destruct K as [->|(e' & He' & Hs)]; [left; reflexivity|]. right. congruence.
    + right. exists a. split; assumption.
  - intros _. exact Hpos2.
  - intros x Hx. apply Hsub1. apply D5. exact Hx.
  - pose proof (rm_all_length (ae_sibs e) (remove_nat pos rem)). pose proof (remove_nat_length pos rem). unfold rem1 in *. lia.
  - exact D3.
Qed.

(* ------------------------------------------------------------------ method bodies: top-level calls *)

Lemma eq_positions_app : forall a b, eq_positions (a ++ b) = eq_positions a ++ eq_positions b.
Proof.
  intros a b. unfold eq_positions. induction a as [|x t IH]; cbn; [reflexivity|]. destruct x; cbn; rewrite IH; reflexivity.
Qed.

Lemma eq_positions_SEq : forall c, eq_positions (map SEq c) = c.
Proof. induction c as [|x t IH]; cbn; [reflexivity|]. unfold eq_positions in *. cbn. rewrite IH. reflexivity. Qed.

Definition top_ok (acc : list stmt * list nat) : Prop :=
  ordered_all r icc efd rem0 [] (eq_positions (fst acc)) = true /\ Inv [] (snd acc) (clos (eq_positions (fst acc))) /\ NoDup (snd acc).

Lemma gen_top_ok : forall acc pos, top_ok acc -> top_ok (gen_top r sfx icc efd acc pos).
Proof.
  intros [code rem] pos (A & B & C). unfold gen_top. cbn [fst snd] in *.
  destruct (gen_eq r sfx (S (length rem)) icc efd pos rem) as [c rm] eqn:Eg.
  destruct (gen_eq_inv (S (length rem)) pos rem c rm [] (clos (eq_positions code)) Eg) as (G1 & G2 & _ & _ & _ & G6); try assumption; try lia.
  { intros a []. }
  unfold top_ok. cbn [fst snd]. rewrite eq_positions_app, eq_positions_SEq. split; [|split].
  - rewrite ordered_all_app, A. cbn [app]. exact G1.
  - rewrite clos_app. exact G2.
  - exact G6.
Qed.

Lemma fold_top_ok : forall (sel : aeq -> bool) es acc,
  top_ok acc -> top_ok (fold_left (fun a e => if sel e then gen_top r sfx icc efd a (ae_pos e) else a) es acc).
Proof.
  intros sel es. induction es as [|e t IH]; intros acc H; cbn [fold_left]; [exact H|].
  apply IH. destruct (sel e); [apply gen_top_ok; exact H|exact H].
Qed.

Lemma top_ok_start : forall rem, rem = rem0 -> NoDup rem -> top_ok ([], rem).
Proof.
  intros rem -> Hnd. unfold top_ok. cbn. split; [reflexivity|]. split; [|exact Hnd].
  intros p H1 H2. congruence.
Qed.

End Emit.

(** ** emit_dependencies_first: the three computing methods.  [rem] = remainingEquations when the method starts
    (what the earlier methods left), so "covered" = emitted earlier in this body, or by an earlier method. *)
Theorem emit_dependencies_first_constants : forall r rank rem, acyclic_by r rank -> NoDup rem ->
  ordered_all r true [] rem [] (eq_positions (fst (computed_constants_body r sfx rem))) = true.
Proof.
  intros r rank rem Ha Hnd. unfold computed_constants_body.
  apply (fold_top_ok r rank Ha true [] rem (fun e => qtype_eqb (ae_type e) QVarBasedConst)). apply top_ok_start; [reflexivity|exact Hnd].
Qed.

Theorem emit_dependencies_first_rates : forall r rank rem, acyclic_by r rank -> NoDup rem ->
  ordered_all r true [] rem [] (eq_positions (fst (rates_body r sfx rem))) = true.
Proof.
  intros r rank rem Ha Hnd. unfold rates_body. destruct (has_odes r); [|reflexivity].
  apply (fold_top_ok r rank Ha true [] rem (is_rate_equation r)). apply top_ok_start; [reflexivity|exact Hnd].
Qed.

Theorem emit_dependencies_first_variables : forall r rank rem, acyclic_by r rank -> NoDup (all_pos r) ->
  ordered_all r false rem (all_pos r) [] (eq_positions (variables_body r sfx rem)) = true.
Proof.
  intros r rank rem Ha Hnd. unfold variables_body.
  apply (fold_top_ok r rank Ha false rem (all_pos r) (fun e => mem_nat (ae_pos e) rem || to_be_computed_again r e)).
  apply top_ok_start; [reflexivity|exact Hnd].
Qed.

(** what [ordered_all] says, spelled out: wherever the code of a non-constant equation p stands in the body, every
    dependency d of p or of an NLA sibling of p that the generator wants and that was still to be generated when the
    method started stands before it — itself, or an NLA sibling of it (one findRoot call computes the system) *)
Lemma ordered_all_means : forall r icc efd rem0 code done,
  ordered_all r icc efd rem0 done code = true ->
  forall l1 p l2 e d de, code = l1 ++ p :: l2 -> find_aeq r p = Some e -> is_some_constant e icc = false ->
    In d (system_deps r sfx e) -> find_aeq r d = Some de -> dep_wanted r icc efd de = true -> mem_nat d rem0 = true ->
    In d done \/ exists q, In q l1 /\ (d = q \/ exists eq, find_aeq r q = Some eq /\ In d (ae_sibs eq)).
Proof.
  intros r icc efd rem0 code. induction code as [|x t IH]; intros done H l1 p l2 e d de Hc He Hx Hd Hde Hw Hm.
  - destruct l1; discriminate.
  - cbn [ordered_all] in H. destruct (find_aeq r x) as [ex|] eqn:Eex; [|discriminate].
    apply andb_true_iff in H. destruct H as (H1 & H2).
    destruct l1 as [|y l1'].
    + cbn in Hc. inversion Hc; subst. rewrite He in Eex. inversion Eex; subst ex.
      rewrite Hx in H1. rewrite forallb_forall in H1. specialize (H1 d Hd). rewrite Hde, Hw in H1.
      cbn [negb orb] in H1. unfold covered in H1. rewrite Hm in H1. cbn in H1. left. apply mem_nat_In. exact H1.
    + cbn in Hc. inversion Hc; subst.
      destruct (IH _ H2 l1' p l2 e d de eq_refl He Hx Hd Hde Hw Hm) as [K|(q & Hq & K)].
      * apply in_app_or in K. destruct K as [K|K]; [left; exact K|right].
        exists y. split; [left; reflexivity|]. destruct K as [<-|K]; [left; reflexivity|right]. exists ex. split; assumption.
      * right. exists q. split; [right; exact Hq|exact K].
Qed.

(** ** emit_each_once *)
Lemma NoDup_app_intro {A} (a b : list A) :
  NoDup a -> NoDup b -> (forall x, In x a -> ~ In x b) -> NoDup (a ++ b).
Proof.
  induction a as [|x t IH]; intros Ha Hb Hd; [exact Hb|].
  inversion Ha; subst. cbn. constructor.
  - intro K. apply in_app_or in K. destruct K as [K|K]; [contradiction|]. exact (Hd x (or_introl eq_refl) K).
  - apply IH; [assumption|assumption|]. intros y Hy. apply Hd. right. exact Hy.
Qed.

Section Once.
Variable r : result.

(* the code emitted by one call: positions still remaining before it and no longer afterwards, each once *)
Definition once_post (rem : list nat) (code rem' : list nat) : Prop :=
  NoDup code /\ NoDup rem' /\ (forall x, In x code -> mem_nat x rem = true /\ mem_nat x rem' = false) /\
  (forall x, mem_nat x rem' = true -> mem_nat x rem = true).

Lemma once_nil rem : NoDup rem -> once_post rem [] rem.
Proof.
  intros H. split; [constructor|split; [exact H|split]].
  - intros x [].
  - intros x Hx. exact Hx.
Qed.

Definition dstep (f : nat) (icc : bool) (efd : list nat) (acc : list nat * list nat) (d : nat) : list nat * list nat :=
  match find_aeq r d with
  | Some de => if dep_wanted r icc efd de
               then let '(c, rm) := gen_eq r sfx f icc efd d (snd acc) in (fst acc ++ c, rm)
               else acc
  | None => acc
  end.

Lemma once_fold icc efd f :
  (forall pos rem code rem', gen_eq r sfx f icc efd pos rem = (code, rem') -> NoDup rem -> once_post rem code rem') ->
  forall deps R0 c rm c2 rm2,
    fold_left (dstep f icc efd) deps (c, rm) = (c2, rm2) -> once_post R0 c rm -> once_post R0 c2 rm2.
Proof.
  intros IH deps. induction deps as [|d t IHd]; intros R0 c rm c2 rm2 H P; cbn [fold_left] in H.
  - inversion H; subst. exact P.
  - unfold dstep at 2 in H. cbn [fst snd] in H. destruct (find_aeq r d) as [de|]; [|eapply IHd; eassumption].
    destruct (dep_wanted r icc efd de); [|eapply IHd; eassumption].
    destruct (gen_eq r sfx f icc efd d rm) as [c' rm'] eqn:Eg.
    destruct P as (P1 & P2 & P3 & P4).
    destruct (IH _ _ _ _ Eg P2) as (Q1 & Q2 & Q3 & Q4).
    eapply IHd; [exact H|]. split; [|split; [exact Q2|split]].
    + apply NoDup_app_intro; [exact P1|exact Q1|]. intros x Hx Hx'.
      destruct (P3 x Hx) as (_ & A). destruct (Q3 x Hx') as (B & _). congruence.
    + intros x Hx. apply in_app_or in Hx. destruct Hx as [Hx|Hx].
      * destruct (P3 x Hx) as (A & B). split; [exact A|]. destruct (mem_nat x rm') eqn:M; [|reflexivity].
        apply Q4 in M. congruence.
      * destruct (Q3 x Hx) as (A & B). split; [apply P4; exact A|exact B].
    + intros x Hx. apply P4. apply Q4. exact Hx.
Qed.

Lemma gen_eq_once : forall f icc efd pos rem code rem',
  gen_eq r sfx f icc efd pos rem = (code, rem') -> NoDup rem -> once_post rem code rem'.
Proof.
  induction f as [|f IH]; intros icc efd pos rem code rem' H Hnd.
  - cbn in H. inversion H; subst. apply once_nil. exact Hnd.
  - cbn [gen_eq] in H.
    destruct (mem_nat pos rem) eqn:Em; cbn [negb] in H.
    2:{ inversion H; subst. apply once_nil. exact Hnd. }
    destruct (find_aeq r pos) as [e|] eqn:Ee.
    2:{ inversion H; subst. apply once_nil. exact Hnd. }
    change (fold_left (fun l sib => remove_nat sib l) (ae_sibs e) (remove_nat pos rem)) with (rm_all (ae_sibs e) (remove_nat pos rem)) in H.
    set (rem1 := rm_all (ae_sibs e) (remove_nat pos rem)) in *.
    destruct (remove_nat_NoDup pos rem Hnd) as (Hnd0 & Hpos0).
    assert (Hnd1 : NoDup rem1) by (apply rm_all_NoDup; exact Hnd0).
    assert (Hsub1 : forall x, mem_nat x rem1 = true -> mem_nat x rem = true).
    { intros x Hx. eapply mem_remove_sub. eapply rm_all_sub. exact Hx. }
    assert (Hpos1 : mem_nat pos rem1 = false).
    { destruct (mem_nat pos rem1) eqn:M; [|reflexivity]. apply rm_all_sub in M. congruence. }
    assert (Hfold : exists code2 rem2,
              (if is_some_constant e icc then ([], rem1) else fold_left (dstep f icc efd) (system_deps r sfx e) ([], rem1)) = (code2, rem2)).
    { destruct (if is_some_constant e icc then _ else _) as [c2 r2]. exists c2, r2. reflexivity. }
    destruct Hfold as (code2 & rem2 & Hfold).
    change (fun acc d => match find_aeq r d with
                         | Some de => if dep_wanted r icc efd de
                                      then let '(c, rm) := gen_eq r sfx f icc efd d (snd acc) in (fst acc ++ c, rm)
                                      else acc
                         | None => acc end) with (dstep f icc efd) in H.
    rewrite Hfold in H. inversion H; subst code rem'. clear H.
    assert (P : once_post rem1 code2 rem2).
    { destruct (is_some_constant e icc).
      - inversion Hfold; subst. apply once_nil. exact Hnd1.
      - eapply once_fold; [intros; eapply IH; eassumption|exact Hfold|]. apply once_nil. exact Hnd1. }
    destruct P as (P1 & P2 & P3 & P4).
    assert (Hpos2 : mem_nat pos rem2 = false).
    { destruct (mem_nat pos rem2) eqn:M; [|reflexivity]. apply P4 in M. congruence. }
    split; [|split; [exact P2|split]].
    + apply NoDup_app_intro; [exact P1|repeat constructor; intros []|].
      intros x Hx [E|[]]. subst x. destruct (P3 pos Hx) as (A & _). congruence.
    + intros x Hx. apply in_app_or in Hx. destruct Hx as [Hx|[E|[]]].
      * destruct (P3 x Hx) as (A & B). split; [apply Hsub1; exact A|exact B].
      * subst x. split; [exact Em|exact Hpos2].
    + intros x Hx. apply Hsub1. apply P4. exact Hx.
Qed.

(* a sequence of top-level calls (the loop of a method body) *)
Definition body_post (rem : list nat) (acc : list stmt * list nat) : Prop :=
  once_post rem (eq_positions (fst acc)) (snd acc).

Lemma gen_top_once icc efd rem acc pos :
  body_post rem acc -> body_post rem (gen_top r sfx icc efd acc pos).
Proof.
  destruct acc as [code rm]. intros (P1 & P2 & P3 & P4). unfold gen_top, body_post. cbn [fst snd] in *.
  destruct (gen_eq r sfx (S (length rm)) icc efd pos rm) as [c rm'] eqn:Eg.
  destruct (gen_eq_once _ _ _ _ _ _ _ Eg P2) as (Q1 & Q2 & Q3 & Q4).
  cbn [fst snd]. rewrite eq_positions_app, eq_positions_SEq.
  split; [|split; [exact Q2|split]].
  - apply NoDup_app_intro; [exact P1|exact Q1|]. intros x Hx Hx'.
    destruct (P3 x Hx) as (_ & A). destruct (Q3 x Hx') as (B & _). congruence.
  - intros x Hx. apply in_app_or in Hx. destruct Hx as [Hx|Hx].
    + destruct (P3 x Hx) as (A & B). split; [exact A|]. destruct (mem_nat x rm') eqn:M; [|reflexivity].
      apply Q4 in M. congruence.
    + destruct (Q3 x Hx) as (A & B). split; [apply P4; exact A|exact B].
  - intros x Hx. apply P4. apply Q4. exact Hx.
Qed.

Lemma fold_top_once icc efd rem (sel : aeq -> bool) es acc :
  body_post rem acc -> body_post rem (fold_left (fun a e => if sel e then gen_top r sfx icc efd a (ae_pos e) else a) es acc).
Proof.
  revert acc. induction es as [|e t IH]; intros acc H; cbn [fold_left]; [exact H|].
  apply IH. destruct (sel e); [apply gen_top_once; exact H|exact H].
Qed.

Lemma body_post_start rem : NoDup rem -> body_post rem ([], rem).
Proof. intros H. unfold body_post. cbn. apply once_nil. exact H. Qed.

End Once.

(** each of the three computing methods emits an equation at most once, only equations that were still remaining,
    and removes them from remainingEquations (so no later method emits them again, computeVariables excepted, which
    starts from all equations on purpose) *)
Theorem emit_each_once_constants : forall r rem, NoDup rem ->
  once_post rem (eq_positions (fst (computed_constants_body r sfx rem))) (snd (computed_constants_body r sfx rem)).
Proof. intros r rem H. unfold computed_constants_body. apply (fold_top_once r true [] rem). apply body_post_start. exact H. Qed.

Theorem emit_each_once_rates : forall r rem, NoDup rem ->
  once_post rem (eq_positions (fst (rates_body r sfx rem))) (snd (rates_body r sfx rem)).
Proof.
  intros r rem H. unfold rates_body. destruct (has_odes r).
  - apply (fold_top_once r true [] rem). apply body_post_start. exact H.
  - apply body_post_start. exact H.
Qed.

Theorem emit_each_once_variables : forall r rem, NoDup (all_pos r) -> NoDup (eq_positions (variables_body r sfx rem)).
Proof.
  intros r rem H. unfold variables_body.
  destruct (fold_top_once r false rem (all_pos r) (fun e => mem_nat (ae_pos e) rem || to_be_computed_again r e) (r_eqs r) ([], all_pos r)
              (body_post_start (all_pos r) H)) as (P & _). exact P.
Qed.

(* computeComputedConstants and computeRates never emit the same equation *)
Corollary emit_each_once_across : forall r rem, NoDup rem ->
  let c := computed_constants_body r sfx rem in
  NoDup (eq_positions (fst c) ++ eq_positions (fst (rates_body r sfx (snd c)))).
Proof.
  intros r rem H c. destruct (emit_each_once_constants r rem H) as (A1 & A2 & A3 & A4).
  destruct (emit_each_once_rates r (snd c) A2) as (B1 & B2 & B3 & B4).
  apply NoDup_app_intro; [exact A1|exact B1|]. intros x Hx Hx'.
  destruct (A3 x Hx) as (_ & K1). destruct (B3 x Hx') as (K2 & _). unfold c in *. congruence.
Qed.

(** ** what the dependency mechanism does not order *)

(* rates: the check passes when no emitted equation reads a rate (the exact exclusion of
   C03-rate-used-before-computed: ODE dependencies are never followed, and a rate read is not even a dependency) *)
Lemma rate_reads_ok_partial : forall rate_reads code done,
  (forall p, In p code -> rate_reads p = []) -> rate_reads_ok rate_reads done code = true.
Proof.
  intros rr code. induction code as [|p t IH]; intros done H; [reflexivity|].
  cbn [rate_reads_ok]. rewrite (H p (or_introl eq_refl)). cbn. apply IH. intros q Hq. apply H. right. exact Hq.
Qed.

(* initial values by reference.  initialiseVariables assigns the variables in array order; [vars] = (index, gets
   an initialisation statement) in that order.  The check passes when every variable named by an initial value has
   its own initialisation statement EARLIER in that order (the exact exclusion of C03-initial-value-reference-order) *)
Definition init_stmts (vars : list (nat * bool)%type) : list stmt :=
  flat_map (fun ie : (nat * bool)%type => if snd ie then [SInit false (fst ie)] else []) vars.

Lemma init_refs_ok_partial : forall init_ref vars done,
  (forall pre i post j, vars = pre ++ (i, true) :: post -> init_ref i = Some j ->
     mem_nat j done = true \/ In (j, true) pre) ->
  init_refs_ok init_ref done (init_stmts vars) = true.
Proof.
  intros ir vars. induction vars as [|[i0 e0] t IH]; intros done H; [reflexivity|].
  unfold init_stmts. cbn [flat_map fst snd]. fold (init_stmts t). destruct e0; cbn [app].
  - cbn [init_refs_ok]. apply andb_true_iff. split.
    + destruct (ir i0) as [j|] eqn:E; [|reflexivity].
      destruct (H [] i0 t j eq_refl E) as [K|[]]. exact K.
    + apply IH. intros pre i post j Ht Hi.
      destruct (H ((i0, true) :: pre) i post j) as [K|K]; [rewrite Ht; reflexivity|exact Hi| |].
      * left. apply mem_nat_In. apply in_or_app. left. apply mem_nat_In. exact K.
      * destruct K as [K|K]; [|right; exact K]. inversion K; subst. left. apply mem_nat_In. apply in_or_app. right. left. reflexivity.
  - apply IH. intros pre i post j Ht Hi.
    destruct (H ((i0, false) :: pre) i post j) as [K|K]; [rewrite Ht; reflexivity|exact Hi|left; exact K|].
    destruct K as [K|K]; [discriminate K|right; exact K].
Qed.

(** witnesses (kernel-evaluated), as the real library emits them *)
Definition ode (pos idx : nat) : aeq := mkAeq pos None QOde [(0, idx)] [] None [].
Definition st (idx pos : nat) : avar := mkAvar (0, idx) AState idx (Some (0, idx)) [pos].

(* dy/dt = 2*dx/dt declared before dx/dt = 3: computeRates is "rates[0] = 2.0*rates[1]; rates[1] = 3.0;" *)
Definition r_rates : result := mkResult MOde [] (Some (0, 9)) [st 0 0; st 1 1] [] [ode 0 0; ode 1 1] [].
Definition r_rates_reads (p : nat) : list nat := if p =? 0 then [1] else [].

Lemma r_rates_acyclic : acyclic_by r_rates (fun _ => 0).
Proof.
  split.
  - intros e d de He Hd. cbn in He. destruct He as [<-|[<-|[]]]; destruct Hd.
  - intros e sib He Hs. cbn in He. destruct He as [<-|[<-|[]]]; destruct Hs.
Qed.

Theorem emit_rates_refuted :
  acyclic_by r_rates (fun _ => 0)
  /\ body_slots r_rates (b_rates (emission r_rates)) = [SlRate 0; SlRate 1]
  /\ ordered_all r_rates true [] (all_pos r_rates) [] (eq_positions (b_rates (emission r_rates))) = true
  /\ rate_reads_ok r_rates_reads [] (eq_positions (b_rates (emission r_rates))) = false.
Proof. split; [exact r_rates_acyclic|]. vm_compute. repeat split. Qed.

(* a initial_value="b" with b declared after a: initialiseVariables is "variables[0] = variables[1]; variables[1] = 2.0;" *)
Definition cst (idx : nat) : avar := mkAvar (1, idx) AConstant idx (Some (1, idx)) [].
Definition r_init : result := mkResult MAlgebraic [] None [] [cst 0; cst 1] [] [].
Definition r_init_ref (i : nat) : option nat := if i =? 0 then Some 1 else None.

Theorem emit_init_refuted :
  body_slots r_init (b_init (emission r_init)) = [SlVariable 0; SlVariable 1]
  /\ init_refs_ok r_init_ref [] (b_init (emission r_init)) = false.
Proof. vm_compute. repeat split. Qed.
