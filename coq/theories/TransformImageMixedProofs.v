(** TransformImageMixedProofs.v — C14: the image theorem WITHOUT purity hypothesis.  What the permissive parser does with
    CellML 2.0-namespaced elements inside a 1.0 / 1.1 document:
      reset (2.0) inside a 1.x component        LOADED AS IS by loadReset, against the variables that precede it in the component
      encapsulation (2.0) child of the model     its id attribute becomes the model's encapsulation id (the last one wins), another
                                                 attribute is an ENCAPSULATION_ELEMENT error, without children an ENCAPSULATION_CHILD
                                                 warning; with children it COUNTS AS AN ENCAPSULATION NODE next to the 1.x groups
                                                 (its component_ref children must still be 1.x elements)
      connection (2.0) child of the model        COUNTS AS A CONNECTION next to the 1.x ones (read through map_components)
    Definitions of the general image first, then the lemmas. *)
From Coq Require Import String Ascii List Bool ZArith Arith.
From LC Require Import Common NumDefs XmlDefs EntTreeDefs PrintDefs LoadDefs Load1xDefs Load1xProofs TransformImageProofs.
Import ListNotations.
Local Open Scope string_scope.
Local Open Scope bool_scope.
Local Open Scope list_scope.

Section Mixed.
Variable E : env.
Variable fx fi fd : bool.

(** ** component: resets are read against the variables met so far *)
Fixpoint doc_resets (vs : list variable) (ks : list xml) : list reset :=
  match ks with
  | [] => []
  | k :: r =>
    if is_cellml_any "variable" k then doc_resets (vs ++ [fst (load_variable1 fi k)]) r
    else if is_cellml20 "reset" k then fst (load_reset E vs k) :: doc_resets vs r
    else doc_resets vs r
  end.

Fixpoint doc_comp_issues (vs : list variable) (ks : list xml) : list issue :=
  match ks with
  | [] => []
  | k :: r =>
    if is_cellml_any "variable" k then snd (load_variable1 fi k) ++ doc_comp_issues (vs ++ [fst (load_variable1 fi k)]) r
    else if is_cellml20 "reset" k then snd (load_reset E vs k) ++ doc_comp_issues vs r
    else if is_mathml "math" k then doc_comp_issues vs r
    else match k with
         | Elem _ nm _ _ => if String.eqb nm "units" then doc_comp_issues vs r else msg :: doc_comp_issues vs r
         | _ => stray_msg k ++ doc_comp_issues vs r
         end
  end.

Definition comp_image_g (x : xml) : component :=
  let a := nid_attrs1 (xattrs x) in
  Comp {| c_name := na_name a; c_id := na_id a; c_encid := ""; c_src := None; c_ref := "";
          c_math := doc_math E (xml_kids x) ""; c_vars := doc_vars fi (xml_kids x); c_resets := doc_resets [] (xml_kids x) |} [].

Definition comp_issues_g (x : xml) : list issue :=
  let a := nid_attrs1 (xattrs x) in
  na_issues a ++ (if na_has_name a then [] else [err "COMPONENT_NAME"]) ++ doc_comp_issues [] (xml_kids x).

(** ** the children of the model element *)
Definition enc20_attrs (cur : string) (k : xml) : string * list issue :=
  fold_left (fun s a => if is_id_attr a then (a_val a, snd s) else (fst s, snd s ++ [err "ENCAPSULATION_ELEMENT"])) (xattrs k) (cur, []).

Definition has_kids (k : xml) : bool := match xml_kids k with [] => false | _ => true end.

Fixpoint doc_comps_g (tag : nat) (ks : list xml) : list component :=
  match ks with
  | [] => []
  | k :: r =>
    if is_1x "component" k then comp_image_g k :: doc_comps_g tag r
    else if is_1x "units" k then doc_comps_g tag r
    else if is_1x "import" k then snd (fst (load_import1 tag k)) ++ doc_comps_g (S tag) r
    else doc_comps_g tag r
  end.

Definition doc_encs_g (ks : list xml) : list xml :=
  filter (fun k => negb (is_cui k)
                   && ((is_cellml20 "encapsulation" k && has_kids k)
                       || (negb (is_cellml20 "encapsulation" k) && negb (is_cellml20 "connection" k) && is_1x "group" k && is_enc_rel k))) ks.

Definition doc_conns_g (ks : list xml) : list xml :=
  filter (fun k => negb (is_cui k) && negb (is_cellml20 "encapsulation" k)
                   && (is_cellml20 "connection" k || (negb (is_1x "group" k) && is_1x "connection" k))) ks.

Fixpoint doc_encid (cur : string) (ks : list xml) : string :=
  match ks with
  | [] => cur
  | k :: r => if negb (is_cui k) && is_cellml20 "encapsulation" k then doc_encid (fst (enc20_attrs cur k)) r else doc_encid cur r
  end.

Fixpoint doc_kid_issues_g (tag : nat) (cur : string) (ks : list xml) : list issue :=
  match ks with
  | [] => []
  | k :: r =>
    if is_1x "component" k then comp_issues_g k ++ snd (units_from_component E fd k) ++ doc_kid_issues_g tag cur r
    else if is_1x "units" k then snd (load_units1 E fd k) ++ doc_kid_issues_g tag cur r
    else if is_1x "import" k then snd (load_import1 tag k) ++ doc_kid_issues_g (S tag) cur r
    else if is_cellml20 "encapsulation" k
         then snd (enc20_attrs cur k) ++ (if has_kids k then [] else [warn "ENCAPSULATION_CHILD"])
              ++ doc_kid_issues_g tag (fst (enc20_attrs cur k)) r
    else if is_cellml20 "connection" k || is_1x "group" k || is_1x "connection" k then doc_kid_issues_g tag cur r
    else stray_msg k ++ doc_kid_issues_g tag cur r
  end.

Definition document_image_g (x : xml) : model :=
  let a := nid_attrs1 (xattrs x) in
  let ks := xml_kids x in
  let enc := match doc_encs_g ks with
             | [] => doc_comps_g 0 ks
             | e :: _ => fst (load_encapsulation1 fd (doc_comps_g 0 ks) e)
             end in
  let c := fold_left (load_connection1 fx fd) (doc_conns_g ks) {| cs_comps := enc; cs_eqv := []; cs_used := []; cs_issues := [] |} in
  {| m_name := na_name a; m_id := na_id a; m_encid := doc_encid "" ks; m_units := doc_units E fd 0 ks; m_comps := cs_comps c;
     m_eqv := cs_eqv c |}.

Definition document_issues_g (x : xml) : list issue :=
  let a := nid_attrs1 (xattrs x) in
  let ks := xml_kids x in
  let enc := match doc_encs_g ks with
             | [] => (doc_comps_g 0 ks, [])
             | e :: r => let l := load_encapsulation1 fd (doc_comps_g 0 ks) e in
                         (fst l, snd l ++ match r with [] => [] | _ => [err "MODEL_MORE_THAN_ONE_ENCAPSULATION"] end)
             end in
  let c := fold_left (load_connection1 fx fd) (doc_conns_g ks) {| cs_comps := fst enc; cs_eqv := []; cs_used := []; cs_issues := [] |} in
  [msg] ++ na_issues a ++ doc_kid_issues_g 0 "" ks ++ snd enc ++ cs_issues c ++ link_units_issues (doc_units E fd 0 ks) (cs_comps c).

(** ** lemmas *)
Lemma reset_not_math : forall k, is_cellml20 "reset" k = true -> is_mathml "math" k = false /\ is_cellml_any "variable" k = false.
Proof.
  intros [ns nm a kk|s|] H; try discriminate. unfold is_cellml20, is_element in H. apply andb_true_iff in H. destruct H as [H1 H2].
  apply String.eqb_eq in H1, H2. subst. split; reflexivity.
Qed.

Lemma comp_kids_image_g : forall ks st,
  ck_vars (fold_left (load_component_kid1 E fi) ks st) = ck_vars st ++ doc_vars fi ks
  /\ ck_resets (fold_left (load_component_kid1 E fi) ks st) = ck_resets st ++ doc_resets (ck_vars st) ks
  /\ ck_math (fold_left (load_component_kid1 E fi) ks st) = doc_math E ks (ck_math st)
  /\ ck_issues (fold_left (load_component_kid1 E fi) ks st) = ck_issues st ++ doc_comp_issues (ck_vars st) ks.
Proof.
  induction ks as [|k r IH]; intros st; [cbn; now rewrite !app_nil_r|].
  cbn [fold_left]. destruct (IH (load_component_kid1 E fi st k)) as (I1 & I2 & I3 & I4). rewrite I1, I2, I3, I4. clear IH I1 I2 I3 I4.
  unfold doc_vars, doc_math, is_math_kid. cbn [filter doc_resets doc_comp_issues]. unfold load_component_kid1.
  destruct (is_cellml_any "variable" k) eqn:Ev.
  - cbn [negb andb map ck_vars ck_resets ck_math ck_issues]. repeat split; now rewrite <- ?app_assoc.
  - cbn [negb andb]. destruct (is_cellml20 "reset" k) eqn:Er.
    + destruct (reset_not_math k Er) as [Hm _]. rewrite Hm. cbn [ck_vars ck_resets ck_math ck_issues].
      repeat split; now rewrite <- ?app_assoc.
    + destruct (is_mathml "math" k) eqn:Em.
      * cbn [ck_vars ck_resets ck_math ck_issues fold_left app]. repeat split.
      * destruct k as [ns nm a kk|s|]; [destruct (String.eqb nm "units")|..];
          cbn [ck_vars ck_resets ck_math ck_issues app]; repeat split; now rewrite <- ?app_assoc.
Qed.

Lemma component_image_g : forall x, load_component1 E fi x = (comp_image_g x, comp_issues_g x).
Proof.
  intros x. unfold load_component1, comp_image_g, comp_issues_g.
  destruct (comp_kids_image_g (xml_kids x) ckids_acc0) as (H1 & H2 & H3 & H4). rewrite H1, H2, H3, H4. reflexivity.
Qed.

Lemma model_kids_image_g : forall ks st,
  let r := fold_left (load_model_kid1 E fi fd) ks st in
  ma_comps r = ma_comps st ++ doc_comps_g (ma_imports st) ks
  /\ ma_encs r = ma_encs st ++ doc_encs_g ks
  /\ ma_conns r = ma_conns st ++ doc_conns_g ks
  /\ ma_encid r = doc_encid (ma_encid st) ks
  /\ ma_issues r = ma_issues st ++ doc_kid_issues_g (ma_imports st) (ma_encid st) ks.
Proof.
  induction ks as [|k r IH]; intros st; [cbn; now rewrite !app_nil_r|].
  cbv zeta. cbn [fold_left]. destruct (IH (load_model_kid1 E fi fd st k)) as (I1 & I2 & I3 & I4 & I5). cbv zeta in I1, I2, I3, I4, I5.
  rewrite I1, I2, I3, I4, I5. clear IH I1 I2 I3 I4 I5.
  unfold doc_encs_g, doc_conns_g, is_cui. cbn [doc_comps_g doc_kid_issues_g doc_encid filter]. unfold is_cui. unfold load_model_kid1.
  destruct (is_1x "component" k) eqn:Ec.
  - cbn [orb negb andb ma_comps ma_encs ma_conns ma_encid ma_imports ma_issues]. rewrite component_image_g. cbn [fst snd].
    repeat split; now rewrite <- ?app_assoc.
  - destruct (is_1x "units" k) eqn:Eu;
      [cbn [orb negb andb ma_comps ma_encs ma_conns ma_encid ma_imports ma_issues]; repeat split; now rewrite <- ?app_assoc|].
    destruct (is_1x "import" k) eqn:Ei.
    { destruct (load_import1 (ma_imports st) k) as [[us cs] is]. cbn [orb negb andb fst snd ma_comps ma_encs ma_conns ma_encid ma_imports ma_issues].
      repeat split; now rewrite <- ?app_assoc. }
    cbn [orb negb andb]. destruct (is_cellml20 "encapsulation" k) eqn:Ee.
    { fold (enc20_attrs (ma_encid st) k). unfold has_kids. cbn [negb andb orb].
      destruct (xml_kids k); cbn [ma_comps ma_encs ma_conns ma_encid ma_imports ma_issues andb orb];
        repeat split; rewrite <- ?app_assoc, ?app_nil_r; reflexivity. }
    cbn [negb andb orb]. destruct (is_cellml20 "connection" k) eqn:E2.
    { cbn [negb andb orb ma_comps ma_encs ma_conns ma_encid ma_imports ma_issues]. repeat split; now rewrite <- ?app_assoc. }
    cbn [negb andb orb]. destruct (is_1x "group" k) eqn:Eg.
    { destruct (is_enc_rel k); cbn [orb negb andb ma_comps ma_encs ma_conns ma_encid ma_imports ma_issues]; repeat split; now rewrite <- ?app_assoc. }
    cbn [orb negb andb]. destruct (is_1x "connection" k); cbn [ma_comps ma_encs ma_conns ma_encid ma_imports ma_issues upd_issues];
      repeat split; now rewrite <- ?app_assoc.
Qed.

(** THE THEOREM, for EVERY 1.0 / 1.1 document tree *)
Theorem transform_document_image_g : forall x, is_cellml20 "model" x = false -> is_1x "model" x = true ->
  load1x E fx fi fd false x = (document_image_g x, document_issues_g x).
Proof.
  intros x H20 H1x. unfold load1x. rewrite H20, H1x. cbn [negb andb]. unfold load_1x_root, document_image_g, document_issues_g.
  destruct (model_kids_image_g (xml_kids x) model_acc0) as (I1 & I2 & I3 & I4 & I5). cbv zeta in I1, I2, I3, I4, I5.
  cbn [model_acc0 ma_comps ma_encs ma_conns ma_encid ma_imports ma_issues app] in I1, I2, I3, I4, I5.
  rewrite (model_kids_units E fi fd (xml_kids x) model_acc0), I1, I2, I3, I4, I5. cbn [model_acc0 ma_units ma_imports app].
  destruct (doc_encs_g (xml_kids x)) as [|e r]; reflexivity.
Qed.

End Mixed.
