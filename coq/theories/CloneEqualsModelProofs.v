(* CloneEqualsModelProofs.v -- C11 x C10 bridge for MODELS: abs (clone m) = abs m, hence equals, under the premise that
   every variable's units name resolves in the model to a units with the content of the Units object the variable holds
   (`links_ok`; boolean form `units_links_consistentb`).  That premise is what fixComponentUnits needs: it replaces the
   variable's Units object by the model's first units of that name. *)
From Coq Require Import List String ZArith QArith Bool Arith Lia.
From LC Require Import CloneDefs CloneProofs CloneEqualsProofs EqualsDefs EqualsSpec EqualsAsIs.
Import ListNotations.
Local Open Scope string_scope.
Local Open Scope nat_scope.
Local Open Scope list_scope.

(* ---- decidable equality of EqualsDefs values (for the boolean premise) *)
Lemma q_eq_dec (a b : Q) : {a = b} + {a <> b}.
Proof. decide equality; [apply Pos.eq_dec | apply Z.eq_dec]. Defined.
Lemma aisrc_eq_dec (a b : EqualsDefs.isrc) : {a = b} + {a <> b}.
Proof. decide equality; apply string_dec. Defined.
Lemma aunitdef_eq_dec (a b : EqualsDefs.unitdef) : {a = b} + {a <> b}.
Proof. decide equality; first [apply string_dec | apply q_eq_dec]. Defined.
Lemma aunits_eq_dec (a b : EqualsDefs.units) : {a = b} + {a <> b}.
Proof.
  decide equality; first [apply string_dec | apply (list_eq_dec aunitdef_eq_dec) | idtac].
  decide equality. apply aisrc_eq_dec.
Defined.

(* ---- the premise, on the abstract side *)
Fixpoint find_au (name : string) (l : list EqualsDefs.units) : option EqualsDefs.units :=
  match l with [] => None | u :: r => if String.eqb (EqualsDefs.u_name u) name then Some u else find_au name r end.

Definition var_okb (AU : list EqualsDefs.units) (av : EqualsDefs.variable) : bool :=
  match EqualsDefs.v_units av with
  | Some au => match find_au (EqualsDefs.u_name au) AU with
               | Some au' => if aunits_eq_dec au' au then true else false
               | None => true
               end
  | None => true
  end.
Definition ovar_okb AU (o : option EqualsDefs.variable) : bool := match o with Some v => var_okb AU v | None => true end.
Definition shell_okb AU (s : EqualsDefs.cshell) : bool :=
  forallb (var_okb AU) (EqualsDefs.c_vars s)
  && forallb (fun r => ovar_okb AU (EqualsDefs.r_var r) && ovar_okb AU (EqualsDefs.r_test r)) (EqualsDefs.c_resets s).
Fixpoint comp_okb AU (c : EqualsDefs.component) : bool :=
  match c with EqualsDefs.Comp s kids => shell_okb AU s && forallb (comp_okb AU) kids end.

Section M.
  Variable num : string -> Q.

  Definition abs_model (m : CloneDefs.model) : EqualsDefs.model :=
    {| EqualsDefs.m_name := CloneDefs.m_name m; EqualsDefs.m_id := CloneDefs.m_id m; EqualsDefs.m_encid := CloneDefs.m_encid m;
       EqualsDefs.m_units := map (abs_units num) (CloneDefs.m_units m); EqualsDefs.m_comps := map (abs_comp num) (CloneDefs.m_comps m) |}.

  (* every variable record of the model (component variables and the variables held by resets) links consistently *)
  Definition units_links_consistentb (m : CloneDefs.model) : bool :=
    forallb (comp_okb (map (abs_units num) (CloneDefs.m_units m))) (map (abs_comp num) (CloneDefs.m_comps m)).

  Lemma find_units_abs name us u' : find_units name us = Some u' -> find_au name (map (abs_units num) us) = Some (abs_units num u').
  Proof.
    induction us as [|x r IH]; cbn; [discriminate|]. destruct (String.eqb (CloneDefs.u_name x) name); [intros H; injection H as <-; reflexivity | exact IH].
  Qed.

  Lemma fix_var_abs us cvo v : var_okb (map (abs_units num) us) (abs_var num v) = true ->
    abs_var num (fix_units_var us cvo v) = abs_var num v.
  Proof.
    unfold fix_units_var, var_okb. intros H. destruct (existsb (Nat.eqb (CloneDefs.v_oid v)) cvo); [|reflexivity].
    destruct (CloneDefs.v_units v) as [u|] eqn:Eu; [|reflexivity]. destruct (find_units (CloneDefs.u_name u) us) as [u'|] eqn:Ef; [|reflexivity].
    cbn in H. rewrite Eu in H. cbn in H. rewrite (find_units_abs _ _ _ Ef) in H.
    destruct (aunits_eq_dec (abs_units num u') (abs_units num u)) as [E|]; [|discriminate].
    unfold abs_var. cbn. rewrite Eu. cbn. rewrite E. reflexivity.
  Qed.

  Lemma fix_ovar_abs us cvo o : ovar_okb (map (abs_units num) us) (option_map (abs_var num) o) = true ->
    option_map (abs_var num) (option_map (map_var (fun u => u) (fix_units_var us cvo)) o) = option_map (abs_var num) o.
  Proof. destruct o as [v|]; cbn; [|reflexivity]. intros H. rewrite map_var_idg, fix_var_abs by exact H. reflexivity. Qed.

  Lemma fix_comp_abs us cvo c : comp_okb (map (abs_units num) us) (abs_comp num c) = true ->
    abs_comp num (map_comp (fun i => i) (fun u => u) (fix_units_var us cvo) (fun r => r) (fun c => c) c) = abs_comp num c.
  Proof.
    induction c as [o p id name encid math imp impref vars resets kids IH] using component_ind'.
    rewrite map_comp_unfold. cbn [abs_comp comp_okb]. unfold shell_okb. cbn. rewrite option_map_id'.
    rewrite !andb_true_iff, !forallb_forall. intros [[Hv Hr] Hk].
    assert (E1 : map (abs_var num) (map (map_var (fun u => u) (fix_units_var us cvo)) vars) = map (abs_var num) vars).
    { rewrite map_map. apply map_ext_in. intros v Hin. rewrite map_var_idg. apply fix_var_abs. apply Hv. apply in_map. exact Hin. }
    assert (E2 : map (abs_reset num) (map (map_reset (fun u => u) (fix_units_var us cvo) (fun r => r)) resets) = map (abs_reset num) resets).
    { rewrite map_map. apply map_ext_in. intros r Hin. specialize (Hr (abs_reset num r) (in_map _ _ _ Hin)). cbn in Hr.
      apply andb_true_iff in Hr. destruct Hr as [H1 H2]. unfold map_reset, abs_reset. cbn.
      rewrite (fix_ovar_abs us cvo _ H1), (fix_ovar_abs us cvo _ H2). reflexivity. }
    assert (E3 : map (abs_comp num) (map (map_comp (fun i => i) (fun u => u) (fix_units_var us cvo) (fun r => r) (fun c => c)) kids) = map (abs_comp num) kids).
    { rewrite map_map. apply map_ext_in. intros k Hin. rewrite Forall_forall in IH. apply IH; [exact Hin|]. apply Hk. apply in_map. exact Hin. }
    rewrite E1, E2, E3. reflexivity.
  Qed.

  (* a map that keeps every variable's value keeps the value of the component (used for set_eqs) *)
  Lemma keep_comp_abs f c : (forall v, abs_var num (f v) = abs_var num v) ->
    abs_comp num (map_comp (fun i => i) (fun u => u) f (fun r => r) (fun c => c) c) = abs_comp num c.
  Proof.
    intros Hf. induction c as [o p id name encid math imp impref vars resets kids IH] using component_ind'.
    rewrite map_comp_unfold. cbn [abs_comp]. rewrite option_map_id'.
    assert (Ho : forall o, option_map (abs_var num) (option_map (map_var (fun u => u) f) o) = option_map (abs_var num) o).
    { intros [v|]; cbn; [rewrite map_var_idg, Hf|]; reflexivity. }
    assert (E1 : map (abs_var num) (map (map_var (fun u => u) f) vars) = map (abs_var num) vars).
    { rewrite map_map. apply map_ext. intros v. rewrite map_var_idg. apply Hf. }
    assert (E2 : map (abs_reset num) (map (map_reset (fun u => u) f (fun r => r)) resets) = map (abs_reset num) resets).
    { rewrite map_map. apply map_ext. intros r. unfold map_reset, abs_reset. cbn. rewrite !Ho. reflexivity. }
    assert (E3 : map (abs_comp num) (map (map_comp (fun i => i) (fun u => u) f (fun r => r) (fun c => c)) kids) = map (abs_comp num) kids).
    { rewrite map_map. apply map_ext_in. intros k Hin. rewrite Forall_forall in IH. apply IH. exact Hin. }
    rewrite E1, E2, E3. reflexivity.
  Qed.

  Lemma clone_units_list_abs fx C owner l : forall z l' z',
    coherent C -> imap_ok C z -> incl (flat_map (fun u => opt_list (CloneDefs.u_imp u)) l) C -> Forall wf_units l ->
    clone_units_list fx z owner l = (l', z') -> imap_ok C z' /\ map (abs_units num) l' = map (abs_units num) l.
  Proof.
    induction l as [|u r IHr]; intros z l' z' Hco Hz Hinl Hwl; cbn.
    - intros H. injection H as <- <-. split; [exact Hz | reflexivity].
    - destruct (clone_units_st fx z u) as [u' z1] eqn:Eu. destruct (clone_units_list fx z1 owner r) as [r' z2] eqn:Er.
      intros H. injection H as <- <-. inversion Hwl as [|? ? Wu Wr]; subst. cbn in Hinl.
      apply (clone_units_st_content fx C) in Eu; [|assumption.. | | exact Wu].
      2:{ intros i Ei. apply Hinl. apply in_or_app. left. rewrite Ei. left. reflexivity. }
      destruct Eu as (Ok1 & Cu & _).
      apply IHr in Er; [|assumption.. | intros x Hx; apply Hinl; apply in_or_app; right; exact Hx | exact Wr].
      destruct Er as [Okr Cr]. split; [exact Okr|]. cbn. rewrite Cr. f_equal.
      change (abs_units num (u_set_parent (Some owner) u')) with (abs_units num u'). apply content_units_abs. exact Cu.
  Qed.

  Lemma clone_comps_abs fx C owner l : forall z l' z',
    fx_order fx = true -> fx_encid fx = true -> coherent C -> imap_ok C z -> incl (flat_map comp_imps l) C -> Forall (wfd_comp num) l ->
    clone_comps fx z owner l = (l', z') -> imap_ok C z' /\ map (abs_comp num) l' = map (abs_comp num) l.
  Proof.
    induction l as [|k r IHr]; intros z l' z' Hfo Hfe Hco Hz Hinl Hwl; cbn.
    - intros H. injection H as <- <-. split; [exact Hz | reflexivity].
    - destruct (clone_comp fx z k) as [k' z1] eqn:Ek. destruct (clone_comps fx z1 owner r) as [r' z2] eqn:Er.
      intros H. injection H as <- <-. inversion Hwl as [|? ? Wk Wr]; subst. cbn in Hinl.
      apply (clone_comp_abs num fx C) in Ek; [|assumption.. | intros x Hx; apply Hinl; apply in_or_app; left; exact Hx | exact Wk].
      destruct Ek as [Okk Ck].
      apply IHr in Er; [|assumption.. | intros x Hx; apply Hinl; apply in_or_app; right; exact Hx | exact Wr].
      destruct Er as [Okr Cr]. split; [exact Okr|]. cbn. rewrite abs_comp_set_parent, Ck, Cr. reflexivity.
  Qed.

  Definition wfd_model (m : CloneDefs.model) : Prop :=
    coherent (model_imps m) /\ Forall wf_units (CloneDefs.m_units m) /\ Forall (wfd_comp num) (CloneDefs.m_comps m).

  Theorem clone_model_abs ext n m m' n' :
    wfd_model m -> units_links_consistentb m = true -> clone_model all_fixed ext n m = Some (m', n') -> abs_model m' = abs_model m.
  Proof.
    intros (Hco & Hwu & Hwc) Hl. unfold clone_model.
    destruct (clone_units_list all_fixed (st0 (S n)) n (CloneDefs.m_units m)) as [us s1] eqn:E1.
    destruct (clone_comps all_fixed s1 n (CloneDefs.m_comps m)) as [cs s2] eqn:E2.
    destruct (record_model all_fixed ext m) as [em|]; [|discriminate].
    destruct (apply_map _ em (Some [])) as [E|]; [|discriminate]. intros H. injection H as <- <-.
    apply (clone_units_list_abs all_fixed (model_imps m)) in E1; [|exact Hco | apply imap_ok_st0 | intros x Hx; apply in_or_app; left; exact Hx | exact Hwu].
    destruct E1 as [Ok1 Cu].
    apply (clone_comps_abs all_fixed (model_imps m)) in E2; [|reflexivity | reflexivity | exact Hco | exact Ok1 | intros x Hx; apply in_or_app; right; exact Hx | exact Hwc].
    destruct E2 as [Ok2 Cc].
    unfold abs_model, set_eqs, fix_component_units, map_model. cbn. rewrite !map_id, Cu. f_equal.
    rewrite map_map. rewrite <- Cc. rewrite map_map. apply map_ext_in. intros c Hc.
    rewrite keep_comp_abs by (intros v; reflexivity). apply fix_comp_abs. rewrite Cu.
    unfold units_links_consistentb in Hl. rewrite forallb_forall in Hl. rewrite <- Cc in Hl. apply Hl. apply in_map. exact Hc.
  Qed.

  Theorem clone_model_equals_original neq fl ext n m m' n' : neq_laws neq ->
    wfd_model m -> units_links_consistentb m = true -> clone_model all_fixed ext n m = Some (m', n') ->
    eq_entity neq fl (EModel (abs_model m')) (EModel (abs_model m)) = true.
  Proof. intros L Hw Hl Hc. rewrite (clone_model_abs ext n m m' n' Hw Hl Hc). apply equals_refl_asis. exact L. Qed.
End M.
