(** EqualsDetectValuesProofs.v — C10: every single mutation is seen, for ANY comparison of doubles, on
    chain-free values.  Completes EqualsValuesProofs.v: the "written value differs" side ([changes_emut]) only
    applies the comparison to (value carried by the mutation, value of the entity), so it transfers too. *)
From Coq Require Import String List Bool ZArith QArith Arith Permutation Lia.
From LC Require Import EqualsDefs EqualsSpec EqualsProofs EqualsSimProofs EqualsCorrect EqualsAsIs EqualsMut EqualsExt EqualsValuesProofs.
Import ListNotations.
Local Close Scope Q_scope.
Local Open Scope bool_scope.

(** the exponents / multipliers a mutation writes *)
Definition dbl_dmut (m : dmut) : list Q := match m with DExp q | DMult q => [q] | _ => [] end.
Definition dbl_umut (m : umut) : list Q := match m with UDef _ d => dbl_dmut d | _ => [] end.
Definition dbl_vmut (m : vmut) : list Q := match m with VUnits u => dbl_umut u | _ => [] end.
Definition dbl_ovmut (m : ovmut) : list Q := match m with OVMut v => dbl_vmut v | _ => [] end.
Definition dbl_rmut (m : rmut) : list Q := match m with RVar o | RTest o => dbl_ovmut o | _ => [] end.
Fixpoint dbl_cmut (m : cmut) : list Q :=
  match m with CVar _ v => dbl_vmut v | CReset _ r => dbl_rmut r | CKid _ c => dbl_cmut c | _ => [] end.
Definition dbl_mmut (m : mmut) : list Q := match m with MUnits _ u => dbl_umut u | MComp _ c => dbl_cmut c | _ => [] end.
Definition dbl_emut (m : emut) : list Q :=
  match m with
  | MutModel x => dbl_mmut x | MutComponent x => dbl_cmut x | MutVariable x => dbl_vmut x
  | MutUnits x => dbl_umut x | MutReset x => dbl_rmut x | MutImportSource _ => []
  end.

Section Changes.
  Variables n1 n2 : Q -> Q -> bool.

  Definition agr (M E : list Q) : Prop := forall q x, In q M -> In x E -> n1 q x = n2 q x.

  Lemma agr_incl : forall M E E', incl E' E -> agr M E -> agr M E'.
  Proof. intros M E E' Hi H q x Hq Hx. apply H; [exact Hq|apply Hi; exact Hx]. Qed.

  Lemma ch_at : forall {A} (f g : A -> bool) i l, (forall x, In x l -> f x = g x) -> changes_at f i l = changes_at g i l.
  Proof.
    intros A f g i l H. unfold changes_at. destruct (nth_error l i) as [x|] eqn:Hn; [|reflexivity].
    apply H. eapply nth_error_In. exact Hn.
  Qed.

  Lemma ch_dmut : forall m d, agr (dbl_dmut m) (doubles_ud d) -> changes_dmut n1 m d = changes_dmut n2 m d.
  Proof.
    intros [s|s|q|q|s] d H; cbn [changes_dmut]; try reflexivity; f_equal; apply H; cbn; auto.
  Qed.

  Lemma ch_umut : forall m u, agr (dbl_umut m) (doubles_u u) -> changes_umut n1 m u = changes_umut n2 m u.
  Proof.
    intros [s|s|m|d|i|i m] u H; cbn [changes_umut]; try reflexivity.
    apply ch_at. intros x Hx. apply ch_dmut. eapply agr_incl; [|exact H].
    unfold doubles_u. apply incl_flat_map_in. exact Hx.
  Qed.

  Lemma ch_vmut : forall m v, agr (dbl_vmut m) (doubles_v v) -> changes_vmut n1 m v = changes_vmut n2 m v.
  Proof.
    intros [s|s|s|s|u| |m] v H; cbn [changes_vmut]; try reflexivity.
    unfold doubles_v in H. destruct (v_units v) as [u|]; [|reflexivity]. apply ch_umut. exact H.
  Qed.

  Lemma ch_ovmut : forall m o, agr (dbl_ovmut m) (doubles_ov o) -> changes_ovmut n1 m o = changes_ovmut n2 m o.
  Proof.
    intros [v| |m] [v0|] H; cbn [changes_ovmut]; try reflexivity. apply ch_vmut. exact H.
  Qed.

  Lemma ch_rmut : forall m r, agr (dbl_rmut m) (doubles_r r) -> changes_rmut n1 m r = changes_rmut n2 m r.
  Proof.
    intros [s|z|m|m|s|s|s|s] r H; cbn [changes_rmut]; try reflexivity; apply ch_ovmut; (eapply agr_incl; [|exact H]); unfold doubles_r.
    - apply incl_appl. apply incl_refl.
    - apply incl_appr. apply incl_refl.
  Qed.

  Lemma ch_cmut : forall m c, agr (dbl_cmut m) (doubles_c c) -> changes_cmut n1 m c = changes_cmut n2 m c.
  Proof.
    induction m as [x|x|x|x|m|v|i|i m|r|i|i m|k|i|i m IHm]; intros [s ks] H; cbn [changes_cmut]; try reflexivity.
    - apply ch_at. intros x Hx. apply ch_vmut. eapply agr_incl; [|exact H]. cbn [doubles_c]. unfold doubles_shell.
      apply incl_appl. apply incl_appl. apply incl_flat_map_in. exact Hx.
    - apply ch_at. intros x Hx. apply ch_rmut. eapply agr_incl; [|exact H]. cbn [doubles_c]. unfold doubles_shell.
      apply incl_appl. apply incl_appr. apply incl_flat_map_in. exact Hx.
    - apply ch_at. intros x Hx. apply IHm. eapply agr_incl; [|exact H]. cbn [doubles_c].
      apply incl_appr. apply incl_flat_map_in. exact Hx.
  Qed.

  Lemma ch_mmut : forall m x, agr (dbl_mmut m) (doubles_m x) -> changes_mmut n1 m x = changes_mmut n2 m x.
  Proof.
    intros [s|s|s|u|i|i m|c|i|i m] x H; cbn [changes_mmut]; try reflexivity; apply ch_at; intros y Hy.
    - apply ch_umut. eapply agr_incl; [|exact H]. unfold doubles_m. apply incl_appl. apply incl_flat_map_in. exact Hy.
    - apply ch_cmut. eapply agr_incl; [|exact H]. unfold doubles_m. apply incl_appr. apply incl_flat_map_in. exact Hy.
  Qed.

  Lemma ch_emut : forall m e, agr (dbl_emut m) (doubles_e e) -> changes_emut n1 m e = changes_emut n2 m e.
  Proof.
    intros [m|m|m|m|m|m] [x|x|x|x|x|x] H; cbn [changes_emut]; try reflexivity.
    - apply ch_mmut. exact H.
    - apply ch_cmut. exact H.
    - apply ch_vmut. exact H.
    - apply ch_umut. exact H.
    - apply ch_rmut. exact H.
  Qed.
End Changes.

(** "sees every attribute", for ANY comparison of doubles: a single mutation of any covered attribute / child at any
    path flips equality to false in both directions, provided the written value differs (as judged by [neq]) and
    the values involved — those of the entity, of the mutant and the one the mutation writes — are chain-free *)
Theorem equals_detects_on_values : forall neq mu e e',
  equiv_on neq (dbl_emut mu ++ doubles_e e ++ doubles_e e') ->
  apply_emut mu e = Some e' -> changes_emut neq mu e = true ->
  eq_entity neq flags_fixed e e' = false /\ eq_entity neq flags_fixed e' e = false.
Proof.
  intros neq mu e e' HV Ha Hc. set (V := dbl_emut mu ++ doubles_e e ++ doubles_e e') in *.
  pose proof (extend_laws neq V HV) as L.
  assert (Im : incl (dbl_emut mu) V) by (apply incl_appl; apply incl_refl).
  assert (Ie : incl (doubles_e e) V) by (apply incl_appr; apply incl_appl; apply incl_refl).
  assert (Ie' : incl (doubles_e e') V) by (apply incl_appr; apply incl_appr; apply incl_refl).
  assert (T : forall a b, incl (doubles_e a) V -> incl (doubles_e b) V ->
                          eq_entity neq flags_fixed a b = eq_entity (extend neq V) flags_fixed a b).
  { intros a b Hxa Hxb. apply ext_entity. intros x y Hx Hy. apply Hxa in Hx. apply Hxb in Hy.
    rewrite !extend_on by assumption. split; reflexivity. }
  rewrite (T e e' Ie Ie'), (T e' e Ie' Ie).
  apply (equals_detects (extend neq V) L mu e e' Ha).
  rewrite <- Hc. symmetry. apply ch_emut. intros q x Hq Hx. symmetry. apply extend_on; [apply Im|apply Ie]; assumption.
Qed.

(** the premise cannot be dropped: under the code's absolute tolerance a multiplier changed from 2^-60 to 2^-70
    "differs" for exact comparison but the values chain with each other, and the change is not seen *)
Lemma detects_on_values_refuted :
  let e := w_u (1 # 1152921504606846976)%Q in
  let mu := MutUnits (UDef 0 (DMult (1 # 1180591620717411303424)%Q)) in
  exists e', apply_emut mu e = Some e' /\ changes_emut Qeq_bool mu e = true
    /\ eq_entity neq_abs flags_fixed e e' = true.
Proof. eexists. split; [vm_compute; reflexivity|]. vm_compute. auto. Qed.

(** non-vacuity with the code's comparison (not an equivalence): exponent 2 -> 3 three levels down *)
Example detects_on_values_nonvacuous :
  let u := {| u_name := "u"; u_id := ""; u_imp := None; u_impref := "";
              u_defs := [{| ud_ref := "metre"; ud_prefix := ""; ud_exp := 2; ud_mult := 1; ud_id := "" |}] |} in
  let v := {| v_name := "x"; v_id := ""; v_units := Some u; v_init := ""; v_iface := "" |} in
  let e := EComponent (mkc "a" [] [mkc "b" [v] []]) in
  let mu := MutComponent (CKid 0 (CVar 0 (VUnits (UDef 0 (DExp 3))))) in
  exists e', apply_emut mu e = Some e'
    /\ equiv_onb neq_abs (dbl_emut mu ++ doubles_e e ++ doubles_e e') = true
    /\ changes_emut neq_abs mu e = true
    /\ eq_entity neq_abs flags_fixed e e' = false /\ eq_entity neq_abs flags_fixed e' e = false.
Proof. eexists. split; [vm_compute; reflexivity|]. vm_compute. auto 6. Qed.
