(** Load1xProofs.v — C14: what the permissive parser does with each legacy construct, for EVERY document (lemmas about
    Load1xDefs alone): the interface merge, hoisting of component-level units, liter / meter, the MathML attribute
    rewriting.  Lemmas only. *)
From Coq Require Import String Ascii List Bool ZArith Arith Permutation.
From LC Require Import Common NumDefs XmlDefs EntTreeDefs PrintDefs LoadDefs RoundtripSpec Load1xDefs To1xDefs
     RoundtripReadProofs TransformSimProofs.
Import ListNotations.
Local Open Scope string_scope.
Local Open Scope bool_scope.
Local Open Scope list_scope.

Lemma find_app : forall {A} (f : A -> bool) l1 l2,
  find f (l1 ++ l2) = match find f l1 with Some x => Some x | None => find f l2 end.
Proof. intros A f l1 l2. induction l1 as [|a r IH]; [reflexivity|]. cbn. destruct (f a); [reflexivity|exact IH]. Qed.

Lemma find_none_name : forall nm l, ~ In nm (map a_name l) -> find (attr_is nm) l = None.
Proof.
  intros nm l H. induction l as [|a r IH]; [reflexivity|]. cbn [find].
  destruct (attr_is nm a) eqn:Ea.
  - exfalso. apply H. unfold attr_is in Ea. apply andb_true_iff in Ea. destruct Ea as [_ Ea]. apply String.eqb_eq in Ea. left. now rewrite Ea.
  - apply IH. intros Hin. apply H. now right.
Qed.

(** * the interface merge *)
Section Merge.
Variable fi : bool.

(** the value of an attribute without namespace, if present *)
Definition lookup (nm : string) (l : list attr) : option string := option_map a_val (find (attr_is nm) l).
Definition granted (o : option string) : bool := match o with Some val => grants fi val | None => false end.

(** the CellML 2.0 interface for the two 1.x attributes: THE TABLE *)
Definition merged (pub priv : option string) : string :=
  match granted pub, granted priv with
  | true, true => "public_and_private"
  | true, false => "public"
  | false, true => "private"
  | false, false => ""
  end.

Lemma iface_step : forall st p a, v_iface (va_v st) = merged (lookup "public_interface" p) (lookup "private_interface" p) ->
  ~ In (a_name a) (map a_name p) -> attr_is "interface" a = false ->
  v_iface (va_v (load_variable_attr1 fi st a)) = merged (lookup "public_interface" (p ++ [a])) (lookup "private_interface" (p ++ [a])).
Proof.
  intros st p a Hinv Hnew Hni. unfold lookup in *. rewrite !find_app. cbn [find].
  unfold load_variable_attr1. rewrite Hni.
  destruct (attr_is "name" a) eqn:E1.
  { assert (attr_is "public_interface" a = false /\ attr_is "private_interface" a = false) as [-> ->].
    { unfold attr_is in *. apply andb_true_iff in E1. destruct E1 as [-> E1]. apply String.eqb_eq in E1. rewrite E1. split; reflexivity. }
    cbn. rewrite Hinv. destruct (find _ p), (find _ p); reflexivity. }
  destruct (is_id_attr1 a) eqn:E2.
  { assert (attr_is "public_interface" a = false /\ attr_is "private_interface" a = false) as [-> ->].
    { unfold is_id_attr1, attr_is, attr_is_ns in *. apply orb_true_iff in E2. destruct E2 as [E2|E2]; apply andb_true_iff in E2; destruct E2 as [_ E2];
        apply String.eqb_eq in E2; rewrite E2; rewrite !andb_false_r; split; reflexivity. }
    cbn. rewrite Hinv. destruct (find _ p), (find _ p); reflexivity. }
  destruct (attr_is "units" a) eqn:E3.
  { assert (attr_is "public_interface" a = false /\ attr_is "private_interface" a = false) as [-> ->].
    { unfold attr_is in *. apply andb_true_iff in E3. destruct E3 as [-> E3]. apply String.eqb_eq in E3. rewrite E3. split; reflexivity. }
    cbn. rewrite Hinv. destruct (find _ p), (find _ p); reflexivity. }
  destruct (attr_is "initial_value" a) eqn:E4.
  { assert (attr_is "public_interface" a = false /\ attr_is "private_interface" a = false) as [-> ->].
    { unfold attr_is in *. apply andb_true_iff in E4. destruct E4 as [-> E4]. apply String.eqb_eq in E4. rewrite E4. split; reflexivity. }
    cbn. rewrite Hinv. destruct (find _ p), (find _ p); reflexivity. }
  destruct (attr_is "public_interface" a) eqn:E5.
  { assert (Hpn : a_name a = "public_interface").
    { unfold attr_is in E5. apply andb_true_iff in E5. destruct E5 as [_ E5]. now apply String.eqb_eq in E5. }
    assert (attr_is "private_interface" a = false) as ->.
    { unfold attr_is. rewrite Hpn. now rewrite andb_false_r. }
    rewrite (find_none_name "public_interface" p) in * by (rewrite <- Hpn; exact Hnew).
    unfold merged, granted, option_map in *. unfold merge_public.
    destruct (grants fi (a_val a)); cbn [va_v set_v set_iface v_iface]; rewrite Hinv;
      (destruct (find (attr_is "private_interface") p) as [b|]; [destruct (grants fi (a_val b))|]; reflexivity). }
  destruct (attr_is "private_interface" a) eqn:E6.
  { assert (Hpn : a_name a = "private_interface").
    { unfold attr_is in E6. apply andb_true_iff in E6. destruct E6 as [_ E6]. now apply String.eqb_eq in E6. }
    rewrite (find_none_name "private_interface" p) in * by (rewrite <- Hpn; exact Hnew).
    unfold merged, granted, option_map in *. unfold merge_private.
    destruct (grants fi (a_val a)); cbn [va_v set_v set_iface v_iface]; rewrite Hinv;
      (destruct (find (attr_is "public_interface") p) as [b|]; [destruct (grants fi (a_val b))|]; reflexivity). }
  cbn. rewrite Hinv. destruct (find _ p), (find _ p); reflexivity.
Qed.

Lemma iface_fold : forall l p st, names_distinct (map a_name (p ++ l)) = true -> existsb (attr_is "interface") l = false ->
  v_iface (va_v st) = merged (lookup "public_interface" p) (lookup "private_interface" p) ->
  v_iface (va_v (fold_left (load_variable_attr1 fi) l st))
  = merged (lookup "public_interface" (p ++ l)) (lookup "private_interface" (p ++ l)).
Proof.
  induction l as [|a r IH]; intros p st Hd Hni Hinv; [now rewrite app_nil_r|].
  cbn [existsb] in Hni. apply orb_false_iff in Hni. destruct Hni as [Ha Hr].
  cbn [fold_left]. replace (p ++ a :: r) with ((p ++ [a]) ++ r) by now rewrite <- app_assoc.
  apply IH; [now rewrite <- app_assoc|assumption|].
  apply iface_step; [assumption| |assumption].
  rewrite map_app in Hd. apply names_distinct_app in Hd. destruct Hd as (_ & _ & Hd). intros Hin. apply (Hd _ Hin). now left.
Qed.

(** THE MERGE: for every variable element without an [interface] attribute whose attributes have distinct local names
    (then XmlAttribute::value() is the attribute's own value), in ANY order and among any other attributes: the
    interface is the table entry for the values of public_interface and private_interface *)
Theorem interface_merge : forall ns nm l ks, names_distinct (map a_name l) = true -> existsb (attr_is "interface") l = false ->
  v_iface (fst (load_variable1 fi (Elem ns nm l ks))) = merged (lookup "public_interface" l) (lookup "private_interface" l).
Proof.
  intros ns nm l ks Hd Hni. unfold load_variable1, xattrs. cbn [fst xml_attrs]. rewrite eff_attrs_id by assumption.
  apply (iface_fold l [] var_acc0); [assumption|assumption|reflexivity].
Qed.

Lemma find_perm : forall nm l l', Permutation l l' -> names_distinct (map a_name l) = true ->
  lookup nm l = lookup nm l'.
Proof.
  intros nm l l' Hp Hd. unfold lookup.
  assert (Hd' : names_distinct (map a_name l') = true).
  { apply names_distinct_NoDup. eapply Permutation_NoDup; [apply Permutation_map; exact Hp|]. now apply names_distinct_NoDup. }
  destruct (find (attr_is nm) l) as [a|] eqn:Ea; destruct (find (attr_is nm) l') as [b|] eqn:Eb; try reflexivity.
  - apply find_some in Ea, Eb. destruct Ea as [Ha1 Ha2], Eb as [Hb1 Hb2].
    assert (Hn : a_name b = a_name a).
    { unfold attr_is in *. apply andb_true_iff in Ha2, Hb2. destruct Ha2 as [_ Ha2], Hb2 as [_ Hb2].
      apply String.eqb_eq in Ha2, Hb2. congruence. }
    cbn. f_equal. f_equal. apply (distinct_name_unique l' b a); try assumption; [eapply Permutation_in; eassumption|now symmetry].
  - apply find_some in Ea. destruct Ea as [Ha1 Ha2]. exfalso.
    eapply find_none in Eb; [|eapply Permutation_in; eassumption]. congruence.
  - apply find_some in Eb. destruct Eb as [Hb1 Hb2]. exfalso.
    eapply find_none in Ea; [|eapply Permutation_in; [apply Permutation_sym; eassumption|eassumption]]. congruence.
Qed.

Lemma existsb_perm : forall {A} (f : A -> bool) l l', Permutation l l' -> existsb f l = existsb f l'.
Proof. intros A f l l' H. induction H; cbn; try congruence. now rewrite !orb_assoc, (orb_comm (f y)). Qed.

(** the merged interface does not depend on the order of the attributes *)
Theorem interface_merge_order_free : forall ns nm l l' ks, Permutation l l' ->
  names_distinct (map a_name l) = true -> existsb (attr_is "interface") l = false ->
  v_iface (fst (load_variable1 fi (Elem ns nm l ks))) = v_iface (fst (load_variable1 fi (Elem ns nm l' ks))).
Proof.
  intros ns nm l l' ks Hp Hd Hni.
  assert (Hd' : names_distinct (map a_name l') = true).
  { apply names_distinct_NoDup. eapply Permutation_NoDup; [apply Permutation_map; exact Hp|]. now apply names_distinct_NoDup. }
  rewrite !interface_merge; try assumption; [|now rewrite <- (existsb_perm _ _ _ Hp)].
  now rewrite !(find_perm _ l l' Hp Hd).
Qed.

End Merge.

(** the 3 x 3 table (plus absence), before and after fix C14-interface-none *)
Definition table_values : list (option string) := [None; Some "in"; Some "out"; Some "none"].
Definition table (fi : bool) : list (option string * option string * string) :=
  flat_map (fun pu => map (fun pr => (pu, pr, merged fi pu pr)) table_values) table_values.

Lemma interface_merge_table_fixed :
  table true =
  [ (None, None, ""); (None, Some "in", "private"); (None, Some "out", "private"); (None, Some "none", "");
    (Some "in", None, "public"); (Some "in", Some "in", "public_and_private"); (Some "in", Some "out", "public_and_private"); (Some "in", Some "none", "public");
    (Some "out", None, "public"); (Some "out", Some "in", "public_and_private"); (Some "out", Some "out", "public_and_private"); (Some "out", Some "none", "public");
    (Some "none", None, ""); (Some "none", Some "in", "private"); (Some "none", Some "out", "private"); (Some "none", Some "none", "") ].
Proof. vm_compute. reflexivity. Qed.

(** DESIGN.md section 5 row 31: the pinned parser looks at the presence of the attributes only *)
Lemma interface_merge_table_pinned :
  merged false (Some "none") (Some "none") = "public_and_private" /\ merged false (Some "none") None = "public"
  /\ merged false None (Some "none") = "private"
  /\ forall pu pr, merged false pu pr = merged true (option_map (fun _ => "in") pu) (option_map (fun _ => "in") pr).
Proof. repeat split. intros [pu|] [pr|]; reflexivity. Qed.

(** * component-level units are hoisted to the model, in document order *)
Section Hoist.
Variable E : env.
Variable fx fi fd : bool.

Lemma units_from_component_spec : forall x,
  fst (units_from_component E fd x) = map (fun k => fst (load_units1 E fd k)) (filter (is_1x "units") (xml_kids x)).
Proof.
  intros x. unfold units_from_component.
  assert (H : forall ks acc, fst (fold_left (fun acc k => if is_1x "units" k then let r := load_units1 E fd k in (fst acc ++ [fst r], snd acc ++ snd r) else acc) ks acc)
                             = fst acc ++ map (fun k => fst (load_units1 E fd k)) (filter (is_1x "units") ks)).
  { induction ks as [|k r IH]; intros acc; [cbn; now rewrite app_nil_r|].
    cbn [fold_left filter]. rewrite IH. destruct (is_1x "units" k); [|reflexivity]. cbn [fst map]. now rewrite <- app_assoc. }
  apply (H (xml_kids x) ([], [])).
Qed.

(** the units of the transformed model, read off the document: model-level units elements, the units children of every
    component element, the units an import element names — in document order *)
Fixpoint doc_units (tag : nat) (ks : list xml) : list units :=
  match ks with
  | [] => []
  | k :: r =>
    if is_1x "component" k then fst (units_from_component E fd k) ++ doc_units tag r
    else if is_1x "units" k then fst (load_units1 E fd k) :: doc_units tag r
    else if is_1x "import" k then fst (fst (load_import1 tag k)) ++ doc_units (S tag) r
    else doc_units tag r
  end.

Lemma model_kids_units : forall ks st,
  ma_units (fold_left (load_model_kid1 E fi fd) ks st) = ma_units st ++ doc_units (ma_imports st) ks.
Proof.
  induction ks as [|k r IH]; intros st; [cbn; now rewrite app_nil_r|].
  cbn [fold_left doc_units]. rewrite IH. clear IH.
  unfold load_model_kid1.
  destruct (is_1x "component" k); [cbn; now rewrite app_assoc|].
  destruct (is_1x "units" k); [cbn; now rewrite <- app_assoc|].
  destruct (is_1x "import" k).
  { destruct (load_import1 (ma_imports st) k) as [[us cs] is]. cbn. now rewrite app_assoc. }
  destruct (is_cellml20 "encapsulation" k); [destruct (xml_kids k); reflexivity|].
  destruct (is_cellml20 "connection" k); [reflexivity|].
  destruct (is_1x "group" k); [destruct (is_enc_rel k); reflexivity|].
  destruct (is_1x "connection" k); reflexivity.
Qed.

Theorem component_units_hoisted : forall x, is_cellml20 "model" x = false -> is_1x "model" x = true ->
  m_units (fst (load1x E fx fi fd false x)) = doc_units 0 (xml_kids x).
Proof.
  intros x H20 H1x. unfold load1x. rewrite H20, H1x. cbn [negb andb]. unfold load_1x_root. cbn [fst m_units].
  now rewrite (model_kids_units (xml_kids x) model_acc0).
Qed.

End Hoist.

(** * liter / meter *)
Lemma convert_nonsi_table : convert_nonsi "liter" = "litre" /\ convert_nonsi "meter" = "metre"
  /\ forall s, is_legacy_spelling s = false -> convert_nonsi s = s.
Proof.
  repeat split. intros s H. unfold is_legacy_spelling in H. apply orb_false_iff in H. destruct H as [H1 H2].
  unfold convert_nonsi. now rewrite H1, H2.
Qed.

Section NonSi.
Variable E : env.
Variable fd fi : bool.

Lemma unit_fold_keeps_ref : forall l st, existsb (attr_is "units") l = false ->
  ua_ref (fold_left (load_unit_attr1 E) l st) = ua_ref st.
Proof.
  induction l as [|a r IH]; intros st H; [reflexivity|]. cbn [existsb] in H. apply orb_false_iff in H. destruct H as [Ha Hr].
  cbn [fold_left]. rewrite IH by assumption. unfold load_unit_attr1. rewrite Ha.
  destruct (attr_is "prefix" a); [reflexivity|]. destruct (attr_is "exponent" a); [reflexivity|].
  destruct (attr_is "multiplier" a); [reflexivity|]. destruct (is_id_attr1 a); reflexivity.
Qed.

Lemma no_units_attr : forall l, ~ In "units" (map a_name l) -> existsb (attr_is "units") l = false.
Proof.
  intros l H. destruct (existsb (attr_is "units") l) eqn:Ex; [|reflexivity]. exfalso. apply H.
  apply existsb_exists in Ex. destruct Ex as (a & Ha & Ea). unfold attr_is in Ea. apply andb_true_iff in Ea. destruct Ea as [_ Ea].
  apply String.eqb_eq in Ea. rewrite <- Ea. now apply in_map.
Qed.

(** the reference of a unit element is the respelled value of its units attribute *)
Theorem nonsi_unit_renamed : forall ns nm pre post s ks,
  names_distinct (map a_name (pre ++ at_ "units" s :: post)) = true ->
  ud_ref (fst (load_unit1 E fd (Elem ns nm (pre ++ at_ "units" s :: post) ks))) = convert_nonsi s.
Proof.
  intros ns nm pre post s ks Hd. unfold load_unit1, xattrs. cbn [fst xml_attrs ud_ref]. rewrite eff_attrs_id by assumption.
  rewrite map_app in Hd. apply names_distinct_app in Hd. destruct Hd as (_ & Hd2 & Hd3). cbn [map] in Hd2, Hd3.
  rewrite names_distinct_cons in Hd2. apply andb_true_iff in Hd2. destruct Hd2 as [Hd2 _].
  apply negb_true_iff in Hd2. rewrite existsb_eqb_false in Hd2. cbn [a_name at_] in *.
  rewrite fold_left_app. cbn [fold_left]. rewrite unit_fold_keeps_ref by (now apply no_units_attr). reflexivity.
Qed.

Lemma var_fold_keeps_units : forall l st, existsb (attr_is "units") l = false ->
  v_units (va_v (fold_left (load_variable_attr1 fi) l st)) = v_units (va_v st).
Proof.
  induction l as [|a r IH]; intros st H; [reflexivity|]. cbn [existsb] in H. apply orb_false_iff in H. destruct H as [Ha Hr].
  cbn [fold_left]. rewrite IH by assumption. unfold load_variable_attr1. rewrite Ha.
  destruct (attr_is "name" a); [reflexivity|]. destruct (is_id_attr1 a); [reflexivity|].
  destruct (attr_is "interface" a); [reflexivity|]. destruct (attr_is "initial_value" a); [reflexivity|].
  destruct (attr_is "public_interface" a); [destruct (grants fi (a_val a)); reflexivity|].
  destruct (attr_is "private_interface" a); [destruct (grants fi (a_val a)); reflexivity|]. reflexivity.
Qed.

(** ... and so are the units of a variable *)
Theorem nonsi_variable_renamed : forall ns nm pre post s ks,
  names_distinct (map a_name (pre ++ at_ "units" s :: post)) = true ->
  v_units (fst (load_variable1 fi (Elem ns nm (pre ++ at_ "units" s :: post) ks))) = Some (convert_nonsi s).
Proof.
  intros ns nm pre post s ks Hd. unfold load_variable1, xattrs. cbn [fst xml_attrs]. rewrite eff_attrs_id by assumption.
  rewrite map_app in Hd. apply names_distinct_app in Hd. destruct Hd as (_ & Hd2 & Hd3). cbn [map] in Hd2, Hd3.
  rewrite names_distinct_cons in Hd2. apply andb_true_iff in Hd2. destruct Hd2 as [Hd2 _].
  apply negb_true_iff in Hd2. rewrite existsb_eqb_false in Hd2. cbn [a_name at_] in *.
  rewrite fold_left_app. cbn [fold_left]. rewrite var_fold_keeps_units by (now apply no_units_attr).
  assert (Hpre : existsb (attr_is "units") pre = false).
  { apply no_units_attr. intros Hin. apply (Hd3 _ Hin). now left. }
  unfold load_variable_attr1 at 1.
  assert (Hn : attr_is "name" (at_ "units" s) = false) by reflexivity.
  assert (Hi : is_id_attr1 (at_ "units" s) = false) by reflexivity.
  assert (Hu : attr_is "units" (at_ "units" s) = true) by reflexivity.
  rewrite Hn, Hi, Hu. reflexivity.
Qed.

End NonSi.

(** * the MathML attribute rewriting, characterised completely *)
Definition is1x (a : attr) : bool := ns_is_1x (a_ns a).
Definition to20 (a : attr) : attr := mkAttr CELLML_2_0_NS (a_name a) (a_val a).

Lemma filter_app_split : forall {A} (f : A -> bool) l a r, filter f l = a :: r ->
  exists l1 l2, l = l1 ++ a :: l2 /\ filter f l1 = [] /\ filter f l2 = r /\ f a = true.
Proof.
  intros A f. induction l as [|x t IH]; intros a r H; [discriminate|].
  cbn [filter] in H. destruct (f x) eqn:Ex.
  - injection H as -> <-. exists [], t. repeat split; assumption.
  - destruct (IH a r H) as (l1 & l2 & -> & H1 & H2 & H3). exists (x :: l1), l2. repeat split; try assumption.
    cbn [filter]. now rewrite Ex.
Qed.

Lemma filter_nil_all : forall {A} (f : A -> bool) l, filter f l = [] -> forall x, In x l -> f x = false.
Proof.
  intros A f. induction l as [|a r IH]; intros H x Hx; [contradiction|]. cbn [filter] in H.
  destruct (f a) eqn:Ea; [discriminate|]. destruct Hx as [<-|Hx]; [assumption|]. now apply IH.
Qed.

Lemma move_general : forall todo A done,
  names_distinct (map a_name (A ++ done)) = true -> filter is1x A = todo ->
  fold_left move_attr todo (A ++ done) = filter (fun a => negb (is1x a)) A ++ done ++ map to20 todo.
Proof.
  induction todo as [|a r IH]; intros A done Hd Hf.
  - cbn. rewrite app_nil_r. f_equal.
    assert (H : forall x, In x A -> is1x x = false) by (apply filter_nil_all; assumption).
    clear - H. induction A as [|x t IHt]; [reflexivity|]. cbn [filter]. rewrite (H x) by now left. cbn [negb]. f_equal.
    apply IHt. intros; apply H; now right.
  - destruct (filter_app_split _ _ _ _ Hf) as (A1 & A2 & -> & H1 & H2 & Ha).
    cbn [fold_left]. set (L := (A1 ++ a :: A2) ++ done).
    assert (HinL : In a L) by (unfold L; apply in_or_app; left; apply in_or_app; right; now left).
    unfold move_attr at 2. rewrite first_val_self by assumption.
    unfold set_ns_prop. rewrite existsb_attr_is_ns_false.
    2:{ intros c Hc Hn. pose proof (distinct_name_unique L a c Hd HinL Hc Hn) as ->. intros He.
        unfold is1x in Ha. rewrite He in Ha. discriminate. }
    unfold L. rewrite <- !app_assoc. cbn [app]. rewrite remove_attr_mid.
    2:{ intros c Hc He. assert (HcL : In c L) by (unfold L; apply in_or_app; left; apply in_or_app; now left).
        pose proof (distinct_name_unique L a c Hd HinL HcL He) as ->.
        unfold L in Hd. rewrite <- app_assoc, map_app in Hd. apply names_distinct_app in Hd. destruct Hd as (_ & _ & Hdis).
        eapply Hdis; [apply in_map; exact Hc|]. cbn [app map]. now left. }
    replace (A1 ++ A2 ++ done ++ [mkAttr CELLML_2_0_NS (a_name a) (a_val a)]) with ((A1 ++ A2) ++ (done ++ [to20 a]))
      by (now rewrite <- !app_assoc).
    rewrite IH.
    + rewrite !filter_app. cbn [filter]. rewrite Ha. cbn [negb map]. now rewrite <- !app_assoc.
    + apply names_distinct_NoDup. apply names_distinct_NoDup in Hd. eapply Permutation_NoDup; [|exact Hd].
      unfold L. rewrite !map_app. cbn [map to20 a_name]. rewrite <- !app_assoc. apply Permutation_app_head. cbn [app].
      rewrite app_assoc. apply Permutation_cons_append.
    + rewrite filter_app, H1, H2. reflexivity.
Qed.

(** an element below math whose attributes have distinct local names: the attributes of the 1.0 / 1.1 namespace end up
    in the 2.0 namespace with the same name and value (behind the others, in their order); every other attribute is
    untouched *)
Theorem rewrite_attrs_spec : forall l, names_distinct (map a_name l) = true ->
  rewrite_attrs l = filter (fun a => negb (is1x a)) l ++ map to20 (filter is1x l).
Proof.
  intros l Hd. unfold rewrite_attrs.
  replace (fold_left move_attr (filter (fun a => ns_is_1x (a_ns a)) l) l) with (fold_left move_attr (filter is1x l) (l ++ [])) by now rewrite app_nil_r.
  rewrite move_general; [reflexivity|now rewrite app_nil_r|reflexivity].
Qed.

Theorem math_units_attribute_moved : forall l a, names_distinct (map a_name l) = true -> In a l ->
  (is1x a = true -> In (to20 a) (rewrite_attrs l) /\ ~ In a (rewrite_attrs l))
  /\ (is1x a = false -> In a (rewrite_attrs l)).
Proof.
  intros l a Hd Ha. rewrite rewrite_attrs_spec by assumption. split; intros H1.
  - split.
    + apply in_or_app. right. apply in_map. apply filter_In. now split.
    + intros Hin. apply in_app_or in Hin. destruct Hin as [Hin|Hin].
      * apply filter_In in Hin. destruct Hin as [_ Hin]. rewrite H1 in Hin. discriminate.
      * apply in_map_iff in Hin. destruct Hin as (b & Hb & _). destruct a as [ans anm av]. unfold to20 in Hb. injection Hb as Hb _ _.
        unfold is1x in H1. cbn in H1. rewrite <- Hb in H1. discriminate.
  - apply in_or_app. left. apply filter_In. split; [assumption|now rewrite H1].
Qed.

(** elements, element names, namespaces of elements, text and the math element's own attributes are untouched *)
Lemma rewrite_math_shape : forall ns nm attrs ks,
  rewrite_math (Elem ns nm attrs ks) = Elem ns nm attrs (map rewrite_below ks).
Proof. reflexivity. Qed.

Lemma rewrite_below_shape : forall ns nm attrs ks,
  rewrite_below (Elem ns nm attrs ks) = Elem ns nm (rewrite_attrs attrs) (map rewrite_below ks)
  /\ (forall s, rewrite_below (Text s) = Text s) /\ rewrite_below Comment = Comment.
Proof. repeat split. Qed.
