(* CloneProofs.v -- C11: lemmas about the clone model of CloneDefs.v *)
From Coq Require Import List String Ascii ZArith Bool Arith Lia.
From LC Require Import CloneDefs.
Import ListNotations.
Local Open Scope string_scope.
Local Open Scope nat_scope.
Local Open Scope list_scope.

(* ------------------------------------------------------------------------------------------ induction on component trees *)

Lemma component_ind' (P : component -> Prop) :
  (forall o p id name encid math imp impref vars resets kids,
      Forall P kids -> P (Comp o p id name encid math imp impref vars resets kids)) ->
  forall c, P c.
Proof.
  intros H. fix IH 1. intros [o p id name encid math imp impref vars resets kids].
  apply H. induction kids as [|k r IHr]; constructor; [apply IH | exact IHr].
Qed.

(* the recursion of Component::clone over the children is clone_comps *)
Lemma clone_comp_unfold fx s o p id name encid math imp impref vars resets kids :
  clone_comp fx s (Comp o p id name encid math imp impref vars resets kids) =
  let o' := nx s in
  let (imp', s1) := clone_imp fx (st_nx (S o') s) imp in
  let (vars', n2) := clone_variables fx (nx s1) o' vars in
  let (resets', n3) := clone_resets fx n2 o' vars vars' resets in
  let (kids', s4) := clone_comps fx (st_nx n3 s1) o' kids in
  (Comp o' None id name (if fx_encid fx then encid else "") math imp' impref vars' resets' kids', s4).
Proof.
  cbn [clone_comp]. cbv zeta.
  destruct (clone_imp fx (st_nx (S (nx s)) s) imp) as [imp' s1].
  destruct (clone_variables fx (nx s1) (nx s) vars) as [vars' n2].
  destruct (clone_resets fx n2 (nx s) vars vars' resets) as [resets' n3].
  assert (E : forall l z,
             (fix go (s0 : st) (l0 : list component) {struct l0} : list component * st :=
                match l0 with
                | [] => ([], s0)
                | k :: r => let (k', s') := clone_comp fx s0 k in
                            let (r', s'') := go s' r in (c_set_parent (Some (nx s)) k' :: r', s'')
                end) z l = clone_comps fx z (nx s) l).
  { induction l as [|k r IHr]; intros z; [reflexivity|].
    cbn [clone_comps]. destruct (clone_comp fx z k) as [k' s']. rewrite IHr. reflexivity. }
  rewrite E. reflexivity.
Qed.

Lemma map_comp_unfold i g f h k o p id name encid math imp impref vars resets kids :
  map_comp i g f h k (Comp o p id name encid math imp impref vars resets kids) =
  k (Comp o p id name encid math (option_map i imp) impref
          (map (map_var g f) vars) (map (map_reset g f h) resets) (map (map_comp i g f h k) kids)).
Proof. reflexivity. Qed.

(* ------------------------------------------------------------------------------------------ independence *)

Lemma map_id_Forall {T} (f : T -> T) l : Forall (fun x => f x = x) l -> map f l = l.
Proof. induction 1 as [|x r Hx _ IH]; cbn; [reflexivity | rewrite Hx, IH; reflexivity]. Qed.

Lemma notin_flat_map {T} (f : T -> list oid) t l : ~ In t (flat_map f l) -> forall x, In x l -> ~ In t (f x).
Proof. intros H x Hx Hi. apply H. apply in_flat_map. exists x; split; assumption. Qed.

Lemma at_oid_ne {T} (oid_of : T -> oid) o f x : oid_of x <> o -> at_oid oid_of o f x = x.
Proof. intros H. unfold at_oid. apply Nat.eqb_neq in H. rewrite H. reflexivity. Qed.

Lemma mut_isrc_id mu i : is_oid i <> mut_target mu -> mut_isrc mu i = i.
Proof. intros H. destruct mu; cbn in *; try reflexivity; apply at_oid_ne; exact H. Qed.

Lemma mut_units_id mu u : u_oid u <> mut_target mu -> mut_units mu u = u.
Proof. intros H. destruct mu; cbn in *; try reflexivity; apply at_oid_ne; exact H. Qed.

Lemma mut_var_id mu v : v_oid v <> mut_target mu -> mut_var mu v = v.
Proof. intros H. destruct mu; cbn in *; try reflexivity; apply at_oid_ne; exact H. Qed.

Lemma mut_reset_id mu r : r_oid r <> mut_target mu -> mut_reset mu r = r.
Proof. intros H. destruct mu; cbn in *; try reflexivity; apply at_oid_ne; exact H. Qed.

Lemma mut_comp_id mu c : c_oid c <> mut_target mu -> mut_comp mu c = c.
Proof.
  intros H. destruct c as [o p id name encid math imp impref vars resets kids]. cbn in H.
  destruct mu; cbn in *; try reflexivity; apply Nat.eqb_neq in H; rewrite H; reflexivity.
Qed.

Lemma opt_map_id {T} (f : T -> T) (o : option T) : (forall x, o = Some x -> f x = x) -> option_map f o = o.
Proof. destruct o as [x|]; cbn; intros H; [rewrite (H x eq_refl)|]; reflexivity. Qed.

Lemma independent_isrc mu i : ~ In (mut_target mu) [is_oid i] -> apply_isrc mu i = i.
Proof. intros H. apply mut_isrc_id. intros E. apply H. left. exact E. Qed.

Lemma independent_units mu u : ~ In (mut_target mu) (units_oids u) -> apply_units mu u = u.
Proof.
  intros H. unfold apply_units.
  assert (E : map_isrc_units (mut_isrc mu) u = u).
  { destruct u as [o p id name imp impref defs]. unfold map_isrc_units. cbn [u_oid u_parent u_id u_name u_imp u_impref u_defs].
    rewrite opt_map_id; [reflexivity|]. intros i Hi. apply mut_isrc_id. intros E. apply H. subst imp. cbn. right. left. exact E. }
  rewrite E. apply mut_units_id. intros E'. apply H. left. exact E'.
Qed.

Lemma v_set_units_eta v : v_set_units (v_units v) v = v.
Proof. destruct v; reflexivity. Qed.
Lemma r_set_vars_eta r : r_set_vars (r_var r) (r_test r) r = r.
Proof. destruct r; reflexivity. Qed.

Lemma map_var_id g f v : (forall u, v_units v = Some u -> g u = u) -> f v = v -> map_var g f v = v.
Proof. intros Hg Hf. unfold map_var. rewrite opt_map_id by exact Hg. rewrite v_set_units_eta. exact Hf. Qed.

Lemma map_reset_id g f h r :
  (forall v, r_var r = Some v -> map_var g f v = v) -> (forall v, r_test r = Some v -> map_var g f v = v) -> h r = r ->
  map_reset g f h r = r.
Proof. intros Hv Ht Hh. unfold map_reset. rewrite !opt_map_id by assumption. rewrite r_set_vars_eta. exact Hh. Qed.

Lemma independent_variable mu v : ~ In (mut_target mu) (var_oids v) -> apply_variable mu v = v.
Proof.
  intros H. unfold apply_variable. apply map_var_id.
  - intros u Hu. apply independent_units. intros Hi. apply H. unfold var_oids. rewrite Hu. right. exact Hi.
  - apply mut_var_id. intros E. apply H. left. exact E.
Qed.

Lemma independent_ovar mu v w : ~ In (mut_target mu) (ovar_oids v) -> v = Some w -> map_var (apply_units mu) (mut_var mu) w = w.
Proof. intros H E. subst v. apply (independent_variable mu w). exact H. Qed.

Lemma independent_reset mu r : ~ In (mut_target mu) (reset_oids r) -> apply_reset mu r = r.
Proof.
  intros H. unfold apply_reset. unfold reset_oids in H. apply map_reset_id.
  - intros v Hv. eapply independent_ovar; [|exact Hv]. intros Hi. apply H. right. apply in_or_app. left. exact Hi.
  - intros v Hv. eapply independent_ovar; [|exact Hv]. intros Hi. apply H. right. apply in_or_app. right. exact Hi.
  - apply mut_reset_id. intros E. apply H. left. exact E.
Qed.

Lemma independent_component mu c : ~ In (mut_target mu) (comp_oids c) -> apply_component mu c = c.
Proof.
  unfold apply_component. induction c as [o p id name encid math imp impref vars resets kids IH] using component_ind'.
  intros H. rewrite map_comp_unfold. cbn [comp_oids] in H.
  assert (Ho : o <> mut_target mu) by (intros E; apply H; left; exact E).
  assert (H1 : ~ In (mut_target mu) (isrc_oids_opt imp)) by (intros Hi; apply H; right; apply in_or_app; left; exact Hi).
  assert (H2 : ~ In (mut_target mu) (flat_map var_oids vars))
    by (intros Hi; apply H; right; apply in_or_app; right; apply in_or_app; left; exact Hi).
  assert (H3 : ~ In (mut_target mu) (flat_map reset_oids resets))
    by (intros Hi; apply H; right; apply in_or_app; right; apply in_or_app; right; apply in_or_app; left; exact Hi).
  assert (H4 : ~ In (mut_target mu) (flat_map comp_oids kids))
    by (intros Hi; apply H; right; apply in_or_app; right; apply in_or_app; right; apply in_or_app; right; exact Hi).
  rewrite opt_map_id.
  2:{ intros i Hi. apply mut_isrc_id. intros E. apply H1. subst imp. left. exact E. }
  rewrite (map_id_Forall (map_var _ _)).
  2:{ apply Forall_forall. intros v Hv. apply (independent_variable mu v). exact (notin_flat_map _ _ _ H2 v Hv). }
  rewrite (map_id_Forall (map_reset _ _ _)).
  2:{ apply Forall_forall. intros r Hr. apply (independent_reset mu r). exact (notin_flat_map _ _ _ H3 r Hr). }
  rewrite (map_id_Forall (map_comp _ _ _ _ _)).
  2:{ rewrite Forall_forall in IH. apply Forall_forall. intros k Hk. apply IH; [exact Hk|]. exact (notin_flat_map _ _ _ H4 k Hk). }
  apply mut_comp_id. exact Ho.
Qed.

Lemma independent_model mu m : ~ In (mut_target mu) (model_oids m) -> apply_model mu m = m.
Proof.
  intros H. unfold apply_model. unfold model_oids in H.
  assert (Ho : m_oid m <> mut_target mu) by (intros E; apply H; left; exact E).
  apply Nat.eqb_neq in Ho. rewrite Ho.
  destruct m as [o id name encid us cs]. unfold map_model. cbn [m_oid m_id m_name m_encid m_units m_comps] in *.
  f_equal.
  - apply map_id_Forall. apply Forall_forall. intros u Hu. apply independent_units.
    apply (notin_flat_map units_oids _ us); [|exact Hu]. intros Hi. apply H. right. apply in_or_app. left. exact Hi.
  - apply map_id_Forall. apply Forall_forall. intros c Hc. apply (independent_component mu c).
    apply (notin_flat_map comp_oids _ cs); [|exact Hc]. intros Hi. apply H. right. apply in_or_app. right. exact Hi.
Qed.

(* ------------------------------------------------------------------------------------------ freshness *)

Definition rng (lo hi : nat) (l : list oid) : Prop := Forall (fun o => lo <= o < hi) l.

Lemma rng_mono lo hi hi' l : hi <= hi' -> rng lo hi l -> rng lo hi' l.
Proof. intros H. unfold rng. apply Forall_impl. intros o Ho. lia. Qed.
Lemma rng_mono2 lo lo' hi hi' l : lo' <= lo -> hi <= hi' -> rng lo hi l -> rng lo' hi' l.
Proof. intros H1 H2. unfold rng. apply Forall_impl. intros o Ho. lia. Qed.
Lemma rng_app lo hi a b : rng lo hi (a ++ b) <-> rng lo hi a /\ rng lo hi b.
Proof. unfold rng. apply Forall_app. Qed.
Lemma rng_cons lo hi a b : rng lo hi (a :: b) <-> (lo <= a < hi) /\ rng lo hi b.
Proof. unfold rng. apply Forall_cons_iff. Qed.
Lemma rng_nil lo hi : rng lo hi []. Proof. constructor. Qed.
Lemma rng_flat_map {T} lo hi (f : T -> list oid) l : (forall x, In x l -> rng lo hi (f x)) <-> rng lo hi (flat_map f l).
Proof.
  induction l as [|x r IH]; cbn; split; intros H.
  - apply rng_nil. - intros x [].
  - apply rng_app. split; [apply H; left; reflexivity | apply IH; intros y Hy; apply H; right; exact Hy].
  - apply rng_app in H. destruct H as [H1 H2]. intros y [E|Hy]; [subst; exact H1 | apply IH; assumption].
Qed.

Definition st_ok (lo : nat) (s : st) : Prop := Forall (fun kv => lo <= is_oid (snd kv) < nx s) (imap s).

Lemma st_ok_nx lo s n : nx s <= n -> st_ok lo s -> st_ok lo (st_nx n s).
Proof. intros H. unfold st_ok, st_nx. cbn. apply Forall_impl. intros kv Hk. lia. Qed.

Lemma lookup_in {T} o (l : list (oid * T)) x : lookup o l = Some x -> In (o, x) l.
Proof.
  induction l as [|[k a] r IH]; cbn; [discriminate|]. destruct (Nat.eqb k o) eqn:E.
  - intros H. injection H as <-. apply Nat.eqb_eq in E. subst. left. reflexivity.
  - intros H. right. apply IH. exact H.
Qed.

Lemma clone_imp_fresh fx lo s imp imp' s' :
  fx_isrc fx = true -> st_ok lo s -> lo <= nx s -> clone_imp fx s imp = (imp', s') ->
  st_ok lo s' /\ nx s <= nx s' /\ rng lo (nx s') (isrc_oids_opt imp').
Proof.
  intros Hfx Hok Hlo. unfold clone_imp. destruct imp as [i|].
  2:{ intros H. injection H as <- <-. repeat split; [exact Hok | lia | apply rng_nil]. }
  rewrite Hfx. destruct (lookup (is_oid i) (imap s)) as [i'|] eqn:El.
  - intros H. injection H as <- <-. repeat split; [exact Hok | lia|]. cbn. apply rng_cons. split; [|apply rng_nil].
    apply lookup_in in El. unfold st_ok in Hok. rewrite Forall_forall in Hok. apply (Hok _ El).
  - cbn. intros H. injection H as <- <-. cbn. repeat split.
    + unfold st_ok. cbn. constructor; [cbn; lia|]. revert Hok. unfold st_ok. apply Forall_impl. intros kv Hk. lia.
    + lia.
    + apply rng_cons. split; [cbn; lia | apply rng_nil].
Qed.

Lemma clone_units_st_fresh fx lo s u u' s' :
  fx_isrc fx = true -> st_ok lo s -> lo <= nx s -> clone_units_st fx s u = (u', s') ->
  st_ok lo s' /\ nx s < nx s' /\ rng lo (nx s') (units_oids u') /\ u_parent u' = None.
Proof.
  intros Hfx Hok Hlo. unfold clone_units_st.
  destruct (clone_imp fx (st_nx (S (nx s)) s) (u_imp u)) as [imp' s1] eqn:E. intros H. injection H as <- <-.
  apply (clone_imp_fresh fx lo) in E; [|exact Hfx | apply st_ok_nx; [lia | exact Hok] | cbn; lia].
  destruct E as (Hok1 & Hle & Hr). cbn in Hle. repeat split; [exact Hok1 | lia|].
  unfold units_oids. cbn. apply rng_cons. split; [lia | exact Hr].
Qed.

Lemma st_ok_st0 lo n : st_ok lo (st0 n).
Proof. unfold st_ok, st0. cbn. constructor. Qed.

Lemma clone_units_fresh fx n u u' n' :
  fx_isrc fx = true -> clone_units fx n u = (u', n') -> n < n' /\ rng n n' (units_oids u') /\ u_parent u' = None.
Proof.
  intros Hfx. unfold clone_units. destruct (clone_units_st fx (st0 n) u) as [u1 s1] eqn:E. intros H. injection H as <- <-.
  apply (clone_units_st_fresh fx n) in E; [|exact Hfx | apply st_ok_st0 | cbn; lia]. cbn in E. tauto.
Qed.

Lemma clone_variable_fresh fx n v v' n' :
  fx_isrc fx = true -> clone_variable fx n v = (v', n') ->
  n < n' /\ rng n n' (var_oids v') /\ v_parent v' = None /\ v_oid v' = n /\ v_eqs v' = [].
Proof.
  intros Hfx. unfold clone_variable. destruct (v_units v) as [u|].
  - destruct (clone_units fx (S n) u) as [u' n1] eqn:E. intros H. injection H as <- <-.
    apply clone_units_fresh in E; [|exact Hfx]. destruct E as (Hlt & Hr & _).
    repeat split; try reflexivity; [lia|]. unfold var_oids. cbn. apply rng_cons. split; [lia|]. eapply rng_mono2; [| |exact Hr]; lia.
  - intros H. injection H as <- <-. repeat split; try reflexivity; [lia|]. unfold var_oids. cbn. apply rng_cons. split; [lia | apply rng_nil].
Qed.

Lemma clone_opt_variable_fresh fx n v v' n' :
  fx_isrc fx = true -> clone_opt_variable fx n v = (v', n') -> n <= n' /\ rng n n' (ovar_oids v').
Proof.
  intros Hfx. unfold clone_opt_variable. destruct v as [v|].
  - destruct (clone_variable fx n v) as [w n1] eqn:E. intros H. injection H as <- <-.
    apply clone_variable_fresh in E; [|exact Hfx]. cbn. split; [lia | tauto].
  - intros H. injection H as <- <-. split; [lia | apply rng_nil].
Qed.

Lemma clone_reset_fresh fx n r r' n' :
  fx_isrc fx = true -> clone_reset fx n r = (r', n') ->
  n < n' /\ rng n n' (reset_oids r') /\ r_parent r' = None /\ r_oid r' = n.
Proof.
  intros Hfx. unfold clone_reset.
  destruct (clone_opt_variable fx (S n) (r_var r)) as [v' n1] eqn:E1.
  destruct (clone_opt_variable fx n1 (r_test r)) as [t' n2] eqn:E2. intros H. injection H as <- <-.
  apply clone_opt_variable_fresh in E1; [|exact Hfx]. apply clone_opt_variable_fresh in E2; [|exact Hfx].
  destruct E1 as [L1 R1]. destruct E2 as [L2 R2]. repeat split; [lia|].
  unfold reset_oids. cbn. apply rng_cons. split; [lia|]. apply rng_app. split; eapply rng_mono2; [| |exact R1| | |exact R2]; lia.
Qed.

Lemma var_oids_set_parent p v : var_oids (v_set_parent p v) = var_oids v.
Proof. reflexivity. Qed.

Lemma clone_variables_fresh fx owner l : forall n l' n',
  fx_isrc fx = true -> clone_variables fx n owner l = (l', n') ->
  n <= n' /\ rng n n' (flat_map var_oids l') /\ List.length l' = List.length l /\
  Forall (fun w => v_parent w = Some owner /\ v_eqs w = []) l'.
Proof.
  induction l as [|v r IH]; intros n l' n' Hfx; cbn.
  - intros H. injection H as <- <-. repeat split; [lia | apply rng_nil | constructor].
  - destruct (clone_variable fx n v) as [v' n1] eqn:E1. destruct (clone_variables fx n1 owner r) as [r' n2] eqn:E2.
    intros H. injection H as <- <-. apply clone_variable_fresh in E1; [|exact Hfx]. apply IH in E2; [|exact Hfx].
    destruct E1 as (L1 & R1 & _ & _ & Q1). destruct E2 as (L2 & R2 & Len & F2). repeat split; [lia | | cbn; lia |].
    + cbn [flat_map]. rewrite var_oids_set_parent. apply rng_app. split; eapply rng_mono2; [| |exact R1| | |exact R2]; lia.
    + constructor; [cbn; split; [reflexivity | exact Q1] | exact F2].
Qed.

Lemma retarget_cases ovars cvars o c :
  retarget ovars cvars o c = c \/ exists w, In w cvars /\ retarget ovars cvars o c = Some w.
Proof.
  unfold retarget. destruct o as [v|]; [|left; reflexivity].
  destruct (index_of (v_oid v) (map v_oid ovars)) as [i|]; [|left; reflexivity].
  destruct (nth_error cvars i) as [w|] eqn:E; [|left; reflexivity]. right. exists w. split; [eapply nth_error_In; exact E | reflexivity].
Qed.

Lemma clone_resets_fresh fx owner ovars cvars lo l : forall n l' n',
  fx_isrc fx = true -> lo <= n -> (forall w, In w cvars -> rng lo n (var_oids w)) ->
  clone_resets fx n owner ovars cvars l = (l', n') ->
  n <= n' /\ rng lo n' (flat_map reset_oids l') /\ Forall (fun r => r_parent r = Some owner) l'.
Proof.
  induction l as [|r rest IH]; intros n l' n' Hfx Hlo Hc; cbn.
  - intros H. injection H as <- <-. repeat split; [lia | apply rng_nil | constructor].
  - destruct (clone_reset fx n r) as [r' n1] eqn:E1.
    destruct (clone_resets fx n1 owner ovars cvars rest) as [rest' n2] eqn:E2. intros H. injection H as <- <-.
    apply clone_reset_fresh in E1; [|exact Hfx]. destruct E1 as (L1 & R1 & _ & O1).
    apply IH in E2; [|exact Hfx | lia | intros w Hw; eapply rng_mono; [|apply Hc; exact Hw]; lia].
    destruct E2 as (L2 & R2 & F2). repeat split; [lia | | constructor; [reflexivity | exact F2]].
    cbn [flat_map]. apply rng_app. split; [|exact R2].
    unfold reset_oids in *. cbn. apply rng_cons in R1. destruct R1 as [Ro R1]. apply rng_app in R1. destruct R1 as [Rv Rt].
    apply rng_cons. split; [lia|]. apply rng_app. split.
    + destruct (retarget_cases ovars cvars (r_var r) (r_var r')) as [E|(w & Hw & E)]; rewrite E.
      * eapply rng_mono2; [| |exact Rv]; lia.
      * cbn. eapply rng_mono; [|apply Hc; exact Hw]. lia.
    + destruct (retarget_cases ovars cvars (r_test r) (r_test r')) as [E|(w & Hw & E)]; rewrite E.
      * eapply rng_mono2; [| |exact Rt]; lia.
      * cbn. eapply rng_mono; [|apply Hc; exact Hw]. lia.
Qed.

Lemma comp_oids_set_parent p c : comp_oids (c_set_parent p c) = comp_oids c.
Proof. destruct c; reflexivity. Qed.
Lemma c_parent_set_parent p c : c_parent (c_set_parent p c) = p.
Proof. destruct c; reflexivity. Qed.

Lemma clone_comp_fresh fx lo c : forall s c' s',
  fx_isrc fx = true -> st_ok lo s -> lo <= nx s -> clone_comp fx s c = (c', s') ->
  st_ok lo s' /\ nx s < nx s' /\ rng lo (nx s') (comp_oids c') /\ c_parent c' = None /\ c_oid c' = nx s.
Proof.
  induction c as [o p id name encid math imp impref vars resets kids IH] using component_ind'.
  intros s c' s' Hfx Hok Hlo. rewrite clone_comp_unfold. cbv zeta.
  destruct (clone_imp fx (st_nx (S (nx s)) s) imp) as [imp' s1] eqn:E1.
  destruct (clone_variables fx (nx s1) (nx s) vars) as [vars' n2] eqn:E2.
  destruct (clone_resets fx n2 (nx s) vars vars' resets) as [resets' n3] eqn:E3.
  destruct (clone_comps fx (st_nx n3 s1) (nx s) kids) as [kids' s4] eqn:E4. intros H. injection H as <- <-.
  apply (clone_imp_fresh fx lo) in E1; [|exact Hfx | apply st_ok_nx; [lia | exact Hok] | cbn; lia].
  destruct E1 as (Ok1 & L1 & R1). cbn in L1.
  apply clone_variables_fresh in E2; [|exact Hfx]. destruct E2 as (L2 & R2 & _ & _).
  apply (clone_resets_fresh fx _ _ _ lo) in E3; [|exact Hfx | lia |].
  2:{ intros w Hw. apply (rng_mono2 (nx s1) lo n2 n2); [lia | lia|]. exact (proj2 (rng_flat_map _ _ var_oids vars') R2 w Hw). }
  destruct E3 as (L3 & R3 & _).
  assert (K : forall l z l' z', Forall (fun c => forall s c' s', fx_isrc fx = true -> st_ok lo s -> lo <= nx s ->
                 clone_comp fx s c = (c', s') ->
                 st_ok lo s' /\ nx s < nx s' /\ rng lo (nx s') (comp_oids c') /\ c_parent c' = None /\ c_oid c' = nx s) l ->
             st_ok lo z -> lo <= nx z -> clone_comps fx z (nx s) l = (l', z') ->
             st_ok lo z' /\ nx z <= nx z' /\ rng lo (nx z') (flat_map comp_oids l')).
  { induction l as [|k r IHr]; intros z l' z' Hall Hz Hlz; cbn.
    - intros H. injection H as <- <-. repeat split; [exact Hz | lia | apply rng_nil].
    - destruct (clone_comp fx z k) as [k' z1] eqn:Ek. destruct (clone_comps fx z1 (nx s) r) as [r' z2] eqn:Er.
      intros H. injection H as <- <-. inversion Hall as [|? ? Hk Hr']; subst.
      apply Hk in Ek; [|exact Hfx | exact Hz | exact Hlz]. destruct Ek as (Okk & Lk & Rk & _).
      apply IHr in Er; [|exact Hr' | exact Okk | lia]. destruct Er as (Okr & Lr & Rr).
      repeat split; [exact Okr | lia|]. cbn. rewrite comp_oids_set_parent. apply rng_app. split; [|exact Rr].
      eapply rng_mono; [|exact Rk]. lia. }
  apply K in E4; [|exact IH | apply st_ok_nx; [lia | exact Ok1] | cbn; lia]. destruct E4 as (Ok4 & L4 & R4). cbn in L4.
  repeat split; [exact Ok4 | lia|].
  cbn [comp_oids]. apply rng_cons. split; [lia|]. repeat (apply rng_app; split).
  - eapply rng_mono; [|exact R1]. lia.
  - eapply rng_mono2; [| |exact R2]; lia.
  - eapply rng_mono; [|exact R3]. lia.
  - exact R4.
Qed.

Lemma option_map_id' {T} (o : option T) : option_map (fun x => x) o = o.
Proof. destruct o; reflexivity. Qed.

Lemma map_var_idg f v : map_var (fun u => u) f v = f v.
Proof. unfold map_var. rewrite option_map_id', v_set_units_eta. reflexivity. Qed.

Lemma rng_ovar_map lo hi f v :
  (forall v, rng lo hi (var_oids v) -> rng lo hi (var_oids (f v))) ->
  rng lo hi (ovar_oids v) -> rng lo hi (ovar_oids (option_map (map_var (fun u => u) f) v)).
Proof. intros Hf. destruct v as [v|]; cbn; [rewrite map_var_idg; apply Hf | intros; apply rng_nil]. Qed.

Lemma comp_oids_map_f lo hi f c :
  (forall v, rng lo hi (var_oids v) -> rng lo hi (var_oids (f v))) ->
  rng lo hi (comp_oids c) ->
  rng lo hi (comp_oids (map_comp (fun i => i) (fun u => u) f (fun r => r) (fun c => c) c)).
Proof.
  intros Hf. induction c as [o p id name encid math imp impref vars resets kids IH] using component_ind'.
  rewrite map_comp_unfold. cbn [comp_oids]. rewrite option_map_id'.
  rewrite !rng_cons, !rng_app. intros (Ho & Hi & Hv & Hr & Hk). refine (conj Ho (conj Hi (conj _ (conj _ _)))).
  - apply rng_flat_map. intros v Hv'. apply in_map_iff in Hv'. destruct Hv' as (v0 & <- & Hv0). rewrite map_var_idg. apply Hf.
    exact (proj2 (rng_flat_map _ _ var_oids vars) Hv v0 Hv0).
  - apply rng_flat_map. intros r Hr'. apply in_map_iff in Hr'. destruct Hr' as (r0 & <- & Hr0).
    pose proof (proj2 (rng_flat_map _ _ reset_oids resets) Hr r0 Hr0) as H0.
    unfold map_reset, reset_oids in *. cbn. apply rng_cons in H0. destruct H0 as [H1 H2]. apply rng_app in H2. destruct H2 as [H2 H3].
    apply rng_cons. split; [exact H1|]. apply rng_app. split; apply rng_ovar_map; assumption.
  - apply rng_flat_map. intros k Hk'. apply in_map_iff in Hk'. destruct Hk' as (k0 & <- & Hk0).
    rewrite Forall_forall in IH. apply IH; [exact Hk0|]. exact (proj2 (rng_flat_map _ _ comp_oids kids) Hk k0 Hk0).
Qed.

Lemma model_oids_map_f lo hi f m :
  (forall v, rng lo hi (var_oids v) -> rng lo hi (var_oids (f v))) ->
  rng lo hi (model_oids m) ->
  rng lo hi (model_oids (map_model (fun i => i) (fun u => u) f (fun r => r) (fun c => c) m)).
Proof.
  intros Hf. unfold model_oids, map_model. cbn. rewrite !rng_cons, !rng_app. intros (Ho & Hu & Hc). refine (conj Ho (conj _ _)).
  - rewrite map_id. exact Hu.
  - apply rng_flat_map. intros c Hc'. apply in_map_iff in Hc'. destruct Hc' as (c0 & <- & Hc0). apply comp_oids_map_f; [exact Hf|].
    exact (proj2 (rng_flat_map _ _ comp_oids (m_comps m)) Hc c0 Hc0).
Qed.

Lemma find_units_in name l u : find_units name l = Some u -> In u l.
Proof.
  induction l as [|x r IH]; cbn; [discriminate|]. destruct (String.eqb (u_name x) name).
  - intros H. injection H as <-. left. reflexivity.
  - intros H. right. apply IH. exact H.
Qed.

Lemma fix_units_var_rng lo hi us cvo v :
  rng lo hi (flat_map units_oids us) -> rng lo hi (var_oids v) -> rng lo hi (var_oids (fix_units_var us cvo v)).
Proof.
  intros Hus Hv. unfold fix_units_var. destruct (existsb (Nat.eqb (v_oid v)) cvo); [|exact Hv].
  destruct (v_units v) as [u|] eqn:Eu; [|exact Hv]. destruct (find_units (u_name u) us) as [u'|] eqn:Ef; [|exact Hv].
  unfold var_oids in *. cbn. apply rng_cons in Hv. destruct Hv as [Ho _]. apply rng_cons. split; [exact Ho|].
  apply find_units_in in Ef. exact (proj2 (rng_flat_map _ _ units_oids us) Hus u' Ef).
Qed.

Lemma var_oids_set_eqs l v : var_oids (v_set_eqs l v) = var_oids v.
Proof. reflexivity. Qed.

Lemma units_oids_set_parent p u : units_oids (u_set_parent p u) = units_oids u.
Proof. reflexivity. Qed.

Lemma clone_units_list_fresh fx lo owner l : forall s l' s',
  fx_isrc fx = true -> st_ok lo s -> lo <= nx s -> clone_units_list fx s owner l = (l', s') ->
  st_ok lo s' /\ nx s <= nx s' /\ rng lo (nx s') (flat_map units_oids l') /\ Forall (fun u => u_parent u = Some owner) l'.
Proof.
  induction l as [|u r IH]; intros s l' s' Hfx Hok Hlo; cbn.
  - intros H. injection H as <- <-. repeat split; [exact Hok | lia | apply rng_nil | constructor].
  - destruct (clone_units_st fx s u) as [u' s1] eqn:E1. destruct (clone_units_list fx s1 owner r) as [r' s2] eqn:E2.
    intros H. injection H as <- <-. apply (clone_units_st_fresh fx lo) in E1; [|assumption..].
    destruct E1 as (Ok1 & L1 & R1 & _). apply IH in E2; [|exact Hfx | exact Ok1 | lia]. destruct E2 as (Ok2 & L2 & R2 & F2).
    repeat split; [exact Ok2 | lia | | constructor; [reflexivity | exact F2]].
    cbn [flat_map]. rewrite units_oids_set_parent. apply rng_app. split; [eapply rng_mono; [|exact R1]; lia | exact R2].
Qed.

Lemma clone_comps_fresh fx lo owner l : forall s l' s',
  fx_isrc fx = true -> st_ok lo s -> lo <= nx s -> clone_comps fx s owner l = (l', s') ->
  st_ok lo s' /\ nx s <= nx s' /\ rng lo (nx s') (flat_map comp_oids l') /\ Forall (fun c => c_parent c = Some owner) l'.
Proof.
  induction l as [|k r IH]; intros s l' s' Hfx Hok Hlo; cbn.
  - intros H. injection H as <- <-. repeat split; [exact Hok | lia | apply rng_nil | constructor].
  - destruct (clone_comp fx s k) as [k' s1] eqn:E1. destruct (clone_comps fx s1 owner r) as [r' s2] eqn:E2.
    intros H. injection H as <- <-. apply (clone_comp_fresh fx lo) in E1; [|assumption..].
    destruct E1 as (Ok1 & L1 & R1 & _). apply IH in E2; [|exact Hfx | exact Ok1 | lia]. destruct E2 as (Ok2 & L2 & R2 & F2).
    repeat split; [exact Ok2 | lia | | constructor; [apply c_parent_set_parent | exact F2]].
    cbn [flat_map]. rewrite comp_oids_set_parent. apply rng_app. split; [eapply rng_mono; [|exact R1]; lia | exact R2].
Qed.

Lemma clone_component_fresh fx n c c' n' :
  fx_isrc fx = true -> clone_component fx n c = (c', n') -> n < n' /\ rng n n' (comp_oids c') /\ c_parent c' = None.
Proof.
  intros Hfx. unfold clone_component. destruct (clone_comp fx (st0 n) c) as [c1 s1] eqn:E. intros H. injection H as <- <-.
  apply (clone_comp_fresh fx n) in E; [|exact Hfx | apply st_ok_st0 | cbn; lia]. cbn in E. tauto.
Qed.

Lemma clone_model_fresh fx ext n m m' n' :
  fx_isrc fx = true -> clone_model fx ext n m = Some (m', n') -> n < n' /\ rng n n' (model_oids m').
Proof.
  intros Hfx. unfold clone_model.
  destruct (clone_units_list fx (st0 (S n)) n (m_units m)) as [us s1] eqn:E1.
  destruct (clone_comps fx s1 n (m_comps m)) as [cs s2] eqn:E2.
  destruct (record_model fx ext m) as [em|]; [|discriminate].
  destruct (apply_map _ em (Some [])) as [E|]; [|discriminate]. intros H. injection H as <- <-.
  apply (clone_units_list_fresh fx n) in E1; [|exact Hfx | apply st_ok_st0 | cbn; lia]. destruct E1 as (Ok1 & L1 & R1 & _). cbn in L1.
  apply (clone_comps_fresh fx n) in E2; [|exact Hfx | exact Ok1 | lia]. destruct E2 as (Ok2 & L2 & R2 & _).
  split; [lia|]. unfold set_eqs. apply model_oids_map_f.
  { intros v Hv. rewrite var_oids_set_eqs. exact Hv. }
  unfold fix_component_units. apply model_oids_map_f.
  { intros v Hv. apply fix_units_var_rng; [|exact Hv]. cbn. eapply rng_mono; [|exact R1]. lia. }
  unfold model_oids. cbn. apply rng_cons. split; [lia|]. apply rng_app. split; [eapply rng_mono; [|exact R1]; lia | exact R2].
Qed.

(* ------------------------------------------------------------------------------------------ content: leaves *)

Lemma norm_prefix_idem p : norm_prefix (norm_prefix p) = norm_prefix p.
Proof. unfold norm_prefix. destruct (zero_int p) eqn:E; [reflexivity | rewrite E; reflexivity]. Qed.

Definition wf_unitdef (d : unitdef) : Prop := norm_prefix (ud_prefix d) = ud_prefix d.
Definition wf_units (u : units) : Prop := Forall wf_unitdef (u_defs u).

Lemma clone_unitdef_id d : wf_unitdef d -> clone_unitdef d = d.
Proof. unfold wf_unitdef, clone_unitdef. intros H. rewrite H. destruct d; reflexivity. Qed.

Lemma clone_unitdef_wf d : wf_unitdef (clone_unitdef d).
Proof. unfold wf_unitdef, clone_unitdef. cbn. apply norm_prefix_idem. Qed.

Lemma clone_isrc_content n i : content_isrc (fst (clone_isrc n i)) = content_isrc i.
Proof. reflexivity. Qed.

(* state invariant for the content of cloned import sources.  C = the import-source records of the entity being
   cloned; they are coherent (records with one oid agree on url and id: they stand for ONE object). *)
Definition coherent (C : list isrc) : Prop :=
  forall i j, In i C -> In j C -> is_oid i = is_oid j -> content_isrc i = content_isrc j.

Definition imap_ok (C : list isrc) (s : st) : Prop :=
  forall k i', In (k, i') (imap s) -> exists i, In i C /\ is_oid i = k /\ content_isrc i' = content_isrc i.

Lemma imap_ok_nx C s n : imap_ok C s -> imap_ok C (st_nx n s).
Proof. intros H. exact H. Qed.

Definition opt_in (imp : option isrc) (C : list isrc) : Prop := forall i, imp = Some i -> In i C.

Lemma clone_imp_content fx C s imp imp' s' :
  coherent C -> imap_ok C s -> opt_in imp C -> clone_imp fx s imp = (imp', s') ->
  imap_ok C s' /\ sx_opt content_isrc imp' = sx_opt content_isrc imp.
Proof.
  intros Hc Hok Hin. unfold clone_imp. destruct imp as [i|].
  2:{ intros H. injection H as <- <-. split; [exact Hok | reflexivity]. }
  destruct (fx_isrc fx).
  2:{ intros H. injection H as <- <-. split; [exact Hok | reflexivity]. }
  destruct (lookup (is_oid i) (imap s)) as [i'|] eqn:El.
  - intros H. injection H as <- <-. split; [exact Hok|]. apply lookup_in in El. destruct (Hok _ _ El) as (j & Hj & Ej & Cj).
    cbn. rewrite Cj. rewrite (Hc j i Hj (Hin i eq_refl) Ej). reflexivity.
  - cbn. intros H. injection H as <- <-. split; [|reflexivity].
    intros k i' [E|Hk]; [|apply Hok; exact Hk]. injection E as <- <-. exists i. repeat split. apply Hin. reflexivity.
Qed.

Lemma map_clone_unitdef_id l : Forall wf_unitdef l -> map clone_unitdef l = l.
Proof. intros H. apply map_id_Forall. revert H. apply Forall_impl. intros d. apply clone_unitdef_id. Qed.

Lemma clone_units_st_content fx C s u u' s' :
  coherent C -> imap_ok C s -> opt_in (u_imp u) C -> wf_units u -> clone_units_st fx s u = (u', s') ->
  imap_ok C s' /\ content_units u' = content_units u /\ u_name u' = u_name u /\ wf_units u'.
Proof.
  intros Hc Hok Hin Hwf. unfold clone_units_st.
  destruct (clone_imp fx (st_nx (S (nx s)) s) (u_imp u)) as [imp' s1] eqn:E. intros H. injection H as <- <-.
  apply (clone_imp_content fx C) in E; [|exact Hc | exact Hok | exact Hin]. destruct E as [Ok1 Ci].
  repeat split; [exact Ok1 | | ].
  - unfold content_units. cbn. rewrite Ci. rewrite map_clone_unitdef_id by exact Hwf. reflexivity.
  - unfold wf_units. cbn. apply Forall_forall. intros d Hd. apply in_map_iff in Hd. destruct Hd as (d0 & <- & _). apply clone_unitdef_wf.
Qed.

Lemma coherent_single i : coherent [i].
Proof. intros a b [<-|[]] [<-|[]] _. reflexivity. Qed.

Lemma imap_ok_st0 C n : imap_ok C (st0 n).
Proof. intros k i' []. Qed.

Lemma clone_units_content fx n u : wf_units u -> content_units (fst (clone_units fx n u)) = content_units u.
Proof.
  intros Hwf. unfold clone_units. destruct (clone_units_st fx (st0 n) u) as [u' s'] eqn:E. cbn.
  destruct (u_imp u) as [i|] eqn:Ei.
  - apply (clone_units_st_content fx [i]) in E; [tauto | apply coherent_single | apply imap_ok_st0 | | exact Hwf].
    intros j Hj. rewrite Ei in Hj. injection Hj as <-. left. reflexivity.
  - apply (clone_units_st_content fx []) in E; [tauto | intros a b [] | apply imap_ok_st0 | | exact Hwf].
    intros j Hj. rewrite Ei in Hj. discriminate.
Qed.

Lemma clone_units_name fx n u : u_name (fst (clone_units fx n u)) = u_name u.
Proof.
  unfold clone_units, clone_units_st. destruct (clone_imp fx (st_nx (S (nx (st0 n))) (st0 n)) (u_imp u)). reflexivity.
Qed.

Lemma clone_variable_content fx n v : content_variable (fst (clone_variable fx n v)) = content_variable v.
Proof.
  unfold clone_variable. destruct (v_units v) as [u|] eqn:Eu.
  - pose proof (clone_units_name fx (S n) u) as Hn. destruct (clone_units fx (S n) u) as [u' n1]. cbn in *.
    unfold content_variable. cbn. rewrite Eu. cbn. rewrite Hn. reflexivity.
  - cbn. unfold content_variable. cbn. rewrite Eu. reflexivity.
Qed.

Lemma clone_variable_name fx n v : v_name (fst (clone_variable fx n v)) = v_name v.
Proof. unfold clone_variable. destruct (v_units v) as [u|]; [destruct (clone_units fx (S n) u)|]; reflexivity. Qed.

Lemma clone_opt_variable_name fx n v :
  option_map v_name (fst (clone_opt_variable fx n v)) = option_map v_name v.
Proof.
  unfold clone_opt_variable. destruct v as [v|]; [|reflexivity].
  pose proof (clone_variable_name fx n v) as H. destruct (clone_variable fx n v). cbn in *. rewrite H. reflexivity.
Qed.

Lemma content_vref_nil v w : option_map v_name v = option_map v_name w -> content_vref [] v = content_vref [] w.
Proof. destruct v, w; cbn; intros H; try discriminate; [injection H as ->|]; reflexivity. Qed.

Definition wf_reset (r : reset) : Prop := r_order_set r = false -> r_order r = 0%Z.   (* Reset::removeOrder / create *)

Lemma clone_reset_content_lone fx n r :
  fx_order fx = true -> wf_reset r -> content_reset [] (fst (clone_reset fx n r)) = content_reset [] r.
Proof.
  intros Hfx Hwf. unfold clone_reset.
  pose proof (clone_opt_variable_name fx (S n) (r_var r)) as Hv.
  destruct (clone_opt_variable fx (S n) (r_var r)) as [v' n1].
  pose proof (clone_opt_variable_name fx n1 (r_test r)) as Ht.
  destruct (clone_opt_variable fx n1 (r_test r)) as [t' n2]. cbn in *.
  unfold content_reset. cbn. rewrite Hfx. cbn.
  rewrite (content_vref_nil _ _ Hv), (content_vref_nil _ _ Ht).
  destruct (r_order_set r) eqn:Eo; [reflexivity|]. cbn. rewrite (Hwf Eo). reflexivity.
Qed.

Lemma clone_reset_order_set fx n r : fx_order fx = true -> r_order_set (fst (clone_reset fx n r)) = r_order_set r.
Proof.
  intros Hfx. unfold clone_reset. destruct (clone_opt_variable fx (S n) (r_var r)) as [v' n1].
  destruct (clone_opt_variable fx n1 (r_test r)) as [t' n2]. cbn. rewrite Hfx. reflexivity.
Qed.

(* ------------------------------------------------------------------------------------------ content: components *)

Lemma index_of_some o l i : index_of o l = Some i -> nth_error l i = Some o.
Proof.
  revert i. induction l as [|x r IH]; cbn; intros i; [discriminate|]. destruct (Nat.eqb x o) eqn:E.
  - intros H. injection H as <-. apply Nat.eqb_eq in E. subst. reflexivity.
  - destruct (index_of o r) as [j|]; cbn; [|discriminate]. intros H. injection H as <-. cbn. apply IH. reflexivity.
Qed.

Lemma index_of_none o l : (forall x, In x l -> x <> o) -> index_of o l = None.
Proof.
  induction l as [|x r IH]; cbn; intros H; [reflexivity|]. destruct (Nat.eqb x o) eqn:E.
  - apply Nat.eqb_eq in E. exfalso. apply (H x); [left; reflexivity | exact E].
  - rewrite IH; [reflexivity|]. intros y Hy. apply H. right. exact Hy.
Qed.

Lemma index_of_nodup l : NoDup l -> forall i o, nth_error l i = Some o -> index_of o l = Some i.
Proof.
  induction 1 as [|x r Hx Hnd IH]; intros i o; [destruct i; discriminate|]. destruct i as [|i]; cbn.
  - intros H. injection H as <-. rewrite Nat.eqb_refl. reflexivity.
  - intros H. destruct (Nat.eqb x o) eqn:E.
    + apply Nat.eqb_eq in E. subst. exfalso. apply Hx. eapply nth_error_In. exact H.
    + rewrite (IH i o H). reflexivity.
Qed.

Lemma clone_variable_oid fx n v : v_oid (fst (clone_variable fx n v)) = n /\ n < snd (clone_variable fx n v).
Proof.
  unfold clone_variable. destruct (v_units v) as [u|]; cbn; [|split; [reflexivity | lia]].
  unfold clone_units, clone_units_st. 
  destruct (clone_imp fx (st_nx (S (nx (st0 (S n)))) (st0 (S n))) (u_imp u)) as [imp' s1] eqn:E. cbn. split; [reflexivity|].
  unfold clone_imp in E. destruct (u_imp u); [destruct (fx_isrc fx); cbn in E|]; injection E as <- <-; cbn; lia.
Qed.

Lemma clone_variables_spec fx owner l : forall n l' n',
  clone_variables fx n owner l = (l', n') ->
  n <= n' /\
  map content_variable l' = map content_variable l /\
  (forall i x, nth_error l i = Some x -> exists w, nth_error l' i = Some w /\ v_name w = v_name x) /\
  (forall w, In w l' -> n <= v_oid w < n') /\
  NoDup (map v_oid l').
Proof.
  induction l as [|v r IH]; intros n l' n'; cbn.
  - intros H. injection H as <- <-. split; [lia|]. split; [reflexivity|]. split; [intros [|i] x; discriminate|]. split; [intros w []|constructor].
  - pose proof (clone_variable_oid fx n v) as Ho. pose proof (clone_variable_content fx n v) as Hc.
    pose proof (clone_variable_name fx n v) as Hn.
    destruct (clone_variable fx n v) as [v' n1]. cbn in Ho, Hc, Hn. destruct Ho as [Ho Hlt].
    destruct (clone_variables fx n1 owner r) as [r' n2] eqn:E2. intros H. injection H as <- <-.
    apply IH in E2. destruct E2 as (L2 & C2 & N2 & R2 & D2). split; [lia|]. split; [|split; [|split]].
    + cbn. rewrite C2. f_equal. exact Hc.
    + intros [|i] x; cbn.
      * intros H. injection H as <-. exists (v_set_parent (Some owner) v'). split; [reflexivity | exact Hn].
      * apply N2.
    + intros w [<-|Hw]; [cbn; lia|]. specialize (R2 w Hw). lia.
    + cbn. constructor; [|exact D2]. rewrite Ho. intros Hi. apply in_map_iff in Hi. destruct Hi as (w & Ew & Hw).
      specialize (R2 w Hw). lia.
Qed.

Definition reset_refs_ok (vars : list variable) (r : reset) : Prop :=
  forall v, r_var r = Some v \/ r_test r = Some v -> forall w, In w vars -> v_oid w = v_oid v -> v_name w = v_name v.

Lemma nth_error_map_some {X Y} (f : X -> Y) l i y : nth_error (map f l) i = Some y -> exists x, nth_error l i = Some x /\ f x = y.
Proof.
  revert i. induction l as [|a r IH]; intros [|i]; cbn; try discriminate.
  - intros H. injection H as <-. exists a. split; reflexivity.
  - apply IH.
Qed.

Lemma vref_content fx vars vars' n o :
  (forall i x, nth_error vars i = Some x -> exists w, nth_error vars' i = Some w /\ v_name w = v_name x) ->
  NoDup (map v_oid vars') -> (forall w, In w vars' -> v_oid w < n) ->
  (forall v, o = Some v -> forall w, In w vars -> v_oid w = v_oid v -> v_name w = v_name v) ->
  content_vref vars' (retarget vars vars' o (fst (clone_opt_variable fx n o))) = content_vref vars o.
Proof.
  intros Hnth Hnd Hlt Hco. destruct o as [v|]; [|reflexivity]. cbn [clone_opt_variable].
  pose proof (clone_variable_oid fx n v) as Ho. pose proof (clone_variable_name fx n v) as Hn.
  destruct (clone_variable fx n v) as [v' n1]. cbn in Ho, Hn. destruct Ho as [Ho _]. cbn [fst retarget]. unfold content_vref at 2. cbn [sx_opt].
  destruct (index_of (v_oid v) (map v_oid vars)) as [i|] eqn:Ei.
  - apply index_of_some in Ei. apply nth_error_map_some in Ei. destruct Ei as (x & Ex & Eox).
    destruct (Hnth i x Ex) as (w & Ew & Enw). rewrite Ew. cbn.
    rewrite (index_of_nodup _ Hnd i (v_oid w)).
    2:{ rewrite nth_error_map, Ew. reflexivity. }
    rewrite Enw. rewrite (Hco v eq_refl x (nth_error_In _ _ Ex) Eox). reflexivity.
  - cbn. rewrite Hn. rewrite index_of_none; [reflexivity|].
    intros y Hy. apply in_map_iff in Hy. destruct Hy as (w & <- & Hw). specialize (Hlt w Hw). lia.
Qed.

Lemma clone_opt_variable_ge fx n o : n <= snd (clone_opt_variable fx n o).
Proof.
  unfold clone_opt_variable. destruct o as [v|]; [|cbn; lia]. pose proof (clone_variable_oid fx n v) as H.
  destruct (clone_variable fx n v). cbn in *. lia.
Qed.

Lemma clone_reset_spec fx n r : n < snd (clone_reset fx n r).
Proof.
  unfold clone_reset. pose proof (clone_opt_variable_ge fx (S n) (r_var r)) as H1.
  destruct (clone_opt_variable fx (S n) (r_var r)) as [v' n1]. pose proof (clone_opt_variable_ge fx n1 (r_test r)) as H2.
  destruct (clone_opt_variable fx n1 (r_test r)) as [t' n2]. cbn in *. lia.
Qed.

Lemma clone_resets_content fx owner vars vars' l : forall n l' n',
  fx_order fx = true ->
  (forall i x, nth_error vars i = Some x -> exists w, nth_error vars' i = Some w /\ v_name w = v_name x) ->
  NoDup (map v_oid vars') -> (forall w, In w vars' -> v_oid w < n) ->
  Forall (reset_refs_ok vars) l -> Forall wf_reset l ->
  clone_resets fx n owner vars vars' l = (l', n') ->
  map (content_reset vars') l' = map (content_reset vars) l.
Proof.
  induction l as [|r rest IH]; intros n l' n' Hfx Hnth Hnd Hlt Hrefs Hwf; cbn.
  - intros H. injection H as <- <-. reflexivity.
  - pose proof (clone_reset_spec fx n r) as Hsp. destruct (clone_reset fx n r) as [r' n1] eqn:E1. cbn in Hsp.
    destruct (clone_resets fx n1 owner vars vars' rest) as [rest' n2] eqn:E2. intros H. injection H as <- <-.
    inversion Hrefs as [|? ? Hr Hrs]; subst. inversion Hwf as [|? ? Hw Hws]; subst.
    cbn. f_equal.
    2:{ eapply IH; [exact Hfx | exact Hnth | exact Hnd | | exact Hrs | exact Hws | exact E2]. intros w Hw'. specialize (Hlt w Hw'). lia. }
    unfold clone_reset in E1.
    pose proof (vref_content fx vars vars' (S n) (r_var r) Hnth Hnd) as V1.
    pose proof (clone_opt_variable_ge fx (S n) (r_var r)) as G1.
    destruct (clone_opt_variable fx (S n) (r_var r)) as [v' m1]. cbn in V1, G1.
    pose proof (vref_content fx vars vars' m1 (r_test r) Hnth Hnd) as V2.
    destruct (clone_opt_variable fx m1 (r_test r)) as [t' m2]. cbn in V2. injection E1 as <- <-.
    unfold content_reset. cbn. rewrite Hfx. cbn.
    rewrite V1, V2.
    + destruct (r_order_set r) eqn:Eo; [reflexivity|]. cbn. rewrite (Hw Eo). reflexivity.
    + intros w Hw'. specialize (Hlt w Hw'). lia.
    + intros v Ev. apply Hr. right. exact Ev.
    + intros w Hw'. specialize (Hlt w Hw'). lia.
    + intros v Ev. apply Hr. left. exact Ev.
Qed.

Definition opt_list {T} (o : option T) : list T := match o with Some x => [x] | None => [] end.

Fixpoint comp_imps (c : component) : list isrc :=
  match c with Comp _ _ _ _ _ _ imp _ _ _ kids => opt_list imp ++ flat_map comp_imps kids end.

Fixpoint subcomps (c : component) : list component :=
  match c with Comp _ _ _ _ _ _ _ _ _ _ kids => c :: flat_map subcomps kids end.

Definition comp_local_ok (c : component) : Prop :=
  NoDup (map v_oid (c_vars c)) /\ Forall (reset_refs_ok (c_vars c)) (c_resets c) /\ Forall wf_reset (c_resets c).

Definition wf_comp (c : component) : Prop := Forall comp_local_ok (subcomps c).

Lemma content_comp_set_parent p c : content_comp (c_set_parent p c) = content_comp c.
Proof. destruct c; reflexivity. Qed.

Lemma clone_comp_content fx C c : forall s c' s',
  fx_order fx = true -> fx_encid fx = true -> coherent C -> imap_ok C s -> incl (comp_imps c) C -> wf_comp c ->
  clone_comp fx s c = (c', s') -> imap_ok C s' /\ content_comp c' = content_comp c.
Proof.
  induction c as [o p id name encid math imp impref vars resets kids IH] using component_ind'.
  intros s c' s' Hfo Hfe Hco Hok Hin Hwf. rewrite clone_comp_unfold. cbv zeta.
  destruct (clone_imp fx (st_nx (S (nx s)) s) imp) as [imp' s1] eqn:E1.
  pose proof (clone_variables_spec fx (nx s) vars (nx s1)) as SV.
  destruct (clone_variables fx (nx s1) (nx s) vars) as [vars' n2] eqn:E2.
  destruct (clone_resets fx n2 (nx s) vars vars' resets) as [resets' n3] eqn:E3.
  destruct (clone_comps fx (st_nx n3 s1) (nx s) kids) as [kids' s4] eqn:E4. intros H. injection H as <- <-.
  cbn [comp_imps] in Hin. unfold wf_comp in Hwf. cbn [subcomps] in Hwf. inversion Hwf as [|? ? Hloc Hsub]; subst.
  destruct Hloc as (Hnd & Hrefs & Hwr). cbn [c_vars c_resets] in *.
  apply (clone_imp_content fx C) in E1; [|exact Hco | exact Hok|].
  2:{ intros i Ei. apply Hin. subst imp. left. reflexivity. }
  destruct E1 as [Ok1 Ci].
  destruct (SV _ _ eq_refl) as (L2 & CV & NV & RV & DV).
  apply (clone_resets_content fx) in E3; [|exact Hfo | exact NV | exact DV | | exact Hrefs | exact Hwr].
  2:{ intros w Hw. specialize (RV w Hw). lia. }
  assert (K : forall l z l' z', Forall (fun c => forall s c' s', fx_order fx = true -> fx_encid fx = true -> coherent C -> imap_ok C s ->
                 incl (comp_imps c) C -> wf_comp c -> clone_comp fx s c = (c', s') -> imap_ok C s' /\ content_comp c' = content_comp c) l ->
             imap_ok C z -> incl (flat_map comp_imps l) C -> Forall comp_local_ok (flat_map subcomps l) ->
             clone_comps fx z (nx s) l = (l', z') -> imap_ok C z' /\ map content_comp l' = map content_comp l).
  { induction l as [|k r IHr]; intros z l' z' Hall Hz Hinl Hwl; cbn.
    - intros H. injection H as <- <-. split; [exact Hz | reflexivity].
    - destruct (clone_comp fx z k) as [k' z1] eqn:Ek. destruct (clone_comps fx z1 (nx s) r) as [r' z2] eqn:Er.
      intros H. injection H as <- <-. inversion Hall as [|? ? Hk Hr']; subst. cbn in Hinl, Hwl. apply Forall_app in Hwl. destruct Hwl as [Wk Wr].
      apply Hk in Ek; [|exact Hfo | exact Hfe | exact Hco | exact Hz | intros x Hx; apply Hinl; apply in_or_app; left; exact Hx | exact Wk].
      destruct Ek as [Okk Ck].
      apply IHr in Er; [|exact Hr' | exact Okk | intros x Hx; apply Hinl; apply in_or_app; right; exact Hx | exact Wr].
      destruct Er as [Okr Cr]. split; [exact Okr|]. cbn. rewrite content_comp_set_parent, Ck, Cr. reflexivity. }
  apply K in E4; [|exact IH | exact Ok1 | intros x Hx; apply Hin; apply in_or_app; right; exact Hx | exact Hsub].
  destruct E4 as [Ok4 CK]. split; [exact Ok4|].
  cbn [content_comp]. rewrite Hfe, Ci, CV, E3, CK. reflexivity.
Qed.

Lemma clone_component_content fx n c :
  fx_order fx = true -> fx_encid fx = true -> coherent (comp_imps c) -> wf_comp c ->
  content_comp (fst (clone_component fx n c)) = content_comp c.
Proof.
  intros Hfo Hfe Hco Hwf. unfold clone_component. destruct (clone_comp fx (st0 n) c) as [c' s'] eqn:E. cbn.
  apply (clone_comp_content fx (comp_imps c)) in E; [tauto | assumption.. | apply imap_ok_st0 | apply incl_refl | exact Hwf].
Qed.

(* ------------------------------------------------------------------------------------------ sharing pattern of import sources *)

Definition keys (s : st) : list oid := map fst (imap s).
Definition rho (s : st) (o : oid) : oid := match lookup o (imap s) with Some i' => is_oid i' | None => 0 end.
Definition pinv (lo : nat) (s : st) : Prop :=
  NoDup (keys s) /\ NoDup (map (fun kv => is_oid (snd kv)) (imap s)) /\ st_ok lo s.
Definition pext (s s' : st) : Prop := forall k, In k (keys s) -> In k (keys s') /\ rho s' k = rho s k.

Lemma pext_refl s : pext s s. Proof. intros k H. split; [exact H | reflexivity]. Qed.
Lemma pext_trans a b c : pext a b -> pext b c -> pext a c.
Proof. intros H1 H2 k Hk. destruct (H1 k Hk) as [K1 R1]. destruct (H2 k K1) as [K2 R2]. split; [exact K2 | congruence]. Qed.

Lemma lookup_none_notin {T} o (l : list (oid * T)) : lookup o l = None -> ~ In o (map fst l).
Proof.
  induction l as [|[k a] r IH]; cbn; [intros _ []|]. destruct (Nat.eqb k o) eqn:E; [discriminate|].
  intros H [Hk|Hk]; [apply Nat.eqb_neq in E; contradiction | exact (IH H Hk)].
Qed.

Lemma lookup_some_in {T} o (l : list (oid * T)) x : lookup o l = Some x -> In o (map fst l).
Proof. intros H. apply lookup_in in H. apply in_map_iff. exists (o, x). split; [reflexivity | exact H]. Qed.

Lemma in_keys_lookup {T} o (l : list (oid * T)) : In o (map fst l) -> exists x, lookup o l = Some x.
Proof.
  induction l as [|[k a] r IH]; cbn; [intros []|]. destruct (Nat.eqb k o) eqn:E; [intros _; exists a; reflexivity|].
  intros [Hk|Hk]; [apply Nat.eqb_neq in E; contradiction | exact (IH Hk)].
Qed.

Lemma pinv_nx lo s n : nx s <= n -> pinv lo s -> pinv lo (st_nx n s).
Proof. intros H (A & B & C). repeat split; [exact A | exact B | apply st_ok_nx; assumption]. Qed.

Lemma clone_imp_pattern fx lo s imp imp' s' :
  fx_isrc fx = true -> pinv lo s -> lo <= nx s -> clone_imp fx s imp = (imp', s') ->
  pinv lo s' /\ pext s s' /\ nx s <= nx s' /\
  isrc_oids_opt imp' = map (rho s') (isrc_oids_opt imp) /\ (forall k, In k (isrc_oids_opt imp) -> In k (keys s')).
Proof.
  intros Hfx Hp Hlo. unfold clone_imp. destruct imp as [i|].
  2:{ intros H. injection H as <- <-. repeat split; [apply Hp.. | apply pext_refl | lia | intros k []]. }
  rewrite Hfx. destruct (lookup (is_oid i) (imap s)) as [i'|] eqn:El.
  - intros H. injection H as <- <-. repeat split; [apply Hp.. | apply pext_refl | lia | |].
    + cbn. unfold rho. rewrite El. reflexivity.
    + intros k [<-|[]]. eapply lookup_some_in. exact El.
  - cbn. intros H. injection H as <- <-. destruct Hp as (A & B & Cc). pose proof (lookup_none_notin _ _ El) as Hn.
    split; [|split; [|split; [|split]]].
    + repeat split; unfold keys; cbn.
      * constructor; [exact Hn | exact A].
      * constructor; [|exact B]. intros Hi. apply in_map_iff in Hi. destruct Hi as ([k x] & Ex & Hx). cbn in Ex.
        unfold st_ok in Cc. rewrite Forall_forall in Cc. specialize (Cc _ Hx). cbn in Cc. lia.
      * unfold st_ok. cbn. constructor; [cbn; lia|]. revert Cc. unfold st_ok. apply Forall_impl. intros kv Hk. lia.
    + intros k Hk. unfold keys, rho. cbn. split; [right; exact Hk|]. destruct (Nat.eqb (is_oid i) k) eqn:E; [|reflexivity].
      apply Nat.eqb_eq in E. subst k. contradiction.
    + lia.
    + cbn. unfold rho. cbn. rewrite Nat.eqb_refl. reflexivity.
    + intros k [<-|[]]. unfold keys. cbn. left. reflexivity.
Qed.

Lemma comp_imports_set_parent p c : comp_imports (c_set_parent p c) = comp_imports c.
Proof. destruct c; reflexivity. Qed.

Lemma map_rho_pext s s' l : pext s s' -> (forall k, In k l -> In k (keys s)) -> map (rho s') l = map (rho s) l.
Proof. intros Hp Hk. apply map_ext_in. intros k Hin. apply Hp. apply Hk. exact Hin. Qed.

Lemma clone_comp_pattern fx lo c : forall s c' s',
  fx_isrc fx = true -> pinv lo s -> lo <= nx s -> clone_comp fx s c = (c', s') ->
  pinv lo s' /\ pext s s' /\ nx s <= nx s' /\
  comp_imports c' = map (rho s') (comp_imports c) /\ (forall k, In k (comp_imports c) -> In k (keys s')).
Proof.
  induction c as [o p id name encid math imp impref vars resets kids IH] using component_ind'.
  intros s c' s' Hfx Hp Hlo. rewrite clone_comp_unfold. cbv zeta.
  destruct (clone_imp fx (st_nx (S (nx s)) s) imp) as [imp' s1] eqn:E1.
  pose proof (clone_variables_spec fx (nx s) vars (nx s1)) as SV.
  destruct (clone_variables fx (nx s1) (nx s) vars) as [vars' n2] eqn:E2.
  assert (L3 : n2 <= snd (clone_resets fx n2 (nx s) vars vars' resets)).
  { clear. generalize n2. induction resets as [|r rest IHr]; intros n; cbn; [lia|].
    pose proof (clone_reset_spec fx n r) as Hr. destruct (clone_reset fx n r) as [r' n1]. cbn in Hr.
    specialize (IHr n1). destruct (clone_resets fx n1 (nx s) vars vars' rest). cbn in *. lia. }
  destruct (clone_resets fx n2 (nx s) vars vars' resets) as [resets' n3] eqn:E3. cbn in L3.
  destruct (clone_comps fx (st_nx n3 s1) (nx s) kids) as [kids' s4] eqn:E4. intros H. injection H as <- <-.
  destruct (SV _ _ eq_refl) as (L2 & _).
  apply (clone_imp_pattern fx lo) in E1; [|exact Hfx | apply pinv_nx; [lia | exact Hp] | cbn; lia].
  destruct E1 as (P1 & X1 & N1 & I1 & K1). cbn in N1.
  assert (K : forall l z l' z', Forall (fun c => forall s c' s', fx_isrc fx = true -> pinv lo s -> lo <= nx s -> clone_comp fx s c = (c', s') ->
                 pinv lo s' /\ pext s s' /\ nx s <= nx s' /\
                 comp_imports c' = map (rho s') (comp_imports c) /\ (forall k, In k (comp_imports c) -> In k (keys s'))) l ->
             pinv lo z -> lo <= nx z -> clone_comps fx z (nx s) l = (l', z') ->
             pinv lo z' /\ pext z z' /\ nx z <= nx z' /\
             flat_map comp_imports l' = map (rho z') (flat_map comp_imports l) /\
             (forall k, In k (flat_map comp_imports l) -> In k (keys z'))).
  { induction l as [|k r IHr]; intros z l' z' Hall Hz Hlz; cbn.
    - intros H. injection H as <- <-. repeat split; [apply Hz.. | apply pext_refl | lia | intros k []].
    - destruct (clone_comp fx z k) as [k' z1] eqn:Ek. destruct (clone_comps fx z1 (nx s) r) as [r' z2] eqn:Er.
      intros H. injection H as <- <-. inversion Hall as [|? ? Hk Hr']; subst.
      apply Hk in Ek; [|exact Hfx | exact Hz | exact Hlz]. destruct Ek as (Pk & Xk & Nk & Ik & Kk).
      apply IHr in Er; [|exact Hr' | exact Pk | lia]. destruct Er as (Pr & Xr & Nr & Ir & Kr).
      split; [exact Pr|]. split; [eapply pext_trans; eassumption|]. split; [lia|]. split.
      + cbn. rewrite comp_imports_set_parent, map_app, Ik, Ir. f_equal. symmetry. apply map_rho_pext; assumption.
      + intros x Hx. apply in_app_or in Hx. destruct Hx as [Hx|Hx]; [apply Xr; apply Kk; exact Hx | apply Kr; exact Hx]. }
  apply K in E4; [|exact IH | apply pinv_nx; [lia | exact P1] | cbn; lia].
  destruct E4 as (P4 & X4 & N4 & I4 & K4). cbn in N4.
  assert (X14 : pext s1 s4) by exact X4.
  split; [exact P4|]. split; [eapply pext_trans; [exact X1 | exact X14]|]. split; [lia|]. split.
  - cbn [comp_imports]. rewrite map_app, I1, I4. f_equal. symmetry. apply map_rho_pext; assumption.
  - cbn [comp_imports]. intros x Hx. apply in_app_or in Hx. destruct Hx as [Hx|Hx]; [apply X14; apply K1; exact Hx | apply K4; exact Hx].
Qed.

Lemma NoDup_map_inj {X Y} (f : X -> Y) l : NoDup (map f l) -> forall x y, In x l -> In y l -> f x = f y -> x = y.
Proof.
  induction l as [|a r IH]; cbn; intros Hnd x y Hx Hy E; [destruct Hx|]. inversion Hnd as [|? ? Ha Hr]; subst.
  destruct Hx as [<-|Hx], Hy as [<-|Hy]; try reflexivity.
  - exfalso. apply Ha. rewrite E. apply in_map. exact Hy.
  - exfalso. apply Ha. rewrite <- E. apply in_map. exact Hx.
  - apply IH; assumption.
Qed.

Lemma rho_inj lo s k1 k2 : pinv lo s -> In k1 (keys s) -> In k2 (keys s) -> rho s k1 = rho s k2 -> k1 = k2.
Proof.
  intros (A & B & _) H1 H2. unfold rho. destruct (in_keys_lookup _ _ H1) as [x1 E1]. destruct (in_keys_lookup _ _ H2) as [x2 E2].
  rewrite E1, E2. intros E. apply lookup_in in E1. apply lookup_in in E2.
  pose proof (NoDup_map_inj _ _ B _ _ E1 E2 E) as P. injection P as -> _. reflexivity.
Qed.

Lemma index_of_map_inj (f : oid -> oid) o l : (forall x, In x l -> f x = f o -> x = o) -> index_of (f o) (map f l) = index_of o l.
Proof.
  induction l as [|x r IH]; cbn; intros H; [reflexivity|]. destruct (Nat.eqb x o) eqn:E.
  - apply Nat.eqb_eq in E. subst. rewrite Nat.eqb_refl. reflexivity.
  - destruct (Nat.eqb (f x) (f o)) eqn:E'.
    + apply Nat.eqb_eq in E'. apply H in E'; [|left; reflexivity]. apply Nat.eqb_neq in E. contradiction.
    + rewrite IH; [reflexivity|]. intros y Hy. apply H. right. exact Hy.
Qed.

Lemma canon_map_inj (f : oid -> oid) l : (forall x y, In x l -> In y l -> f x = f y -> x = y) -> canon (map f l) = canon l.
Proof.
  intros H. unfold canon. rewrite map_map. apply map_ext_in. intros o Ho. apply index_of_map_inj. intros x Hx E. apply H; assumption.
Qed.

Lemma pinv_st0 lo n : pinv lo (st0 n).
Proof. repeat split; try constructor. Qed.

Lemma clone_component_pattern fx n c :
  fx_isrc fx = true -> canon (comp_imports (fst (clone_component fx n c))) = canon (comp_imports c).
Proof.
  intros Hfx. unfold clone_component. destruct (clone_comp fx (st0 n) c) as [c' s'] eqn:E. cbn.
  apply (clone_comp_pattern fx n) in E; [|exact Hfx | apply pinv_st0 | cbn; lia]. destruct E as (P & _ & _ & I & K).
  rewrite I. apply canon_map_inj. intros x y Hx Hy. apply (rho_inj n s'); [exact P | apply K; exact Hx | apply K; exact Hy].
Qed.
