(* CloneProofs.v -- C11: lemmas about the clone model of CloneDefs.v *)
From Coq Require Import List String Ascii ZArith Bool Arith Lia.
From LC Require Import CloneDefs.
Import ListNotations.
Local Open Scope string_scope.
Local Open Scope nat_scope.
Local Open Scope list_scope.

(* ------------------------------------------------------------------------------------------ induction on component trees *)

Lemma component_ind' (P : component -> Prop) :
  (forall o p id name encid math imp impref vars resets kids,
      Forall P kids -> P (Comp o p id name encid math imp impref vars resets kids)) ->
  forall c, P c.
Proof.
  intros H. fix IH 1. intros [o p id name encid math imp impref vars resets kids].
  apply H. induction kids as [|k r IHr]; constructor; [apply IH | exact IHr].
Qed.

(* the recursion of Component::clone over the children is clone_comps *)
Lemma clone_comp_unfold fx s o p id name encid math imp impref vars resets kids :
  clone_comp fx s (Comp o p id name encid math imp impref vars resets kids) =
  let o' := nx s in
  let (imp', s1) := clone_imp fx (st_nx (S o') s) imp in
  let (vars', n2) := clone_variables fx (nx s1) o' vars in
  let (resets', n3) := clone_resets fx n2 o' vars vars' resets in
  let (kids', s4) := clone_comps fx (st_nx n3 s1) o' kids in
  (Comp o' None id name (if fx_encid fx then encid else "") math imp' impref vars' resets' kids', s4).
Proof.
  cbn [clone_comp]. cbv zeta.
  destruct (clone_imp fx (st_nx (S (nx s)) s) imp) as [imp' s1].
  destruct (clone_variables fx (nx s1) (nx s) vars) as [vars' n2].
  destruct (clone_resets fx n2 (nx s) vars vars' resets) as [resets' n3].
  assert (E : forall l z,
             (fix go (s0 : st) (l0 : list component) {struct l0} : list component * st :=
                match l0 with
                | [] => ([], s0)
                | k :: r => let (k', s') := clone_comp fx s0 k in
                            let (r', s'') := go s' r in (c_set_parent (Some (nx s)) k' :: r', s'')
                end) z l = clone_comps fx z (nx s) l).
  { induction l as [|k r IHr]; intros z; [reflexivity|].
    cbn [clone_comps]. destruct (clone_comp fx z k) as [k' s']. rewrite IHr. reflexivity. }
  rewrite E. reflexivity.
Qed.

Lemma map_comp_unfold i g f h k o p id name encid math imp impref vars resets kids :
  map_comp i g f h k (Comp o p id name encid math imp impref vars resets kids) =
  k (Comp o p id name encid math (option_map i imp) impref
          (map (map_var g f) vars) (map (map_reset g f h) resets) (map (map_comp i g f h k) kids)).
Proof. reflexivity. Qed.

(* ------------------------------------------------------------------------------------------ independence *)

Lemma map_id_Forall {T} (f : T -> T) l : Forall (fun x => f x = x) l -> map f l = l.
Proof. induction 1 as [|x r Hx _ IH]; cbn; [reflexivity | rewrite Hx, IH; reflexivity]. Qed.

Lemma notin_flat_map {T} (f : T -> list oid) t l : ~ In t (flat_map f l) -> forall x, In x l -> ~ In t (f x).
Proof. intros H x Hx Hi. apply H. apply in_flat_map. exists x; split; assumption. Qed.

Lemma at_oid_ne {T} (oid_of : T -> oid) o f x : oid_of x <> o -> at_oid oid_of o f x = x.
Proof. intros H. unfold at_oid. apply Nat.eqb_neq in H. rewrite H. reflexivity. Qed.

Lemma mut_isrc_id mu i : is_oid i <> mut_target mu -> mut_isrc mu i = i.
Proof. intros H. destruct mu; cbn in *; try reflexivity; apply at_oid_ne; exact H. Qed.

Lemma mut_units_id mu u : u_oid u <> mut_target mu -> mut_units mu u = u.
Proof. intros H. destruct mu; cbn in *; try reflexivity; apply at_oid_ne; exact H. Qed.

Lemma mut_var_id mu v : v_oid v <> mut_target mu -> mut_var mu v = v.
Proof. intros H. destruct mu; cbn in *; try reflexivity; apply at_oid_ne; exact H. Qed.

Lemma mut_reset_id mu r : r_oid r <> mut_target mu -> mut_reset mu r = r.
Proof. intros H. destruct mu; cbn in *; try reflexivity; apply at_oid_ne; exact H. Qed.

Lemma mut_comp_id mu c : c_oid c <> mut_target mu -> mut_comp mu c = c.
Proof.
  intros H. destruct c as [o p id name encid math imp impref vars resets kids]. cbn in H.
  destruct mu; cbn in *; try reflexivity; apply Nat.eqb_neq in H; rewrite H; reflexivity.
Qed.

Lemma opt_map_id {T} (f : T -> T) (o : option T) : (forall x, o = Some x -> f x = x) -> option_map f o = o.
Proof. destruct o as [x|]; cbn; intros H; [rewrite (H x eq_refl)|]; reflexivity. Qed.

Lemma independent_isrc mu i : ~ In (mut_target mu) [is_oid i] -> apply_isrc mu i = i.
Proof. intros H. apply mut_isrc_id. intros E. apply H. left. exact E. Qed.

Lemma independent_units mu u : ~ In (mut_target mu) (units_oids u) -> apply_units mu u = u.
Proof.
  intros H. unfold apply_units.
  assert (E : map_isrc_units (mut_isrc mu) u = u).
  { destruct u as [o p id name imp impref defs]. unfold map_isrc_units. cbn [u_oid u_parent u_id u_name u_imp u_impref u_defs].
    rewrite opt_map_id; [reflexivity|]. intros i Hi. apply mut_isrc_id. intros E. apply H. subst imp. cbn. right. left. exact E. }
  rewrite E. apply mut_units_id. intros E'. apply H. left. exact E'.
Qed.

Lemma v_set_units_eta v : v_set_units (v_units v) v = v.
Proof. destruct v; reflexivity. Qed.
Lemma r_set_vars_eta r : r_set_vars (r_var r) (r_test r) r = r.
Proof. destruct r; reflexivity. Qed.

Lemma map_var_id g f v : (forall u, v_units v = Some u -> g u = u) -> f v = v -> map_var g f v = v.
Proof. intros Hg Hf. unfold map_var. rewrite opt_map_id by exact Hg. rewrite v_set_units_eta. exact Hf. Qed.

Lemma map_reset_id g f h r :
  (forall v, r_var r = Some v -> map_var g f v = v) -> (forall v, r_test r = Some v -> map_var g f v = v) -> h r = r ->
  map_reset g f h r = r.
Proof. intros Hv Ht Hh. unfold map_reset. rewrite !opt_map_id by assumption. rewrite r_set_vars_eta. exact Hh. Qed.

Lemma independent_variable mu v : ~ In (mut_target mu) (var_oids v) -> apply_variable mu v = v.
Proof.
  intros H. unfold apply_variable. apply map_var_id.
  - intros u Hu. apply independent_units. intros Hi. apply H. unfold var_oids. rewrite Hu. right. exact Hi.
  - apply mut_var_id. intros E. apply H. left. exact E.
Qed.

Lemma independent_ovar mu v w : ~ In (mut_target mu) (ovar_oids v) -> v = Some w -> map_var (apply_units mu) (mut_var mu) w = w.
Proof. intros H E. subst v. apply (independent_variable mu w). exact H. Qed.

Lemma independent_reset mu r : ~ In (mut_target mu) (reset_oids r) -> apply_reset mu r = r.
Proof.
  intros H. unfold apply_reset. unfold reset_oids in H. apply map_reset_id.
  - intros v Hv. eapply independent_ovar; [|exact Hv]. intros Hi. apply H. right. apply in_or_app. left. exact Hi.
  - intros v Hv. eapply independent_ovar; [|exact Hv]. intros Hi. apply H. right. apply in_or_app. right. exact Hi.
  - apply mut_reset_id. intros E. apply H. left. exact E.
Qed.

Lemma independent_component mu c : ~ In (mut_target mu) (comp_oids c) -> apply_component mu c = c.
Proof.
  unfold apply_component. induction c as [o p id name encid math imp impref vars resets kids IH] using component_ind'.
  intros H. rewrite map_comp_unfold. cbn [comp_oids] in H.
  assert (Ho : o <> mut_target mu) by (intros E; apply H; left; exact E).
  assert (H1 : ~ In (mut_target mu) (isrc_oids_opt imp)) by (intros Hi; apply H; right; apply in_or_app; left; exact Hi).
  assert (H2 : ~ In (mut_target mu) (flat_map var_oids vars))
    by (intros Hi; apply H; right; apply in_or_app; right; apply in_or_app; left; exact Hi).
  assert (H3 : ~ In (mut_target mu) (flat_map reset_oids resets))
    by (intros Hi; apply H; right; apply in_or_app; right; apply in_or_app; right; apply in_or_app; left; exact Hi).
  assert (H4 : ~ In (mut_target mu) (flat_map comp_oids kids))
    by (intros Hi; apply H; right; apply in_or_app; right; apply in_or_app; right; apply in_or_app; right; exact Hi).
  rewrite opt_map_id.
  2:{ intros i Hi. apply mut_isrc_id. intros E. apply H1. subst imp. left. exact E. }
  rewrite (map_id_Forall (map_var _ _)).
  2:{ apply Forall_forall. intros v Hv. apply (independent_variable mu v). exact (notin_flat_map _ _ _ H2 v Hv). }
  rewrite (map_id_Forall (map_reset _ _ _)).
  2:{ apply Forall_forall. intros r Hr. apply (independent_reset mu r). exact (notin_flat_map _ _ _ H3 r Hr). }
  rewrite (map_id_Forall (map_comp _ _ _ _ _)).
  2:{ rewrite Forall_forall in IH. apply Forall_forall. intros k Hk. apply IH; [exact Hk|]. exact (notin_flat_map _ _ _ H4 k Hk). }
  apply mut_comp_id. exact Ho.
Qed.

Lemma independent_model mu m : ~ In (mut_target mu) (model_oids m) -> apply_model mu m = m.
Proof.
  intros H. unfold apply_model. unfold model_oids in H.
  assert (Ho : m_oid m <> mut_target mu) by (intros E; apply H; left; exact E).
  apply Nat.eqb_neq in Ho. rewrite Ho.
  destruct m as [o id name encid us cs]. unfold map_model. cbn [m_oid m_id m_name m_encid m_units m_comps] in *.
  f_equal.
  - apply map_id_Forall. apply Forall_forall. intros u Hu. apply independent_units.
    apply (notin_flat_map units_oids _ us); [|exact Hu]. intros Hi. apply H. right. apply in_or_app. left. exact Hi.
  - apply map_id_Forall. apply Forall_forall. intros c Hc. apply (independent_component mu c).
    apply (notin_flat_map comp_oids _ cs); [|exact Hc]. intros Hi. apply H. right. apply in_or_app. right. exact Hi.
Qed.

(* ------------------------------------------------------------------------------------------ freshness *)

Definition rng (lo hi : nat) (l : list oid) : Prop := Forall (fun o => lo <= o < hi) l.

Lemma rng_mono lo hi hi' l : hi <= hi' -> rng lo hi l -> rng lo hi' l.
Proof. intros H. unfold rng. apply Forall_impl. intros o Ho. lia. Qed.
Lemma rng_mono2 lo lo' hi hi' l : lo' <= lo -> hi <= hi' -> rng lo hi l -> rng lo' hi' l.
Proof. intros H1 H2. unfold rng. apply Forall_impl. intros o Ho. lia. Qed.
Lemma rng_app lo hi a b : rng lo hi (a ++ b) <-> rng lo hi a /\ rng lo hi b.
Proof. unfold rng. apply Forall_app. Qed.
Lemma rng_cons lo hi a b : rng lo hi (a :: b) <-> (lo <= a < hi) /\ rng lo hi b.
Proof. unfold rng. apply Forall_cons_iff. Qed.
Lemma rng_nil lo hi : rng lo hi []. Proof. constructor. Qed.
Lemma rng_flat_map {T} lo hi (f : T -> list oid) l : (forall x, In x l -> rng lo hi (f x)) <-> rng lo hi (flat_map f l).
Proof.
  induction l as [|x r IH]; cbn; split; intros H.
  - apply rng_nil. - intros x [].
  - apply rng_app. split; [apply H; left; reflexivity | apply IH; intros y Hy; apply H; right; exact Hy].
  - apply rng_app in H. destruct H as [H1 H2]. intros y [E|Hy]; [subst; exact H1 | apply IH; assumption].
Qed.

Definition st_ok (lo : nat) (s : st) : Prop := Forall (fun kv => lo <= is_oid (snd kv) < nx s) (imap s).

Lemma st_ok_nx lo s n : nx s <= n -> st_ok lo s -> st_ok lo (st_nx n s).
Proof. intros H. unfold st_ok, st_nx. cbn. apply Forall_impl. intros kv Hk. lia. Qed.

Lemma lookup_in {T} o (l : list (oid * T)) x : lookup o l = Some x -> In (o, x) l.
Proof.
  induction l as [|[k a] r IH]; cbn; [discriminate|]. destruct (Nat.eqb k o) eqn:E.
  - intros H. injection H as <-. apply Nat.eqb_eq in E. subst. left. reflexivity.
  - intros H. right. apply IH. exact H.
Qed.

(* `noi fx l`: the repaired cloning of import sources is on, or there is no import source among l.  Under the pinned
   flags the import source of the original is handed to the clone, so freshness only holds for import-free entities. *)
Definition noi (fx : flags) (l : list oid) : Prop := fx_isrc fx = true \/ l = [].

Lemma noi_app fx a b : noi fx (a ++ b) -> noi fx a /\ noi fx b.
Proof. intros [H|H]; [split; left; exact H|]. apply app_eq_nil in H. destruct H as [-> ->]. split; right; reflexivity. Qed.
Lemma noi_fixed fx l : fx_isrc fx = true -> noi fx l.
Proof. intros H. left. exact H. Qed.

Lemma clone_imp_fresh fx lo s imp imp' s' :
  noi fx (isrc_oids_opt imp) -> st_ok lo s -> lo <= nx s -> clone_imp fx s imp = (imp', s') ->
  st_ok lo s' /\ nx s <= nx s' /\ rng lo (nx s') (isrc_oids_opt imp').
Proof.
  intros Hfx Hok Hlo. unfold clone_imp. destruct imp as [i|].
  2:{ intros H. injection H as <- <-. repeat split; [exact Hok | lia | apply rng_nil]. }
  destruct Hfx as [Hfx|Hfx]; [|discriminate]. rewrite Hfx. destruct (lookup (is_oid i) (imap s)) as [i'|] eqn:El.
  - intros H. injection H as <- <-. repeat split; [exact Hok | lia|]. cbn. apply rng_cons. split; [|apply rng_nil].
    apply lookup_in in El. unfold st_ok in Hok. rewrite Forall_forall in Hok. apply (Hok _ El).
  - cbn. intros H. injection H as <- <-. cbn. repeat split.
    + unfold st_ok. cbn. constructor; [cbn; lia|]. revert Hok. unfold st_ok. apply Forall_impl. intros kv Hk. lia.
    + lia.
    + apply rng_cons. split; [cbn; lia | apply rng_nil].
Qed.

Lemma clone_units_st_fresh fx lo s u u' s' :
  noi fx (units_isrcs u) -> st_ok lo s -> lo <= nx s -> clone_units_st fx s u = (u', s') ->
  st_ok lo s' /\ nx s < nx s' /\ rng lo (nx s') (units_oids u') /\ u_parent u' = None.
Proof.
  intros Hfx Hok Hlo. unfold clone_units_st.
  destruct (clone_imp fx (st_nx (S (nx s)) s) (u_imp u)) as [imp' s1] eqn:E. intros H. injection H as <- <-.
  apply (clone_imp_fresh fx lo) in E; [|exact Hfx | apply st_ok_nx; [lia | exact Hok] | cbn; lia].
  destruct E as (Hok1 & Hle & Hr). cbn in Hle. repeat split; [exact Hok1 | lia|].
  unfold units_oids. cbn. apply rng_cons. split; [lia | exact Hr].
Qed.

Lemma st_ok_st0 lo n : st_ok lo (st0 n).
Proof. unfold st_ok, st0. cbn. constructor. Qed.

Lemma clone_units_fresh fx n u u' n' :
  noi fx (units_isrcs u) -> clone_units fx n u = (u', n') -> n < n' /\ rng n n' (units_oids u') /\ u_parent u' = None.
Proof.
  intros Hfx. unfold clone_units. destruct (clone_units_st fx (st0 n) u) as [u1 s1] eqn:E. intros H. injection H as <- <-.
  apply (clone_units_st_fresh fx n) in E; [|exact Hfx | apply st_ok_st0 | cbn; lia]. cbn in E. tauto.
Qed.

Lemma clone_variable_fresh fx n v v' n' :
  noi fx (var_isrcs v) -> clone_variable fx n v = (v', n') ->
  n < n' /\ rng n n' (var_oids v') /\ v_parent v' = None /\ v_oid v' = n /\ v_eqs v' = [].
Proof.
  intros Hfx. unfold clone_variable, var_isrcs in *. destruct (v_units v) as [u|].
  - destruct (clone_units fx (S n) u) as [u' n1] eqn:E. intros H. injection H as <- <-.
    apply clone_units_fresh in E; [|exact Hfx]. destruct E as (Hlt & Hr & _).
    repeat split; try reflexivity; [lia|]. unfold var_oids. cbn. apply rng_cons. split; [lia|]. eapply rng_mono2; [| |exact Hr]; lia.
  - intros H. injection H as <- <-. repeat split; try reflexivity; [lia|]. unfold var_oids. cbn. apply rng_cons. split; [lia | apply rng_nil].
Qed.

Lemma clone_opt_variable_fresh fx n v v' n' :
  noi fx (ovar_isrcs v) -> clone_opt_variable fx n v = (v', n') -> n <= n' /\ rng n n' (ovar_oids v').
Proof.
  intros Hfx. unfold clone_opt_variable. destruct v as [v|].
  - destruct (clone_variable fx n v) as [w n1] eqn:E. intros H. injection H as <- <-.
    apply clone_variable_fresh in E; [|exact Hfx]. cbn. split; [lia | tauto].
  - intros H. injection H as <- <-. split; [lia | apply rng_nil].
Qed.

Lemma clone_reset_fresh fx n r r' n' :
  noi fx (reset_isrcs r) -> clone_reset fx n r = (r', n') ->
  n < n' /\ rng n n' (reset_oids r') /\ r_parent r' = None /\ r_oid r' = n.
Proof.
  intros Hfx. unfold clone_reset.
  destruct (clone_opt_variable fx (S n) (r_var r)) as [v' n1] eqn:E1.
  destruct (clone_opt_variable fx n1 (r_test r)) as [t' n2] eqn:E2. intros H. injection H as <- <-.
  apply noi_app in Hfx. destruct Hfx as [Hf1 Hf2].
  apply clone_opt_variable_fresh in E1; [|exact Hf1]. apply clone_opt_variable_fresh in E2; [|exact Hf2].
  destruct E1 as [L1 R1]. destruct E2 as [L2 R2]. repeat split; [lia|].
  unfold reset_oids. cbn. apply rng_cons. split; [lia|]. apply rng_app. split; eapply rng_mono2; [| |exact R1| | |exact R2]; lia.
Qed.

Lemma var_oids_set_parent p v : var_oids (v_set_parent p v) = var_oids v.
Proof. reflexivity. Qed.

Lemma clone_variables_fresh fx owner l : forall n l' n',
  noi fx (flat_map var_isrcs l) -> clone_variables fx n owner l = (l', n') ->
  n <= n' /\ rng n n' (flat_map var_oids l') /\ List.length l' = List.length l /\
  Forall (fun w => v_parent w = Some owner /\ v_eqs w = []) l'.
Proof.
  induction l as [|v r IH]; intros n l' n' Hfx; cbn.
  - intros H. injection H as <- <-. repeat split; [lia | apply rng_nil | constructor].
  - destruct (clone_variable fx n v) as [v' n1] eqn:E1. destruct (clone_variables fx n1 owner r) as [r' n2] eqn:E2.
    intros H. injection H as <- <-. cbn in Hfx. apply noi_app in Hfx. destruct Hfx as [Hf1 Hf2].
    apply clone_variable_fresh in E1; [|exact Hf1]. apply IH in E2; [|exact Hf2].
    destruct E1 as (L1 & R1 & _ & _ & Q1). destruct E2 as (L2 & R2 & Len & F2). repeat split; [lia | | cbn; lia |].
    + cbn [flat_map]. rewrite var_oids_set_parent. apply rng_app. split; eapply rng_mono2; [| |exact R1| | |exact R2]; lia.
    + constructor; [cbn; split; [reflexivity | exact Q1] | exact F2].
Qed.

Lemma retarget_cases ovars cvars o c :
  retarget ovars cvars o c = c \/ exists w, In w cvars /\ retarget ovars cvars o c = Some w.
Proof.
  unfold retarget. destruct o as [v|]; [|left; reflexivity].
  destruct (index_of (v_oid v) (map v_oid ovars)) as [i|]; [|left; reflexivity].
  destruct (nth_error cvars i) as [w|] eqn:E; [|left; reflexivity]. right. exists w. split; [eapply nth_error_In; exact E | reflexivity].
Qed.

Lemma clone_resets_fresh fx owner ovars cvars lo l : forall n l' n',
  noi fx (flat_map reset_isrcs l) -> lo <= n -> (forall w, In w cvars -> rng lo n (var_oids w)) ->
  clone_resets fx n owner ovars cvars l = (l', n') ->
  n <= n' /\ rng lo n' (flat_map reset_oids l') /\ Forall (fun r => r_parent r = Some owner) l'.
Proof.
  induction l as [|r rest IH]; intros n l' n' Hfx Hlo Hc; cbn.
  - intros H. injection H as <- <-. repeat split; [lia | apply rng_nil | constructor].
  - destruct (clone_reset fx n r) as [r' n1] eqn:E1.
    destruct (clone_resets fx n1 owner ovars cvars rest) as [rest' n2] eqn:E2. intros H. injection H as <- <-.
    cbn in Hfx. apply noi_app in Hfx. destruct Hfx as [Hf1 Hf2].
    apply clone_reset_fresh in E1; [|exact Hf1]. destruct E1 as (L1 & R1 & _ & O1).
    apply IH in E2; [|exact Hf2 | lia | intros w Hw; eapply rng_mono; [|apply Hc; exact Hw]; lia].
    destruct E2 as (L2 & R2 & F2). repeat split; [lia | | constructor; [reflexivity | exact F2]].
    cbn [flat_map]. apply rng_app. split; [|exact R2].
    unfold reset_oids in *. cbn. apply rng_cons in R1. destruct R1 as [Ro R1]. apply rng_app in R1. destruct R1 as [Rv Rt].
    apply rng_cons. split; [lia|]. apply rng_app. split.
    + destruct (retarget_cases ovars cvars (r_var r) (r_var r')) as [E|(w & Hw & E)]; rewrite E.
      * eapply rng_mono2; [| |exact Rv]; lia.
      * cbn. eapply rng_mono; [|apply Hc; exact Hw]. lia.
    + destruct (retarget_cases ovars cvars (r_test r) (r_test r')) as [E|(w & Hw & E)]; rewrite E.
      * eapply rng_mono2; [| |exact Rt]; lia.
      * cbn. eapply rng_mono; [|apply Hc; exact Hw]. lia.
Qed.

Lemma comp_oids_set_parent p c : comp_oids (c_set_parent p c) = comp_oids c.
Proof. destruct c; reflexivity. Qed.
Lemma c_parent_set_parent p c : c_parent (c_set_parent p c) = p.
Proof. destruct c; reflexivity. Qed.

Lemma clone_comp_fresh fx lo c : forall s c' s',
  noi fx (comp_isrcs c) -> st_ok lo s -> lo <= nx s -> clone_comp fx s c = (c', s') ->
  st_ok lo s' /\ nx s < nx s' /\ rng lo (nx s') (comp_oids c') /\ c_parent c' = None /\ c_oid c' = nx s.
Proof.
  induction c as [o p id name encid math imp impref vars resets kids IH] using component_ind'.
  intros s c' s' Hfx Hok Hlo. rewrite clone_comp_unfold. cbv zeta.
  destruct (clone_imp fx (st_nx (S (nx s)) s) imp) as [imp' s1] eqn:E1.
  destruct (clone_variables fx (nx s1) (nx s) vars) as [vars' n2] eqn:E2.
  destruct (clone_resets fx n2 (nx s) vars vars' resets) as [resets' n3] eqn:E3.
  destruct (clone_comps fx (st_nx n3 s1) (nx s) kids) as [kids' s4] eqn:E4. intros H. injection H as <- <-.
  cbn [comp_isrcs] in Hfx. apply noi_app in Hfx. destruct Hfx as [Hfi Hfx]. apply noi_app in Hfx. destruct Hfx as [Hfv Hfx].
  apply noi_app in Hfx. destruct Hfx as [Hfr Hfk].
  apply (clone_imp_fresh fx lo) in E1; [|exact Hfi | apply st_ok_nx; [lia | exact Hok] | cbn; lia].
  destruct E1 as (Ok1 & L1 & R1). cbn in L1.
  apply clone_variables_fresh in E2; [|exact Hfv]. destruct E2 as (L2 & R2 & _ & _).
  apply (clone_resets_fresh fx _ _ _ lo) in E3; [|exact Hfr | lia |].
  2:{ intros w Hw. apply (rng_mono2 (nx s1) lo n2 n2); [lia | lia|]. exact (proj2 (rng_flat_map _ _ var_oids vars') R2 w Hw). }
  destruct E3 as (L3 & R3 & _).
  assert (K : forall l z l' z', Forall (fun c => forall s c' s', noi fx (comp_isrcs c) -> st_ok lo s -> lo <= nx s ->
                 clone_comp fx s c = (c', s') ->
                 st_ok lo s' /\ nx s < nx s' /\ rng lo (nx s') (comp_oids c') /\ c_parent c' = None /\ c_oid c' = nx s) l ->
             noi fx (flat_map comp_isrcs l) -> st_ok lo z -> lo <= nx z -> clone_comps fx z (nx s) l = (l', z') ->
             st_ok lo z' /\ nx z <= nx z' /\ rng lo (nx z') (flat_map comp_oids l')).
  { induction l as [|k r IHr]; intros z l' z' Hall Hn Hz Hlz; cbn.
    - intros H. injection H as <- <-. repeat split; [exact Hz | lia | apply rng_nil].
    - destruct (clone_comp fx z k) as [k' z1] eqn:Ek. destruct (clone_comps fx z1 (nx s) r) as [r' z2] eqn:Er.
      intros H. injection H as <- <-. inversion Hall as [|? ? Hk Hr']; subst. cbn in Hn. apply noi_app in Hn. destruct Hn as [Hn1 Hn2].
      apply Hk in Ek; [|exact Hn1 | exact Hz | exact Hlz]. destruct Ek as (Okk & Lk & Rk & _).
      apply IHr in Er; [|exact Hr' | exact Hn2 | exact Okk | lia]. destruct Er as (Okr & Lr & Rr).
      repeat split; [exact Okr | lia|]. cbn. rewrite comp_oids_set_parent. apply rng_app. split; [|exact Rr].
      eapply rng_mono; [|exact Rk]. lia. }
  apply K in E4; [|exact IH | exact Hfk | apply st_ok_nx; [lia | exact Ok1] | cbn; lia]. destruct E4 as (Ok4 & L4 & R4). cbn in L4.
  repeat split; [exact Ok4 | lia|].
  cbn [comp_oids]. apply rng_cons. split; [lia|]. repeat (apply rng_app; split).
  - eapply rng_mono; [|exact R1]. lia.
  - eapply rng_mono2; [| |exact R2]; lia.
  - eapply rng_mono; [|exact R3]. lia.
  - exact R4.
Qed.

Lemma option_map_id' {T} (o : option T) : option_map (fun x => x) o = o.
Proof. destruct o; reflexivity. Qed.

Lemma map_var_idg f v : map_var (fun u => u) f v = f v.
Proof. unfold map_var. rewrite option_map_id', v_set_units_eta. reflexivity. Qed.

Lemma rng_ovar_map lo hi f v :
  (forall v, rng lo hi (var_oids v) -> rng lo hi (var_oids (f v))) ->
  rng lo hi (ovar_oids v) -> rng lo hi (ovar_oids (option_map (map_var (fun u => u) f) v)).
Proof. intros Hf. destruct v as [v|]; cbn; [rewrite map_var_idg; apply Hf | intros; apply rng_nil]. Qed.

Lemma comp_oids_map_f lo hi f c :
  (forall v, rng lo hi (var_oids v) -> rng lo hi (var_oids (f v))) ->
  rng lo hi (comp_oids c) ->
  rng lo hi (comp_oids (map_comp (fun i => i) (fun u => u) f (fun r => r) (fun c => c) c)).
Proof.
  intros Hf. induction c as [o p id name encid math imp impref vars resets kids IH] using component_ind'.
  rewrite map_comp_unfold. cbn [comp_oids]. rewrite option_map_id'.
  rewrite !rng_cons, !rng_app. intros (Ho & Hi & Hv & Hr & Hk). refine (conj Ho (conj Hi (conj _ (conj _ _)))).
  - apply rng_flat_map. intros v Hv'. apply in_map_iff in Hv'. destruct Hv' as (v0 & <- & Hv0). rewrite map_var_idg. apply Hf.
    exact (proj2 (rng_flat_map _ _ var_oids vars) Hv v0 Hv0).
  - apply rng_flat_map. intros r Hr'. apply in_map_iff in Hr'. destruct Hr' as (r0 & <- & Hr0).
    pose proof (proj2 (rng_flat_map _ _ reset_oids resets) Hr r0 Hr0) as H0.
    unfold map_reset, reset_oids in *. cbn. apply rng_cons in H0. destruct H0 as [H1 H2]. apply rng_app in H2. destruct H2 as [H2 H3].
    apply rng_cons. split; [exact H1|]. apply rng_app. split; apply rng_ovar_map; assumption.
  - apply rng_flat_map. intros k Hk'. apply in_map_iff in Hk'. destruct Hk' as (k0 & <- & Hk0).
    rewrite Forall_forall in IH. apply IH; [exact Hk0|]. exact (proj2 (rng_flat_map _ _ comp_oids kids) Hk k0 Hk0).
Qed.

Lemma model_oids_map_f lo hi f m :
  (forall v, rng lo hi (var_oids v) -> rng lo hi (var_oids (f v))) ->
  rng lo hi (model_oids m) ->
  rng lo hi (model_oids (map_model (fun i => i) (fun u => u) f (fun r => r) (fun c => c) m)).
Proof.
  intros Hf. unfold model_oids, map_model. cbn. rewrite !rng_cons, !rng_app. intros (Ho & Hu & Hc). refine (conj Ho (conj _ _)).
  - rewrite map_id. exact Hu.
  - apply rng_flat_map. intros c Hc'. apply in_map_iff in Hc'. destruct Hc' as (c0 & <- & Hc0). apply comp_oids_map_f; [exact Hf|].
    exact (proj2 (rng_flat_map _ _ comp_oids (m_comps m)) Hc c0 Hc0).
Qed.

Lemma find_units_in name l u : find_units name l = Some u -> In u l.
Proof.
  induction l as [|x r IH]; cbn; [discriminate|]. destruct (String.eqb (u_name x) name).
  - intros H. injection H as <-. left. reflexivity.
  - intros H. right. apply IH. exact H.
Qed.

Lemma fix_units_var_rng lo hi us cvo v :
  rng lo hi (flat_map units_oids us) -> rng lo hi (var_oids v) -> rng lo hi (var_oids (fix_units_var us cvo v)).
Proof.
  intros Hus Hv. unfold fix_units_var. destruct (existsb (Nat.eqb (v_oid v)) cvo); [|exact Hv].
  destruct (v_units v) as [u|] eqn:Eu; [|exact Hv]. destruct (find_units (u_name u) us) as [u'|] eqn:Ef; [|exact Hv].
  unfold var_oids in *. cbn. apply rng_cons in Hv. destruct Hv as [Ho _]. apply rng_cons. split; [exact Ho|].
  apply find_units_in in Ef. exact (proj2 (rng_flat_map _ _ units_oids us) Hus u' Ef).
Qed.

Lemma var_oids_set_eqs l v : var_oids (v_set_eqs l v) = var_oids v.
Proof. reflexivity. Qed.

Lemma units_oids_set_parent p u : units_oids (u_set_parent p u) = units_oids u.
Proof. reflexivity. Qed.

Lemma clone_units_list_fresh fx lo owner l : forall s l' s',
  noi fx (flat_map units_isrcs l) -> st_ok lo s -> lo <= nx s -> clone_units_list fx s owner l = (l', s') ->
  st_ok lo s' /\ nx s <= nx s' /\ rng lo (nx s') (flat_map units_oids l') /\ Forall (fun u => u_parent u = Some owner) l'.
Proof.
  induction l as [|u r IH]; intros s l' s' Hfx Hok Hlo; cbn.
  - intros H. injection H as <- <-. repeat split; [exact Hok | lia | apply rng_nil | constructor].
  - destruct (clone_units_st fx s u) as [u' s1] eqn:E1. destruct (clone_units_list fx s1 owner r) as [r' s2] eqn:E2.
    intros H. injection H as <- <-. cbn in Hfx. apply noi_app in Hfx. destruct Hfx as [Hf1 Hf2].
    apply (clone_units_st_fresh fx lo) in E1; [|assumption..].
    destruct E1 as (Ok1 & L1 & R1 & _). apply IH in E2; [|exact Hf2 | exact Ok1 | lia]. destruct E2 as (Ok2 & L2 & R2 & F2).
    repeat split; [exact Ok2 | lia | | constructor; [reflexivity | exact F2]].
    cbn [flat_map]. rewrite units_oids_set_parent. apply rng_app. split; [eapply rng_mono; [|exact R1]; lia | exact R2].
Qed.

Lemma clone_comps_fresh fx lo owner l : forall s l' s',
  noi fx (flat_map comp_isrcs l) -> st_ok lo s -> lo <= nx s -> clone_comps fx s owner l = (l', s') ->
  st_ok lo s' /\ nx s <= nx s' /\ rng lo (nx s') (flat_map comp_oids l') /\ Forall (fun c => c_parent c = Some owner) l'.
Proof.
  induction l as [|k r IH]; intros s l' s' Hfx Hok Hlo; cbn.
  - intros H. injection H as <- <-. repeat split; [exact Hok | lia | apply rng_nil | constructor].
  - destruct (clone_comp fx s k) as [k' s1] eqn:E1. destruct (clone_comps fx s1 owner r) as [r' s2] eqn:E2.
    intros H. injection H as <- <-. cbn in Hfx. apply noi_app in Hfx. destruct Hfx as [Hf1 Hf2].
    apply (clone_comp_fresh fx lo) in E1; [|assumption..].
    destruct E1 as (Ok1 & L1 & R1 & _). apply IH in E2; [|exact Hf2 | exact Ok1 | lia]. destruct E2 as (Ok2 & L2 & R2 & F2).
    repeat split; [exact Ok2 | lia | | constructor; [apply c_parent_set_parent | exact F2]].
    cbn [flat_map]. rewrite comp_oids_set_parent. apply rng_app. split; [eapply rng_mono; [|exact R1]; lia | exact R2].
Qed.

Lemma clone_component_fresh fx n c c' n' :
  noi fx (comp_isrcs c) -> clone_component fx n c = (c', n') -> n < n' /\ rng n n' (comp_oids c') /\ c_parent c' = None.
Proof.
  intros Hfx. unfold clone_component. destruct (clone_comp fx (st0 n) c) as [c1 s1] eqn:E. intros H. injection H as <- <-.
  apply (clone_comp_fresh fx n) in E; [|exact Hfx | apply st_ok_st0 | cbn; lia]. cbn in E. tauto.
Qed.

Lemma clone_model_fresh fx ext n m m' n' :
  noi fx (model_isrcs m) -> clone_model fx ext n m = Some (m', n') -> n < n' /\ rng n n' (model_oids m').
Proof.
  intros Hfx. unfold clone_model.
  destruct (clone_units_list fx (st0 (S n)) n (m_units m)) as [us s1] eqn:E1.
  destruct (clone_comps fx s1 n (m_comps m)) as [cs s2] eqn:E2.
  destruct (record_model fx ext m) as [em|]; [|discriminate].
  destruct (apply_map _ em (Some [])) as [E|]; [|discriminate]. intros H. injection H as <- <-.
  unfold model_isrcs in Hfx. apply noi_app in Hfx. destruct Hfx as [Hf1 Hf2].
  apply (clone_units_list_fresh fx n) in E1; [|exact Hf1 | apply st_ok_st0 | cbn; lia]. destruct E1 as (Ok1 & L1 & R1 & _). cbn in L1.
  apply (clone_comps_fresh fx n) in E2; [|exact Hf2 | exact Ok1 | lia]. destruct E2 as (Ok2 & L2 & R2 & _).
  split; [lia|]. unfold set_eqs. apply model_oids_map_f.
  { intros v Hv. rewrite var_oids_set_eqs. exact Hv. }
  unfold fix_component_units. apply model_oids_map_f.
  { intros v Hv. apply fix_units_var_rng; [|exact Hv]. cbn. eapply rng_mono; [|exact R1]. lia. }
  unfold model_oids. cbn. apply rng_cons. split; [lia|]. apply rng_app. split; [eapply rng_mono; [|exact R1]; lia | exact R2].
Qed.

(* ------------------------------------------------------------------------------------------ content: leaves *)

Lemma norm_prefix_idem p : norm_prefix (norm_prefix p) = norm_prefix p.
Proof. unfold norm_prefix. destruct (zero_int p) eqn:E; [reflexivity | rewrite E; reflexivity]. Qed.

Definition wf_unitdef (d : unitdef) : Prop := norm_prefix (ud_prefix d) = ud_prefix d.
Definition wf_units (u : units) : Prop := Forall wf_unitdef (u_defs u).

Lemma clone_unitdef_id d : wf_unitdef d -> clone_unitdef d = d.
Proof. unfold wf_unitdef, clone_unitdef. intros H. rewrite H. destruct d; reflexivity. Qed.

Lemma clone_unitdef_wf d : wf_unitdef (clone_unitdef d).
Proof. unfold wf_unitdef, clone_unitdef. cbn. apply norm_prefix_idem. Qed.

Lemma clone_isrc_content n i : content_isrc (fst (clone_isrc n i)) = content_isrc i.
Proof. reflexivity. Qed.

(* state invariant for the content of cloned import sources.  C = the import-source records of the entity being
   cloned; they are coherent (records with one oid agree on url and id: they stand for ONE object). *)
Definition coherent (C : list isrc) : Prop :=
  forall i j, In i C -> In j C -> is_oid i = is_oid j -> content_isrc i = content_isrc j.

Definition imap_ok (C : list isrc) (s : st) : Prop :=
  forall k i', In (k, i') (imap s) -> exists i, In i C /\ is_oid i = k /\ content_isrc i' = content_isrc i.

Lemma imap_ok_nx C s n : imap_ok C s -> imap_ok C (st_nx n s).
Proof. intros H. exact H. Qed.

Definition opt_in (imp : option isrc) (C : list isrc) : Prop := forall i, imp = Some i -> In i C.

Lemma clone_imp_content fx C s imp imp' s' :
  coherent C -> imap_ok C s -> opt_in imp C -> clone_imp fx s imp = (imp', s') ->
  imap_ok C s' /\ sx_opt content_isrc imp' = sx_opt content_isrc imp.
Proof.
  intros Hc Hok Hin. unfold clone_imp. destruct imp as [i|].
  2:{ intros H. injection H as <- <-. split; [exact Hok | reflexivity]. }
  destruct (fx_isrc fx).
  2:{ intros H. injection H as <- <-. split; [exact Hok | reflexivity]. }
  destruct (lookup (is_oid i) (imap s)) as [i'|] eqn:El.
  - intros H. injection H as <- <-. split; [exact Hok|]. apply lookup_in in El. destruct (Hok _ _ El) as (j & Hj & Ej & Cj).
    cbn. rewrite Cj. rewrite (Hc j i Hj (Hin i eq_refl) Ej). reflexivity.
  - cbn. intros H. injection H as <- <-. split; [|reflexivity].
    intros k i' [E|Hk]; [|apply Hok; exact Hk]. injection E as <- <-. exists i. repeat split. apply Hin. reflexivity.
Qed.

Lemma map_clone_unitdef_id l : Forall wf_unitdef l -> map clone_unitdef l = l.
Proof. intros H. apply map_id_Forall. revert H. apply Forall_impl. intros d. apply clone_unitdef_id. Qed.

Lemma clone_units_st_content fx C s u u' s' :
  coherent C -> imap_ok C s -> opt_in (u_imp u) C -> wf_units u -> clone_units_st fx s u = (u', s') ->
  imap_ok C s' /\ content_units u' = content_units u /\ u_name u' = u_name u /\ wf_units u'.
Proof.
  intros Hc Hok Hin Hwf. unfold clone_units_st.
  destruct (clone_imp fx (st_nx (S (nx s)) s) (u_imp u)) as [imp' s1] eqn:E. intros H. injection H as <- <-.
  apply (clone_imp_content fx C) in E; [|exact Hc | exact Hok | exact Hin]. destruct E as [Ok1 Ci].
  repeat split; [exact Ok1 | | ].
  - unfold content_units. cbn. rewrite Ci. rewrite map_clone_unitdef_id by exact Hwf. reflexivity.
  - unfold wf_units. cbn. apply Forall_forall. intros d Hd. apply in_map_iff in Hd. destruct Hd as (d0 & <- & _). apply clone_unitdef_wf.
Qed.

Lemma coherent_single i : coherent [i].
Proof. intros a b [<-|[]] [<-|[]] _. reflexivity. Qed.

Lemma imap_ok_st0 C n : imap_ok C (st0 n).
Proof. intros k i' []. Qed.

Lemma clone_units_content fx n u : wf_units u -> content_units (fst (clone_units fx n u)) = content_units u.
Proof.
  intros Hwf. unfold clone_units. destruct (clone_units_st fx (st0 n) u) as [u' s'] eqn:E. cbn.
  destruct (u_imp u) as [i|] eqn:Ei.
  - apply (clone_units_st_content fx [i]) in E; [tauto | apply coherent_single | apply imap_ok_st0 | | exact Hwf].
    intros j Hj. rewrite Ei in Hj. injection Hj as <-. left. reflexivity.
  - apply (clone_units_st_content fx []) in E; [tauto | intros a b [] | apply imap_ok_st0 | | exact Hwf].
    intros j Hj. rewrite Ei in Hj. discriminate.
Qed.

Lemma clone_units_name fx n u : u_name (fst (clone_units fx n u)) = u_name u.
Proof.
  unfold clone_units, clone_units_st. destruct (clone_imp fx (st_nx (S (nx (st0 n))) (st0 n)) (u_imp u)). reflexivity.
Qed.

Lemma clone_variable_content fx n v : content_variable (fst (clone_variable fx n v)) = content_variable v.
Proof.
  unfold clone_variable. destruct (v_units v) as [u|] eqn:Eu.
  - pose proof (clone_units_name fx (S n) u) as Hn. destruct (clone_units fx (S n) u) as [u' n1]. cbn in *.
    unfold content_variable. cbn. rewrite Eu. cbn. rewrite Hn. reflexivity.
  - cbn. unfold content_variable. cbn. rewrite Eu. reflexivity.
Qed.

Lemma clone_variable_name fx n v : v_name (fst (clone_variable fx n v)) = v_name v.
Proof. unfold clone_variable. destruct (v_units v) as [u|]; [destruct (clone_units fx (S n) u)|]; reflexivity. Qed.

Lemma clone_opt_variable_name fx n v :
  option_map v_name (fst (clone_opt_variable fx n v)) = option_map v_name v.
Proof.
  unfold clone_opt_variable. destruct v as [v|]; [|reflexivity].
  pose proof (clone_variable_name fx n v) as H. destruct (clone_variable fx n v). cbn in *. rewrite H. reflexivity.
Qed.

Lemma content_vref_nil v w : option_map v_name v = option_map v_name w -> content_vref [] v = content_vref [] w.
Proof. destruct v, w; cbn; intros H; try discriminate; [injection H as ->|]; reflexivity. Qed.

Definition wf_reset (r : reset) : Prop := r_order_set r = false -> r_order r = 0%Z.   (* Reset::removeOrder / create *)

Lemma clone_reset_content_lone fx n r :
  fx_order fx = true -> wf_reset r -> content_reset [] (fst (clone_reset fx n r)) = content_reset [] r.
Proof.
  intros Hfx Hwf. unfold clone_reset.
  pose proof (clone_opt_variable_name fx (S n) (r_var r)) as Hv.
  destruct (clone_opt_variable fx (S n) (r_var r)) as [v' n1].
  pose proof (clone_opt_variable_name fx n1 (r_test r)) as Ht.
  destruct (clone_opt_variable fx n1 (r_test r)) as [t' n2]. cbn in *.
  unfold content_reset. cbn. rewrite Hfx. cbn.
  rewrite (content_vref_nil _ _ Hv), (content_vref_nil _ _ Ht).
  destruct (r_order_set r) eqn:Eo; [reflexivity|]. cbn. rewrite (Hwf Eo). reflexivity.
Qed.

Lemma clone_reset_order_set fx n r : fx_order fx = true -> r_order_set (fst (clone_reset fx n r)) = r_order_set r.
Proof.
  intros Hfx. unfold clone_reset. destruct (clone_opt_variable fx (S n) (r_var r)) as [v' n1].
  destruct (clone_opt_variable fx n1 (r_test r)) as [t' n2]. cbn. rewrite Hfx. reflexivity.
Qed.

(* ------------------------------------------------------------------------------------------ content: components *)

Lemma index_of_some o l i : index_of o l = Some i -> nth_error l i = Some o.
Proof.
  revert i. induction l as [|x r IH]; cbn; intros i; [discriminate|]. destruct (Nat.eqb x o) eqn:E.
  - intros H. injection H as <-. apply Nat.eqb_eq in E. subst. reflexivity.
  - destruct (index_of o r) as [j|]; cbn; [|discriminate]. intros H. injection H as <-. cbn. apply IH. reflexivity.
Qed.

Lemma index_of_none o l : (forall x, In x l -> x <> o) -> index_of o l = None.
Proof.
  induction l as [|x r IH]; cbn; intros H; [reflexivity|]. destruct (Nat.eqb x o) eqn:E.
  - apply Nat.eqb_eq in E. exfalso. apply (H x); [left; reflexivity | exact E].
  - rewrite IH; [reflexivity|]. intros y Hy. apply H. right. exact Hy.
Qed.

Lemma index_of_nodup l : NoDup l -> forall i o, nth_error l i = Some o -> index_of o l = Some i.
Proof.
  induction 1 as [|x r Hx Hnd IH]; intros i o; [destruct i; discriminate|]. destruct i as [|i]; cbn.
  - intros H. injection H as <-. rewrite Nat.eqb_refl. reflexivity.
  - intros H. destruct (Nat.eqb x o) eqn:E.
    + apply Nat.eqb_eq in E. subst. exfalso. apply Hx. eapply nth_error_In. exact H.
    + rewrite (IH i o H). reflexivity.
Qed.

Lemma clone_variable_oid fx n v : v_oid (fst (clone_variable fx n v)) = n /\ n < snd (clone_variable fx n v).
Proof.
  unfold clone_variable. destruct (v_units v) as [u|]; cbn; [|split; [reflexivity | lia]].
  unfold clone_units, clone_units_st. 
  destruct (clone_imp fx (st_nx (S (nx (st0 (S n)))) (st0 (S n))) (u_imp u)) as [imp' s1] eqn:E. cbn. split; [reflexivity|].
  unfold clone_imp in E. destruct (u_imp u); [destruct (fx_isrc fx); cbn in E|]; injection E as <- <-; cbn; lia.
Qed.

Lemma clone_variables_spec fx owner l : forall n l' n',
  clone_variables fx n owner l = (l', n') ->
  n <= n' /\
  map content_variable l' = map content_variable l /\
  (forall i x, nth_error l i = Some x -> exists w, nth_error l' i = Some w /\ v_name w = v_name x) /\
  (forall w, In w l' -> n <= v_oid w < n') /\
  NoDup (map v_oid l').
Proof.
  induction l as [|v r IH]; intros n l' n'; cbn.
  - intros H. injection H as <- <-. split; [lia|]. split; [reflexivity|]. split; [intros [|i] x; discriminate|]. split; [intros w []|constructor].
  - pose proof (clone_variable_oid fx n v) as Ho. pose proof (clone_variable_content fx n v) as Hc.
    pose proof (clone_variable_name fx n v) as Hn.
    destruct (clone_variable fx n v) as [v' n1]. cbn in Ho, Hc, Hn. destruct Ho as [Ho Hlt].
    destruct (clone_variables fx n1 owner r) as [r' n2] eqn:E2. intros H. injection H as <- <-.
    apply IH in E2. destruct E2 as (L2 & C2 & N2 & R2 & D2). split; [lia|]. split; [|split; [|split]].
    + cbn. rewrite C2. f_equal. exact Hc.
    + intros [|i] x; cbn.
      * intros H. injection H as <-. exists (v_set_parent (Some owner) v'). split; [reflexivity | exact Hn].
      * apply N2.
    + intros w [<-|Hw]; [cbn; lia|]. specialize (R2 w Hw). lia.
    + cbn. constructor; [|exact D2]. rewrite Ho. intros Hi. apply in_map_iff in Hi. destruct Hi as (w & Ew & Hw).
      specialize (R2 w Hw). lia.
Qed.

Definition reset_refs_ok (vars : list variable) (r : reset) : Prop :=
  forall v, r_var r = Some v \/ r_test r = Some v -> forall w, In w vars -> v_oid w = v_oid v -> v_name w = v_name v.

Lemma nth_error_map_some {X Y} (f : X -> Y) l i y : nth_error (map f l) i = Some y -> exists x, nth_error l i = Some x /\ f x = y.
Proof.
  revert i. induction l as [|a r IH]; intros [|i]; cbn; try discriminate.
  - intros H. injection H as <-. exists a. split; reflexivity.
  - apply IH.
Qed.

Lemma vref_content fx vars vars' n o :
  (forall i x, nth_error vars i = Some x -> exists w, nth_error vars' i = Some w /\ v_name w = v_name x) ->
  NoDup (map v_oid vars') -> (forall w, In w vars' -> v_oid w < n) ->
  (forall v, o = Some v -> forall w, In w vars -> v_oid w = v_oid v -> v_name w = v_name v) ->
  content_vref vars' (retarget vars vars' o (fst (clone_opt_variable fx n o))) = content_vref vars o.
Proof.
  intros Hnth Hnd Hlt Hco. destruct o as [v|]; [|reflexivity]. cbn [clone_opt_variable].
  pose proof (clone_variable_oid fx n v) as Ho. pose proof (clone_variable_name fx n v) as Hn.
  destruct (clone_variable fx n v) as [v' n1]. cbn in Ho, Hn. destruct Ho as [Ho _]. cbn [fst retarget]. unfold content_vref at 2. cbn [sx_opt].
  destruct (index_of (v_oid v) (map v_oid vars)) as [i|] eqn:Ei.
  - apply index_of_some in Ei. apply nth_error_map_some in Ei. destruct Ei as (x & Ex & Eox).
    destruct (Hnth i x Ex) as (w & Ew & Enw). rewrite Ew. cbn.
    rewrite (index_of_nodup _ Hnd i (v_oid w)).
    2:{ rewrite nth_error_map, Ew. reflexivity. }
    rewrite Enw. rewrite (Hco v eq_refl x (nth_error_In _ _ Ex) Eox). reflexivity.
  - cbn. rewrite Hn. rewrite index_of_none; [reflexivity|].
    intros y Hy. apply in_map_iff in Hy. destruct Hy as (w & <- & Hw). specialize (Hlt w Hw). lia.
Qed.

Lemma clone_opt_variable_ge fx n o : n <= snd (clone_opt_variable fx n o).
Proof.
  unfold clone_opt_variable. destruct o as [v|]; [|cbn; lia]. pose proof (clone_variable_oid fx n v) as H.
  destruct (clone_variable fx n v). cbn in *. lia.
Qed.

Lemma clone_reset_spec fx n r : n < snd (clone_reset fx n r).
Proof.
  unfold clone_reset. pose proof (clone_opt_variable_ge fx (S n) (r_var r)) as H1.
  destruct (clone_opt_variable fx (S n) (r_var r)) as [v' n1]. pose proof (clone_opt_variable_ge fx n1 (r_test r)) as H2.
  destruct (clone_opt_variable fx n1 (r_test r)) as [t' n2]. cbn in *. lia.
Qed.

Lemma clone_resets_content fx owner vars vars' l : forall n l' n',
  fx_order fx = true ->
  (forall i x, nth_error vars i = Some x -> exists w, nth_error vars' i = Some w /\ v_name w = v_name x) ->
  NoDup (map v_oid vars') -> (forall w, In w vars' -> v_oid w < n) ->
  Forall (reset_refs_ok vars) l -> Forall wf_reset l ->
  clone_resets fx n owner vars vars' l = (l', n') ->
  map (content_reset vars') l' = map (content_reset vars) l.
Proof.
  induction l as [|r rest IH]; intros n l' n' Hfx Hnth Hnd Hlt Hrefs Hwf; cbn.
  - intros H. injection H as <- <-. reflexivity.
  - pose proof (clone_reset_spec fx n r) as Hsp. destruct (clone_reset fx n r) as [r' n1] eqn:E1. cbn in Hsp.
    destruct (clone_resets fx n1 owner vars vars' rest) as [rest' n2] eqn:E2. intros H. injection H as <- <-.
    inversion Hrefs as [|? ? Hr Hrs]; subst. inversion Hwf as [|? ? Hw Hws]; subst.
    cbn. f_equal.
    2:{ eapply IH; [exact Hfx | exact Hnth | exact Hnd | | exact Hrs | exact Hws | exact E2]. intros w Hw'. specialize (Hlt w Hw'). lia. }
    unfold clone_reset in E1.
    pose proof (vref_content fx vars vars' (S n) (r_var r) Hnth Hnd) as V1.
    pose proof (clone_opt_variable_ge fx (S n) (r_var r)) as G1.
    destruct (clone_opt_variable fx (S n) (r_var r)) as [v' m1]. cbn in V1, G1.
    pose proof (vref_content fx vars vars' m1 (r_test r) Hnth Hnd) as V2.
    destruct (clone_opt_variable fx m1 (r_test r)) as [t' m2]. cbn in V2. injection E1 as <- <-.
    unfold content_reset. cbn. rewrite Hfx. cbn.
    rewrite V1, V2.
    + destruct (r_order_set r) eqn:Eo; [reflexivity|]. cbn. rewrite (Hw Eo). reflexivity.
    + intros w Hw'. specialize (Hlt w Hw'). lia.
    + intros v Ev. apply Hr. right. exact Ev.
    + intros w Hw'. specialize (Hlt w Hw'). lia.
    + intros v Ev. apply Hr. left. exact Ev.
Qed.

Definition opt_list {T} (o : option T) : list T := match o with Some x => [x] | None => [] end.

Fixpoint comp_imps (c : component) : list isrc :=
  match c with Comp _ _ _ _ _ _ imp _ _ _ kids => opt_list imp ++ flat_map comp_imps kids end.

Fixpoint subcomps (c : component) : list component :=
  match c with Comp _ _ _ _ _ _ _ _ _ _ kids => c :: flat_map subcomps kids end.

Definition comp_local_ok (c : component) : Prop :=
  NoDup (map v_oid (c_vars c)) /\ Forall (reset_refs_ok (c_vars c)) (c_resets c) /\ Forall wf_reset (c_resets c).

Definition wf_comp (c : component) : Prop := Forall comp_local_ok (subcomps c).

Lemma content_comp_set_parent p c : content_comp (c_set_parent p c) = content_comp c.
Proof. destruct c; reflexivity. Qed.

Lemma clone_comp_content fx C c : forall s c' s',
  fx_order fx = true -> fx_encid fx = true -> coherent C -> imap_ok C s -> incl (comp_imps c) C -> wf_comp c ->
  clone_comp fx s c = (c', s') -> imap_ok C s' /\ content_comp c' = content_comp c.
Proof.
  induction c as [o p id name encid math imp impref vars resets kids IH] using component_ind'.
  intros s c' s' Hfo Hfe Hco Hok Hin Hwf. rewrite clone_comp_unfold. cbv zeta.
  destruct (clone_imp fx (st_nx (S (nx s)) s) imp) as [imp' s1] eqn:E1.
  pose proof (clone_variables_spec fx (nx s) vars (nx s1)) as SV.
  destruct (clone_variables fx (nx s1) (nx s) vars) as [vars' n2] eqn:E2.
  destruct (clone_resets fx n2 (nx s) vars vars' resets) as [resets' n3] eqn:E3.
  destruct (clone_comps fx (st_nx n3 s1) (nx s) kids) as [kids' s4] eqn:E4. intros H. injection H as <- <-.
  cbn [comp_imps] in Hin. unfold wf_comp in Hwf. cbn [subcomps] in Hwf. inversion Hwf as [|? ? Hloc Hsub]; subst.
  destruct Hloc as (Hnd & Hrefs & Hwr). cbn [c_vars c_resets] in *.
  apply (clone_imp_content fx C) in E1; [|exact Hco | exact Hok|].
  2:{ intros i Ei. apply Hin. subst imp. left. reflexivity. }
  destruct E1 as [Ok1 Ci].
  destruct (SV _ _ eq_refl) as (L2 & CV & NV & RV & DV).
  apply (clone_resets_content fx) in E3; [|exact Hfo | exact NV | exact DV | | exact Hrefs | exact Hwr].
  2:{ intros w Hw. specialize (RV w Hw). lia. }
  assert (K : forall l z l' z', Forall (fun c => forall s c' s', fx_order fx = true -> fx_encid fx = true -> coherent C -> imap_ok C s ->
                 incl (comp_imps c) C -> wf_comp c -> clone_comp fx s c = (c', s') -> imap_ok C s' /\ content_comp c' = content_comp c) l ->
             imap_ok C z -> incl (flat_map comp_imps l) C -> Forall comp_local_ok (flat_map subcomps l) ->
             clone_comps fx z (nx s) l = (l', z') -> imap_ok C z' /\ map content_comp l' = map content_comp l).
  { induction l as [|k r IHr]; intros z l' z' Hall Hz Hinl Hwl; cbn.
    - intros H. injection H as <- <-. split; [exact Hz | reflexivity].
    - destruct (clone_comp fx z k) as [k' z1] eqn:Ek. destruct (clone_comps fx z1 (nx s) r) as [r' z2] eqn:Er.
      intros H. injection H as <- <-. inversion Hall as [|? ? Hk Hr']; subst. cbn in Hinl, Hwl. apply Forall_app in Hwl. destruct Hwl as [Wk Wr].
      apply Hk in Ek; [|exact Hfo | exact Hfe | exact Hco | exact Hz | intros x Hx; apply Hinl; apply in_or_app; left; exact Hx | exact Wk].
      destruct Ek as [Okk Ck].
      apply IHr in Er; [|exact Hr' | exact Okk | intros x Hx; apply Hinl; apply in_or_app; right; exact Hx | exact Wr].
      destruct Er as [Okr Cr]. split; [exact Okr|]. cbn. rewrite content_comp_set_parent, Ck, Cr. reflexivity. }
  apply K in E4; [|exact IH | exact Ok1 | intros x Hx; apply Hin; apply in_or_app; right; exact Hx | exact Hsub].
  destruct E4 as [Ok4 CK]. split; [exact Ok4|].
  cbn [content_comp]. rewrite Hfe, Ci, CV, E3, CK. reflexivity.
Qed.

Lemma clone_component_content fx n c :
  fx_order fx = true -> fx_encid fx = true -> coherent (comp_imps c) -> wf_comp c ->
  content_comp (fst (clone_component fx n c)) = content_comp c.
Proof.
  intros Hfo Hfe Hco Hwf. unfold clone_component. destruct (clone_comp fx (st0 n) c) as [c' s'] eqn:E. cbn.
  apply (clone_comp_content fx (comp_imps c)) in E; [tauto | assumption.. | apply imap_ok_st0 | apply incl_refl | exact Hwf].
Qed.

(* ------------------------------------------------------------------------------------------ sharing pattern of import sources *)

Definition keys (s : st) : list oid := map fst (imap s).
Definition rho (s : st) (o : oid) : oid := match lookup o (imap s) with Some i' => is_oid i' | None => 0 end.
Definition pinv (lo : nat) (s : st) : Prop :=
  NoDup (keys s) /\ NoDup (map (fun kv => is_oid (snd kv)) (imap s)) /\ st_ok lo s.
Definition pext (s s' : st) : Prop := forall k, In k (keys s) -> In k (keys s') /\ rho s' k = rho s k.

Lemma pext_refl s : pext s s. Proof. intros k H. split; [exact H | reflexivity]. Qed.
Lemma pext_trans a b c : pext a b -> pext b c -> pext a c.
Proof. intros H1 H2 k Hk. destruct (H1 k Hk) as [K1 R1]. destruct (H2 k K1) as [K2 R2]. split; [exact K2 | congruence]. Qed.

Lemma lookup_none_notin {T} o (l : list (oid * T)) : lookup o l = None -> ~ In o (map fst l).
Proof.
  induction l as [|[k a] r IH]; cbn; [intros _ []|]. destruct (Nat.eqb k o) eqn:E; [discriminate|].
  intros H [Hk|Hk]; [apply Nat.eqb_neq in E; contradiction | exact (IH H Hk)].
Qed.

Lemma lookup_some_in {T} o (l : list (oid * T)) x : lookup o l = Some x -> In o (map fst l).
Proof. intros H. apply lookup_in in H. apply in_map_iff. exists (o, x). split; [reflexivity | exact H]. Qed.

Lemma in_keys_lookup {T} o (l : list (oid * T)) : In o (map fst l) -> exists x, lookup o l = Some x.
Proof.
  induction l as [|[k a] r IH]; cbn; [intros []|]. destruct (Nat.eqb k o) eqn:E; [intros _; exists a; reflexivity|].
  intros [Hk|Hk]; [apply Nat.eqb_neq in E; contradiction | exact (IH Hk)].
Qed.

Lemma pinv_nx lo s n : nx s <= n -> pinv lo s -> pinv lo (st_nx n s).
Proof. intros H (A & B & C). split; [exact A|]. split; [exact B | apply st_ok_nx; assumption]. Qed.

Lemma clone_imp_pattern fx lo s imp imp' s' :
  fx_isrc fx = true -> pinv lo s -> lo <= nx s -> clone_imp fx s imp = (imp', s') ->
  pinv lo s' /\ pext s s' /\ nx s <= nx s' /\
  isrc_oids_opt imp' = map (rho s') (isrc_oids_opt imp) /\ (forall k, In k (isrc_oids_opt imp) -> In k (keys s')).
Proof.
  intros Hfx Hp Hlo. unfold clone_imp. destruct imp as [i|].
  2:{ intros H. injection H as <- <-. refine (conj Hp (conj (pext_refl _) (conj (le_n _) (conj eq_refl _)))). intros k []. }
  rewrite Hfx. destruct (lookup (is_oid i) (imap s)) as [i'|] eqn:El.
  - intros H. injection H as <- <-. refine (conj Hp (conj (pext_refl _) (conj (le_n _) (conj _ _)))).
    + cbn. unfold rho. rewrite El. reflexivity.
    + intros k [<-|[]]. eapply lookup_some_in. exact El.
  - cbn. intros H. injection H as <- <-. destruct Hp as (A & B & Cc). pose proof (lookup_none_notin _ _ El) as Hn.
    split; [|split; [|split; [|split]]].
    + split; [|split]; unfold keys; cbn.
      * constructor; [exact Hn | exact A].
      * constructor; [|exact B]. intros Hi. apply in_map_iff in Hi. destruct Hi as ([k x] & Ex & Hx). cbn in Ex.
        unfold st_ok in Cc. rewrite Forall_forall in Cc. specialize (Cc _ Hx). cbn in Cc. lia.
      * unfold st_ok. cbn. constructor; [cbn; lia|]. revert Cc. unfold st_ok. apply Forall_impl. intros kv Hk. lia.
    + intros k Hk. unfold keys, rho. cbn. split; [right; exact Hk|]. destruct (Nat.eqb (is_oid i) k) eqn:E; [|reflexivity].
      apply Nat.eqb_eq in E. subst k. contradiction.
    + cbn. lia.
    + cbn. unfold rho. cbn. rewrite Nat.eqb_refl. reflexivity.
    + intros k [<-|[]]. unfold keys. cbn. left. reflexivity.
Qed.

Lemma comp_imports_set_parent p c : comp_imports (c_set_parent p c) = comp_imports c.
Proof. destruct c; reflexivity. Qed.

Lemma map_rho_pext s s' l : pext s s' -> (forall k, In k l -> In k (keys s)) -> map (rho s') l = map (rho s) l.
Proof. intros Hp Hk. apply map_ext_in. intros k Hin. apply Hp. apply Hk. exact Hin. Qed.

Lemma clone_comp_pattern fx lo c : forall s c' s',
  fx_isrc fx = true -> pinv lo s -> lo <= nx s -> clone_comp fx s c = (c', s') ->
  pinv lo s' /\ pext s s' /\ nx s <= nx s' /\
  comp_imports c' = map (rho s') (comp_imports c) /\ (forall k, In k (comp_imports c) -> In k (keys s')).
Proof.
  induction c as [o p id name encid math imp impref vars resets kids IH] using component_ind'.
  intros s c' s' Hfx Hp Hlo. rewrite clone_comp_unfold. cbv zeta.
  destruct (clone_imp fx (st_nx (S (nx s)) s) imp) as [imp' s1] eqn:E1.
  pose proof (clone_variables_spec fx (nx s) vars (nx s1)) as SV.
  destruct (clone_variables fx (nx s1) (nx s) vars) as [vars' n2] eqn:E2.
  assert (L3 : n2 <= snd (clone_resets fx n2 (nx s) vars vars' resets)).
  { clear. generalize n2. induction resets as [|r rest IHr]; intros n; cbn; [lia|].
    pose proof (clone_reset_spec fx n r) as Hr. destruct (clone_reset fx n r) as [r' n1]. cbn in Hr.
    specialize (IHr n1). destruct (clone_resets fx n1 (nx s) vars vars' rest). cbn in *. lia. }
  destruct (clone_resets fx n2 (nx s) vars vars' resets) as [resets' n3] eqn:E3. cbn in L3.
  destruct (clone_comps fx (st_nx n3 s1) (nx s) kids) as [kids' s4] eqn:E4. intros H. injection H as <- <-.
  destruct (SV _ _ eq_refl) as (L2 & _).
  apply (clone_imp_pattern fx lo) in E1; [|exact Hfx | apply pinv_nx; [lia | exact Hp] | cbn; lia].
  destruct E1 as (P1 & X1 & N1 & I1 & K1). cbn in N1.
  assert (K : forall l z l' z', Forall (fun c => forall s c' s', fx_isrc fx = true -> pinv lo s -> lo <= nx s -> clone_comp fx s c = (c', s') ->
                 pinv lo s' /\ pext s s' /\ nx s <= nx s' /\
                 comp_imports c' = map (rho s') (comp_imports c) /\ (forall k, In k (comp_imports c) -> In k (keys s'))) l ->
             pinv lo z -> lo <= nx z -> clone_comps fx z (nx s) l = (l', z') ->
             pinv lo z' /\ pext z z' /\ nx z <= nx z' /\
             flat_map comp_imports l' = map (rho z') (flat_map comp_imports l) /\
             (forall k, In k (flat_map comp_imports l) -> In k (keys z'))).
  { induction l as [|k r IHr]; intros z l' z' Hall Hz Hlz; cbn.
    - intros H. injection H as <- <-. refine (conj Hz (conj (pext_refl _) (conj (le_n _) (conj eq_refl _)))). intros k [].
    - destruct (clone_comp fx z k) as [k' z1] eqn:Ek. destruct (clone_comps fx z1 (nx s) r) as [r' z2] eqn:Er.
      intros H. injection H as <- <-. inversion Hall as [|? ? Hk Hr']; subst.
      apply Hk in Ek; [|exact Hfx | exact Hz | exact Hlz]. destruct Ek as (Pk & Xk & Nk & Ik & Kk).
      apply IHr in Er; [|exact Hr' | exact Pk | lia]. destruct Er as (Pr & Xr & Nr & Ir & Kr).
      split; [exact Pr|]. split; [eapply pext_trans; eassumption|]. split; [lia|]. split.
      + cbn. rewrite comp_imports_set_parent, map_app, Ik, Ir. f_equal. symmetry. apply map_rho_pext; assumption.
      + intros x Hx. apply in_app_or in Hx. destruct Hx as [Hx|Hx]; [apply Xr; apply Kk; exact Hx | apply Kr; exact Hx]. }
  apply K in E4; [|exact IH | apply pinv_nx; [lia | exact P1] | cbn; lia].
  destruct E4 as (P4 & X4 & N4 & I4 & K4). cbn in N4.
  assert (X14 : pext s1 s4) by exact X4.
  split; [exact P4|]. split; [eapply pext_trans; [exact X1 | exact X14]|]. split; [lia|]. split.
  - cbn [comp_imports]. rewrite map_app, I1, I4. f_equal. symmetry. apply map_rho_pext; assumption.
  - cbn [comp_imports]. intros x Hx. apply in_app_or in Hx. destruct Hx as [Hx|Hx]; [apply X14; apply K1; exact Hx | apply K4; exact Hx].
Qed.

Lemma NoDup_map_inj {X Y} (f : X -> Y) l : NoDup (map f l) -> forall x y, In x l -> In y l -> f x = f y -> x = y.
Proof.
  induction l as [|a r IH]; cbn; intros Hnd x y Hx Hy E; [destruct Hx|]. inversion Hnd as [|? ? Ha Hr]; subst.
  destruct Hx as [<-|Hx], Hy as [<-|Hy]; try reflexivity.
  - exfalso. apply Ha. rewrite E. apply in_map. exact Hy.
  - exfalso. apply Ha. rewrite <- E. apply in_map. exact Hx.
  - apply IH; assumption.
Qed.

Lemma rho_inj lo s k1 k2 : pinv lo s -> In k1 (keys s) -> In k2 (keys s) -> rho s k1 = rho s k2 -> k1 = k2.
Proof.
  intros (A & B & _) H1 H2. unfold rho. destruct (in_keys_lookup _ _ H1) as [x1 E1]. destruct (in_keys_lookup _ _ H2) as [x2 E2].
  rewrite E1, E2. intros E. apply lookup_in in E1. apply lookup_in in E2.
  pose proof (NoDup_map_inj _ _ B _ _ E1 E2 E) as P. injection P as -> _. reflexivity.
Qed.

Lemma index_of_map_inj (f : oid -> oid) o l : (forall x, In x l -> f x = f o -> x = o) -> index_of (f o) (map f l) = index_of o l.
Proof.
  induction l as [|x r IH]; cbn; intros H; [reflexivity|]. destruct (Nat.eqb x o) eqn:E.
  - apply Nat.eqb_eq in E. subst. rewrite Nat.eqb_refl. reflexivity.
  - destruct (Nat.eqb (f x) (f o)) eqn:E'.
    + apply Nat.eqb_eq in E'. apply H in E'; [|left; reflexivity]. apply Nat.eqb_neq in E. contradiction.
    + rewrite IH; [reflexivity|]. intros y Hy. apply H. right. exact Hy.
Qed.

Lemma canon_map_inj (f : oid -> oid) l : (forall x y, In x l -> In y l -> f x = f y -> x = y) -> canon (map f l) = canon l.
Proof.
  intros H. unfold canon. rewrite map_map. apply map_ext_in. intros o Ho. apply index_of_map_inj. intros x Hx E. apply H; assumption.
Qed.

Lemma pinv_st0 lo n : pinv lo (st0 n).
Proof. split; [constructor|]. split; constructor. Qed.

Lemma clone_component_pattern fx n c :
  fx_isrc fx = true -> canon (comp_imports (fst (clone_component fx n c))) = canon (comp_imports c).
Proof.
  intros Hfx. unfold clone_component. destruct (clone_comp fx (st0 n) c) as [c' s'] eqn:E. cbn.
  apply (clone_comp_pattern fx n) in E; [|exact Hfx | apply pinv_st0 | cbn; lia]. destruct E as (P & _ & _ & I & K).
  rewrite I. apply canon_map_inj. intros x y Hx Hy. apply (rho_inj n s'); [exact P | apply K; exact Hx | apply K; exact Hy].
Qed.

(* ------------------------------------------------------------------------------------------ content: models (structure) *)

Lemma clone_comps_content fx C owner l : forall z l' z',
  fx_order fx = true -> fx_encid fx = true -> coherent C -> imap_ok C z -> incl (flat_map comp_imps l) C -> Forall wf_comp l ->
  clone_comps fx z owner l = (l', z') -> imap_ok C z' /\ map content_comp l' = map content_comp l.
Proof.
  induction l as [|k r IHr]; intros z l' z' Hfo Hfe Hco Hz Hinl Hwl; cbn.
  - intros H. injection H as <- <-. split; [exact Hz | reflexivity].
  - destruct (clone_comp fx z k) as [k' z1] eqn:Ek. destruct (clone_comps fx z1 owner r) as [r' z2] eqn:Er.
    intros H. injection H as <- <-. inversion Hwl as [|? ? Wk Wr]; subst. cbn in Hinl.
    apply (clone_comp_content fx C) in Ek; [|assumption.. | intros x Hx; apply Hinl; apply in_or_app; left; exact Hx | exact Wk].
    destruct Ek as [Okk Ck].
    apply IHr in Er; [|assumption.. | intros x Hx; apply Hinl; apply in_or_app; right; exact Hx | exact Wr].
    destruct Er as [Okr Cr]. split; [exact Okr|]. cbn. rewrite content_comp_set_parent, Ck, Cr. reflexivity.
Qed.

Lemma content_units_set_parent p u : content_units (u_set_parent p u) = content_units u.
Proof. reflexivity. Qed.

Lemma clone_units_list_content fx C owner l : forall z l' z',
  coherent C -> imap_ok C z -> incl (flat_map (fun u => opt_list (u_imp u)) l) C -> Forall wf_units l ->
  clone_units_list fx z owner l = (l', z') -> imap_ok C z' /\ map content_units l' = map content_units l.
Proof.
  induction l as [|u r IHr]; intros z l' z' Hco Hz Hinl Hwl; cbn.
  - intros H. injection H as <- <-. split; [exact Hz | reflexivity].
  - destruct (clone_units_st fx z u) as [u' z1] eqn:Eu. destruct (clone_units_list fx z1 owner r) as [r' z2] eqn:Er.
    intros H. injection H as <- <-. inversion Hwl as [|? ? Wu Wr]; subst. cbn in Hinl.
    apply (clone_units_st_content fx C) in Eu; [|assumption.. | | exact Wu].
    2:{ intros i Ei. apply Hinl. apply in_or_app. left. rewrite Ei. left. reflexivity. }
    destruct Eu as (Ok1 & Cu & _).
    apply IHr in Er; [|assumption.. | intros x Hx; apply Hinl; apply in_or_app; right; exact Hx | exact Wr].
    destruct Er as [Okr Cr]. split; [exact Okr|]. cbn. rewrite content_units_set_parent, Cu, Cr. reflexivity.
Qed.

(* a map over the variables that keeps what is serialised of a variable, its name and its identity *)
Definition keeps (f : variable -> variable) : Prop :=
  forall v, content_variable (f v) = content_variable v /\ v_name (f v) = v_name v /\ v_oid (f v) = v_oid v.

Lemma content_vref_keeps f vars o : keeps f ->
  content_vref (map (map_var (fun u => u) f) vars) (option_map (map_var (fun u => u) f) o) = content_vref vars o.
Proof.
  intros Hk. destruct o as [v|]; [|reflexivity]. cbn. rewrite map_var_idg. destruct (Hk v) as (_ & Hn & Ho). rewrite Hn, Ho.
  rewrite map_map. erewrite (map_ext _ v_oid); [reflexivity|]. intros a. rewrite map_var_idg. apply Hk.
Qed.

Lemma content_comp_keeps f c : keeps f -> content_comp (map_comp (fun i => i) (fun u => u) f (fun r => r) (fun c => c) c) = content_comp c.
Proof.
  intros Hk. induction c as [o p id name encid math imp impref vars resets kids IH] using component_ind'.
  rewrite map_comp_unfold. cbn [content_comp]. rewrite option_map_id'.
  assert (E1 : map content_variable (map (map_var (fun u => u) f) vars) = map content_variable vars).
  { rewrite map_map. apply map_ext. intros v. rewrite map_var_idg. apply Hk. }
  assert (E2 : map (content_reset (map (map_var (fun u => u) f) vars)) (map (map_reset (fun u => u) f (fun r => r)) resets)
               = map (content_reset vars) resets).
  { rewrite map_map. apply map_ext. intros r. unfold map_reset, content_reset. cbn. rewrite !content_vref_keeps by exact Hk. reflexivity. }
  assert (E3 : map content_comp (map (map_comp (fun i => i) (fun u => u) f (fun r => r) (fun c => c)) kids) = map content_comp kids).
  { rewrite map_map. apply map_ext_in. intros k Hk'. rewrite Forall_forall in IH. apply IH. exact Hk'. }
  rewrite E1, E2, E3. reflexivity.
Qed.

Lemma comp_imports_map_f f c : comp_imports (map_comp (fun i => i) (fun u => u) f (fun r => r) (fun c => c) c) = comp_imports c.
Proof.
  induction c as [o p id name encid math imp impref vars resets kids IH] using component_ind'.
  rewrite map_comp_unfold. cbn [comp_imports]. rewrite option_map_id'. f_equal.
  rewrite flat_map_concat_map, map_map, <- flat_map_concat_map. rewrite Forall_forall in IH.
  induction kids as [|k r IHr]; cbn; [reflexivity|]. rewrite IH by (left; reflexivity). f_equal. apply IHr. intros x Hx. apply IH. right. exact Hx.
Qed.

Lemma content_model_struct_map_f f m : keeps f ->
  content_model_struct (map_model (fun i => i) (fun u => u) f (fun r => r) (fun c => c) m) = content_model_struct m.
Proof.
  intros Hk. unfold content_model_struct, map_model, model_imports. cbn. rewrite map_id.
  assert (E1 : map content_comp (map (map_comp (fun i => i) (fun u => u) f (fun r => r) (fun c => c)) (m_comps m)) = map content_comp (m_comps m)).
  { rewrite map_map. apply map_ext. intros c. apply content_comp_keeps. exact Hk. }
  assert (E2 : flat_map comp_imports (map (map_comp (fun i => i) (fun u => u) f (fun r => r) (fun c => c)) (m_comps m)) = flat_map comp_imports (m_comps m)).
  { clear E1. induction (m_comps m) as [|c r IHr]; cbn [flat_map map]; [reflexivity|]. rewrite comp_imports_map_f, IHr. reflexivity. }
  rewrite E1, E2. reflexivity.
Qed.

Lemma find_units_name name l u : find_units name l = Some u -> u_name u = name.
Proof.
  induction l as [|x r IH]; cbn; [discriminate|]. destruct (String.eqb (u_name x) name) eqn:E.
  - intros H. injection H as <-. apply String.eqb_eq. exact E.
  - exact IH.
Qed.

Lemma keeps_fix_units us cvo : keeps (fix_units_var us cvo).
Proof.
  intros v. unfold fix_units_var. destruct (existsb (Nat.eqb (v_oid v)) cvo); [|repeat split].
  destruct (v_units v) as [u|] eqn:Eu; [|repeat split]. destruct (find_units (u_name u) us) as [u'|] eqn:Ef; [|repeat split].
  apply find_units_name in Ef. unfold content_variable. cbn. rewrite Eu. cbn. rewrite Ef. repeat split.
Qed.

Lemma keeps_set_eqs E : keeps (fun v => v_set_eqs (es_get (v_oid v) E) v).
Proof. intros v. repeat split. Qed.

Definition model_imps (m : model) : list isrc :=
  flat_map (fun u => opt_list (u_imp u)) (m_units m) ++ flat_map comp_imps (m_comps m).

Definition wf_model (m : model) : Prop :=
  coherent (model_imps m) /\ Forall wf_units (m_units m) /\ Forall wf_comp (m_comps m).

Lemma clone_units_st_pattern fx lo s u u' s' :
  fx_isrc fx = true -> pinv lo s -> lo <= nx s -> clone_units_st fx s u = (u', s') ->
  pinv lo s' /\ pext s s' /\ nx s <= nx s' /\
  units_isrcs u' = map (rho s') (units_isrcs u) /\ (forall k, In k (units_isrcs u) -> In k (keys s')).
Proof.
  intros Hfx Hp Hlo. unfold clone_units_st.
  destruct (clone_imp fx (st_nx (S (nx s)) s) (u_imp u)) as [imp' s1] eqn:E. intros H. injection H as <- <-.
  apply (clone_imp_pattern fx lo) in E; [|exact Hfx | apply pinv_nx; [lia | exact Hp] | cbn; lia].
  destruct E as (P1 & X1 & N1 & I1 & K1). cbn in N1. unfold units_isrcs. cbn.
  refine (conj P1 (conj X1 (conj _ (conj I1 K1)))). lia.
Qed.

Lemma clone_units_list_pattern fx lo owner l : forall z l' z',
  fx_isrc fx = true -> pinv lo z -> lo <= nx z -> clone_units_list fx z owner l = (l', z') ->
  pinv lo z' /\ pext z z' /\ nx z <= nx z' /\
  flat_map units_isrcs l' = map (rho z') (flat_map units_isrcs l) /\ (forall k, In k (flat_map units_isrcs l) -> In k (keys z')).
Proof.
  induction l as [|u r IHr]; intros z l' z' Hfx Hz Hlz; cbn.
  - intros H. injection H as <- <-. refine (conj Hz (conj (pext_refl _) (conj (le_n _) (conj eq_refl _)))). intros k [].
  - destruct (clone_units_st fx z u) as [u' z1] eqn:Eu. destruct (clone_units_list fx z1 owner r) as [r' z2] eqn:Er.
    intros H. injection H as <- <-.
    apply (clone_units_st_pattern fx lo) in Eu; [|assumption..]. destruct Eu as (Pk & Xk & Nk & Ik & Kk).
    apply IHr in Er; [|exact Hfx | exact Pk | lia]. destruct Er as (Pr & Xr & Nr & Ir & Kr).
    split; [exact Pr|]. split; [eapply pext_trans; eassumption|]. split; [lia|]. split.
    + cbn. change (units_isrcs (u_set_parent (Some owner) u')) with (units_isrcs u'). rewrite map_app, Ik, Ir. f_equal. symmetry. apply map_rho_pext; assumption.
    + intros x Hx. apply in_app_or in Hx. destruct Hx as [Hx|Hx]; [apply Xr; apply Kk; exact Hx | apply Kr; exact Hx].
Qed.

Lemma clone_comps_pattern fx lo owner l : forall z l' z',
  fx_isrc fx = true -> pinv lo z -> lo <= nx z -> clone_comps fx z owner l = (l', z') ->
  pinv lo z' /\ pext z z' /\ nx z <= nx z' /\
  flat_map comp_imports l' = map (rho z') (flat_map comp_imports l) /\ (forall k, In k (flat_map comp_imports l) -> In k (keys z')).
Proof.
  induction l as [|k r IHr]; intros z l' z' Hfx Hz Hlz; cbn.
  - intros H. injection H as <- <-. refine (conj Hz (conj (pext_refl _) (conj (le_n _) (conj eq_refl _)))). intros k [].
  - destruct (clone_comp fx z k) as [k' z1] eqn:Ek. destruct (clone_comps fx z1 owner r) as [r' z2] eqn:Er.
    intros H. injection H as <- <-.
    apply (clone_comp_pattern fx lo) in Ek; [|assumption..]. destruct Ek as (Pk & Xk & Nk & Ik & Kk).
    apply IHr in Er; [|exact Hfx | exact Pk | lia]. destruct Er as (Pr & Xr & Nr & Ir & Kr).
    split; [exact Pr|]. split; [eapply pext_trans; eassumption|]. split; [lia|]. split.
    + cbn. rewrite comp_imports_set_parent, map_app, Ik, Ir. f_equal. symmetry. apply map_rho_pext; assumption.
    + intros x Hx. apply in_app_or in Hx. destruct Hx as [Hx|Hx]; [apply Xr; apply Kk; exact Hx | apply Kr; exact Hx].
Qed.

Lemma clone_model_struct fx ext n m m' n' :
  fx_order fx = true -> fx_encid fx = true -> fx_isrc fx = true -> wf_model m ->
  clone_model fx ext n m = Some (m', n') -> content_model_struct m' = content_model_struct m.
Proof.
  intros Hfo Hfe Hfi (Hco & Hwu & Hwc). unfold clone_model.
  destruct (clone_units_list fx (st0 (S n)) n (m_units m)) as [us s1] eqn:E1.
  destruct (clone_comps fx s1 n (m_comps m)) as [cs s2] eqn:E2.
  destruct (record_model fx ext m) as [em|]; [|discriminate].
  destruct (apply_map _ em (Some [])) as [E|]; [|discriminate]. intros H. injection H as <- <-.
  unfold set_eqs. rewrite content_model_struct_map_f by apply keeps_set_eqs.
  unfold fix_component_units. rewrite content_model_struct_map_f by apply keeps_fix_units.
  pose proof E1 as Q1. pose proof E2 as Q2.
  apply (clone_units_list_content fx (model_imps m)) in E1; [|exact Hco | apply imap_ok_st0 | intros x Hx; apply in_or_app; left; exact Hx | exact Hwu].
  destruct E1 as [Ok1 Cu].
  apply (clone_comps_content fx (model_imps m)) in E2; [|assumption.. | intros x Hx; apply in_or_app; right; exact Hx | exact Hwc].
  destruct E2 as [Ok2 Cc].
  apply (clone_units_list_pattern fx (S n)) in Q1; [|exact Hfi | apply pinv_st0 | cbn; lia]. destruct Q1 as (P1 & X1 & N1 & I1 & K1).
  apply (clone_comps_pattern fx (S n)) in Q2; [|exact Hfi | exact P1 | cbn in N1; lia]. destruct Q2 as (P2 & X2 & N2 & I2 & K2).
  unfold content_model_struct. cbn. rewrite Cu, Cc. f_equal.
  unfold model_imports. cbn. rewrite I1, I2. rewrite <- (map_rho_pext s1 s2 _ X2 K1). rewrite <- map_app.
  apply canon_map_inj. intros x y Hx Hy. apply (rho_inj (S n) s2); [exact P2 | |].
  - apply in_app_or in Hx. destruct Hx as [Hx|Hx]; [apply X2; apply K1; exact Hx | apply K2; exact Hx].
  - apply in_app_or in Hy. destruct Hy as [Hy|Hy]; [apply X2; apply K1; exact Hy | apply K2; exact Hy].
Qed.

(* ------------------------------------------------------------------------------------------ positions of variables *)

(* the variable reached from a component by an index stack (relative to that component) *)
Fixpoint walk_c (c : component) (q : path) : option variable :=
  match q with
  | [] => None
  | [j] => nth_error (c_vars c) j
  | j :: q' => match nth_error (c_kids c) j with Some k => walk_c k q' | None => None end
  end.

Definition walk_l (cs : list component) (p : path) : option variable :=
  match p with
  | [] => None
  | j :: q => match nth_error cs j with Some c => walk_c c q | None => None end
  end.

Lemma idx_vars_in pre l : forall i p v,
  In (p, v) (idx_vars pre i l) <-> exists j, p = pre ++ [i + j] /\ nth_error l j = Some v.
Proof.
  induction l as [|x r IH]; intros i p v; cbn.
  - split; [intros [] | intros (j & _ & H); destruct j; discriminate].
  - split.
    + intros [E|H].
      * injection E as <- <-. exists 0. rewrite Nat.add_0_r. split; reflexivity.
      * apply IH in H. destruct H as (j & -> & Hj). exists (S j). split; [f_equal; f_equal; lia | exact Hj].
    + intros ([|j] & -> & Hj); cbn in Hj.
      * injection Hj as <-. left. rewrite Nat.add_0_r. reflexivity.
      * right. apply IH. exists j. split; [f_equal; f_equal; lia | exact Hj].
Qed.

Lemma comp_vars_at_unfold pre o p id name encid math imp impref vars resets kids :
  comp_vars_at pre (Comp o p id name encid math imp impref vars resets kids) = idx_vars pre 0 vars ++ comps_vars_at pre 0 kids.
Proof.
  cbn [comp_vars_at]. f_equal. generalize 0. induction kids as [|k r IH]; intros i; [reflexivity|].
  cbn [comps_vars_at]. rewrite <- IH. reflexivity.
Qed.

Lemma comps_vars_at_in pre l : forall i p v,
  In (p, v) (comps_vars_at pre i l) <-> exists j c, nth_error l j = Some c /\ In (p, v) (comp_vars_at (pre ++ [i + j]) c).
Proof.
  induction l as [|x r IH]; intros i p v; cbn [comps_vars_at].
  - split; [intros [] | intros (j & c & H & _); destruct j; discriminate].
  - rewrite in_app_iff. split.
    + intros [H|H].
      * exists 0, x. rewrite Nat.add_0_r. split; [reflexivity | exact H].
      * apply IH in H. destruct H as (j & c & Hj & Hin). exists (S j), c. split; [exact Hj|]. replace (i + S j) with (S i + j) by lia. exact Hin.
    + intros ([|j] & c & Hj & Hin); cbn in Hj.
      * injection Hj as <-. left. rewrite Nat.add_0_r in Hin. exact Hin.
      * right. apply IH. exists j, c. split; [exact Hj|]. replace (S i + j) with (i + S j) by lia. exact Hin.
Qed.

Lemma app_inv_head_path (pre a b : path) : pre ++ a = pre ++ b -> a = b.
Proof. apply app_inv_head. Qed.

Lemma comp_vars_at_in c : forall pre p v,
  In (p, v) (comp_vars_at pre c) <-> exists q, p = pre ++ q /\ walk_c c q = Some v.
Proof.
  induction c as [o pp id name encid math imp impref vars resets kids IH] using component_ind'.
  intros pre p v. rewrite comp_vars_at_unfold, in_app_iff. rewrite idx_vars_in, comps_vars_at_in. rewrite Forall_forall in IH. split.
  - intros [(j & -> & Hj) | (j & c & Hj & Hin)].
    + exists [j]. split; [reflexivity | exact Hj].
    + apply (IH c (nth_error_In _ _ Hj)) in Hin. destruct Hin as (q & -> & Hq). cbn in *.
      exists (j :: q). split; [rewrite <- app_assoc; reflexivity|].
      destruct q as [|a q']; [discriminate|]. cbn [walk_c c_kids]. rewrite Hj. exact Hq.
  - intros (q & -> & Hq). destruct q as [|j q]; [discriminate|]. destruct q as [|a q'].
    + left. exists j. split; [reflexivity | exact Hq].
    + right. cbn [walk_c c_kids] in Hq. destruct (nth_error kids j) as [c|] eqn:Ej; [|discriminate].
      exists j, c. split; [exact Ej|]. apply (IH c (nth_error_In _ _ Ej)). exists (a :: q'). split; [rewrite <- app_assoc; reflexivity | exact Hq].
Qed.

Lemma model_vars_in m p v : In (p, v) (model_vars m) <-> walk_l (m_comps m) p = Some v.
Proof.
  unfold model_vars. rewrite comps_vars_at_in. split.
  - intros (j & c & Hj & Hin). apply comp_vars_at_in in Hin. destruct Hin as (q & -> & Hq). cbn. rewrite Hj. exact Hq.
  - destruct p as [|j q]; [discriminate|]. cbn. destruct (nth_error (m_comps m) j) as [c|] eqn:Ej; [|discriminate].
    intros Hq. exists j, c. split; [exact Ej|]. apply comp_vars_at_in. exists q. split; [reflexivity | exact Hq].
Qed.

(* getVariableLocatedAt finds exactly the variables enumerated by model_vars *)
Lemma comp_at_walk : forall q cs j v, q <> [] ->
  (match nth_error cs j with Some c0 => walk_c c0 q | None => None end = Some v) <->
  (exists c, comp_at cs (removelast (j :: q)) = Some c /\ nth_error (c_vars c) (last (j :: q) 0) = Some v).
Proof.
  induction q as [|a q IH]; intros cs j v Hne; [contradiction|]. destruct q as [|b q'].
  - cbn. destruct (nth_error cs j) as [c0|]; split.
    + intros H. exists c0. split; [reflexivity | exact H].
    + intros (c1 & E & H). injection E as <-. exact H.
    + discriminate.
    + intros (c1 & E & _). discriminate.
  - change (removelast (j :: a :: b :: q')) with (j :: removelast (a :: b :: q')).
    change (last (j :: a :: b :: q') 0) with (last (a :: b :: q') 0).
    assert (R : removelast (a :: b :: q') <> []) by (cbn; discriminate).
    destruct (removelast (a :: b :: q')) as [|x y] eqn:ER; [contradiction|]. cbn [comp_at].
    destruct (nth_error cs j) as [c0|]; [|split; [discriminate | intros (c1 & E & _); discriminate]].
    change (walk_c c0 (a :: b :: q')) with (match nth_error (c_kids c0) a with Some k => walk_c k (b :: q') | None => None end).
    rewrite (IH (c_kids c0) a v) by discriminate. rewrite ER. reflexivity.
Qed.

Lemma var_located_at_walk m p v : var_located_at m p = LVar v <-> walk_l (m_comps m) p = Some v.
Proof.
  unfold var_located_at, walk_l. destruct p as [|j q]; [split; discriminate|]. destruct q as [|a q'].
  - cbn. split; [discriminate|]. destruct (nth_error (m_comps m) j); discriminate.
  - rewrite (comp_at_walk (a :: q') (m_comps m) j v) by discriminate.
    destruct (removelast (j :: a :: q')) as [|x y] eqn:ER; [cbn in ER; destruct q'; discriminate|].
    split.
    + destruct (comp_at (m_comps m) (x :: y)) as [c|]; [|discriminate].
      destruct (nth_error (c_vars c) (last (j :: a :: q') 0)) as [w|] eqn:En; [|discriminate].
      intros H. injection H as <-. exists c. split; [reflexivity | exact En].
    + intros (c & -> & ->). reflexivity.
Qed.

Lemma var_located_at_in m p v : var_located_at m p = LVar v <-> In (p, v) (model_vars m).
Proof. rewrite var_located_at_walk, model_vars_in. reflexivity. Qed.

(* ------------------------------------------------------------------------------------------ shape of the clone *)

Definition pv_map (f : variable -> variable) (pv : path * variable) : path * variable := (fst pv, f (snd pv)).

Lemma idx_vars_map pre f l : forall i, idx_vars pre i (map f l) = map (pv_map f) (idx_vars pre i l).
Proof. induction l as [|x r IH]; intros i; cbn; [reflexivity | rewrite IH; reflexivity]. Qed.

Lemma comp_vars_at_map_f f c : forall pre,
  comp_vars_at pre (map_comp (fun i => i) (fun u => u) f (fun r => r) (fun c => c) c) = map (pv_map f) (comp_vars_at pre c).
Proof.
  induction c as [o pp id name encid math imp impref vars resets kids IH] using component_ind'. intros pre.
  rewrite map_comp_unfold, !comp_vars_at_unfold, map_app. f_equal.
  - rewrite <- idx_vars_map. f_equal. apply map_ext. intros v. apply map_var_idg.
  - rewrite Forall_forall in IH. generalize 0. induction kids as [|k r IHr]; intros i; cbn [map comps_vars_at]; [reflexivity|].
    rewrite map_app, IH by (left; reflexivity). f_equal. apply IHr. intros x Hx. apply IH. right. exact Hx.
Qed.

Lemma model_vars_map_f f m :
  model_vars (map_model (fun i => i) (fun u => u) f (fun r => r) (fun c => c) m) = map (pv_map f) (model_vars m).
Proof.
  unfold model_vars, map_model. cbn [m_comps]. generalize 0. generalize (@nil nat).
  induction (m_comps m) as [|k r IHr]; intros pre i; cbn [map comps_vars_at]; [reflexivity|].
  rewrite map_app, comp_vars_at_map_f, IHr. reflexivity.
Qed.

Lemma idx_vars_fst pre (l l' : list variable) : List.length l = List.length l' ->
  forall i, map fst (idx_vars pre i l) = map fst (idx_vars pre i l').
Proof.
  revert l'. induction l as [|x r IH]; intros [|y r'] H i; cbn in *; try discriminate; [reflexivity|].
  f_equal. apply IH. lia.
Qed.

Lemma clone_variables_length fx owner l : forall n, List.length (fst (clone_variables fx n owner l)) = List.length l.
Proof.
  induction l as [|v r IH]; intros n; cbn; [reflexivity|]. destruct (clone_variable fx n v) as [v' n1].
  specialize (IH n1). destruct (clone_variables fx n1 owner r). cbn in *. rewrite IH. reflexivity.
Qed.

Lemma comp_vars_at_set_parent p pre c : comp_vars_at pre (c_set_parent p c) = comp_vars_at pre c.
Proof. destruct c; reflexivity. Qed.

Definition lt_all (hi : nat) (l : list (path * variable)) : Prop := forall pv, In pv l -> v_oid (snd pv) < hi.
Definition ge_all (lo : nat) (l : list (path * variable)) : Prop := forall pv, In pv l -> lo <= v_oid (snd pv).

Lemma NoDup_oid_app (a b : list (path * variable)) mid :
  NoDup (map (fun pv => v_oid (snd pv)) a) -> NoDup (map (fun pv => v_oid (snd pv)) b) -> lt_all mid a -> ge_all mid b ->
  NoDup (map (fun pv => v_oid (snd pv)) (a ++ b)).
Proof.
  intros Ha Hb La Gb. rewrite map_app. induction a as [|x r IH]; cbn; [exact Hb|]. inversion Ha as [|? ? Hx Hr]; subst.
  constructor.
  - rewrite in_app_iff. intros [H|H]; [exact (Hx H)|]. apply in_map_iff in H. destruct H as (y & Ey & Hy).
    specialize (La x (or_introl eq_refl)). specialize (Gb y Hy). lia.
  - apply IH; [exact Hr|]. intros pv Hpv. apply La. right. exact Hpv.
Qed.

Lemma idx_vars_oids pre l : forall i, map (fun pv => v_oid (snd pv)) (idx_vars pre i l) = map v_oid l.
Proof. induction l as [|x r IH]; intros i; cbn; [reflexivity | rewrite IH; reflexivity]. Qed.

Lemma idx_vars_snd pre l : forall i pv, In pv (idx_vars pre i l) -> In (snd pv) l.
Proof.
  induction l as [|x r IH]; intros i pv; cbn; [intros []|]. intros [<-|H]; [left; reflexivity | right; eapply IH; exact H].
Qed.

Definition shape_ok (lo hi : nat) (orig cl : list (path * variable)) : Prop :=
  map fst cl = map fst orig /\ NoDup (map (fun pv => v_oid (snd pv)) cl) /\ ge_all lo cl /\ lt_all hi cl /\
  (forall pv, In pv cl -> v_eqs (snd pv) = []).

Lemma clone_resets_ge fx owner ovars cvars l : forall n, n <= snd (clone_resets fx n owner ovars cvars l).
Proof.
  induction l as [|r rest IH]; intros n; cbn; [lia|]. pose proof (clone_reset_spec fx n r) as Hr.
  destruct (clone_reset fx n r) as [r' n1]. cbn in Hr. specialize (IH n1). destruct (clone_resets fx n1 owner ovars cvars rest). cbn in *. lia.
Qed.

Lemma clone_imp_nx fx s imp : nx s <= nx (snd (clone_imp fx s imp)).
Proof. unfold clone_imp. destruct imp as [i|]; [|cbn; lia]. destruct (fx_isrc fx); [|cbn; lia]. destruct (lookup (is_oid i) (imap s)); cbn; lia. Qed.

Lemma clone_variables_eqs fx owner l : forall n w, In w (fst (clone_variables fx n owner l)) -> v_eqs w = [].
Proof.
  induction l as [|v r IH]; intros n w; cbn; [intros []|].
  destruct (clone_variable fx n v) as [v' n1] eqn:Ev. specialize (IH n1 w). destruct (clone_variables fx n1 owner r) as [r' n2]. cbn in *.
  intros [<-|Hw]; [|exact (IH Hw)]. cbn.
  unfold clone_variable in Ev. destruct (v_units v); [destruct (clone_units fx (S n) u)|]; injection Ev as <- _; reflexivity.
Qed.

Lemma clone_comp_shape fx c : forall pre s c' s',
  clone_comp fx s c = (c', s') -> nx s < nx s' /\ shape_ok (nx s) (nx s') (comp_vars_at pre c) (comp_vars_at pre c').
Proof.
  induction c as [o pp id name encid math imp impref vars resets kids IH] using component_ind'.
  intros pre s c' s'. rewrite clone_comp_unfold. cbv zeta.
  pose proof (clone_imp_nx fx (st_nx (S (nx s)) s) imp) as N1.
  destruct (clone_imp fx (st_nx (S (nx s)) s) imp) as [imp' s1] eqn:E1. cbn in N1.
  pose proof (clone_variables_spec fx (nx s) vars (nx s1)) as SV. pose proof (clone_variables_length fx (nx s) vars (nx s1)) as LV.
  destruct (clone_variables fx (nx s1) (nx s) vars) as [vars' n2] eqn:E2. cbn in LV.
  pose proof (clone_resets_ge fx (nx s) vars vars' resets n2) as N3.
  destruct (clone_resets fx n2 (nx s) vars vars' resets) as [resets' n3] eqn:E3. cbn in N3.
  destruct (clone_comps fx (st_nx n3 s1) (nx s) kids) as [kids' s4] eqn:E4. intros H. injection H as <- <-.
  destruct (SV _ _ eq_refl) as (L2 & _ & _ & RV & DV).
  assert (EV : forall w, In w vars' -> v_eqs w = []).
  { intros w Hw. apply (clone_variables_eqs fx (nx s) vars (nx s1)). rewrite E2. exact Hw. }
  assert (K : forall l i z l' z', Forall (fun c => forall pre s c' s', clone_comp fx s c = (c', s') ->
                 nx s < nx s' /\ shape_ok (nx s) (nx s') (comp_vars_at pre c) (comp_vars_at pre c')) l ->
             clone_comps fx z (nx s) l = (l', z') ->
             nx z <= nx z' /\ shape_ok (nx z) (nx z') (comps_vars_at pre i l) (comps_vars_at pre i l')).
  { induction l as [|k r IHr]; intros i z l' z' Hall; cbn [clone_comps].
    - intros H. injection H as <- <-. split; [lia|]. cbn. repeat split; try constructor; intros pv [].
    - destruct (clone_comp fx z k) as [k' z1] eqn:Ek. destruct (clone_comps fx z1 (nx s) r) as [r' z2] eqn:Er.
      intros H. injection H as <- <-. inversion Hall as [|? ? Hk Hr']; subst.
      apply (Hk (pre ++ [i])) in Ek. destruct Ek as (Lk & Sk1 & Sk2 & Sk3 & Sk4 & Sk5).
      apply (IHr (S i)) in Er; [|exact Hr']. destruct Er as (Lr & Sr1 & Sr2 & Sr3 & Sr4 & Sr5).
      split; [lia|]. cbn [comps_vars_at]. rewrite comp_vars_at_set_parent. repeat split.
      + rewrite !map_app, Sk1, Sr1. reflexivity.
      + apply (NoDup_oid_app _ _ (nx z1)); assumption.
      + intros pv Hpv. apply in_app_or in Hpv. destruct Hpv as [Hp|Hp]; [apply Sk3 in Hp; lia | apply Sr3 in Hp; lia].
      + intros pv Hpv. apply in_app_or in Hpv. destruct Hpv as [Hp|Hp]; [apply Sk4 in Hp; lia | apply Sr4 in Hp; lia].
      + intros pv Hpv. apply in_app_or in Hpv. destruct Hpv as [Hp|Hp]; [apply Sk5; exact Hp | apply Sr5; exact Hp]. }
  apply (K kids 0) in E4; [|exact IH]. cbn in E4. destruct E4 as (L4 & S1 & S2 & S3 & S4 & S5).
  split; [lia|]. rewrite !comp_vars_at_unfold. repeat split.
  - rewrite !map_app, S1. f_equal. apply idx_vars_fst. exact LV.
  - apply (NoDup_oid_app _ _ n3).
    + rewrite idx_vars_oids. exact DV.
    + exact S2.
    + intros pv Hpv. apply idx_vars_snd in Hpv. apply RV in Hpv. lia.
    + exact S3.
  - intros pv Hpv. apply in_app_or in Hpv. destruct Hpv as [Hp|Hp]; [apply idx_vars_snd in Hp; apply RV in Hp; lia | apply S3 in Hp; lia].
  - intros pv Hpv. apply in_app_or in Hpv. destruct Hpv as [Hp|Hp]; [apply idx_vars_snd in Hp; apply RV in Hp; lia | apply S4 in Hp; lia].
  - intros pv Hpv. apply in_app_or in Hpv. destruct Hpv as [Hp|Hp]; [apply EV; eapply idx_vars_snd; exact Hp | apply S5; exact Hp].
Qed.

Lemma clone_comps_shape fx owner l : forall pre i z l' z',
  clone_comps fx z owner l = (l', z') ->
  nx z <= nx z' /\ shape_ok (nx z) (nx z') (comps_vars_at pre i l) (comps_vars_at pre i l').
Proof.
  induction l as [|k r IHr]; intros pre i z l' z'; cbn [clone_comps].
  - intros H. injection H as <- <-. split; [lia|]. cbn. repeat split; try constructor; intros pv [].
  - destruct (clone_comp fx z k) as [k' z1] eqn:Ek. destruct (clone_comps fx z1 owner r) as [r' z2] eqn:Er.
    intros H. injection H as <- <-.
    apply (clone_comp_shape fx k (pre ++ [i])) in Ek. destruct Ek as (Lk & Sk1 & Sk2 & Sk3 & Sk4 & Sk5).
    apply (IHr pre (S i)) in Er. destruct Er as (Lr & Sr1 & Sr2 & Sr3 & Sr4 & Sr5).
    split; [lia|]. cbn [comps_vars_at]. rewrite comp_vars_at_set_parent. repeat split.
    + rewrite !map_app, Sk1, Sr1. reflexivity.
    + apply (NoDup_oid_app _ _ (nx z1)); assumption.
    + intros pv Hpv. apply in_app_or in Hpv. destruct Hpv as [Hp|Hp]; [apply Sk3 in Hp; lia | apply Sr3 in Hp; lia].
    + intros pv Hpv. apply in_app_or in Hpv. destruct Hpv as [Hp|Hp]; [apply Sk4 in Hp; lia | apply Sr4 in Hp; lia].
    + intros pv Hpv. apply in_app_or in Hpv. destruct Hpv as [Hp|Hp]; [apply Sk5; exact Hp | apply Sr5; exact Hp].
Qed.

(* ------------------------------------------------------------------------------------------ the equivalence store *)

Lemma es_get_set_same o l E : es_get o (es_set o l E) = l.
Proof.
  unfold es_get. induction E as [|[k x] r IH]; cbn; [rewrite Nat.eqb_refl; reflexivity|].
  destruct (Nat.eqb k o) eqn:Ek; cbn; rewrite Ek; [reflexivity | exact IH].
Qed.

Lemma es_get_set_other o o' l E : o' <> o -> es_get o' (es_set o l E) = es_get o' E.
Proof.
  intros Hne. unfold es_get. induction E as [|[k x] r IH]; cbn.
  - destruct (Nat.eqb o o') eqn:Eo; [apply Nat.eqb_eq in Eo; subst; contradiction | reflexivity].
  - destruct (Nat.eqb k o) eqn:Ek; cbn.
    + apply Nat.eqb_eq in Ek. subst k. destruct (Nat.eqb o o') eqn:Eo; [apply Nat.eqb_eq in Eo; subst; contradiction | reflexivity].
    + destruct (Nat.eqb k o'); [reflexivity | exact IH].
Qed.

Lemma has_eq_in o l : has_eq o l = true <-> In o (map e_var l).
Proof.
  unfold has_eq. rewrite existsb_exists. split.
  - intros (e & He & Ee). apply Nat.eqb_eq in Ee. subst. apply in_map. exact He.
  - intros H. apply in_map_iff in H. destruct H as (e & <- & He). exists e. split; [exact He | apply Nat.eqb_refl].
Qed.

Definition blank (o : oid) : eqref := {| e_var := o; e_mapid := ""; e_connid := "" |}.

(* symmetric state of the store after the pairs D have been connected *)
Definition sinv (E : estore) (D : list (oid * oid)) : Prop :=
  (forall o1 o2, In o2 (map e_var (es_get o1 E)) <-> In (o1, o2) D \/ In (o2, o1) D) /\
  (forall o, NoDup (map e_var (es_get o E))) /\
  (forall o e, In e (es_get o E) -> e = blank (e_var e)).

Lemma sinv_nil : sinv [] [].
Proof. split; [|split]; cbn; [intros o1 o2; tauto | constructor | intros o e []]. Qed.

Lemma NoDup_snoc {T} (l : list T) x : NoDup l -> ~ In x l -> NoDup (l ++ [x]).
Proof.
  induction l as [|a r IH]; cbn; intros Hnd Hx; [constructor; [intros [] | constructor]|].
  inversion Hnd as [|? ? Ha Hr]; subst. constructor.
  - rewrite in_app_iff. cbn. intros [H|[H|[]]]; [exact (Ha H) | subst; apply Hx; left; reflexivity].
  - apply IH; [exact Hr | intros H; apply Hx; right; exact H].
Qed.

Lemma in_snoc {T} (x d : T) D : In x (D ++ [d]) <-> In x D \/ x = d.
Proof. rewrite in_app_iff. cbn. split; [intros [H|[H|[]]]; [left | right; symmetry]; assumption | intros [H|H]; [left | right; left; symmetry]; assumption]. Qed.

Lemma add_equivalence_sinv o1 o2 E D : o1 <> o2 -> sinv E D -> sinv (add_equivalence o1 o2 E) (D ++ [(o1, o2)]).
Proof.
  intros Hne (S1 & S2 & S3). unfold add_equivalence.
  destruct (has_eq o2 (es_get o1 E)) eqn:H12.
  - (* already connected: nothing changes *)
    cbn [negb]. assert (H21 : has_eq o1 (es_get o2 E) = true).
    { apply has_eq_in. apply S1. apply has_eq_in in H12. apply S1 in H12. tauto. }
    rewrite H21. cbn. split; [|split; assumption]. intros a b. rewrite S1, !in_snoc.
    apply has_eq_in in H12. apply S1 in H12. split; [tauto|].
    intros [[H|H]|[H|H]]; try tauto; inversion H; subst; tauto.
  - cbn [negb]. rewrite es_get_set_other by (intros E'; apply Hne; symmetry; exact E').
    assert (H21 : has_eq o1 (es_get o2 E) = false).
    { destruct (has_eq o1 (es_get o2 E)) eqn:H; [|reflexivity]. apply has_eq_in in H. apply S1 in H.
      assert (X : In o2 (map e_var (es_get o1 E))) by (apply S1; tauto). apply has_eq_in in X. congruence. }
    rewrite H21. cbn [negb andb].
    fold (blank o2). fold (blank o1).
    set (E1 := es_set o1 (es_get o1 E ++ [blank o2]) E). set (E2 := es_set o2 (es_get o2 E ++ [blank o1]) E1).
    assert (G : forall a, es_get a E2 = if Nat.eqb a o2 then es_get o2 E ++ [blank o1] else if Nat.eqb a o1 then es_get o1 E ++ [blank o2] else es_get a E).
    { intros a. unfold E2. destruct (Nat.eqb a o2) eqn:Ea2.
      - apply Nat.eqb_eq in Ea2. subst a. apply es_get_set_same.
      - apply Nat.eqb_neq in Ea2. rewrite es_get_set_other by exact Ea2. unfold E1. destruct (Nat.eqb a o1) eqn:Ea1.
        + apply Nat.eqb_eq in Ea1. subst a. apply es_get_set_same.
        + apply Nat.eqb_neq in Ea1. apply es_get_set_other. exact Ea1. }
    assert (N12 : ~ In o2 (map e_var (es_get o1 E))) by (intros X; apply has_eq_in in X; congruence).
    assert (N21 : ~ In o1 (map e_var (es_get o2 E))) by (intros X; apply has_eq_in in X; congruence).
    split; [|split].
    + intros a b. rewrite G, !in_snoc.
      destruct (Nat.eqb a o2) eqn:Ea2; [apply Nat.eqb_eq in Ea2; subst a|apply Nat.eqb_neq in Ea2; destruct (Nat.eqb a o1) eqn:Ea1; [apply Nat.eqb_eq in Ea1; subst a|apply Nat.eqb_neq in Ea1]].
      * rewrite map_app, in_app_iff, S1. cbn. split.
        -- intros [H|[<-|[]]]; tauto.
        -- intros [[H|H]|[H|H]]; try tauto; inversion H; subst; first [tauto | congruence].
      * rewrite map_app, in_app_iff, S1. cbn. split.
        -- intros [H|[<-|[]]]; tauto.
        -- intros [[H|H]|[H|H]]; try tauto; inversion H; subst; first [tauto | congruence].
      * rewrite S1. split; [tauto|]. intros [[H|H]|[H|H]]; try tauto; inversion H; subst; congruence.
    + intros a. rewrite G. destruct (Nat.eqb a o2); [|destruct (Nat.eqb a o1)]; try apply S2.
      * rewrite map_app. cbn. apply NoDup_snoc; [apply S2 | exact N21].
      * rewrite map_app. cbn. apply NoDup_snoc; [apply S2 | exact N12].
    + intros a e. rewrite G. destruct (Nat.eqb a o2); [|destruct (Nat.eqb a o1)]; try apply S3.
      * rewrite in_app_iff. intros [H|[<-|[]]]; [eapply S3; exact H | reflexivity].
      * rewrite in_app_iff. intros [H|[<-|[]]]; [eapply S3; exact H | reflexivity].
Qed.

Definition connect (D : list (oid * oid)) (E : estore) : estore :=
  fold_left (fun E d => add_equivalence (fst d) (snd d) E) D E.

Lemma connect_sinv D : (forall d, In d D -> fst d <> snd d) -> forall E D0, sinv E D0 -> sinv (connect D E) (D0 ++ D).
Proof.
  induction D as [|[a b] r IH]; intros Hne E D0 HS; cbn.
  - rewrite app_nil_r. exact HS.
  - replace (D0 ++ (a, b) :: r) with ((D0 ++ [(a, b)]) ++ r) by (rewrite <- app_assoc; reflexivity).
    apply IH; [intros d Hd; apply Hne; right; exact Hd|]. apply add_equivalence_sinv; [|exact HS]. apply (Hne (a, b)). left. reflexivity.
Qed.

(* the id pass on the store *)
Definition idupd : Type := oid * oid * string * string.
Definition copy_one (u : idupd) (E : estore) : estore :=
  match u with (o1, o2, a, b) => es_set o1 (set_ids o2 a b (es_get o1 E)) E end.
Definition copies (U : list idupd) (E : estore) : estore := fold_left (fun E u => copy_one u E) U E.

Definition step (u : idupd) (o : oid) (e : eqref) : eqref :=
  match u with (o1, o2, a, b) =>
    if Nat.eqb o o1 && Nat.eqb (e_var e) o2 then {| e_var := e_var e; e_mapid := a; e_connid := b |} else e end.
Fixpoint relabel (U : list idupd) (o : oid) (e : eqref) : eqref :=
  match U with [] => e | u :: r => relabel r o (step u o e) end.

Lemma copy_one_get u o E : es_get o (copy_one u E) = map (step u o) (es_get o E).
Proof.
  destruct u as [[[o1 o2] a] b]. unfold copy_one. destruct (Nat.eqb o o1) eqn:Eo.
  - apply Nat.eqb_eq in Eo. subst o. rewrite es_get_set_same. unfold set_ids. apply map_ext. intros e. cbn. rewrite Nat.eqb_refl. cbn. reflexivity.
  - apply Nat.eqb_neq in Eo. rewrite es_get_set_other by exact Eo. symmetry. rewrite <- (map_id (es_get o E)) at 2. apply map_ext. intros e.
    cbn. apply Nat.eqb_neq in Eo. rewrite Eo. reflexivity.
Qed.

Lemma copies_get U : forall o E, es_get o (copies U E) = map (relabel U o) (es_get o E).
Proof.
  induction U as [|u r IH]; intros o E; cbn; [rewrite map_id; reflexivity|].
  unfold copies in IH. rewrite IH, copy_one_get, map_map. reflexivity.
Qed.

Lemma step_var u o e : e_var (step u o e) = e_var e.
Proof. destruct u as [[[o1 o2] a] b]. cbn. destruct (Nat.eqb o o1 && Nat.eqb (e_var e) o2); reflexivity. Qed.

Lemma relabel_var U : forall o e, e_var (relabel U o e) = e_var e.
Proof. induction U as [|u r IH]; intros o e; cbn; [reflexivity | rewrite IH; apply step_var]. Qed.

Lemma relabel_ids U o a b : forall e,
  (forall a' b', In (o, e_var e, a', b') U -> a' = a /\ b' = b) ->
  (e_mapid e = a /\ e_connid e = b) \/ In (o, e_var e, a, b) U ->
  relabel U o e = {| e_var := e_var e; e_mapid := a; e_connid := b |}.
Proof.
  induction U as [|u r IH]; intros e Hf H; cbn.
  - destruct H as [[<- <-]|[]]. destruct e; reflexivity.
  - rewrite IH; [rewrite step_var; reflexivity | rewrite step_var; intros a' b' Hin; apply Hf; right; exact Hin|].
    rewrite step_var. destruct u as [[[o1 o2] a0] b0]. cbn.
    destruct (Nat.eqb o o1 && Nat.eqb (e_var e) o2) eqn:Em.
    + apply andb_true_iff in Em. destruct Em as [E1 E2]. apply Nat.eqb_eq in E1. apply Nat.eqb_eq in E2. subst o1 o2.
      left. cbn. apply Hf. left. reflexivity.
    + destruct H as [H|[H|H]]; [left; exact H | | right; exact H].
      injection H as -> -> -> ->. rewrite !Nat.eqb_refl in Em. discriminate.
Qed.

(* ------------------------------------------------------------------------------------------ recording the equivalences *)

Definition em_pairs (em : eqmap) : list (path * path) := flat_map (fun kv => map (fun t => (fst kv, t)) (snd kv)) em.

Lemma path_eqb_eq a : forall b, path_eqb a b = true <-> a = b.
Proof.
  induction a as [|x a IH]; intros [|y b]; cbn; split; try discriminate; try reflexivity.
  - intros H. apply andb_true_iff in H. destruct H as [H1 H2]. apply Nat.eqb_eq in H1. apply IH in H2. subst. reflexivity.
  - intros H. injection H as -> ->. rewrite Nat.eqb_refl. apply IH. reflexivity.
Qed.

Lemma em_add_pairs k t em : forall x, In x (em_pairs (em_add k t em)) <-> x = (k, t) \/ In x (em_pairs em).
Proof.
  induction em as [|[k' ts] r IH]; intros x; cbn.
  - split; [intros [H|[]]; left; symmetry; exact H | intros [H|[]]; left; symmetry; exact H].
  - destruct (path_eqb k k') eqn:Ek.
    + apply path_eqb_eq in Ek. subst k'. cbn. rewrite map_app, !in_app_iff. cbn. split.
      * intros [[H|[H|[]]]|H]; [right; left; exact H | left; symmetry; exact H | right; right; exact H].
      * intros [H|[H|H]]; [left; right; left; symmetry; exact H | left; left; exact H | right; exact H].
    + destruct (lex_ltb k k').
      * cbn. rewrite !in_app_iff. cbn. split.
        -- intros [H|[H|H]]; [left; symmetry; exact H | right; left; exact H | right; right; exact H].
        -- intros [H|[H|H]]; [left; symmetry; exact H | right; left; exact H | right; right; exact H].
      * cbn. rewrite !in_app_iff, IH. tauto.
Qed.

Definition record_list (fx : flags) (ext : oid -> ext_loc) (m : model) (l : list (path * variable)) (acc : option eqmap) : option eqmap :=
  fold_left (fun acc pv => record_var fx ext m (fst pv) (snd pv) acc) l acc.

Lemma record_vars_list fx ext m stack l : forall i acc,
  record_vars fx ext m stack i l acc = record_list fx ext m (idx_vars stack i l) acc.
Proof. induction l as [|v r IH]; intros i acc; cbn; [reflexivity | apply IH]. Qed.

Lemma record_list_app fx ext m a b acc : record_list fx ext m (a ++ b) acc = record_list fx ext m b (record_list fx ext m a acc).
Proof. unfold record_list. apply fold_left_app. Qed.

Lemma record_comp_list fx ext m c : forall stack acc,
  record_comp fx ext m stack c acc = record_list fx ext m (comp_vars_at stack c) acc.
Proof.
  induction c as [o pp id name encid math imp impref vars resets kids IH] using component_ind'. intros stack acc.
  rewrite comp_vars_at_unfold, record_list_app, <- record_vars_list. cbn [record_comp].
  generalize (record_vars fx ext m stack 0 vars acc). generalize 0. rewrite Forall_forall in IH.
  induction kids as [|k r IHr]; intros i a; cbn [comps_vars_at]; [reflexivity|].
  rewrite record_list_app, <- IH by (left; reflexivity). apply IHr. intros x Hx. apply IH. right. exact Hx.
Qed.

Lemma record_comps_list fx ext m stack l : forall i acc,
  record_comps fx ext m stack i l acc = record_list fx ext m (comps_vars_at stack i l) acc.
Proof.
  induction l as [|k r IH]; intros i acc; cbn [record_comps comps_vars_at]; [reflexivity|].
  rewrite record_list_app, <- record_comp_list. apply IH.
Qed.

Lemma record_model_list fx ext m : record_model fx ext m = record_list fx ext m (model_vars m) (Some []).
Proof. apply record_comps_list. Qed.

(* repaired code: only equivalent variables inside the model are recorded, and recording never fails *)
Lemma record_var_spec fx ext m key v em : fx_ext fx = true ->
  exists em', record_var fx ext m key v (Some em) = Some em' /\
    forall x, In x (em_pairs em') <-> In x (em_pairs em) \/ exists e, In e (v_eqs v) /\ index_stack_of m (e_var e) = Some (snd x) /\ fst x = key.
Proof.
  intros Hfx. unfold record_var. rewrite Hfx. revert em. induction (v_eqs v) as [|e r IH]; intros em; cbn.
  - exists em. split; [reflexivity|]. intros x. split; [tauto | intros [H|(e & [] & _)]; exact H].
  - destruct (index_stack_of m (e_var e)) as [p|] eqn:Ep.
    + destruct (IH (em_add key p em)) as (em' & E' & S'). exists em'. split; [exact E'|]. intros x. rewrite S', em_add_pairs. split.
      * intros [[->|H]|(e0 & He0 & R)]; [right; exists e; cbn; tauto | left; exact H | right; exists e0; tauto].
      * intros [H|(e0 & [<-|He0] & R1 & R2)]; [tauto | | right; exists e0; tauto].
        left. left. destruct x as [xk xt]. cbn in *. subst. congruence.
    + destruct (IH em) as (em' & E' & S'). exists em'. split; [exact E'|]. intros x. rewrite S'. split.
      * intros [H|(e0 & He0 & R)]; [left; exact H | right; exists e0; tauto].
      * intros [H|(e0 & [<-|He0] & R1 & R2)]; [tauto | congruence | right; exists e0; tauto].
Qed.

Lemma record_list_spec fx ext m l : fx_ext fx = true -> forall em,
  exists em', record_list fx ext m l (Some em) = Some em' /\
    forall x, In x (em_pairs em') <-> In x (em_pairs em) \/
       exists v e, In (fst x, v) l /\ In e (v_eqs v) /\ index_stack_of m (e_var e) = Some (snd x).
Proof.
  intros Hfx. induction l as [|[k v] r IH]; intros em; cbn.
  - exists em. split; [reflexivity|]. intros x. split; [tauto | intros [H|(v & e & [] & _)]; exact H].
  - destruct (record_var_spec fx ext m k v em Hfx) as (em1 & E1 & S1). rewrite E1.
    destruct (IH em1) as (em' & E' & S'). exists em'. split; [exact E'|]. intros x. rewrite S', S1. split.
    + intros [[H|(e & He & R1 & R2)]|(v0 & e & Hv & R)]; [tauto | right; exists v, e; rewrite R2; tauto | right; exists v0, e; tauto].
    + intros [H|(v0 & e & [Hv|Hv] & He & R)]; [tauto | | right; exists v0, e; tauto].
      injection Hv as <- <-. left. right. exists e. tauto.
Qed.

Lemma record_model_spec fx ext m : fx_ext fx = true ->
  exists em, record_model fx ext m = Some em /\
    forall k t, In (k, t) (em_pairs em) <-> exists v e, In (k, v) (model_vars m) /\ In e (v_eqs v) /\ index_stack_of m (e_var e) = Some t.
Proof.
  intros Hfx. rewrite record_model_list. destruct (record_list_spec fx ext m (model_vars m) Hfx []) as (em & E & S).
  exists em. split; [exact E|]. intros k t. rewrite S. cbn. split; [intros [[]|H]; exact H | intros H; right; exact H].
Qed.

(* ------------------------------------------------------------------------------------------ applying the map to the clone *)

Definition tau (m : model) (p : path) : oid := match var_located_at m p with LVar v => v_oid v | _ => 0 end.

Lemma fold_left_map {X Y Z} (f : Z -> Y -> Z) (g : X -> Y) l : forall a, fold_left f (map g l) a = fold_left (fun a x => f a (g x)) l a.
Proof. induction l as [|x r IH]; intros a; cbn; [reflexivity | apply IH]. Qed.

Lemma apply_map_pairs m' em : forall acc,
  apply_map m' em acc = fold_left (fun acc kt => make_equivalence m' (fst kt) (snd kt) acc) (em_pairs em) acc.
Proof.
  unfold apply_map. induction em as [|[k ts] r IH]; intros acc; cbn; [reflexivity|].
  rewrite fold_left_app, fold_left_map. cbn. apply IH.
Qed.

Lemma copy_ids_pairs m m' em : forall E,
  copy_ids m m' em E = fold_left (fun E kt => copy_ids_one m m' (fst kt) (snd kt) E) (em_pairs em) E.
Proof.
  unfold copy_ids. induction em as [|[k ts] r IH]; intros E; cbn; [reflexivity|].
  rewrite fold_left_app, fold_left_map. cbn. apply IH.
Qed.

Definition located (m : model) (p : path) : Prop := exists v, var_located_at m p = LVar v.

Lemma apply_located m' P : (forall kt, In kt P -> located m' (fst kt) /\ located m' (snd kt)) -> forall E,
  fold_left (fun acc kt => make_equivalence m' (fst kt) (snd kt) acc) P (Some E)
  = Some (connect (map (fun kt => (tau m' (fst kt), tau m' (snd kt))) P) E).
Proof.
  induction P as [|[k t] r IH]; intros Hl E; cbn; [reflexivity|].
  destruct (Hl (k, t) (or_introl eq_refl)) as [[c1 L1] [c2 L2]]. cbn in L1, L2.
  unfold tau. rewrite L1, L2. apply IH. intros kt Hkt. apply Hl. right. exact Hkt.
Qed.

Definition upd_of (m m' : model) (kt : path * path) : idupd :=
  match var_located_at m (fst kt) with
  | LVar v1 => let (a, b) := ids_of (tau m (snd kt)) (v_eqs v1) in (tau m' (fst kt), tau m' (snd kt), a, b)
  | _ => (0, 0, "", "")
  end.

Lemma copy_located m m' P :
  (forall kt, In kt P -> located m (fst kt) /\ located m (snd kt) /\ located m' (fst kt) /\ located m' (snd kt)) -> forall E,
  fold_left (fun E kt => copy_ids_one m m' (fst kt) (snd kt) E) P E = copies (map (upd_of m m') P) E.
Proof.
  induction P as [|[k t] r IH]; intros Hl E; cbn; [reflexivity|].
  destruct (Hl (k, t) (or_introl eq_refl)) as ([v1 L1] & [v2 L2] & [c1 M1] & [c2 M2]). cbn in L1, L2, M1, M2.
  rewrite IH by (intros kt Hkt; apply Hl; right; exact Hkt). f_equal.
  unfold copy_ids_one, upd_of, tau. cbn. rewrite L1, L2, M1, M2. destruct (ids_of (v_oid v2) (v_eqs v1)) as [a b]. reflexivity.
Qed.

(* ------------------------------------------------------------------------------------------ equivalences of a cloned model *)

Lemma find_path_some o l q : find_path o l = Some q -> exists v, In (q, v) l /\ v_oid v = o.
Proof.
  induction l as [|[p v] r IH]; cbn; [discriminate|]. destruct (Nat.eqb (v_oid v) o) eqn:E.
  - intros H. injection H as <-. exists v. split; [left; reflexivity | apply Nat.eqb_eq; exact E].
  - intros H. destruct (IH H) as (w & Hw & Ew). exists w. split; [right; exact Hw | exact Ew].
Qed.

Lemma find_path_nodup l : NoDup (map (fun pv => v_oid (snd pv)) l) -> forall q v, In (q, v) l -> find_path (v_oid v) l = Some q.
Proof.
  induction l as [|[p w] r IH]; cbn; intros Hnd q v; [intros []|]. inversion Hnd as [|? ? Hx Hr]; subst.
  intros [E|H].
  - injection E as -> ->. rewrite Nat.eqb_refl. reflexivity.
  - destruct (Nat.eqb (v_oid w) (v_oid v)) eqn:E; [|apply IH; assumption].
    apply Nat.eqb_eq in E. exfalso. apply Hx. rewrite E. apply (in_map (fun pv => v_oid (snd pv)) r (q, v)). exact H.
Qed.

Lemma find_path_map_f f o l : (forall v, v_oid (f v) = v_oid v) -> find_path o (map (pv_map f) l) = find_path o l.
Proof. intros Hf. induction l as [|[p v] r IH]; cbn; [reflexivity|]. rewrite Hf, IH. reflexivity. Qed.

Lemma model_vars_fun m p v v' : In (p, v) (model_vars m) -> In (p, v') (model_vars m) -> v = v'.
Proof. intros H1 H2. apply var_located_at_in in H1. apply var_located_at_in in H2. congruence. Qed.

Definition eq_rel (m : model) (k t : path) : Prop :=
  exists v e, In (k, v) (model_vars m) /\ In e (v_eqs v) /\ index_stack_of m (e_var e) = Some t.

Definition wf_eqs (m : model) : Prop :=
  NoDup (map (fun pv => v_oid (snd pv)) (model_vars m)) /\
  (forall k t, eq_rel m k t -> eq_rel m t k) /\
  (forall pv e, In pv (model_vars m) -> In e (v_eqs (snd pv)) -> e_var e <> v_oid (snd pv)) /\
  (forall pv, In pv (model_vars m) -> NoDup (map e_var (v_eqs (snd pv)))).

Lemma model_eqvs_in b m x :
  In x (model_eqvs b m) <->
  exists p v e q, In (p, v) (model_vars m) /\ In e (v_eqs v) /\ index_stack_of m (e_var e) = Some q /\
                  x = (p, q, if b then e_mapid e else "", if b then e_connid e else "").
Proof.
  unfold model_eqvs. rewrite in_flat_map. split.
  - intros ([p v] & Hpv & Hx). unfold eqv_of_var in Hx. apply in_flat_map in Hx. destruct Hx as (e & He & Hx). cbn in *.
    destruct (index_stack_of m (e_var e)) as [q|] eqn:Eq; [|destruct Hx]. destruct Hx as [<-|[]]. exists p, v, e, q. repeat split; assumption.
  - intros (p & v & e & q & Hpv & He & Eq & ->). exists (p, v). split; [exact Hpv|]. unfold eqv_of_var. apply in_flat_map.
    exists e. split; [exact He|]. cbn. rewrite Eq. left. reflexivity.
Qed.

Lemma tau_in m p v : In (p, v) (model_vars m) -> tau m p = v_oid v.
Proof. intros H. apply var_located_at_in in H. unfold tau. rewrite H. reflexivity. Qed.

Lemma located_in m p : located m p <-> exists v, In (p, v) (model_vars m).
Proof. unfold located. split; intros [v H]; exists v; apply var_located_at_in; exact H. Qed.

Lemma in_fst_iff {X Y} (l : list (X * Y)) p : In p (map fst l) <-> exists v, In (p, v) l.
Proof.
  rewrite in_map_iff. split.
  - intros ([a b] & <- & H). exists b. exact H.
  - intros [v H]. exists (p, v). split; [reflexivity | exact H].
Qed.

Lemma ids_of_nodup l e : NoDup (map e_var l) -> In e l -> ids_of (e_var e) l = (e_mapid e, e_connid e).
Proof.
  unfold ids_of. induction l as [|x r IH]; cbn; intros Hnd; [intros []|]. inversion Hnd as [|? ? Hx Hr]; subst.
  intros [<-|H].
  - rewrite Nat.eqb_refl. reflexivity.
  - destruct (Nat.eqb (e_var x) (e_var e)) eqn:E; [|apply IH; assumption].
    apply Nat.eqb_eq in E. exfalso. apply Hx. rewrite E. apply in_map. exact H.
Qed.

(* the state of the clone's equivalence lists, in terms of the original's equivalences *)
Lemma clone_model_store fx ext n m m' n' :
  fx_ext fx = true -> wf_eqs m -> clone_model fx ext n m = Some (m', n') ->
  exists V1 E',
    model_vars m' = map (pv_map (fun v => v_set_eqs (es_get (v_oid v) E') v)) V1 /\
    map fst V1 = map fst (model_vars m) /\
    NoDup (map (fun pv => v_oid (snd pv)) V1) /\
    (forall p c, In (p, c) V1 -> forall o2,
        In o2 (map e_var (es_get (v_oid c) E')) <-> exists q cq, In (q, cq) V1 /\ o2 = v_oid cq /\ eq_rel m p q) /\
    (forall o, NoDup (map e_var (es_get o E'))) /\
    (forall p c e, In (p, c) V1 -> In e (es_get (v_oid c) E') ->
        if fx_eqids fx
        then forall q cq v e1, In (q, cq) V1 -> e_var e = v_oid cq -> In (p, v) (model_vars m) -> In e1 (v_eqs v) ->
                               index_stack_of m (e_var e1) = Some q -> e_mapid e = e_mapid e1 /\ e_connid e = e_connid e1
        else e = blank (e_var e)).
Proof.
  intros Hfx (W1 & W2 & W3 & W4). unfold clone_model.
  destruct (clone_units_list fx (st0 (S n)) n (m_units m)) as [us s1] eqn:E1.
  destruct (clone_comps fx s1 n (m_comps m)) as [cs s2] eqn:E2.
  destruct (record_model_spec fx ext m Hfx) as (em & Er & RS). rewrite Er.
  set (m0 := {| m_oid := n; m_id := m_id m; m_name := m_name m; m_encid := m_encid m; m_units := us; m_comps := cs |}).
  set (m1 := fix_component_units m0).
  set (V := model_vars m). set (V1 := model_vars m1). set (P := em_pairs em).
  (* shape *)
  pose proof (clone_comps_shape fx n (m_comps m) [] 0 s1 cs s2 E2) as (_ & Sh1 & Sh2 & _ & _ & Sh5).
  assert (EV1 : V1 = map (pv_map (fix_units_var (m_units m0) (map (fun pv => v_oid (snd pv)) (model_vars m0)))) (model_vars m0)).
  { unfold V1, m1, fix_component_units. apply model_vars_map_f. }
  assert (F1 : map fst V1 = map fst V).
  { rewrite EV1, map_map. cbn. exact Sh1. }
  assert (Koid : forall v, v_oid (fix_units_var (m_units m0) (map (fun pv => v_oid (snd pv)) (model_vars m0)) v) = v_oid v) by (intros v; apply keeps_fix_units).
  assert (F2 : NoDup (map (fun pv => v_oid (snd pv)) V1)).
  { rewrite EV1, map_map. erewrite map_ext; [exact Sh2|]. intros [p v]. cbn. apply Koid. }
  assert (Floc : forall p, located m1 p <-> located m p).
  { intros p. rewrite !located_in. fold V V1. rewrite <- !in_fst_iff, F1. reflexivity. }
  assert (Finj : forall p q c cq, In (p, c) V1 -> In (q, cq) V1 -> v_oid c = v_oid cq -> p = q /\ c = cq).
  { intros p q c cq H1 H2 E. pose proof (NoDup_map_inj _ _ F2 _ _ H1 H2 E) as X. injection X as -> ->. split; reflexivity. }
  assert (Ist1 : forall q cq, In (q, cq) V1 -> index_stack_of m1 (v_oid cq) = Some q).
  { intros q cq H. apply find_path_nodup; assumption. }
  (* pairs *)
  assert (FP : forall k t, In (k, t) P <-> eq_rel m k t) by (intros k t; apply RS).
  assert (Pin : forall k t, eq_rel m k t -> (exists v, In (k, v) V) /\ (exists w, In (t, w) V)).
  { intros k t (v & e & Hv & He & Hi). split; [exists v; exact Hv|]. apply find_path_some in Hi. destruct Hi as (w & Hw & _). exists w. exact Hw. }
  assert (Pne : forall k t, eq_rel m k t -> k <> t).
  { intros k t (v & e & Hv & He & Hi) ->. apply find_path_some in Hi. destruct Hi as (w & Hw & Ew).
    pose proof (model_vars_fun m t v w Hv Hw) as ->. exact (W3 (t, w) e Hv He (eq_sym Ew)). }
  assert (Ploc : forall kt, In kt P -> located m (fst kt) /\ located m (snd kt) /\ located m1 (fst kt) /\ located m1 (snd kt)).
  { intros [k t] H. apply FP in H. destruct (Pin k t H) as [A B]. cbn. rewrite !Floc, !located_in. tauto. }
  rewrite apply_map_pairs. fold P. fold m0. fold m1.
  rewrite (apply_located m1 P) by (intros kt H; destruct (Ploc kt H); tauto).
  set (D := map (fun kt => (tau m1 (fst kt), tau m1 (snd kt))) P). set (E := connect D []).
  intros H. injection H as <- <-.
  assert (Tau1 : forall p c, In (p, c) V1 -> tau m1 p = v_oid c) by (intros p c H; apply tau_in; exact H).
  assert (SE : sinv E D).
  { apply (connect_sinv D) with (E := []) (D0 := []); [|exact sinv_nil].
    intros d Hd. apply in_map_iff in Hd. destruct Hd as ([k t] & <- & Hkt). cbn.
    pose proof (proj1 (FP k t) Hkt) as R. destruct (Ploc (k, t) Hkt) as (_ & _ & L1 & L2). apply located_in in L1. apply located_in in L2.
    destruct L1 as [c1 L1]. destruct L2 as [c2 L2]. cbn in L1, L2. rewrite (Tau1 _ _ L1), (Tau1 _ _ L2). intros Eo.
    destruct (Finj _ _ _ _ L1 L2 Eo) as [X _]. exact (Pne k t R X). }
  destruct SE as (S1 & S2 & S3).
  assert (Din : forall p c q cq, In (p, c) V1 -> In (q, cq) V1 -> (In (v_oid c, v_oid cq) D <-> In (p, q) P)).
  { intros p c q cq Hp Hq. unfold D. rewrite in_map_iff. split.
    - intros ([k t] & Ekt & Hkt). cbn in Ekt. destruct (Ploc (k, t) Hkt) as (_ & _ & L1 & L2). apply located_in in L1. apply located_in in L2.
      destruct L1 as [c1 L1]. destruct L2 as [c2 L2]. cbn in L1, L2. rewrite (Tau1 _ _ L1), (Tau1 _ _ L2) in Ekt. injection Ekt as A B.
      destruct (Finj _ _ _ _ L1 Hp A) as [-> _]. destruct (Finj _ _ _ _ L2 Hq B) as [-> _]. exact Hkt.
    - intros Hkt. exists (p, q). split; [cbn; rewrite (Tau1 _ _ Hp), (Tau1 _ _ Hq); reflexivity | exact Hkt]. }
  assert (Dcl : forall o1 o2, In (o1, o2) D -> exists p c q cq, In (p, c) V1 /\ In (q, cq) V1 /\ o1 = v_oid c /\ o2 = v_oid cq /\ In (p, q) P).
  { intros o1 o2 Hd. apply in_map_iff in Hd. destruct Hd as ([k t] & Ekt & Hkt). cbn in Ekt.
    destruct (Ploc (k, t) Hkt) as (_ & _ & L1 & L2). apply located_in in L1. apply located_in in L2.
    destruct L1 as [c1 L1]. destruct L2 as [c2 L2]. cbn in L1, L2. rewrite (Tau1 _ _ L1), (Tau1 _ _ L2) in Ekt. injection Ekt as <- <-.
    exists k, c1, t, c2. repeat split; assumption. }
  (* targets after the connection phase *)
  assert (TE : forall p c, In (p, c) V1 -> forall o2,
             In o2 (map e_var (es_get (v_oid c) E)) <-> exists q cq, In (q, cq) V1 /\ o2 = v_oid cq /\ eq_rel m p q).
  { intros p c Hp o2. rewrite S1. split.
    - intros [Hd|Hd]; destruct (Dcl _ _ Hd) as (k & c1 & t & c2 & L1 & L2 & A & B & Hkt).
      + destruct (Finj _ _ _ _ L1 Hp (eq_sym A)) as [-> _]. exists t, c2. repeat split; [exact L2 | exact B | apply FP; exact Hkt].
      + destruct (Finj _ _ _ _ L2 Hp (eq_sym B)) as [-> _]. exists k, c1. repeat split; [exact L1 | exact A | apply W2; apply FP; exact Hkt].
    - intros (q & cq & Hq & -> & R). left. apply (Din p c q cq Hp Hq). apply FP. exact R. }
  set (U := map (upd_of m m1) P).
  set (E' := if fx_eqids fx then copy_ids m m1 em E else E).
  assert (EE : E' = if fx_eqids fx then copies U E else E).
  { unfold E'. destruct (fx_eqids fx); [|reflexivity]. rewrite copy_ids_pairs. fold P. apply copy_located. exact Ploc. }
  assert (GV : forall o, map e_var (es_get o E') = map e_var (es_get o E)).
  { intros o. rewrite EE. destruct (fx_eqids fx); [|reflexivity]. rewrite copies_get, map_map. apply map_ext. intros e. apply relabel_var. }
  exists V1, E'. split; [|split; [exact F1|split; [exact F2|split; [|split]]]].
  - unfold set_eqs. apply model_vars_map_f.
  - intros p c Hp o2. rewrite GV. apply TE. exact Hp.
  - intros o. rewrite GV. apply S2.
  - intros p c e Hp He. rewrite EE in He. destruct (fx_eqids fx) eqn:Fq.
    2:{ eapply S3. exact He. }
    intros q cq v e1 Hq Ev Hv He1 Hi. rewrite copies_get in He. apply in_map_iff in He. destruct He as (e0 & <- & He0).
    rewrite relabel_var in Ev.
    assert (R : eq_rel m p q) by (exists v, e1; repeat split; assumption).
    assert (HU : In (v_oid c, e_var e0, e_mapid e1, e_connid e1) U).
    { unfold U. apply in_map_iff. exists (p, q). split; [|apply FP; exact R].
      unfold upd_of. cbn. pose proof (proj2 (var_located_at_in m p v) Hv) as Lp. rewrite Lp.
      apply find_path_some in Hi. destruct Hi as (w & Hw & Ew). rewrite (tau_in m q w Hw), Ew.
      rewrite (ids_of_nodup (v_eqs v) e1 (W4 (p, v) Hv) He1). rewrite (Tau1 _ _ Hp), (Tau1 _ _ Hq), Ev. reflexivity. }
    rewrite (relabel_ids U (v_oid c) (e_mapid e1) (e_connid e1) e0); [cbn; split; reflexivity | | right; exact HU].
    intros a' b' Hin. unfold U in Hin. apply in_map_iff in Hin. destruct Hin as ([k t] & Eu & Hkt).
    destruct (Ploc (k, t) Hkt) as (Lk & Lt & L1 & L2). apply located_in in L1. apply located_in in L2. apply located_in in Lk.
    destruct L1 as [c1 L1]. destruct L2 as [c2 L2]. destruct Lk as [vk Lk]. cbn in L1, L2, Lk.
    unfold upd_of in Eu. cbn in Eu. rewrite (proj2 (var_located_at_in m k vk) Lk) in Eu.
    destruct (ids_of (tau m t) (v_eqs vk)) as [a0 b0] eqn:Ei. rewrite (Tau1 _ _ L1), (Tau1 _ _ L2) in Eu. injection Eu as A B -> ->.
    destruct (Finj _ _ _ _ L1 Hp A) as [-> _]. rewrite Ev in B. destruct (Finj _ _ _ _ L2 Hq B) as [-> _].
    pose proof (model_vars_fun m p vk v Lk Hv) as ->.
    apply find_path_some in Hi. destruct Hi as (w & Hw & Ew). rewrite (tau_in m q w Hw), Ew in Ei.
    rewrite (ids_of_nodup (v_eqs v) e1 (W4 (p, v) Hv) He1) in Ei. injection Ei as <- <-. split; reflexivity.
Qed.

Lemma index_stack_of_map_f f m o : (forall v, v_oid (f v) = v_oid v) ->
  index_stack_of (map_model (fun i => i) (fun u => u) f (fun r => r) (fun c => c) m) o = index_stack_of m o.
Proof. intros Hf. unfold index_stack_of. rewrite model_vars_map_f. apply find_path_map_f. exact Hf. Qed.

Lemma clone_model_eqvs_gen fx ext n m m' n' (b : bool) :
  fx_ext fx = true -> (b = true -> fx_eqids fx = true) -> wf_eqs m -> clone_model fx ext n m = Some (m', n') ->
  forall x, In x (model_eqvs b m') <-> In x (model_eqvs b m).
Proof.
  intros Hfx Hb Hwf Hc x. pose proof Hwf as (W1 & W2 & W3 & W4).
  destruct (clone_model_store fx ext n m m' n' Hfx Hwf Hc) as (V1 & E' & MV & F1 & F2 & TE & ND & IDS).
  assert (Ist' : forall o, index_stack_of m' o = find_path o V1).
  { intros o. unfold index_stack_of. rewrite MV. apply find_path_map_f. intros v. reflexivity. }
  assert (Same : forall p, (exists c, In (p, c) V1) <-> (exists v, In (p, v) (model_vars m))).
  { intros p. rewrite <- !in_fst_iff, F1. reflexivity. }
  rewrite !model_eqvs_in. split.
  - intros (p & c' & e & q & Hp & He & Hi & ->). rewrite MV in Hp. apply in_map_iff in Hp. destruct Hp as ([p0 c] & Epc & Hp).
    unfold pv_map in Epc. cbn in Epc. injection Epc as -> <-. cbn in He.
    rewrite Ist' in Hi. apply find_path_some in Hi. destruct Hi as (cq & Hq & Eq).
    assert (T : In (e_var e) (map e_var (es_get (v_oid c) E'))) by (apply in_map; exact He).
    apply (TE p c Hp) in T. destruct T as (q' & cq' & Hq' & Eq' & R).
    assert (q' = q).
    { rewrite <- Eq in Eq'. pose proof (NoDup_map_inj _ _ F2 _ _ Hq Hq' Eq') as X. injection X as -> _. reflexivity. }
    subst q'. destruct R as (v & e1 & Hv & He1 & Hi1). exists p, v, e1, q. repeat split; try assumption.
    specialize (IDS p c e Hp He). destruct b.
    + rewrite (Hb eq_refl) in IDS. destruct (IDS q cq v e1 Hq (eq_sym Eq) Hv He1 Hi1) as [-> ->]. reflexivity.
    + reflexivity.
  - intros (p & v & e1 & q & Hv & He1 & Hi1 & ->).
    destruct (proj2 (Same p) (ex_intro _ v Hv)) as [c Hp].
    pose proof Hi1 as Hi1'. apply find_path_some in Hi1'. destruct Hi1' as (w & Hw & Ew).
    destruct (proj2 (Same q) (ex_intro _ w Hw)) as [cq Hq].
    assert (T : In (v_oid cq) (map e_var (es_get (v_oid c) E'))).
    { apply (TE p c Hp). exists q, cq. repeat split; [exact Hq|]. exists v, e1. repeat split; assumption. }
    apply in_map_iff in T. destruct T as (e & Ee & He).
    exists p, (v_set_eqs (es_get (v_oid c) E') c), e, q. repeat split.
    + rewrite MV. apply in_map_iff. exists (p, c). split; [reflexivity | exact Hp].
    + exact He.
    + rewrite Ist', Ee. apply find_path_nodup; assumption.
    + specialize (IDS p c e Hp He). destruct b; [|reflexivity].
      rewrite (Hb eq_refl) in IDS. destruct (IDS q cq v e1 Hq Ee Hv He1 Hi1) as [-> ->]. reflexivity.
Qed.

(* without any hypothesis on the original: every equivalence of the clone ends at a component variable of the clone *)
Lemma add_equivalence_targets o1 o2 E a e :
  In e (es_get a (add_equivalence o1 o2 E)) -> In e (es_get a E) \/ e_var e = o1 \/ e_var e = o2.
Proof.
  unfold add_equivalence.
  set (E1 := if negb (has_eq o2 (es_get o1 E)) then es_set o1 (es_get o1 E ++ [{| e_var := o2; e_mapid := ""; e_connid := "" |}]) E else E).
  assert (H1 : forall a e, In e (es_get a E1) -> In e (es_get a E) \/ e_var e = o2).
  { intros a0 e0. unfold E1. destruct (negb (has_eq o2 (es_get o1 E))); [|tauto].
    destruct (Nat.eq_dec a0 o1) as [->|Hn].
    - rewrite es_get_set_same, in_app_iff. intros [H|[<-|[]]]; [left; exact H | right; reflexivity].
    - rewrite es_get_set_other by exact Hn. tauto. }
  set (E2 := if negb (has_eq o1 (es_get o2 E1)) then es_set o2 (es_get o2 E1 ++ [{| e_var := o1; e_mapid := ""; e_connid := "" |}]) E1 else E1).
  assert (H2 : forall a e, In e (es_get a E2) -> In e (es_get a E) \/ e_var e = o1 \/ e_var e = o2).
  { intros a0 e0. unfold E2. destruct (negb (has_eq o1 (es_get o2 E1))).
    - destruct (Nat.eq_dec a0 o2) as [->|Hn].
      + rewrite es_get_set_same, in_app_iff. intros [H|[<-|[]]]; [apply H1 in H; tauto | right; left; reflexivity].
      + rewrite es_get_set_other by exact Hn. intros H. apply H1 in H. tauto.
    - intros H. apply H1 in H. tauto. }
  destruct (negb (has_eq o2 (es_get o1 E)) && negb (negb (has_eq o1 (es_get o2 E1)))); [|apply H2].
  destruct (Nat.eq_dec a o1) as [->|Hn].
  - rewrite es_get_set_same. intros H. apply H2.
    revert H. generalize (es_get o1 E2). intros l. induction l as [|x r IH]; cbn; [intros []|].
    destruct (Nat.eqb (e_var x) o2); [intros H; right; exact H|]. intros [<-|H]; [left; reflexivity | right; apply IH; exact H].
  - rewrite es_get_set_other by exact Hn. apply H2.
Qed.

Lemma copy_ids_one_targets m m1 p1 p2 E a e :
  In e (es_get a (copy_ids_one m m1 p1 p2 E)) -> exists e0, In e0 (es_get a E) /\ e_var e = e_var e0.
Proof.
  unfold copy_ids_one.
  destruct (var_located_at m p1) as [| |v1]; try (intros H; exists e; split; [exact H | reflexivity]).
  destruct (var_located_at m p2) as [| |v2]; try (intros H; exists e; split; [exact H | reflexivity]).
  destruct (var_located_at m1 p1) as [| |c1]; try (intros H; exists e; split; [exact H | reflexivity]).
  destruct (var_located_at m1 p2) as [| |c2]; try (intros H; exists e; split; [exact H | reflexivity]).
  destruct (ids_of (v_oid v2) (v_eqs v1)) as [x y].
  destruct (Nat.eq_dec a (v_oid c1)) as [->|Hn].
  - rewrite es_get_set_same. unfold set_ids. intros H. apply in_map_iff in H. destruct H as (e0 & <- & H0). exists e0. split; [exact H0|].
    destruct (Nat.eqb (e_var e0) (v_oid c2)); reflexivity.
  - rewrite es_get_set_other by exact Hn. intros H. exists e. split; [exact H | reflexivity].
Qed.

Lemma clone_model_internal fx ext n m m' n' :
  clone_model fx ext n m = Some (m', n') ->
  forall p c e, In (p, c) (model_vars m') -> In e (v_eqs c) -> exists q cq, In (q, cq) (model_vars m') /\ e_var e = v_oid cq.
Proof.
  unfold clone_model.
  destruct (clone_units_list fx (st0 (S n)) n (m_units m)) as [us s1] eqn:E1.
  destruct (clone_comps fx s1 n (m_comps m)) as [cs s2] eqn:E2.
  destruct (record_model fx ext m) as [em|]; [|discriminate].
  set (m1 := fix_component_units _).
  destruct (apply_map m1 em (Some [])) as [E|] eqn:Ea; [|discriminate]. intros H. injection H as <- <-.
  set (V1 := model_vars m1).
  set (Tin := fun E : estore => forall a e, In e (es_get a E) -> exists q cq, In (q, cq) V1 /\ e_var e = v_oid cq).
  assert (TA : Tin E).
  { rewrite apply_map_pairs in Ea. revert Ea. generalize (em_pairs em). intros P.
    assert (G : forall E0, Tin E0 -> forall r, fold_left (fun acc kt => make_equivalence m1 (fst kt) (snd kt) acc) P (Some E0) = Some r -> Tin r).
    { induction P as [|[k t] r0 IH]; intros E0 HT r; cbn.
      - intros H. injection H as <-. exact HT.
      - destruct (var_located_at m1 k) as [| |v1] eqn:L1.
        + assert (Z : forall l, fold_left (fun acc kt => make_equivalence m1 (fst kt) (snd kt) acc) l None = None)
            by (induction l as [|x y IHl]; cbn; [reflexivity | exact IHl]). rewrite Z. discriminate.
        + destruct (var_located_at m1 t) as [| |v2] eqn:L2.
          * assert (Z : forall l, fold_left (fun acc kt => make_equivalence m1 (fst kt) (snd kt) acc) l None = None)
              by (induction l as [|x y IHl]; cbn; [reflexivity | exact IHl]). rewrite Z. discriminate.
          * apply IH. exact HT.
          * apply IH. exact HT.
        + destruct (var_located_at m1 t) as [| |v2] eqn:L2.
          * assert (Z : forall l, fold_left (fun acc kt => make_equivalence m1 (fst kt) (snd kt) acc) l None = None)
              by (induction l as [|x y IHl]; cbn; [reflexivity | exact IHl]). rewrite Z. discriminate.
          * apply IH. exact HT.
          * apply IH. intros a e He. apply add_equivalence_targets in He. destruct He as [He|[He|He]].
            -- apply HT in He. exact He.
            -- exists k, v1. split; [apply var_located_at_in; exact L1 | exact He].
            -- exists t, v2. split; [apply var_located_at_in; exact L2 | exact He]. }
    apply G. intros a e []. }
  set (E' := if fx_eqids fx then copy_ids m m1 em E else E).
  assert (TE' : Tin E').
  { unfold E'. destruct (fx_eqids fx); [|exact TA]. rewrite copy_ids_pairs. generalize (em_pairs em). intros P. revert TA. generalize E.
    induction P as [|[k t] r IH]; intros E0 HT; cbn; [exact HT|]. apply IH. intros a e He.
    apply copy_ids_one_targets in He. destruct He as (e0 & He0 & ->). eapply HT. exact He0. }
  intros p c e Hp He. unfold set_eqs in Hp. rewrite model_vars_map_f in Hp. apply in_map_iff in Hp. destruct Hp as ([p0 c0] & Epc & Hp).
  unfold pv_map in Epc. cbn in Epc. injection Epc as -> <-. cbn in He. apply TE' in He. destruct He as (q & cq & Hq & Eq).
  exists q, (v_set_eqs (es_get (v_oid cq) E') cq). split; [|exact Eq].
  unfold set_eqs. rewrite model_vars_map_f. apply in_map_iff. exists (q, cq). split; [reflexivity | exact Hq].
Qed.

(* ------------------------------------------------------------------------------------------ no parent, totality *)

Lemma clone_units_parent fx n u : u_parent (fst (clone_units fx n u)) = None.
Proof. unfold clone_units, clone_units_st. destruct (clone_imp fx (st_nx (S (nx (st0 n))) (st0 n)) (u_imp u)). reflexivity. Qed.

Lemma clone_variable_parent fx n v : v_parent (fst (clone_variable fx n v)) = None.
Proof. unfold clone_variable. destruct (v_units v) as [u|]; [destruct (clone_units fx (S n) u)|]; reflexivity. Qed.

Lemma clone_reset_parent fx n r : r_parent (fst (clone_reset fx n r)) = None.
Proof.
  unfold clone_reset. destruct (clone_opt_variable fx (S n) (r_var r)) as [v' n1].
  destruct (clone_opt_variable fx n1 (r_test r)) as [t' n2]. reflexivity.
Qed.

Lemma clone_component_parent fx n c : c_parent (fst (clone_component fx n c)) = None.
Proof.
  unfold clone_component. destruct c as [o p id name encid math imp impref vars resets kids]. rewrite clone_comp_unfold. cbv zeta.
  destruct (clone_imp fx (st_nx (S (nx (st0 n))) (st0 n)) imp) as [imp' s1].
  destruct (clone_variables fx (nx s1) (nx (st0 n)) vars) as [vars' n2].
  destruct (clone_resets fx n2 (nx (st0 n)) vars vars' resets) as [resets' n3].
  destruct (clone_comps fx (st_nx n3 s1) (nx (st0 n)) kids) as [kids' s4]. reflexivity.
Qed.

(* children of the clone are parented by the clone *)
Lemma clone_component_children fx n c c' n' :
  fx_isrc fx = true -> clone_component fx n c = (c', n') ->
  Forall (fun v => v_parent v = Some (c_oid c')) (c_vars c') /\ Forall (fun r => r_parent r = Some (c_oid c')) (c_resets c') /\
  Forall (fun k => c_parent k = Some (c_oid c')) (c_kids c').
Proof.
  intros Hfx. unfold clone_component. destruct c as [o p id name encid math imp impref vars resets kids]. rewrite clone_comp_unfold. cbv zeta.
  destruct (clone_imp fx (st_nx (S (nx (st0 n))) (st0 n)) imp) as [imp' s1] eqn:E1.
  destruct (clone_variables fx (nx s1) (nx (st0 n)) vars) as [vars' n2] eqn:E2.
  destruct (clone_resets fx n2 (nx (st0 n)) vars vars' resets) as [resets' n3] eqn:E3.
  destruct (clone_comps fx (st_nx n3 s1) (nx (st0 n)) kids) as [kids' s4] eqn:E4. intros H. injection H as <- <-. cbn.
  apply (clone_imp_fresh fx n) in E1; [|apply noi_fixed; exact Hfx | apply st_ok_nx; [cbn; lia | apply st_ok_st0] | cbn; lia]. destruct E1 as (Ok1 & L1 & _). cbn in L1.
  pose proof E2 as E2'. apply clone_variables_fresh in E2; [|apply noi_fixed; exact Hfx]. destruct E2 as (L2 & R2 & _ & F2).
  apply (clone_resets_fresh fx _ _ _ n) in E3; [|apply noi_fixed; exact Hfx | lia |].
  2:{ intros w Hw. apply (rng_mono2 (nx s1) n n2 n2); [lia | lia|]. exact (proj2 (rng_flat_map _ _ var_oids vars') R2 w Hw). }
  destruct E3 as (L3 & _ & F3).
  apply (clone_comps_fresh fx n) in E4; [|apply noi_fixed; exact Hfx | apply st_ok_nx; [lia | exact Ok1] | cbn; lia]. destruct E4 as (_ & _ & _ & F4).
  repeat split; [|exact F3 | exact F4]. revert F2. apply Forall_impl. intros v [H _]. exact H.
Qed.

(* the repaired Model::clone never crashes *)
Lemma clone_model_total fx ext n m : fx_ext fx = true -> exists r, clone_model fx ext n m = Some r.
Proof.
  intros Hfx. unfold clone_model.
  destruct (clone_units_list fx (st0 (S n)) n (m_units m)) as [us s1] eqn:E1.
  destruct (clone_comps fx s1 n (m_comps m)) as [cs s2] eqn:E2.
  destruct (record_model_spec fx ext m Hfx) as (em & Er & RS). rewrite Er.
  set (m0 := {| m_oid := n; m_id := m_id m; m_name := m_name m; m_encid := m_encid m; m_units := us; m_comps := cs |}).
  set (m1 := fix_component_units m0).
  pose proof (clone_comps_shape fx n (m_comps m) [] 0 s1 cs s2 E2) as (_ & Sh1 & _).
  assert (F1 : map fst (model_vars m1) = map fst (model_vars m)).
  { unfold m1, fix_component_units. rewrite model_vars_map_f, map_map. cbn. exact Sh1. }
  assert (Floc : forall p, located m1 p <-> located m p).
  { intros p. rewrite !located_in. rewrite <- !in_fst_iff, F1. reflexivity. }
  rewrite apply_map_pairs. rewrite (apply_located m1 (em_pairs em)); [eexists; reflexivity|].
  intros [k t] H. apply RS in H. destruct H as (v & e & Hv & He & Hi). cbn. rewrite !Floc, !located_in. split.
  - exists v. exact Hv.
  - apply find_path_some in Hi. destruct Hi as (w & Hw & _). exists w. exact Hw.
Qed.
