(** AnalysisConfluenceProofs.v — the first pass of the analyser (sweeps with checkNlaSystems = false) is confluent:
    the set of variables that end up known / indexed does not depend on the order in which mInternalEquations
    is swept (C05, pass1_confluent). *)
From Coq Require Import List Bool Arith PeanoNat Lia Permutation.
From LC Require Import AnalysisDefs AnalysisSpec AnalysisProofs AnalysisWfProofs AnalysisOwnProofs.
Import ListNotations.
Local Open Scope bool_scope.

Definition nk (ivs : list ivar) (i : nat) : bool := negb (is_known ivs i).        (* still unknown *)
Definition ni (ivs : list ivar) (i : nat) : bool := negb (is_known_ode ivs i).    (* ODE variable still without index *)

Lemma is_known_ode_has_index : forall ivs i, is_known_ode ivs i = has_index (geti ivs i).
Proof. reflexivity. Qed.

(* ------------------------------------------------------------------ check() with checkNlaSystems = false *)

Inductive p1_outcome (s : system) (ivs : list ivar) (e : ieq) (ivs' : list ivar) (e' : ieq) (b : bool) : Prop :=
| P1_wait :    (* not exactly one variable left, or it is not alone on a side *)
    b = false -> ivs' = ivs -> ie_type e' = EUnknown -> ie_unknown e' = ie_unknown e ->
    (forall p, ~ (filter (nk ivs) (ie_vars e) ++ filter (ni ivs) (ie_odes e) = [p] /\ on_lhs_or_rhs s e (geti ivs p) = true)) ->
    p1_outcome s ivs e ivs' e' b
| P1_fire : forall p v3,
    filter (nk ivs) (ie_vars e) ++ filter (ni ivs) (ie_odes e) = [p] -> on_lhs_or_rhs s e (geti ivs p) = true ->
    p < length ivs ->
    b = true -> ie_type e' <> EUnknown -> ie_unknown e' = ie_unknown e ++ [p] ->
    ivs' = upd ivs p v3 -> has_index v3 = true -> iv_type v3 <> VUnknown ->
    (iv_type (geti ivs p) = VUnknown \/
     (In p (ie_odes e) /\ (iv_type (geti ivs p) = VState \/ comp_type (iv_type (geti ivs p)) = true \/ iv_type (geti ivs p) = VInitAlgebraic))) ->
    p1_outcome s ivs e ivs' e' b
| P1_abandon : forall p v2,
    filter (nk ivs) (ie_vars e) ++ filter (ni ivs) (ie_odes e) = [p] -> on_lhs_or_rhs s e (geti ivs p) = true ->
    p < length ivs ->
    b = false -> ie_type e' = EUnknown -> ie_unknown e' = ie_unknown e ->
    ivs' = upd ivs p v2 -> iv_type v2 = iv_type (geti ivs p) -> iv_index v2 = iv_index (geti ivs p) ->
    iv_type (geti ivs p) <> VUnknown -> iv_type (geti ivs p) <> VState ->
    p1_outcome s ivs e ivs' e' b.

Lemma on_lhs_or_rhs_sides : forall s e e' v, ie_lhs e' = ie_lhs e -> ie_rhs e' = ie_rhs e ->
  on_lhs_or_rhs s e' v = on_lhs_or_rhs s e v.
Proof. intros s e e' v H1 H2. unfold on_lhs_or_rhs, on_rhs. rewrite H1, H2. reflexivity. Qed.

Lemma app_single : forall {A} (a b : list A) p, length a + length b = 1 ->
  (match a with [] => hd_error b | x :: _ => Some x end) = Some p -> a ++ b = [p].
Proof.
  intros A a b p L H. destruct a as [|x [|y r]]; cbn in *.
  - destruct b as [|z [|w t]]; cbn in *; try lia. inversion H; reflexivity.
  - destruct b; cbn in *; [|lia]. inversion H; reflexivity.
  - lia.
Qed.

Lemma check_p1 : forall s st e st' e' b,
  check s false st e = (st', e', b) -> ie_type e = EUnknown -> eq_inv (cs_ivs st) e ->
  ie_lhs e' = ie_lhs e /\ ie_rhs e' = ie_rhs e /\ ie_comp e' = ie_comp e /\
  ie_vars e' = filter (nk (cs_ivs st)) (ie_vars e) /\ ie_odes e' = filter (ni (cs_ivs st)) (ie_odes e) /\
  p1_outcome s (cs_ivs st) e (cs_ivs st') e' b.
Proof.
  intros s st e st' e' b H Hty Hinv. unfold check in H.
  rewrite Hty in H. cbn [etype_eqb negb andb] in H. cbv zeta in H. destruct Hinv as (I1 & I2 & I3 & I4 & I5).
  set (ivs := cs_ivs st) in *.
  change (filter (fun i => negb (is_known ivs i)) (ie_vars e)) with (filter (nk ivs) (ie_vars e)) in H.
  change (filter (fun i => negb (is_known_ode ivs i)) (ie_odes e)) with (filter (ni ivs) (ie_odes e)) in H.
  set (vars := filter (nk ivs) (ie_vars e)) in *.
  set (odes := filter (ni ivs) (ie_odes e)) in *.
  set (tc := ie_tc e && negb (existsb (is_known ivs) (ie_vars e) || existsb (is_known ivs) (ie_odes e))) in *.
  set (vc := ie_vc e && negb (existsb (is_nonconst ivs) (ie_vars e) || existsb (is_nonconst ivs) (ie_odes e))) in *.
  cbn [orb] in H.
  destruct (length vars + length odes =? 1) eqn:L1.
  2:{ (* nothing can fire *)
    cbn [negb] in H. inversion H; subst st' e' b. cbn [ie_lhs ie_rhs ie_comp ie_vars ie_odes ie_type ie_unknown cs_ivs].
    repeat (split; [reflexivity|]). apply P1_wait; try reflexivity.
    intros p (Hp & _). fold vars odes in Hp. apply Nat.eqb_neq in L1. apply L1.
    rewrite <- app_length, Hp. reflexivity. }
  apply Nat.eqb_eq in L1.
  destruct (match vars with [] => hd_error odes | p :: _ => Some p end) as [p|] eqn:Elv.
  2:{ exfalso. destruct vars; [destruct odes; cbn in *; [lia|discriminate]|discriminate]. }
  pose proof (app_single vars odes p L1 Elv) as Hleft.
  assert (Hp : p < length ivs).
  { assert (Hin : In p (vars ++ odes)) by (rewrite Hleft; left; reflexivity).
    apply in_app_iff in Hin. destruct Hin as [Hin|Hin]; apply filter_In in Hin; destruct Hin as (Hin & _);
      [rewrite Forall_forall in I1; apply I1|rewrite Forall_forall in I2; apply I2]; exact Hin. }
  match type of H with context [on_lhs_or_rhs s ?ee (geti ivs p)] => set (e1 := ee) in * end.
  assert (Hside : on_lhs_or_rhs s e1 (geti ivs p) = on_lhs_or_rhs s e (geti ivs p)) by (apply on_lhs_or_rhs_sides; reflexivity).
  rewrite Hside in H.
  destruct (on_lhs_or_rhs s e (geti ivs p)) eqn:Eon; cbn [negb orb] in H.
  2:{ inversion H; subst st' e' b. cbn [ie_lhs ie_rhs ie_comp ie_vars ie_odes ie_type ie_unknown cs_ivs].
      repeat (split; [reflexivity|]). apply P1_wait; try reflexivity.
      intros q (Hq & Hon). fold vars odes in Hq. rewrite Hleft in Hq. inversion Hq; subst q. congruence. }
  assert (Hvariables : (match vars with [] => match odes with [] => @nil nat | _ :: _ => odes end | _ :: _ => vars end) = [p]).
  { destruct vars as [|v0 vr]; [destruct odes as [|o0 or]; cbn in *; [lia|]; destruct or; cbn in *; [congruence|lia]|].
    destruct vr; cbn in *; [|lia]. destruct odes; cbn in *; [congruence|lia]. }
  rewrite Hvariables in H.
  match type of H with context [type_variables ?a ?b ?c ?d ?e0 ?f ?g] =>
    destruct (type_variables a b c d e0 f g) as [[st2 unk] ok] eqn:TV end.
  apply type_variables_single in TV. cbn [cs_ivs] in TV. cbv zeta in TV. destruct TV as (TVf & TVt).
  set (v2 := retarget s (ie_comp e) tc vc (geti ivs p)) in *.
  assert (Hv2ty : iv_type v2 = (if vtype_eqb (iv_type (geti ivs p)) VUnknown
                               then (if tc then VCompTrue else if vc then VCompVarBased else VAlgebraic)
                               else iv_type (geti ivs p))) by apply retarget_type.
  destruct ok; cbn [negb] in H.
  - destruct (TVt eq_refl) as (Eunk & Hv2 & (i & Eivs)). inversion H; subst st' e' b.
    cbn [ie_lhs ie_rhs ie_comp ie_vars ie_odes ie_type ie_unknown cs_ivs].
    repeat (split; [reflexivity|]).
    eapply (P1_fire _ _ _ _ _ _ p (set_index v2 (Some i))); try reflexivity; try assumption.
    + cbn [ie_type].
      match goal with |- (if ?c then _ else _) <> _ => destruct c end; [discriminate|].
      match goal with |- match ?t with _ => _ end <> _ => destruct t end; discriminate.
    + cbn [set_index iv_type]. rewrite Hv2ty. destruct (vtype_eqb (iv_type (geti ivs p)) VUnknown) eqn:Eu.
      * destruct tc; [discriminate|]. destruct vc; discriminate.
      * intro K. rewrite K in Eu. discriminate.
    + (* what was typed was unknown, or a state *)
      destruct (vtype_eqb (iv_type (geti ivs p)) VUnknown) eqn:Eu; [left; apply vtype_eqb_eq; exact Eu|right].
      rewrite Hv2ty in Hv2.
      assert (Hin : In p (vars ++ odes)) by (rewrite Hleft; left; reflexivity).
      apply in_app_iff in Hin. destruct Hin as [Hin|Hin].
      * apply filter_In in Hin. destruct Hin as (_ & Hk). unfold nk, is_known in Hk. rewrite Eu in Hk. discriminate.
      * apply filter_In in Hin. split; [apply Hin|exact Hv2].
  - destruct (TVf eq_refl) as (Eunk & Eivs & N1 & N2 & N3). inversion H; subst st' e' b.
    cbn [ie_lhs ie_rhs ie_comp ie_vars ie_odes ie_type ie_unknown cs_ivs].
    repeat (split; [reflexivity|]).
    assert (Hsame : iv_type v2 = iv_type (geti ivs p)).
    { rewrite Hv2ty. destruct (vtype_eqb (iv_type (geti ivs p)) VUnknown) eqn:Eu; [|reflexivity].
      exfalso. rewrite Hv2ty in N2. destruct tc; [discriminate|]. destruct vc; discriminate. }
    eapply (P1_abandon _ _ _ _ _ _ p v2); try reflexivity; try assumption.
    + unfold v2. apply retarget_index.
    + intro K. rewrite Hv2ty, K in N2. cbn in N2. destruct tc; [discriminate|]. destruct vc; discriminate.
    + intro K. apply N1. rewrite Hsame. exact K.
Qed.
