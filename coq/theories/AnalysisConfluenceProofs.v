(** AnalysisConfluenceProofs.v — the first pass of the analyser (sweeps with checkNlaSystems = false) is confluent:
    the set of variables that end up known / indexed does not depend on the order in which mInternalEquations
    is swept (C05, pass1_confluent). *)
From Coq Require Import List Bool Arith PeanoNat Lia Permutation.
From LC Require Import AnalysisDefs AnalysisSpec AnalysisProofs AnalysisWfProofs AnalysisOwnProofs.
Import ListNotations.
Local Open Scope bool_scope.

Definition nk (ivs : list ivar) (i : nat) : bool := negb (is_known ivs i).        (* still unknown *)
Definition ni (ivs : list ivar) (i : nat) : bool := negb (is_known_ode ivs i).    (* ODE variable still without index *)

Lemma is_known_ode_has_index : forall ivs i, is_known_ode ivs i = has_index (geti ivs i).
Proof. reflexivity. Qed.

(* ------------------------------------------------------------------ check() with checkNlaSystems = false *)

Inductive p1_outcome (s : system) (ivs : list ivar) (e : ieq) (ivs' : list ivar) (e' : ieq) (b : bool) : Prop :=
| P1_wait :    (* not exactly one variable left, or it is not alone on a side *)
    b = false -> ivs' = ivs -> ie_type e' = EUnknown -> ie_unknown e' = ie_unknown e ->
    (forall p, ~ (filter (nk ivs) (ie_vars e) ++ filter (ni ivs) (ie_odes e) = [p] /\ on_lhs_or_rhs s e (geti ivs p) = true)) ->
    p1_outcome s ivs e ivs' e' b
| P1_fire : forall p v3,
    filter (nk ivs) (ie_vars e) ++ filter (ni ivs) (ie_odes e) = [p] -> on_lhs_or_rhs s e (geti ivs p) = true ->
    p < length ivs ->
    b = true -> ie_type e' <> EUnknown -> ie_unknown e' = ie_unknown e ++ [p] ->
    ivs' = upd ivs p v3 -> has_index v3 = true ->
    ((iv_type (geti ivs p) = VUnknown /\ comp_type (iv_type v3) = true) \/ (iv_type (geti ivs p) <> VUnknown /\ iv_type v3 = iv_type (geti ivs p))) ->
    (iv_type (geti ivs p) = VUnknown \/
     (In p (ie_odes e) /\ (iv_type (geti ivs p) = VState \/ comp_type (iv_type (geti ivs p)) = true \/ iv_type (geti ivs p) = VInitAlgebraic))) ->
    p1_outcome s ivs e ivs' e' b
| P1_abandon : forall p v2,
    filter (nk ivs) (ie_vars e) ++ filter (ni ivs) (ie_odes e) = [p] -> on_lhs_or_rhs s e (geti ivs p) = true ->
    p < length ivs ->
    b = false -> ie_type e' = EUnknown -> ie_unknown e' = ie_unknown e ->
    ivs' = upd ivs p v2 -> iv_type v2 = iv_type (geti ivs p) -> iv_index v2 = iv_index (geti ivs p) ->
    iv_type (geti ivs p) <> VUnknown -> iv_type (geti ivs p) <> VState ->
    p1_outcome s ivs e ivs' e' b.

Lemma on_lhs_or_rhs_sides : forall s e e' v, ie_lhs e' = ie_lhs e -> ie_rhs e' = ie_rhs e ->
  on_lhs_or_rhs s e' v = on_lhs_or_rhs s e v.
Proof. intros s e e' v H1 H2. unfold on_lhs_or_rhs, on_rhs. rewrite H1, H2. reflexivity. Qed.

Lemma app_single : forall {A} (a b : list A) p, length a + length b = 1 ->
  (match a with [] => hd_error b | x :: _ => Some x end) = Some p -> a ++ b = [p].
Proof.
  intros A a b p L H. destruct a as [|x [|y r]]; cbn in *.
  - destruct b as [|z [|w t]]; cbn in *; try lia. inversion H; reflexivity.
  - destruct b; cbn in *; [|lia]. inversion H; reflexivity.
  - lia.
Qed.

Lemma check_p1 : forall s st e st' e' b,
  check s false st e = (st', e', b) -> ie_type e = EUnknown -> eq_inv (cs_ivs st) e ->
  ie_lhs e' = ie_lhs e /\ ie_rhs e' = ie_rhs e /\ ie_comp e' = ie_comp e /\
  ie_vars e' = filter (nk (cs_ivs st)) (ie_vars e) /\ ie_odes e' = filter (ni (cs_ivs st)) (ie_odes e) /\
  p1_outcome s (cs_ivs st) e (cs_ivs st') e' b.
Proof.
  intros s st e st' e' b H Hty Hinv. unfold check in H.
  rewrite Hty in H. cbn [etype_eqb negb andb] in H. cbv zeta in H. destruct Hinv as (I1 & I2 & I3 & I4 & I5).
  set (ivs := cs_ivs st) in *.
  change (filter (fun i => negb (is_known ivs i)) (ie_vars e)) with (filter (nk ivs) (ie_vars e)) in H.
  change (filter (fun i => negb (is_known_ode ivs i)) (ie_odes e)) with (filter (ni ivs) (ie_odes e)) in H.
  set (vars := filter (nk ivs) (ie_vars e)) in *.
  set (odes := filter (ni ivs) (ie_odes e)) in *.
  set (tc := ie_tc e && negb (existsb (is_known ivs) (ie_vars e) || existsb (is_known ivs) (ie_odes e))) in *.
  set (vc := ie_vc e && negb (existsb (is_nonconst ivs) (ie_vars e) || existsb (is_nonconst ivs) (ie_odes e))) in *.
  cbn [orb] in H.
  destruct (length vars + length odes =? 1) eqn:L1.
  2:{ (* nothing can fire *)
    cbn [negb] in H. inversion H; subst st' e' b. cbn [ie_lhs ie_rhs ie_comp ie_vars ie_odes ie_type ie_unknown cs_ivs].
    repeat (split; [reflexivity|]). apply P1_wait; try reflexivity.
    intros p (Hp & _). fold vars odes in Hp. apply Nat.eqb_neq in L1. apply L1.
    rewrite <- app_length, Hp. reflexivity. }
  apply Nat.eqb_eq in L1.
  destruct (match vars with [] => hd_error odes | p :: _ => Some p end) as [p|] eqn:Elv.
  2:{ exfalso. destruct vars; [destruct odes; cbn in *; [lia|discriminate]|discriminate]. }
  pose proof (app_single vars odes p L1 Elv) as Hleft.
  assert (Hp : p < length ivs).
  { assert (Hin : In p (vars ++ odes)) by (rewrite Hleft; left; reflexivity).
    apply in_app_iff in Hin. destruct Hin as [Hin|Hin]; apply filter_In in Hin; destruct Hin as (Hin & _);
      [rewrite Forall_forall in I1; apply I1|rewrite Forall_forall in I2; apply I2]; exact Hin. }
  match type of H with context [on_lhs_or_rhs s ?ee (geti ivs p)] => set (e1 := ee) in * end.
  assert (Hside : on_lhs_or_rhs s e1 (geti ivs p) = on_lhs_or_rhs s e (geti ivs p)) by (apply on_lhs_or_rhs_sides; reflexivity).
  rewrite Hside in H.
  destruct (on_lhs_or_rhs s e (geti ivs p)) eqn:Eon; cbn [negb orb] in H.
  2:{ inversion H; subst st' e' b. cbn [ie_lhs ie_rhs ie_comp ie_vars ie_odes ie_type ie_unknown cs_ivs].
      repeat (split; [reflexivity|]). apply P1_wait; try reflexivity.
      intros q (Hq & Hon). fold vars odes in Hq. rewrite Hleft in Hq. inversion Hq; subst q. congruence. }
  assert (Hvariables : (match vars with [] => match odes with [] => @nil nat | _ :: _ => odes end | _ :: _ => vars end) = [p]).
  { destruct vars as [|v0 vr]; [destruct odes as [|o0 or]; cbn in *; [lia|]; destruct or; cbn in *; [congruence|lia]|].
    destruct vr; cbn in *; [|lia]. destruct odes; cbn in *; [congruence|lia]. }
  rewrite Hvariables in H.
  match type of H with context [type_variables ?a ?b ?c ?d ?e0 ?f ?g] =>
    destruct (type_variables a b c d e0 f g) as [[st2 unk] ok] eqn:TV end.
  apply type_variables_single in TV. cbn [cs_ivs] in TV. cbv zeta in TV. destruct TV as (TVf & TVt).
  set (v2 := retarget s (ie_comp e) tc vc (geti ivs p)) in *.
  assert (Hv2ty : iv_type v2 = (if vtype_eqb (iv_type (geti ivs p)) VUnknown
                               then (if tc then VCompTrue else if vc then VCompVarBased else VAlgebraic)
                               else iv_type (geti ivs p))) by apply retarget_type.
  destruct ok; cbn [negb] in H.
  - destruct (TVt eq_refl) as (Eunk & Hv2 & (i & Eivs)). inversion H; subst st' e' b.
    cbn [ie_lhs ie_rhs ie_comp ie_vars ie_odes ie_type ie_unknown cs_ivs].
    repeat (split; [reflexivity|]).
    eapply (P1_fire _ _ _ _ _ _ p (set_index v2 (Some i))); try reflexivity; try assumption.
    + cbn [ie_type].
      match goal with |- (if ?c then _ else _) <> _ => destruct c end; [discriminate|].
      match goal with |- match ?t with _ => _ end <> _ => destruct t end; discriminate.
    + cbn [set_index iv_type]. rewrite Hv2ty. destruct (vtype_eqb (iv_type (geti ivs p)) VUnknown) eqn:Eu.
      * left. split; [apply vtype_eqb_eq; exact Eu|]. destruct tc; [reflexivity|]. destruct vc; reflexivity.
      * right. split; [|reflexivity]. intro K. rewrite K in Eu. discriminate.
    + (* what was typed was unknown, or a state *)
      destruct (vtype_eqb (iv_type (geti ivs p)) VUnknown) eqn:Eu; [left; apply vtype_eqb_eq; exact Eu|right].
      rewrite Hv2ty in Hv2.
      assert (Hin : In p (vars ++ odes)) by (rewrite Hleft; left; reflexivity).
      apply in_app_iff in Hin. destruct Hin as [Hin|Hin].
      * apply filter_In in Hin. destruct Hin as (_ & Hk). unfold nk, is_known in Hk. rewrite Eu in Hk. discriminate.
      * apply filter_In in Hin. split; [apply Hin|exact Hv2].
  - destruct (TVf eq_refl) as (Eunk & Eivs & N1 & N2 & N3). inversion H; subst st' e' b.
    cbn [ie_lhs ie_rhs ie_comp ie_vars ie_odes ie_type ie_unknown cs_ivs].
    repeat (split; [reflexivity|]).
    assert (Hsame : iv_type v2 = iv_type (geti ivs p)).
    { rewrite Hv2ty. destruct (vtype_eqb (iv_type (geti ivs p)) VUnknown) eqn:Eu; [|reflexivity].
      exfalso. rewrite Hv2ty in N2. destruct tc; [discriminate|]. destruct vc; discriminate. }
    eapply (P1_abandon _ _ _ _ _ _ p v2); try reflexivity; try assumption.
    + unfold v2. apply retarget_index.
    + intro K. rewrite Hv2ty, K in N2. cbn in N2. destruct tc; [discriminate|]. destruct vc; discriminate.
    + intro K. apply N1. rewrite Hsame. exact K.
Qed.

(* ------------------------------------------------------------------ how a variable may have changed since the pass began *)

Definition pend (v : ivar) : bool :=
  match iv_type v with VUnknown => true | VState => negb (has_index v) | _ => false end.

Definition vrel (v0 v : ivar) : Prop :=
  v = v0
  \/ (pend v0 = true /\ has_index v = true /\
      ((iv_type v0 = VUnknown /\ comp_type (iv_type v) = true) \/ (iv_type v0 = VState /\ iv_type v = VState)))
  \/ (pend v0 = false /\ iv_type v = iv_type v0 /\ iv_index v = iv_index v0).

Definition grows (ivs0 ivs : list ivar) : Prop :=
  length ivs = length ivs0 /\ forall p, p < length ivs0 -> vrel (geti ivs0 p) (geti ivs p).

Lemma vrel_pend : forall v0 v, vrel v0 v -> pend v = true -> v = v0.
Proof.
  intros v0 v [H|[(P & I & T)|(P & T & I)]] Hp; [exact H| |].
  - exfalso. unfold pend in Hp. destruct T as [(_ & T)|(_ & T)].
    + destruct (iv_type v); cbn in T; discriminate.
    + rewrite T, I in Hp. discriminate.
  - exfalso. unfold pend, has_index in *. rewrite T, I in Hp. rewrite Hp in P. discriminate.
Qed.

Lemma vrel_known : forall v0 v, vrel v0 v -> iv_type v0 <> VUnknown -> iv_type v <> VUnknown.
Proof.
  intros v0 v [->|[(P & I & T)|(P & T & I)]] H; [exact H| |congruence].
  destruct T as [(T & _)|(_ & T)]; [contradiction|rewrite T; discriminate].
Qed.

Lemma vrel_index : forall v0 v, vrel v0 v -> has_index v0 = true -> has_index v = true.
Proof.
  intros v0 v [->|[(P & I & T)|(P & T & I)]] H; [exact H|exact I|]. unfold has_index in *. rewrite I. exact H.
Qed.

Lemma vrel_typed_indexed : forall v0 v, vrel v0 v -> iv_type v0 = VUnknown -> iv_type v <> VUnknown -> has_index v = true.
Proof.
  intros v0 v [->|[(P & I & T)|(P & T & I)]] H0 H; [contradiction|exact I|congruence].
Qed.

Lemma vrel_ode : forall v0 v, vrel v0 v -> ode_type (iv_type v0) = true -> ode_type (iv_type v) = true.
Proof.
  intros v0 v [->|[(P & I & T)|(P & T & I)]] H; [exact H| |rewrite T; exact H].
  destruct T as [(T & _)|(_ & T)]; [rewrite T in H; discriminate|rewrite T; reflexivity].
Qed.

Lemma is_known_type : forall ivs p, is_known ivs p = true <-> iv_type (geti ivs p) <> VUnknown.
Proof.
  intros. unfold is_known. rewrite negb_true_iff. split.
  - intros H K. rewrite K in H. discriminate.
  - intro H. destruct (vtype_eqb (iv_type (geti ivs p)) VUnknown) eqn:E; [|reflexivity]. apply vtype_eqb_eq in E. contradiction.
Qed.

(* the knowledge of the pass only grows *)
Definition kmono (ivs ivs' : list ivar) : Prop :=
  forall x, (is_known ivs x = true -> is_known ivs' x = true) /\ (has_index (geti ivs x) = true -> has_index (geti ivs' x) = true).

(* same knowledge, pending variables untouched *)
Definition same_kip (ivs ivs' : list ivar) : Prop :=
  forall x, is_known ivs' x = is_known ivs x /\ has_index (geti ivs' x) = has_index (geti ivs x) /\
            (pend (geti ivs x) = true \/ pend (geti ivs' x) = true -> geti ivs' x = geti ivs x).

Lemma same_kip_refl : forall a, same_kip a a.
Proof. intros a x. auto. Qed.
Lemma same_kip_trans : forall a b c, same_kip a b -> same_kip b c -> same_kip a c.
Proof.
  intros a b c H1 H2 x. destruct (H1 x) as (A1 & A2 & A3). destruct (H2 x) as (B1 & B2 & B3).
  split; [congruence|]. split; [congruence|]. intros [K|K].
  - rewrite <- (A3 (or_introl K)). apply B3. left. rewrite (A3 (or_introl K)). exact K.
  - assert (Kb : geti c x = geti b x) by (apply B3; right; exact K).
    rewrite Kb. apply A3. right. rewrite <- Kb. exact K.
Qed.
Lemma same_kip_kmono : forall a b, same_kip a b -> kmono a b.
Proof. intros a b H x. destruct (H x) as (A1 & A2 & _). rewrite A1, A2. auto. Qed.

Lemma kmono_refl : forall a, kmono a a.
Proof. intros a x. auto. Qed.
Lemma kmono_trans : forall a b c, kmono a b -> kmono b c -> kmono a c.
Proof. intros a b c H1 H2 x. destruct (H1 x), (H2 x). auto. Qed.

(* every ODE variable of the original equations has the type of a (possibly uninitialised) state *)
Definition ode_ok (ivs : list ivar) (e0 : ieq) : Prop := forall p, In p (ie_odes e0) -> ode_type (iv_type (geti ivs p)) = true.

Lemma pend_left : forall ivs e0 p, ode_ok ivs e0 -> In p (filter (nk ivs) (ie_vars e0) ++ filter (ni ivs) (ie_odes e0)) ->
  pend (geti ivs p) = true \/ (iv_type (geti ivs p) <> VUnknown /\ iv_type (geti ivs p) <> VState).
Proof.
  intros ivs e0 p Ho Hin. apply in_app_iff in Hin. destruct Hin as [Hin|Hin]; apply filter_In in Hin; destruct Hin as (Hin & Hk).
  - left. unfold nk, is_known in Hk. rewrite negb_involutive in Hk. apply vtype_eqb_eq in Hk. unfold pend. rewrite Hk. reflexivity.
  - unfold ni in Hk. rewrite is_known_ode_has_index in Hk. specialize (Ho p Hin).
    unfold pend. destruct (iv_type (geti ivs p)); cbn in Ho; try discriminate.
    + right. split; discriminate.
    + right. split; discriminate.
    + left. exact Hk.
    + right. split; discriminate.
Qed.

(* one call of check in the first pass, seen from the beginning of the pass *)
Lemma p1_step : forall s ivs0 ivs e ivs' e' b,
  p1_outcome s ivs e ivs' e' b -> grows ivs0 ivs -> (forall p, In p (ie_odes e) -> ode_type (iv_type (geti ivs p)) = true) ->
  grows ivs0 ivs' /\ kmono ivs ivs' /\ (b = false -> same_kip ivs ivs').
Proof.
  intros s ivs0 ivs e ivs' e' b H (L & G) Ho. destruct H.
  - subst. split; [split; assumption|]. split; [apply kmono_refl|]. intros _. apply same_kip_refl.
  - (* fired *)
    subst ivs'. rename H1 into Hp.
    assert (Hpend : pend (geti ivs p) = true).
    { destruct H8 as [Hu|(Hin & Ht)]; [unfold pend; rewrite Hu; reflexivity|].
      assert (Hleft : In p (filter (nk ivs) (ie_vars e) ++ filter (ni ivs) (ie_odes e))) by (rewrite H; left; reflexivity).
      apply in_app_iff in Hleft. destruct Hleft as [Hl|Hl]; apply filter_In in Hl; destruct Hl as (Hl1 & Hl2).
      - unfold nk, is_known in Hl2. rewrite negb_involutive in Hl2. apply vtype_eqb_eq in Hl2. unfold pend. rewrite Hl2. reflexivity.
      - specialize (Ho p Hin). unfold ni in Hl2. rewrite is_known_ode_has_index in Hl2. unfold pend.
        destruct (iv_type (geti ivs p)); cbn in Ho; try discriminate; destruct Ht as [K|[K|K]]; try discriminate. exact Hl2. }
    assert (Hp0 : p < length ivs0) by (rewrite <- L; exact Hp).
    assert (Heq : geti ivs p = geti ivs0 p) by (apply vrel_pend; [apply G; exact Hp0|exact Hpend]).
    split; [split|split].
    + rewrite upd_length. exact L.
    + intros q Hq. unfold geti at 2. destruct (Nat.eq_dec p q) as [<-|Hd].
      * rewrite nth_upd_same by exact Hp. right. left. rewrite <- Heq. split; [exact Hpend|]. split; [exact H6|].
        destruct H7 as [(T1 & T2)|(T1 & T2)]; [left; split; assumption|right].
        unfold pend in Hpend. destruct (iv_type (geti ivs p)) eqn:Et; try discriminate; [contradiction|]. split; [reflexivity|exact T2].
      * rewrite nth_upd_other by exact Hd. apply G. exact Hq.
    + intro x. destruct (Nat.eq_dec p x) as [<-|Hd].
      * assert (Hg : geti (upd ivs p v3) p = v3) by (apply geti_upd_same; exact Hp). split; intros _.
        -- apply is_known_type. rewrite Hg. destruct H7 as [(_ & T)|(T1 & T2)].
           ++ destruct (iv_type v3); cbn in T; try discriminate; discriminate.
           ++ rewrite T2. exact T1.
        -- rewrite Hg. exact H6.
      * assert (Hg : geti (upd ivs p v3) x = geti ivs x) by (unfold geti; apply nth_upd_other; exact Hd).
        unfold is_known. rewrite Hg. auto.
    + intro K. congruence.
  - (* abandoned *)
    subst ivs'. rename H1 into Hp.
    assert (Hnp : pend (geti ivs p) = false).
    { unfold pend. destruct (iv_type (geti ivs p)); try reflexivity; contradiction. }
    assert (Hnp2 : pend v2 = false).
    { unfold pend, has_index in *. rewrite H6, H7. exact Hnp. }
    assert (Hp0 : p < length ivs0) by (rewrite <- L; exact Hp).
    assert (Hsk : same_kip ivs (upd ivs p v2)).
    { intro x. destruct (Nat.eq_dec p x) as [<-|Hd].
      - assert (Hg : geti (upd ivs p v2) p = v2) by (apply geti_upd_same; exact Hp).
        unfold is_known. rewrite Hg, H6. unfold has_index. rewrite H7.
        split; [reflexivity|]. split; [reflexivity|]. intros [K|K]; congruence.
      - assert (Hg : geti (upd ivs p v2) x = geti ivs x) by (unfold geti; apply nth_upd_other; exact Hd).
        unfold is_known. rewrite Hg. auto. }
    split; [split|split].
    + rewrite upd_length. exact L.
    + intros q Hq. unfold geti at 2. destruct (Nat.eq_dec p q) as [<-|Hd].
      * rewrite nth_upd_same by exact Hp.
        destruct (G p Hq) as [E|[(P & I & T)|(P & T & I)]].
        -- right. right. rewrite <- E. split; [exact Hnp|]. split; assumption.
        -- (* a typed variable is not left in any equation *)
           exfalso. assert (Hleft : In p (filter (nk ivs) (ie_vars e) ++ filter (ni ivs) (ie_odes e))) by (rewrite H; left; reflexivity).
           apply in_app_iff in Hleft. destruct Hleft as [Hl|Hl]; apply filter_In in Hl; destruct Hl as (_ & Hl2).
           ++ unfold nk, is_known in Hl2. rewrite negb_involutive in Hl2. apply vtype_eqb_eq in Hl2. contradiction.
           ++ unfold ni in Hl2. rewrite is_known_ode_has_index, I in Hl2. discriminate.
        -- right. right. split; [exact P|]. split; congruence.
      * rewrite nth_upd_other by exact Hd. apply G. exact Hq.
    + apply same_kip_kmono. exact Hsk.
    + intros _. exact Hsk.
Qed.

(* ------------------------------------------------------------------ an equation and its original *)

Definition done_eq (ivs : list ivar) (e0 : ieq) : Prop :=
  (forall p, In p (ie_vars e0) -> is_known ivs p = true) /\ (forall p, In p (ie_odes e0) -> has_index (geti ivs p) = true).

Definition tracks (ivs : list ivar) (e0 e : ieq) : Prop :=
  ie_lhs e = ie_lhs e0 /\ ie_rhs e = ie_rhs e0 /\
  filter (nk ivs) (ie_vars e) = filter (nk ivs) (ie_vars e0) /\
  filter (ni ivs) (ie_odes e) = filter (ni ivs) (ie_odes e0) /\
  incl (ie_odes e) (ie_odes e0) /\
  (ie_type e <> EUnknown -> done_eq ivs e0).

Lemma filter_filter_mono : forall {A} (f g : A -> bool) l, (forall x, f x = true -> g x = true) -> filter f (filter g l) = filter f l.
Proof.
  intros A f g l H. induction l as [|x r IH]; cbn; [reflexivity|].
  destruct (g x) eqn:Eg; cbn.
  - destruct (f x); rewrite IH; reflexivity.
  - destruct (f x) eqn:Ef; [rewrite (H x Ef) in Eg; discriminate|exact IH].
Qed.

Lemma nk_mono : forall a b x, kmono a b -> nk b x = true -> nk a x = true.
Proof.
  intros a b x H K. unfold nk in *. apply negb_true_iff in K. apply negb_true_iff.
  destruct (is_known a x) eqn:E; [|reflexivity]. rewrite (proj1 (H x) E) in K. discriminate.
Qed.
Lemma ni_mono : forall a b x, kmono a b -> ni b x = true -> ni a x = true.
Proof.
  intros a b x H K. unfold ni in *. rewrite is_known_ode_has_index in *. apply negb_true_iff in K. apply negb_true_iff.
  destruct (has_index (geti a x)) eqn:E; [|reflexivity]. rewrite (proj2 (H x) E) in K. discriminate.
Qed.

Lemma filter_eq_mono : forall (f g : nat -> bool) l l', (forall x, f x = true -> g x = true) -> filter g l = filter g l' -> filter f l = filter f l'.
Proof. intros f g l l' H E. rewrite <- (filter_filter_mono f g l H), <- (filter_filter_mono f g l' H), E. reflexivity. Qed.

Lemma done_mono : forall a b e0, kmono a b -> done_eq a e0 -> done_eq b e0.
Proof. intros a b e0 H (D1 & D2). split; intros p Hp; [apply (proj1 (H p)); apply D1|apply (proj2 (H p)); apply D2]; exact Hp. Qed.

Lemma tracks_mono : forall a b e0 e, kmono a b -> tracks a e0 e -> tracks b e0 e.
Proof.
  intros a b e0 e H (T1 & T2 & T3 & T4 & T5 & T6). unfold tracks.
  split; [exact T1|]. split; [exact T2|].
  split; [eapply filter_eq_mono; [|exact T3]; intros x; apply nk_mono; exact H|].
  split; [eapply filter_eq_mono; [|exact T4]; intros x; apply ni_mono; exact H|].
  split; [exact T5|]. intro K. eapply done_mono; [exact H|apply T6; exact K].
Qed.

Lemma tracks_self : forall ivs e, ie_type e = EUnknown -> tracks ivs e e.
Proof. intros ivs e H. unfold tracks. repeat split; try reflexivity; try (intros x Hx; exact Hx). all: intro K; contradiction. Qed.

(* the original equation could fire for p *)
Definition fireable (s : system) (ivs : list ivar) (e0 : ieq) (p : nat) : Prop :=
  filter (nk ivs) (ie_vars e0) ++ filter (ni ivs) (ie_odes e0) = [p] /\
  on_lhs_or_rhs s e0 (geti ivs p) = true /\ pend (geti ivs p) = true.

Lemma filter_ext_in : forall (f g : nat -> bool) l, (forall x, f x = g x) -> filter f l = filter g l.
Proof. intros f g l H. induction l as [|x r IH]; cbn; [reflexivity|]. rewrite H, IH. reflexivity. Qed.

Lemma fireable_same_kip : forall s a b e0 p, same_kip a b -> fireable s a e0 p -> fireable s b e0 p.
Proof.
  intros s a b e0 p H (F1 & F2 & F3). unfold fireable.
  assert (Hnk : forall x, nk b x = nk a x) by (intro x; unfold nk; rewrite (proj1 (H x)); reflexivity).
  assert (Hni : forall x, ni b x = ni a x) by (intro x; unfold ni; rewrite !is_known_ode_has_index, (proj1 (proj2 (H x))); reflexivity).
  rewrite (filter_ext_in _ _ _ Hnk), (filter_ext_in _ _ _ Hni).
  assert (Hg : geti b p = geti a p) by (apply (proj2 (proj2 (H p))); left; exact F3).
  rewrite Hg. auto.
Qed.

Lemma same_kip_sym : forall a b, same_kip a b -> same_kip b a.
Proof.
  intros a b H x. destruct (H x) as (A1 & A2 & A3). split; [congruence|]. split; [congruence|].
  intros [K|K]; symmetry; apply A3; [right|left]; exact K.
Qed.

(* what one call of check says about the firability of the original equation *)
Lemma p1_fireable : forall s ivs e0 e ivs' e' b,
  p1_outcome s ivs e ivs' e' b -> tracks ivs e0 e -> ode_ok ivs e0 ->
  (b = false -> forall p, ~ fireable s ivs e0 p) /\
  (b = true -> exists p, fireable s ivs e0 p /\ ivs' = upd ivs p (geti ivs' p) /\ p < length ivs /\
                         is_known ivs' p = true /\ has_index (geti ivs' p) = true).
Proof.
  intros s ivs e0 e ivs' e' b H (T1 & T2 & T3 & T4 & T5 & T6) Ho.
  assert (Hside : forall v, on_lhs_or_rhs s e v = on_lhs_or_rhs s e0 v) by (intro v; apply on_lhs_or_rhs_sides; assumption).
  destruct H.
  - split; [|intro K; congruence]. intros _ p (F1 & F2 & F3). apply (H3 p). rewrite T3, T4, Hside. auto.
  - split; [intro K; congruence|]. intros _. exists p.
    assert (Hg : geti ivs' p = v3) by (subst ivs'; apply geti_upd_same; assumption).
    split; [|split; [rewrite Hg; assumption|split; [assumption|split]]].
    + unfold fireable. rewrite <- T3, <- T4, <- Hside. split; [assumption|]. split; [assumption|].
      destruct (pend_left ivs e0 p Ho) as [K|(K1 & K2)]; [rewrite <- T3, <- T4, H; left; reflexivity|exact K|].
      exfalso. destruct H8 as [K|(Hin & [K|[K|K]])]; try contradiction.
      * specialize (Ho p (T5 p Hin)). destruct (iv_type (geti ivs p)); cbn in K, Ho; discriminate.
      * specialize (Ho p (T5 p Hin)). rewrite K in Ho. discriminate.
    + apply is_known_type. rewrite Hg. destruct H7 as [(_ & T)|(Tn & T)].
      * destruct (iv_type v3); cbn in T; try discriminate; discriminate.
      * rewrite T. exact Tn.
    + rewrite Hg. assumption.
  - split; [|intro K; congruence]. intros _ q (F1 & F2 & F3).
    rewrite <- T3, <- T4, H in F1. inversion F1; subst q.
    unfold pend in F3. destruct (iv_type (geti ivs p)); try discriminate; contradiction.
Qed.

Lemma p1_tracks : forall s ivs e0 e ivs' e' b st st',
  check s false st e = (st', e', b) -> cs_ivs st = ivs -> cs_ivs st' = ivs' ->
  ie_type e = EUnknown -> eq_inv ivs e -> tracks ivs e0 e -> kmono ivs ivs' ->
  (b = true -> exists p, filter (nk ivs) (ie_vars e) ++ filter (ni ivs) (ie_odes e) = [p] /\ is_known ivs' p = true /\ has_index (geti ivs' p) = true) ->
  tracks ivs' e0 e'.
Proof.
  intros s ivs e0 e ivs' e' b st st' Hc <- <- Hty Hinv (T1 & T2 & T3 & T4 & T5 & T6) Hk Hfire.
  destruct (check_p1 _ _ _ _ _ _ Hc Hty Hinv) as (C1 & C2 & _ & C4 & C5 & Hout).
  unfold tracks. split; [congruence|]. split; [congruence|].
  assert (Hv : filter (nk (cs_ivs st')) (ie_vars e') = filter (nk (cs_ivs st')) (ie_vars e0)).
  { rewrite C4. rewrite (filter_filter_mono _ _ (ie_vars e)) by (intro x; apply nk_mono; exact Hk).
    eapply filter_eq_mono; [|exact T3]. intro x. apply nk_mono. exact Hk. }
  assert (Ho : filter (ni (cs_ivs st')) (ie_odes e') = filter (ni (cs_ivs st')) (ie_odes e0)).
  { rewrite C5. rewrite (filter_filter_mono _ _ (ie_odes e)) by (intro x; apply ni_mono; exact Hk).
    eapply filter_eq_mono; [|exact T4]. intro x. apply ni_mono. exact Hk. }
  split; [exact Hv|]. split; [exact Ho|].
  split; [rewrite C5; intros x Hx; apply T5; apply filter_In in Hx; apply Hx|].
  intro Hty'. destruct b.
  - destruct (Hfire eq_refl) as (p & Hl & Hkn & Hix). rewrite T3, T4 in Hl.
    split; intros x Hx.
    + destruct (nk (cs_ivs st) x) eqn:E.
      * assert (Hin : In x (filter (nk (cs_ivs st)) (ie_vars e0) ++ filter (ni (cs_ivs st)) (ie_odes e0))).
        { apply in_app_iff. left. apply filter_In. split; assumption. }
        rewrite Hl in Hin. destruct Hin as [<-|[]]. exact Hkn.
      * apply (proj1 (Hk x)). unfold nk in E. apply negb_false_iff in E. exact E.
    + destruct (ni (cs_ivs st) x) eqn:E.
      * assert (Hin : In x (filter (nk (cs_ivs st)) (ie_vars e0) ++ filter (ni (cs_ivs st)) (ie_odes e0))).
        { apply in_app_iff. right. apply filter_In. split; assumption. }
        rewrite Hl in Hin. destruct Hin as [<-|[]]. exact Hix.
      * apply (proj2 (Hk x)). unfold ni in E. rewrite is_known_ode_has_index in E. apply negb_false_iff in E. exact E.
  - exfalso. destruct Hout; try congruence.
Qed.

(* ------------------------------------------------------------------ a run of the first pass *)

Definition bounded (n : nat) (e0 : ieq) : Prop :=
  Forall (fun p => p < n) (ie_vars e0) /\ Forall (fun p => p < n) (ie_odes e0).

Lemma ode_ok_grows : forall ivs0 ivs e0, grows ivs0 ivs -> bounded (length ivs0) e0 -> ode_ok ivs0 e0 -> ode_ok ivs e0.
Proof.
  intros ivs0 ivs e0 (L & G) (_ & B) Ho p Hp. rewrite Forall_forall in B.
  eapply vrel_ode; [apply G; apply B; exact Hp|apply Ho; exact Hp].
Qed.

Lemma check_run : forall s ivs0 st e0 e st' e' b,
  check s false st e = (st', e', b) ->
  grows ivs0 (cs_ivs st) -> tracks (cs_ivs st) e0 e -> ode_ok ivs0 e0 -> bounded (length ivs0) e0 -> eq_inv (cs_ivs st) e ->
  grows ivs0 (cs_ivs st') /\ kmono (cs_ivs st) (cs_ivs st') /\ tracks (cs_ivs st') e0 e' /\
  (b = false -> same_kip (cs_ivs st) (cs_ivs st') /\ (ie_type e' = EUnknown -> forall p, ~ fireable s (cs_ivs st') e0 p)) /\
  (b = true -> exists p, fireable s (cs_ivs st) e0 p /\ p < length (cs_ivs st) /\
                         (forall q, q <> p -> geti (cs_ivs st') q = geti (cs_ivs st) q) /\
                         is_known (cs_ivs st') p = true /\ has_index (geti (cs_ivs st') p) = true).
Proof.
  intros s ivs0 st e0 e st' e' b Hc Hg Ht Ho Hb Hinv.
  destruct (etype_eqb (ie_type e) EUnknown) eqn:Et.
  2:{ unfold check in Hc. rewrite Et in Hc. cbn [negb] in Hc. inversion Hc; subst.
      split; [exact Hg|]. split; [apply kmono_refl|]. split; [exact Ht|]. split; [|intro K; discriminate].
      intros _. split; [apply same_kip_refl|]. intro K. rewrite K in Et. discriminate. }
  apply etype_eqb_eq in Et.
  destruct (check_p1 _ _ _ _ _ _ Hc Et Hinv) as (_ & _ & _ & _ & _ & Hout).
  pose proof (ode_ok_grows _ _ _ Hg Hb Ho) as Ho1.
  assert (Hoe : forall p, In p (ie_odes e) -> ode_type (iv_type (geti (cs_ivs st) p)) = true).
  { intros p Hp. apply Ho1. destruct Ht as (_ & _ & _ & _ & T5 & _). apply T5. exact Hp. }
  destruct (p1_step _ _ _ _ _ _ _ Hout Hg Hoe) as (G' & K' & S').
  destruct (p1_fireable _ _ _ _ _ _ _ Hout Ht Ho1) as (F1 & F2).
  assert (Ht' : tracks (cs_ivs st') e0 e').
  { eapply p1_tracks; try eassumption; try reflexivity.
    intro Hbt. destruct (F2 Hbt) as (p & (Fl & _) & _ & _ & Hk & Hi). exists p.
    destruct Ht as (_ & _ & T3 & T4 & _). rewrite T3, T4. split; [exact Fl|]. split; assumption. }
  split; [exact G'|]. split; [exact K'|]. split; [exact Ht'|]. split.
  - intro Hbf. specialize (S' Hbf). split; [exact S'|]. intros _ p Hf.
    apply (F1 Hbf p). eapply fireable_same_kip; [apply same_kip_sym; exact S'|exact Hf].
  - intro Hbt. destruct (F2 Hbt) as (p & Hf & Hupd & Hp & Hk & Hi). exists p.
    split; [exact Hf|]. split; [exact Hp|]. split; [|split; assumption].
    intros q Hq. rewrite Hupd. unfold geti. apply nth_upd_other. congruence.
Qed.

Lemma Forall2_tracks_mono : forall a b E es, kmono a b -> Forall2 (tracks a) E es -> Forall2 (tracks b) E es.
Proof. intros a b E es H F. induction F; constructor; [eapply tracks_mono; eassumption|assumption]. Qed.

Definition stuck_pair (s : system) (ivs : list ivar) (e0 e : ieq) : Prop :=
  ie_type e = EUnknown -> forall p, ~ fireable s ivs e0 p.

Lemma sweep_run : forall s ivs0 E es st st' es' b,
  sweep s false st es = (st', es', b) ->
  grows ivs0 (cs_ivs st) -> Forall2 (tracks (cs_ivs st)) E es ->
  Forall (ode_ok ivs0) E -> Forall (bounded (length ivs0)) E -> Forall (eq_inv (cs_ivs st)) es ->
  grows ivs0 (cs_ivs st') /\ kmono (cs_ivs st) (cs_ivs st') /\ Forall2 (tracks (cs_ivs st')) E es' /\
  (b = false -> same_kip (cs_ivs st) (cs_ivs st') /\ Forall2 (stuck_pair s (cs_ivs st')) E es').
Proof.
  intros s ivs0 E es. revert E. induction es as [|e r IH]; intros E st st' es' b H Hg Ht Ho Hb Hinv; cbn in H.
  - inversion H; subst. inversion Ht; subst. split; [exact Hg|]. split; [apply kmono_refl|]. split; [constructor|].
    intros _. split; [apply same_kip_refl|constructor].
  - destruct (check s false st e) as [[st1 e1] b1] eqn:Hc.
    destruct (sweep s false st1 r) as [[st2 r1] b2] eqn:Hs.
    inversion H; subst st' es' b. clear H.
    inversion Ht as [|e0 ? E' ? Hte Htr]; subst. inversion Ho as [|? ? Hoe Hor]; subst. inversion Hb as [|? ? Hbe Hbr]; subst.
    inversion Hinv as [|? ? Hie Hir]; subst.
    destruct (check_run _ _ _ _ _ _ _ _ Hc Hg Hte Hoe Hbe Hie) as (G1 & K1 & T1 & F1 & _).
    destruct (check_inv _ _ _ _ _ _ _ Hc Hie) as (Hev1 & _).
    destruct (IH E' st1 st2 r1 b2 Hs G1) as (G2 & K2 & T2 & F2); try assumption.
    { eapply Forall2_tracks_mono; eassumption. }
    { eapply Forall_impl; [|exact Hir]. intros x Hx. eapply eq_inv_evolves; eassumption. }
    split; [exact G2|]. split; [eapply kmono_trans; eassumption|].
    split; [constructor; [eapply tracks_mono; eassumption|exact T2]|].
    intro Hbf. apply orb_false_iff in Hbf. destruct Hbf as (Hb1 & Hb2).
    destruct (F1 Hb1) as (S1 & N1). destruct (F2 Hb2) as (S2 & N2).
    split; [eapply same_kip_trans; eassumption|]. constructor; [|exact N2].
    intros Hu p Hf. apply (N1 Hu p). eapply fireable_same_kip; [apply same_kip_sym; exact S2|exact Hf].
Qed.

Lemma loop_run : forall s ivs0 E fuel st es st' es',
  loop s fuel 0 false st es = Some (st', es') ->
  grows ivs0 (cs_ivs st) -> Forall2 (tracks (cs_ivs st)) E es ->
  Forall (ode_ok ivs0) E -> Forall (bounded (length ivs0)) E -> Forall (eq_inv (cs_ivs st)) es ->
  grows ivs0 (cs_ivs st') /\ kmono (cs_ivs st) (cs_ivs st') /\ Forall2 (tracks (cs_ivs st')) E es' /\
  Forall2 (stuck_pair s (cs_ivs st')) E es'.
Proof.
  intros s ivs0 E fuel. induction fuel as [|f IH]; intros st es st' es' H Hg Ht Ho Hb Hinv; [discriminate|].
  cbn [loop] in H. destruct (sweep s false st es) as [[st1 es1] rel] eqn:Hs.
  destruct (sweep_run _ _ _ _ _ _ _ _ Hs Hg Ht Ho Hb Hinv) as (G1 & K1 & T1 & F1).
  destruct (sweep_inv _ _ _ _ _ _ _ Hs Hinv) as (_ & I1).
  destruct rel.
  - destruct (IH _ _ _ _ H G1 T1 Ho Hb I1) as (G2 & K2 & T2 & S2).
    split; [exact G2|]. split; [eapply kmono_trans; eassumption|]. split; assumption.
  - cbn in H. inversion H; subst. destruct (F1 eq_refl) as (_ & S1). split; [exact G1|]. split; [exact K1|]. split; assumption.
Qed.

(* a target state that already knows whatever any run can still learn *)
Definition closed_for (s : system) (ivs0 T : list ivar) (E : list ieq) : Prop :=
  forall e0 ivs p, In e0 E -> grows ivs0 ivs -> kmono ivs T -> fireable s ivs e0 p ->
    is_known T p = true /\ has_index (geti T p) = true.

Lemma Forall2_In_l : forall {A B} (R : A -> B -> Prop) l l' x, Forall2 R l l' -> In x l -> exists y, In y l' /\ R x y.
Proof.
  intros A B R l l' x H. induction H as [|a b l l' Hab Hl IH]; intro Hx; [destruct Hx|].
  destruct Hx as [<-|Hx]; [exists b; split; [left; reflexivity|exact Hab]|].
  destruct (IH Hx) as (y & Hy & Hr). exists y. split; [right; exact Hy|exact Hr].
Qed.

Lemma sweep_incl : forall s ivs0 T E0 E es st st' es' b,
  sweep s false st es = (st', es', b) -> closed_for s ivs0 T E0 -> incl E E0 ->
  grows ivs0 (cs_ivs st) -> Forall2 (tracks (cs_ivs st)) E es ->
  Forall (ode_ok ivs0) E -> Forall (bounded (length ivs0)) E -> Forall (eq_inv (cs_ivs st)) es ->
  kmono (cs_ivs st) T -> kmono (cs_ivs st') T.
Proof.
  intros s ivs0 T E0 E es. revert E. induction es as [|e r IH]; intros E st st' es' b H Hcl Hincl Hg Ht Ho Hb Hinv Hk; cbn in H.
  - inversion H; subst. exact Hk.
  - destruct (check s false st e) as [[st1 e1] b1] eqn:Hc.
    destruct (sweep s false st1 r) as [[st2 r1] b2] eqn:Hs.
    inversion H; subst st' es' b. clear H.
    inversion Ht as [|e0 ? E' ? Hte Htr]; subst. inversion Ho as [|? ? Hoe Hor]; subst. inversion Hb as [|? ? Hbe Hbr]; subst.
    inversion Hinv as [|? ? Hie Hir]; subst.
    destruct (check_run _ _ _ _ _ _ _ _ Hc Hg Hte Hoe Hbe Hie) as (G1 & K1 & T1 & F1 & F2).
    destruct (check_inv _ _ _ _ _ _ _ Hc Hie) as (Hev1 & _).
    assert (Hk1 : kmono (cs_ivs st1) T).
    { destruct b1.
      - destruct (F2 eq_refl) as (p & Hf & Hp & Hfr & _).
        destruct (Hcl e0 (cs_ivs st) p (Hincl e0 (or_introl eq_refl)) Hg Hk Hf) as (C1 & C2).
        intro x. destruct (Nat.eq_dec x p) as [->|Hd]; [split; intros _; assumption|].
        unfold is_known. rewrite (Hfr x Hd). apply Hk.
      - destruct (F1 eq_refl) as (S1 & _). intro x. destruct (S1 x) as (A1 & A2 & _). rewrite A1, A2. apply Hk. }
    eapply (IH E' st1 st2 r1 b2 Hs Hcl); try eassumption.
    + intros x Hx. apply Hincl. right. exact Hx.
    + eapply Forall2_tracks_mono; eassumption.
    + eapply Forall_impl; [|exact Hir]. intros x Hx. eapply eq_inv_evolves; eassumption.
Qed.

Lemma loop_incl : forall s ivs0 T E fuel st es st' es',
  loop s fuel 0 false st es = Some (st', es') -> closed_for s ivs0 T E ->
  grows ivs0 (cs_ivs st) -> Forall2 (tracks (cs_ivs st)) E es ->
  Forall (ode_ok ivs0) E -> Forall (bounded (length ivs0)) E -> Forall (eq_inv (cs_ivs st)) es ->
  kmono (cs_ivs st) T -> kmono (cs_ivs st') T.
Proof.
  intros s ivs0 T E fuel. induction fuel as [|f IH]; intros st es st' es' H Hcl Hg Ht Ho Hb Hinv Hk; [discriminate|].
  cbn [loop] in H. destruct (sweep s false st es) as [[st1 es1] rel] eqn:Hs.
  pose proof (sweep_incl _ _ _ _ _ _ _ _ _ _ Hs Hcl (fun x Hx => Hx) Hg Ht Ho Hb Hinv Hk) as K1.
  destruct (sweep_run _ _ _ _ _ _ _ _ Hs Hg Ht Ho Hb Hinv) as (G1 & _ & T1 & _).
  destruct (sweep_inv _ _ _ _ _ _ _ Hs Hinv) as (_ & I1).
  destruct rel; [eapply IH; eassumption|]. cbn in H. inversion H; subst. exact K1.
Qed.

Lemma Forall2_and : forall {A B} (R S : A -> B -> Prop) l l', Forall2 R l l' -> Forall2 S l l' -> Forall2 (fun x y => R x y /\ S x y) l l'.
Proof. intros A B R S l l' H. induction H; intro K; inversion K; subst; constructor; auto. Qed.

Lemma app_eq_single : forall {A} (a b : list A) p, a ++ b = [p] -> (a = [p] /\ b = []) \/ (a = [] /\ b = [p]).
Proof.
  intros A a b p H. destruct a as [|x r]; cbn in H; [right; auto|].
  inversion H; subst. destruct r; [|discriminate]. cbn in *. subst. left. auto.
Qed.

Lemma filter_sub_single : forall (f : nat -> bool) (g : nat -> bool) l p,
  (forall x, f x = true -> g x = true) -> filter g l = [p] -> filter f l = (if f p then [p] else []).
Proof. intros f g l p H E. rewrite <- (filter_filter_mono f g l H), E. cbn. destruct (f p); reflexivity. Qed.

Lemma filter_sub_nil : forall (f : nat -> bool) (g : nat -> bool) l,
  (forall x, f x = true -> g x = true) -> filter g l = [] -> filter f l = [].
Proof. intros f g l H E. rewrite <- (filter_filter_mono f g l H), E. reflexivity. Qed.

(** The state in which a run of the first pass stops already knows everything that any other run can learn. *)
Lemma final_closed : forall s ivs0 A EA esA,
  grows ivs0 A -> Forall2 (tracks A) EA esA -> Forall2 (stuck_pair s A) EA esA ->
  Forall (ode_ok ivs0) EA -> Forall (bounded (length ivs0)) EA ->
  closed_for s ivs0 A EA.
Proof.
  intros s ivs0 A EA esA HgA HtA HsA Ho Hb e0 ivs p Hin Hg Hk (Fl & Fs & Fp).
  destruct (Forall2_In_l _ _ _ _ (Forall2_and _ _ _ _ HtA HsA) Hin) as (eA & _ & HtrA & HstA).
  rewrite Forall_forall in Ho, Hb. specialize (Ho e0 Hin). destruct (Hb e0 Hin) as (Bv & Bo).
  rewrite Forall_forall in Bv, Bo.
  assert (Hpin : In p (filter (nk ivs) (ie_vars e0) ++ filter (ni ivs) (ie_odes e0))) by (rewrite Fl; left; reflexivity).
  assert (Hp0 : p < length ivs0).
  { apply in_app_iff in Hpin. destruct Hpin as [H|H]; apply filter_In in H; [apply Bv|apply Bo]; apply H. }
  assert (Hv0 : geti ivs p = geti ivs0 p) by (apply vrel_pend; [apply Hg; exact Hp0|exact Fp]).
  pose proof (proj2 HgA p Hp0) as HrA.
  (* unknown or unindexed in A means untouched in A *)
  assert (HpendA : pend (geti A p) = true -> geti A p = geti ivs p).
  { intro K. rewrite Hv0. apply vrel_pend; assumption. }
  assert (Hnk : forall x, nk A x = true -> nk ivs x = true) by (intro x; apply nk_mono; exact Hk).
  assert (Hni : forall x, ni A x = true -> ni ivs x = true) by (intro x; apply ni_mono; exact Hk).
  destruct (app_eq_single _ _ _ Fl) as [(Ev & Eo)|(Ev & Eo)].
  - (* p is a plain variable of the equation, unknown in the run *)
    assert (Hin_v : In p (ie_vars e0)).
    { assert (K : In p (filter (nk ivs) (ie_vars e0))) by (rewrite Ev; left; reflexivity). apply filter_In in K. apply K. }
    assert (Hty0 : iv_type (geti ivs0 p) = VUnknown).
    { assert (K : In p (filter (nk ivs) (ie_vars e0))) by (rewrite Ev; left; reflexivity). apply filter_In in K. destruct K as (_ & K).
      unfold nk, is_known in K. rewrite negb_involutive in K. apply vtype_eqb_eq in K. rewrite <- Hv0. exact K. }
    assert (Hknown : is_known A p = true).
    { destruct (is_known A p) eqn:Ek; [reflexivity|exfalso].
      destruct (etype_eqb (ie_type eA) EUnknown) eqn:Et.
      - apply etype_eqb_eq in Et. apply (HstA Et p). unfold fireable.
        assert (Hnkp : nk A p = true) by (unfold nk; rewrite Ek; reflexivity).
        rewrite (filter_sub_single (nk A) (nk ivs) _ p Hnk Ev), Hnkp, (filter_sub_nil (ni A) (ni ivs) _ Hni Eo). cbn [app].
        assert (Hpd : pend (geti A p) = true).
        { unfold pend. unfold is_known in Ek. apply negb_false_iff in Ek. apply vtype_eqb_eq in Ek. rewrite Ek. reflexivity. }
        rewrite (HpendA Hpd). split; [reflexivity|]. split; assumption.
      - destruct HtrA as (_ & _ & _ & _ & _ & Hd). destruct Hd as (D1 & _).
        { intro K. rewrite K in Et. discriminate. }
        rewrite (D1 p Hin_v) in Ek. discriminate. }
    split; [exact Hknown|]. apply is_known_type in Hknown. eapply vrel_typed_indexed; eassumption.
  - (* p is a state of the equation, without index in the run *)
    assert (Hin_o : In p (ie_odes e0)).
    { assert (K : In p (filter (ni ivs) (ie_odes e0))) by (rewrite Eo; left; reflexivity). apply filter_In in K. apply K. }
    assert (Hst0 : iv_type (geti ivs0 p) = VState /\ has_index (geti ivs0 p) = false).
    { specialize (Ho p Hin_o). rewrite <- Hv0. unfold pend in Fp.
      destruct (iv_type (geti ivs p)) eqn:Et; try discriminate.
      - rewrite <- Hv0, Et in Ho. discriminate.
      - split; [reflexivity|]. apply negb_true_iff in Fp. exact Fp. }
    destruct Hst0 as (Hty0 & Hix0).
    assert (Hindexed : has_index (geti A p) = true).
    { destruct (has_index (geti A p)) eqn:Ei; [reflexivity|exfalso].
      assert (HtyA : iv_type (geti A p) = VState).
      { destruct HrA as [E|[(_ & I & _)|(P & _ & _)]]; [rewrite E; exact Hty0|congruence|].
        unfold pend in P. rewrite Hty0, Hix0 in P. discriminate. }
      destruct (etype_eqb (ie_type eA) EUnknown) eqn:Et.
      - apply etype_eqb_eq in Et. apply (HstA Et p). unfold fireable.
        assert (Hnip : ni A p = true) by (unfold ni; rewrite is_known_ode_has_index, Ei; reflexivity).
        rewrite (filter_sub_nil (nk A) (nk ivs) _ Hnk Ev), (filter_sub_single (ni A) (ni ivs) _ p Hni Eo), Hnip. cbn [app].
        assert (Hpd : pend (geti A p) = true) by (unfold pend; rewrite HtyA, Ei; reflexivity).
        rewrite (HpendA Hpd). split; [reflexivity|]. split; assumption.
      - destruct HtrA as (_ & _ & _ & _ & _ & Hd). destruct Hd as (_ & D2).
        { intro K. rewrite K in Et. discriminate. }
        rewrite (D2 p Hin_o) in Ei. discriminate. }
    split; [|exact Hindexed]. apply is_known_type. eapply vrel_known; [exact HrA|]. rewrite Hty0. discriminate.
Qed.

Lemma grows_refl : forall a, grows a a.
Proof. intro a. split; [reflexivity|]. intros p _. left. reflexivity. Qed.

Lemma Forall2_tracks_self : forall ivs es, Forall (fun e => ie_type e = EUnknown) es -> Forall2 (tracks ivs) es es.
Proof. intros ivs es H. induction H; constructor; [apply tracks_self; assumption|assumption]. Qed.

Lemma one_way : forall s ivs0 es es' fuel fuel' a b stA esA stB esB,
  Permutation es es' ->
  Forall (fun e => ie_type e = EUnknown) es -> Forall (ode_ok ivs0) es -> Forall (eq_inv ivs0) es ->
  cs_ivs a = ivs0 -> cs_ivs b = ivs0 ->
  loop s fuel 0 false a es = Some (stA, esA) ->
  loop s fuel' 0 false b es' = Some (stB, esB) ->
  kmono (cs_ivs stB) (cs_ivs stA).
Proof.
  intros s ivs0 es es' fuel fuel' a b stA esA stB esB Hperm Hu Ho Hi Ha Hb HA HB.
  assert (Hbd : forall l, Forall (eq_inv ivs0) l -> Forall (bounded (length ivs0)) l).
  { intros l H. eapply Forall_impl; [|exact H]. intros e (B1 & B2 & _). split; assumption. }
  assert (Hperm_F : forall (P : ieq -> Prop), Forall P es -> Forall P es').
  { intros P H. rewrite Forall_forall in *. intros x Hx. apply H. eapply Permutation_in; [apply Permutation_sym; exact Hperm|exact Hx]. }
  destruct (loop_run s ivs0 es _ _ _ _ _ HA) as (GA & _ & TA & SA).
  { rewrite Ha. apply grows_refl. }
  { rewrite Ha. apply Forall2_tracks_self. exact Hu. }
  { exact Ho. } { apply Hbd. exact Hi. } { rewrite Ha. exact Hi. }
  pose proof (final_closed _ _ _ _ _ GA TA SA Ho (Hbd _ Hi)) as Hcl.
  assert (Hcl' : closed_for s ivs0 (cs_ivs stA) es').
  { intros e0 ivs p Hin. apply Hcl. eapply Permutation_in; [apply Permutation_sym; exact Hperm|exact Hin]. }
  eapply (loop_incl s ivs0 (cs_ivs stA) es' _ _ _ _ _ HB Hcl').
  - rewrite Hb. apply grows_refl.
  - rewrite Hb. apply Forall2_tracks_self. apply Hperm_F. exact Hu.
  - apply Hperm_F. exact Ho.
  - apply Hbd. apply Hperm_F. exact Hi.
  - rewrite Hb. apply Hperm_F. exact Hi.
  - rewrite Hb. destruct GA as (LA & GA). intro x.
    destruct (Nat.lt_ge_cases x (length ivs0)) as [Lx|Lx].
    + specialize (GA x Lx). split; intro K.
      * apply is_known_type. eapply vrel_known; [exact GA|]. apply is_known_type. exact K.
      * eapply vrel_index; eassumption.
    + unfold is_known, geti. rewrite !nth_overflow by lia. auto.
Qed.

(** pass1_confluent: whatever the order in which the internal equations are swept, the first pass ends with the
    same variables known (typed) and the same variables indexed. *)
Theorem pass1_confluent : forall s ivs0 es es' fuel fuel' a b stA esA stB esB,
  Permutation es es' ->
  Forall (fun e => ie_type e = EUnknown) es -> Forall (ode_ok ivs0) es -> Forall (eq_inv ivs0) es ->
  cs_ivs a = ivs0 -> cs_ivs b = ivs0 ->
  loop s fuel 0 false a es = Some (stA, esA) ->
  loop s fuel' 0 false b es' = Some (stB, esB) ->
  forall p, is_known (cs_ivs stA) p = is_known (cs_ivs stB) p /\
            has_index (geti (cs_ivs stA) p) = has_index (geti (cs_ivs stB) p).
Proof.
  intros s ivs0 es es' fuel fuel' a b stA esA stB esB Hperm Hu Ho Hi Ha Hb HA HB p.
  pose proof (one_way _ _ _ _ _ _ _ _ _ _ _ _ Hperm Hu Ho Hi Ha Hb HA HB) as K1.
  assert (Hperm_F : forall (P : ieq -> Prop), Forall P es -> Forall P es').
  { intros P H. rewrite Forall_forall in *. intros x Hx. apply H. eapply Permutation_in; [apply Permutation_sym; exact Hperm|exact Hx]. }
  pose proof (one_way _ _ _ _ _ _ _ _ _ _ _ _ (Permutation_sym Hperm) (Hperm_F _ Hu) (Hperm_F _ Ho) (Hperm_F _ Hi) Hb Ha HB HA) as K2.
  destruct (K1 p) as (A1 & A2). destruct (K2 p) as (B1 & B2).
  split.
  - destruct (is_known (cs_ivs stA) p) eqn:EA, (is_known (cs_ivs stB) p) eqn:EB; try reflexivity.
    + specialize (B1 eq_refl). discriminate.
    + specialize (A1 eq_refl). discriminate.
  - destruct (has_index (geti (cs_ivs stA) p)) eqn:EA, (has_index (geti (cs_ivs stB) p)) eqn:EB; try reflexivity.
    + specialize (B2 eq_refl). discriminate.
    + specialize (A2 eq_refl). discriminate.
Qed.

(** The hypotheses hold for the state the analyser is in when the loop starts. *)
Theorem pass1_confluent_analysis : forall s ivs0 es0 es' fuel fuel' stA esA stB esB,
  build s = Some (ivs0, es0) -> Permutation es0 es' ->
  let ivs := vs_ivs (analyse_asts s ivs0 es0) in
  loop s fuel 0 false (mkCs ivs 0 0) es0 = Some (stA, esA) ->
  loop s fuel' 0 false (mkCs ivs 0 0) es' = Some (stB, esB) ->
  forall p, is_known (cs_ivs stA) p = is_known (cs_ivs stB) p /\
            has_index (geti (cs_ivs stA) p) = has_index (geti (cs_ivs stB) p).
Proof.
  intros s ivs0 es0 es' fuel fuel' stA esA stB esB Hb Hperm ivs HA HB.
  destruct (own_inv_initial _ _ _ Hb) as ([U O X W B] & _). fold ivs in U, O, X, W, B.
  destruct (build_spec _ _ _ Hb) as (_ & B2 & _).
  eapply (pass1_confluent s ivs es0 es'); try eassumption; try reflexivity.
  - eapply Forall_impl; [|exact B2]. intros e (_ & _ & _ & _ & _ & T). exact T.
  - rewrite Forall_forall. intros e He p Hp. apply (O e p He Hp).
Qed.
