(** ValidIdsEnumProofs.v — C04 proofs: the identifier pass in declarative form, on the models without map_variables /
    connection ids: what buildModelIdMap collects IS the enumeration [ids_enum] of the id carriers of the document (as the
    current tree counts them: the id of an import source once per importing entity), so checkUniqueIds is silent iff the
    encapsulation ids are XML names and that enumeration has no repetition. *)
From Coq Require Import String Ascii List Bool Arith Lia.
From LC Require Import Common NumDefs MathDefs ValidDefs ValidSpec ValidLeaf ValidCompProofs ValidProofs ValidIdsProofs.
Import ListNotations.
Local Open Scope string_scope.
Local Open Scope list_scope.

Definition isrc_ids (imp : option (isrc * string)) : list string :=
  match imp with Some (s, _) => opt_id (is_id s) | None => [] end.
Definition reset_ids (r : reset) : list string :=
  opt_id (r_id r) ++ opt_id (r_tv_id r) ++ maths_ids (r_tv r) ++ opt_id (r_rv_id r) ++ maths_ids (r_rv r).
(** the ids a component element carries, in document order: its own, its variables', its resets' (reset, test_value and
    the MathML inside, reset_value and the MathML inside), the ids on its MathML, its import element's, its component_ref's *)
Definition comp_ids (i : cinfo) : list string :=
  opt_id (c_id i) ++ flat_map (fun v => opt_id (v_id v)) (c_vars i) ++ flat_map reset_ids (c_resets i)
  ++ maths_ids (c_math i) ++ isrc_ids (c_imp i) ++ opt_id (c_encid i).
Definition units_ids (u : units) : list string :=
  opt_id (u_id u) ++ flat_map (fun it => opt_id (ui_id it)) (u_items u) ++ isrc_ids (u_imp u).
Definition ids_enum (m : model) : list string :=
  opt_id (m_id m) ++ flat_map units_ids (m_units m) ++ opt_id (m_encid m)
  ++ flat_map (fun c => comp_ids (c_info c)) (model_comps m).

(** no mapping carries a map_variables id or a connection id *)
Definition no_mapping_ids (m : model) : Prop :=
  forall c v e, In c (model_comps m) -> In v (c_vars (c_info c)) -> In e (v_eqs v) -> e_map_id e = "" /\ e_conn_id e = "".

Definition enc_issue (s : string) : list vrule := if nonempty s && negb (is_xml_name s) then [V_XML_ID_ATTRIBUTE] else [].

Section Enum.
  Variable fx : fixes.
  Hypothesis Hper : fx_isrc_once fx = false.
  Variable L : list vloc.

  Lemma id_equiv_noid : forall c v a e, e_map_id e = "" -> e_conn_id e = "" -> id_equiv fx L c v a e = a.
  Proof.
    intros c v a e H1 H2. unfold id_equiv. destruct (lookup_var L (e_to e)); [|reflexivity]. cbv zeta. rewrite H1, H2.
    cbn [nonempty str_is_empty negb]. rewrite !andb_false_r. reflexivity.
  Qed.

  Lemma id_isrc_ids : forall a s, ia_ids (id_isrc false a s) = ia_ids a ++ opt_id (is_id s)
                                  /\ ia_issues (id_isrc false a s) = ia_issues a.
  Proof.
    intros a s. unfold id_isrc, opt_id. destruct (str_is_empty (is_id s)); cbn; [rewrite app_nil_r|]; split; reflexivity.
  Qed.

  Lemma own_enum : forall i a, (forall v e, In v (c_vars i) -> In e (v_eqs v) -> e_map_id e = "" /\ e_conn_id e = "") ->
    ia_ids (id_comp_own fx L i a) = ia_ids a ++ comp_ids i
    /\ ia_issues (id_comp_own fx L i a) = ia_issues a ++ enc_issue (c_encid i).
  Proof.
    intros i a Hno. unfold id_comp_own. cbv zeta. rewrite Hper.
    assert (Hv : forall vs x, (forall v e, In v vs -> In e (v_eqs v) -> e_map_id e = "" /\ e_conn_id e = "") ->
                 fold_left (fun a v => fold_left (id_equiv fx L i v) (v_eqs v) (id_add a (opt_id (v_id v)))) vs x
                 = id_add x (flat_map (fun v => opt_id (v_id v)) vs)).
    { induction vs as [|v vs IH]; intros x Hn; cbn [fold_left flat_map].
      - unfold id_add. rewrite app_nil_r. destruct x; reflexivity.
      - assert (He : forall es y, (forall e, In e es -> e_map_id e = "" /\ e_conn_id e = "") -> fold_left (id_equiv fx L i v) es y = y).
        { induction es as [|e es IHe]; intros y Hy; [reflexivity|]. cbn [fold_left].
          destruct (Hy e (or_introl eq_refl)) as [E1 E2]. rewrite (id_equiv_noid i v y e E1 E2). apply IHe. intros e' He'. apply Hy. right. exact He'. }
        rewrite He by (intros e He'; apply (Hn v e (or_introl eq_refl) He')).
        rewrite IH by (intros v' e Hv' He'; apply (Hn v' e (or_intror Hv') He')).
        unfold id_add. cbn. rewrite <- app_assoc. reflexivity. }
    rewrite (Hv _ _ Hno).
    assert (Hr : forall rs x, fold_left (fun a r => id_add a (opt_id (r_id r) ++ opt_id (r_tv_id r) ++ maths_ids (r_tv r) ++ opt_id (r_rv_id r) ++ maths_ids (r_rv r))) rs x
                 = id_add x (flat_map reset_ids rs)).
    { induction rs as [|r rs IH]; intro x; cbn [fold_left flat_map].
      - unfold id_add. rewrite app_nil_r. destruct x; reflexivity.
      - rewrite IH. unfold id_add, reset_ids. cbn. rewrite <- !app_assoc. reflexivity. }
    rewrite Hr.
    set (a4 := id_add (id_add (id_add (id_add a (opt_id (c_id i))) (flat_map (fun v => opt_id (v_id v)) (c_vars i)))
                              (flat_map reset_ids (c_resets i))) (maths_ids (c_math i))).
    assert (H4 : ia_ids a4 = ia_ids a ++ opt_id (c_id i) ++ flat_map (fun v => opt_id (v_id v)) (c_vars i)
                              ++ flat_map reset_ids (c_resets i) ++ maths_ids (c_math i) /\ ia_issues a4 = ia_issues a).
    { unfold a4. cbn [id_add ia_ids ia_issues]. rewrite <- !app_assoc. split; reflexivity. }
    destruct H4 as [I4 J4]. clearbody a4.
    set (a5 := match c_imp i with Some (s, _) => id_isrc false a4 s | None => a4 end).
    assert (H5 : ia_ids a5 = ia_ids a4 ++ isrc_ids (c_imp i) /\ ia_issues a5 = ia_issues a4).
    { unfold a5, isrc_ids. destruct (c_imp i) as [[s r]|]; [apply id_isrc_ids | rewrite app_nil_r; split; reflexivity]. }
    destruct H5 as [I5 J5]. clearbody a5.
    unfold comp_ids, enc_issue. destruct (str_is_empty (c_encid i)) eqn:E.
    - assert (Hn : nonempty (c_encid i) = false) by (unfold nonempty; rewrite E; reflexivity).
      assert (Ho : opt_id (c_encid i) = []) by (unfold opt_id; rewrite E; reflexivity).
      rewrite Hn, Ho. cbn [andb]. rewrite I5, I4, J5, J4, !app_nil_r, <- !app_assoc. split; reflexivity.
    - assert (Hn : nonempty (c_encid i) = true) by (unfold nonempty; rewrite E; reflexivity).
      assert (Ho : opt_id (c_encid i) = [c_encid i]) by (unfold opt_id; rewrite E; reflexivity).
      rewrite Hn, Ho. cbn [andb ia_ids ia_issues]. rewrite I5, I4, J5, J4, <- !app_assoc. split; [reflexivity|].
      destruct (is_xml_name (c_encid i)); reflexivity.
  Qed.

  Fixpoint id_comp_l (ks : list comp) (a : idacc) : idacc :=
    match ks with [] => a | k :: r => id_comp_l r (id_comp fx L a k) end.
  Lemma id_comp_unf : forall a i kids, id_comp fx L a (Comp i kids) = id_comp_l kids (id_comp_own fx L i a).
  Proof.
    intros. cbn [id_comp]. generalize (id_comp_own fx L i a). induction kids as [|k r IH]; intro x; [reflexivity|].
    cbn [id_comp_l]. apply IH.
  Qed.

  Definition tree_ok (c : comp) : Prop :=
    forall c' v e, In c' (comp_all c) -> In v (c_vars (c_info c')) -> In e (v_eqs v) -> e_map_id e = "" /\ e_conn_id e = "".

  Lemma tree_enum : forall c a, tree_ok c ->
    ia_ids (id_comp fx L a c) = ia_ids a ++ flat_map (fun k => comp_ids (c_info k)) (comp_all c)
    /\ ia_issues (id_comp fx L a c) = ia_issues a ++ flat_map (fun k => enc_issue (c_encid (c_info k))) (comp_all c).
  Proof.
    induction c as [i kids IH] using comp_ind2. intros a Hok. rewrite id_comp_unf, comp_all_unfold. cbn [flat_map c_info].
    destruct (own_enum i a) as [E1 E2]; [intros v e Hv He; apply (Hok (Comp i kids) v e); [left; reflexivity | exact Hv | exact He]|].
    assert (Hk : forall ks x, Forall (fun c => forall a, tree_ok c -> ia_ids (id_comp fx L a c) = ia_ids a ++ flat_map (fun k => comp_ids (c_info k)) (comp_all c)
                                          /\ ia_issues (id_comp fx L a c) = ia_issues a ++ flat_map (fun k => enc_issue (c_encid (c_info k))) (comp_all c)) ks ->
                 (forall k, In k ks -> tree_ok k) ->
                 ia_ids (id_comp_l ks x) = ia_ids x ++ flat_map (fun k => comp_ids (c_info k)) (flat_map comp_all ks)
                 /\ ia_issues (id_comp_l ks x) = ia_issues x ++ flat_map (fun k => enc_issue (c_encid (c_info k))) (flat_map comp_all ks)).
    { induction ks as [|k r IHr]; intros x HF Ht; cbn [id_comp_l flat_map]; [rewrite !app_nil_r; split; reflexivity|].
      inversion HF; subst. destruct (H1 x (Ht k (or_introl eq_refl))) as [A B].
      destruct (IHr (id_comp fx L x k) H2 (fun k' Hk' => Ht k' (or_intror Hk'))) as [C D].
      rewrite C, D, A, B, !flat_map_app, <- !app_assoc. split; reflexivity. }
    destruct (Hk kids (id_comp_own fx L i a) IH) as [C D].
    { intros k Hk' c' v e Hc'. apply (Hok c' v e). rewrite comp_all_unfold. right. apply in_flat_map. exists k. split; assumption. }
    rewrite C, D, E1, E2, <- !app_assoc. split; reflexivity.
  Qed.
End Enum.

Theorem ids_collected_enum : forall fx m, fx_isrc_once fx = false -> no_mapping_ids m ->
  ia_ids (model_idacc fx m) = ids_enum m
  /\ ia_issues (model_idacc fx m) = enc_issue (m_encid m) ++ flat_map (fun c => enc_issue (c_encid (c_info c))) (model_comps m).
Proof.
  intros fx m Hper Hno. rewrite model_idacc_unfold, Hper.
  assert (HU : forall us x, ia_ids (fold_left (ustep false) us x) = ia_ids x ++ flat_map units_ids us
                            /\ ia_issues (fold_left (ustep false) us x) = ia_issues x).
  { induction us as [|u r IH]; intro x; cbn [fold_left flat_map]; [rewrite app_nil_r; split; reflexivity|].
    destruct (IH (ustep false x u)) as [A B]. rewrite A, B. unfold ustep, units_ids, isrc_ids. destruct (u_imp u) as [[s ref]|].
    - destruct (id_isrc_ids (id_add x (opt_id (u_id u) ++ flat_map (fun it => opt_id (ui_id it)) (u_items u))) s) as [E1 E2].
      rewrite E1, E2. cbn [id_add ia_ids ia_issues]. rewrite <- !app_assoc. split; reflexivity.
    - cbn [id_add ia_ids ia_issues]. rewrite app_nil_r, <- !app_assoc. split; reflexivity. }
  destruct (HU (m_units m) (mkIA (opt_id (m_id m)) [] [] [])) as [U1 U2].
  set (a1 := fold_left (ustep false) (m_units m) _) in *.
  assert (H2 : ia_ids (enc_step m a1) = ia_ids a1 ++ opt_id (m_encid m) /\ ia_issues (enc_step m a1) = ia_issues a1 ++ enc_issue (m_encid m)).
  { unfold enc_step, enc_issue. destruct (str_is_empty (m_encid m)) eqn:E.
    - assert (Hn : nonempty (m_encid m) = false) by (unfold nonempty; rewrite E; reflexivity).
      assert (Ho : opt_id (m_encid m) = []) by (unfold opt_id; rewrite E; reflexivity).
      rewrite Hn, Ho. cbn [andb]. rewrite !app_nil_r. split; reflexivity.
    - assert (Hn : nonempty (m_encid m) = true) by (unfold nonempty; rewrite E; reflexivity).
      assert (Ho : opt_id (m_encid m) = [m_encid m]) by (unfold opt_id; rewrite E; reflexivity).
      rewrite Hn, Ho. cbn [andb ia_ids ia_issues]. split; [reflexivity|]. destruct (is_xml_name (m_encid m)); reflexivity. }
  destruct H2 as [I2 J2]. set (a2 := enc_step m a1) in *. clearbody a2.
  assert (HC : forall cs x, (forall c, In c cs -> tree_ok c) ->
             ia_ids (fold_left (id_comp fx (model_locs m)) cs x) = ia_ids x ++ flat_map (fun k => comp_ids (c_info k)) (flat_map comp_all cs)
             /\ ia_issues (fold_left (id_comp fx (model_locs m)) cs x) = ia_issues x ++ flat_map (fun k => enc_issue (c_encid (c_info k))) (flat_map comp_all cs)).
  { induction cs as [|c r IH]; intros x Ht; cbn [fold_left flat_map]; [rewrite !app_nil_r; split; reflexivity|].
    destruct (tree_enum fx Hper (model_locs m) c x (Ht c (or_introl eq_refl))) as [A B].
    destruct (IH (id_comp fx (model_locs m) x c) (fun c' Hc' => Ht c' (or_intror Hc'))) as [C D].
    rewrite C, D, A, B, !flat_map_app, <- !app_assoc. split; reflexivity. }
  destruct (HC (m_comps m) a2) as [C D].
  { intros c Hc c' v e Hc'. apply (Hno c' v e). unfold model_comps. apply in_flat_map. exists c. split; assumption. }
  fold (model_comps m) in C, D. rewrite C, D, I2, J2, U1, U2. unfold ids_enum. cbn [ia_ids ia_issues app]. rewrite <- !app_assoc. split; reflexivity.
Qed.

(** the identifier pass of the current tree, declaratively, on models without mapping ids *)
Theorem ids_ok_declarative : forall fx W, fx_isrc_once fx = false -> no_mapping_ids (model_at W 0) ->
  (IdsOK fx W <-> (XmlName (m_encid (model_at W 0)) /\ Forall (fun c => XmlName (c_encid (c_info c))) (model_comps (model_at W 0)))
                  /\ NoDup (ids_enum (model_at W 0))).
Proof.
  intros fx W Hper Hno. unfold IdsOK. rewrite ids_pass_nil. destruct (ids_collected_enum fx (model_at W 0) Hper Hno) as [E1 E2].
  rewrite E1, E2, app_nil_iff, flat_map_nil_iff.
  assert (He : forall s, enc_issue s = [] <-> XmlName s).
  { intro s. unfold enc_issue, XmlName, nonempty. destruct (str_is_empty s) eqn:E; cbn [negb andb].
    - apply str_is_empty_iff in E. subst s. split; [intros _; reflexivity | reflexivity].
    - destruct (is_xml_name s); cbn; split; intro H; try reflexivity; discriminate H. }
  rewrite He. assert (HF : Forall (fun x => enc_issue (c_encid (c_info x)) = []) (model_comps (model_at W 0))
                           <-> Forall (fun c => XmlName (c_encid (c_info c))) (model_comps (model_at W 0))).
  { rewrite !Forall_forall. split; intros H c Hc; apply He; apply H; exact Hc. }
  rewrite HF. tauto.
Qed.
