(** UnitsDefs.v — executable model of the three reductions of units to base units in libcellml (C08).
    No proofs here.

    Numbers.  Exponents are [Q].  A multiplier is represented by its log10 (a [Q]): the model covers
    multipliers that are exact (positive) powers of ten, for which [std::log10] is exact; zero,
    negative and non-power-of-ten multipliers are outside the model.  All sums/products the C++ does in
    [double] are done exactly in [Q] (the generated inputs keep every intermediate value a small dyadic
    rational, for which double arithmetic is exact); [std::pow(10, x)] is never modelled: a scaling
    factor is the symbolic value [FPow x] = 10^x, or [FZero] = 0.0.

    Objects.  A units object is named by (index of its model in the world, its name); [Model::units(name)]
    returns the first units of that name, so names are assumed unique inside a model.  A parent-less
    units object without children (what [Variable::setUnits("litre")] creates) behaves exactly as a
    member [("litre", Defs [])] of a model, because a child-less units object never looks at its parent.

    Recursion.  Every recursive function of the C++ becomes a fuelled function returning [OutOfFuel]
    when the fuel is exhausted (cyclic units: the real code recurses until the stack is exhausted) and
    [Crash] where the real code dereferences a null pointer. *)
From Coq Require Import String Ascii List ZArith QArith Bool.
From LC Require Import Common NumDefs.
From LCGen Require Import UnitTables PrefixTable.
Import ListNotations.
Local Open Scope string_scope.

(* ------------------------------------------------------------------ data *)

Record unit_child := { uc_ref : string;      (* units="..." *)
                       uc_prefix : string;   (* prefix="..." : a name, an integer text, or "" *)
                       uc_exp : Q;           (* exponent *)
                       uc_mult : Q }.        (* log10 of multiplier *)

Inductive udef :=
| Defs (l : list unit_child)          (* a units with its unit children (none: base unit or bare standard unit) *)
| Import (m : nat) (r : string).      (* imported units: import source model = world[m] (out of range: no model), import reference r *)

Definition env := list (string * udef).
Definition world := list env.
Definition uref := (nat * string)%type.

Inductive res (A : Type) := Ok (a : A) | OutOfFuel | Crash.
Arguments Ok {A} a. Arguments OutOfFuel {A}. Arguments Crash {A}.

Record fixes := { fx_import : bool;   (* F6 (64d2ee4): the import branch of updateUnitsMap passes the exponent on *)
                  fx_std : bool;      (* (40ad4ac) updateUnitMultiplier accounts for a bare standard unit's own multiplier *)
                  fx_pop : bool }.    (* (94d567f) performTestWithHistory pops its epoch after descending into imported units *)
Definition unfixed := {| fx_import := false; fx_std := false; fx_pop := false |}.
Definition all_fixed := {| fx_import := true; fx_std := true; fx_pop := true |}.
(** The state of /repo this model is compared with in the correspondence run. *)
Definition current_fixes := all_fixed.

Fixpoint assoc {A} (k : string) (l : list (string * A)) : option A :=
  match l with
  | [] => None
  | (k', v) :: r => if String.eqb k k' then Some v else assoc k r
  end.

(* Model::units(name) / Model::hasUnits(name) in model mi *)
Definition lookup (w : world) (mi : nat) (name : string) : option udef :=
  match nth_error w mi with Some e => assoc name e | None => None end.

Definition mem_str (s : string) (l : list string) : bool := existsb (String.eqb s) l.

(* utilities.cpp: isStandardUnitName *)
Definition is_std_name (n : string) : bool :=
  match assoc n standard_units_list with Some _ => true | None => false end.
(* units.cpp: Units::UnitsImpl::isBaseUnit(const std::string &) *)
Definition is_base_name (n : string) : bool := mem_str n is_base_unit_names.
(* standardUnitsList.at(name) / standardMultiplierList.at(name) (only reached for standard names) *)
Definition std_components (n : string) : list (string * Q) :=
  match assoc n standard_units_list with Some l => l | None => [] end.
Definition std_mult (n : string) : Q :=
  match assoc n standard_multiplier_list with Some q => q | None => 0 end.

(* utilities.cpp: convertPrefixToInt(in, &ok) — None when ok = false (the returned int is then 0) *)
Definition convert_prefix (s : string) : option Z :=
  match assoc s standard_prefix_list with
  | Some z => Some z
  | None => if str_is_empty s then Some 0%Z
            else match to_int s with Value z => Some z | _ => None end
  end.
Definition prefix_or_zero (s : string) : Q :=      (* convertPrefixToInt(pre) with ok ignored *)
  match convert_prefix s with Some z => inject_Z z | None => 0 end.

(* ------------------------------------------------------------------ loops *)

Fixpoint fold_res {A S : Type} (step : A -> S -> res S) (l : list A) (s : S) : res S :=
  match l with
  | [] => Ok s
  | a :: r => match step a s with
              | Ok s' => fold_res step r s'
              | OutOfFuel => OutOfFuel
              | Crash => Crash
              end
  end.

(* a loop that returns false at the first failing element *)
Fixpoint forall_res {A : Type} (step : A -> res bool) (l : list A) : res bool :=
  match l with
  | [] => Ok true
  | a :: r => match step a with
              | Ok true => forall_res step r
              | x => x
              end
  end.

(* a loop threading a state that returns "false" (None) at the first failing element *)
Fixpoint fold_opt {A S : Type} (step : A -> S -> res (option S)) (l : list A) (s : S) : res (option S) :=
  match l with
  | [] => Ok (Some s)
  | a :: r => match step a s with
              | Ok (Some s') => fold_opt step r s'
              | x => x
              end
  end.

(* ------------------------------------------------------------------ units.cpp: definedness *)

(** Import history (internaltypes.h: HistoryEpoch, History; utilities.cpp: createHistoryEpoch, importeeModelUrl,
    checkForImportCycles).  The url of an import source is identified with the index of the model attached to it
    (one url per model, distinct from ":this:"); [None] is ORIGIN_MODEL_REF.  Model::equals between the origin model
    and an imported model is identity of models here.  The newest epoch is first. *)
Record epoch := { ep_src : option nat;     (* mSourceUrl *)
                  ep_dst : nat;            (* mDestinationUrl = mDestinationModel *)
                  ep_srcmodel : nat }.     (* mSourceModel = owningModel(units) *)
Definition hist := list epoch.

Definition importee_url (h : hist) (url : nat) : option nat :=
  match find (fun e => negb (Nat.eqb (ep_dst e) url)) h with
  | Some e => Some (ep_dst e)
  | None => None
  end.

Definition opt_nat_eqb (a b : option nat) : bool :=
  match a, b with
  | Some x, Some y => Nat.eqb x y
  | None, None => true
  | _, _ => false
  end.

Definition import_cycle (w : world) (h : hist) (e : epoch) : bool :=
  existsb (fun x => opt_nat_eqb (Some (ep_dst e)) (ep_src x)
                    || (opt_nat_eqb (ep_src x) None && Nat.eqb (ep_srcmodel x) (ep_dst e)
                        && Nat.ltb (ep_dst e) (length w))) h.

Definition new_epoch (h : hist) (mi mj : nat) : epoch :=
  {| ep_src := importee_url h mj; ep_dst := mj; ep_srcmodel := mi |}.

(* units.cpp: Units::UnitsImpl::isBaseUnitWithHistory; Units::isBaseUnit() starts it with an empty history *)
Fixpoint is_base_h (f : nat) (w : world) (h : hist) (mi : nat) (name : string) : res bool :=
  match f with
  | O => OutOfFuel
  | S f' =>
    match lookup w mi name with
    | None => Crash
    | Some (Import mj r) =>
        if Nat.ltb mj (length w)             (* model != nullptr *)
        then let e := new_epoch h mi mj in
             if import_cycle w h e then Ok false
             else match lookup w mj r with   (* model->hasUnits(ref) *)
                  | None => Ok false
                  | Some _ => is_base_h f' w (e :: h) mj r
                  end
        else Ok false
    | Some (Defs l) =>
        Ok ((Nat.eqb (length l) 0) && (if is_std_name name then is_base_name name else true))
    end
  end.
Definition is_base (f : nat) (w : world) (mi : nat) (name : string) : res bool := is_base_h f w [] mi name.

(* units.cpp: Units::UnitsImpl::performTestWithHistory; defined = true: TestType::DEFINED (Units::isDefined),
   false: TestType::RESOLVED (Units::isResolved).  The history is shared by the whole traversal (passed by reference):
   Ok (Some h') = returns true leaving history h'; Ok None = returns false (the history no longer matters: every caller
   returns false at once).  Before 94d567f the epoch pushed for an imported units was never popped (fx_pop = false);
   since then it is popped when the recursion returns (isBaseUnitWithHistory still does not pop, but it only follows
   one chain of imports, so nothing is ever visited after a return). *)
Fixpoint perform_test (fx : fixes) (defined : bool) (f : nat) (w : world) (h : hist) (mi : nat) (name : string) : res (option hist) :=
  match f with
  | O => OutOfFuel
  | S f' =>
    match lookup w mi name with
    | None => Crash
    | Some (Import mj r) =>
        match lookup w mj r with             (* model == nullptr, or model->units(ref) == nullptr *)
        | None => Ok None
        | Some _ =>
            let e := new_epoch h mi mj in
            if import_cycle w h e then Ok None
            else match perform_test fx defined f' w (e :: h) mj r with
                 | Ok (Some h') => Ok (Some (if fx_pop fx then tl h' else h'))     (* history.pop_back() *)
                 | x => x
                 end
        end
    | Some (Defs l) =>
        fold_opt (fun c h =>
          if is_std_name (uc_ref c) then Ok (Some h)
          else match lookup w mi (uc_ref c) with
               | Some _ => perform_test fx defined f' w h mi (uc_ref c)
               | None => Ok (if defined then None else Some h)
               end) l h
    end
  end.
Definition test_result (r : res (option hist)) : res bool :=
  match r with
  | Ok (Some _) => Ok true
  | Ok None => Ok false
  | OutOfFuel => OutOfFuel
  | Crash => Crash
  end.
Definition is_defined (fx : fixes) (f : nat) (w : world) (mi : nat) (name : string) : res bool :=
  test_result (perform_test fx true f w [] mi name).
Definition is_resolved (fx : fixes) (f : nat) (w : world) (mi : nat) (name : string) : res bool :=
  test_result (perform_test fx false f w [] mi name).

(* ------------------------------------------------------------------ units.cpp: base-unit exponent map *)

Definition umap := list (string * Q).

(* map[k] += d  (inserting k first when absent) *)
Fixpoint madd (k : string) (d : Q) (m : umap) : umap :=
  match m with
  | [] => [(k, d)]
  | (k', v) :: r => if String.eqb k k' then (k', v + d) :: r else (k', v) :: madd k d r
  end.

Definition get (m : umap) (k : string) : Q :=
  match assoc k m with Some v => v | None => 0 end.

(* units.cpp: updateUnitsMapWithStandardUnit (same code in analyser.cpp) *)
Definition add_std (name : string) (e : Q) (m : umap) : umap :=
  fold_left (fun m c => madd (fst c) (snd c * e) m) (std_components name) m.

(* units.cpp: updateUnitsMap *)
Fixpoint umap_go (fx : fixes) (f : nat) (w : world) (mi : nat) (name : string) (e : Q) (acc : umap) : res umap :=
  match f with
  | O => OutOfFuel
  | S f' =>
    match is_base f w mi name with
    | Ok true => Ok (madd name e acc)
    | Ok false =>
        match lookup w mi name with
        | None => Crash
        | Some (Import mj r) =>
            if is_std_name name then Ok (add_std name e acc)      (* isStandardUnit(units) is tested before isImport() *)
            else
            match lookup w mj r with
            | None => Crash                   (* importSource->model()->units(ref) is null *)
            | Some _ => umap_go fx f' w mj r (if fx_import fx then e else 1) acc   (* as coded: exponent not passed on *)
            end
        | Some (Defs l) =>
            if (Nat.eqb (length l) 0) && is_std_name name then Ok (add_std name e acc)      (* isStandardUnit(units) *)
            else
              fold_res (fun c a =>
                if is_std_name (uc_ref c) then Ok (add_std (uc_ref c) (uc_exp c * e) a)
                else match lookup w mi (uc_ref c) with
                     | None => Crash          (* model->units(ref) is null *)
                     | Some _ => umap_go fx f' w mi (uc_ref c) (uc_exp c * e) a
                     end) l acc
        end
    | OutOfFuel => OutOfFuel
    | Crash => Crash
    end
  end.

Definition qzero (q : Q) : bool := Qeq_bool q 0.

(* units.cpp: defineUnitsMap *)
Definition clean_map (m : umap) : umap :=
  filter (fun kv => negb (qzero (snd kv)) && negb (String.eqb (fst kv) "dimensionless")) m.
Definition define_units_map (fx : fixes) (f : nat) (w : world) (u : uref) : res umap :=
  match umap_go fx f w (fst u) (snd u) 1 [] with
  | Ok m => Ok (clean_map m)
  | OutOfFuel => OutOfFuel
  | Crash => Crash
  end.

(* the comparison loop of Units::compatible; utilities.cpp: areEqual(double,double) is exact equality here *)
Definition maps_equal (m1 m2 : umap) : bool :=
  Nat.eqb (length m1) (length m2) &&
  forallb (fun kv => match assoc (fst kv) m2 with
                     | Some v => Qeq_bool v (snd kv)
                     | None => false
                     end) m1.

(* units.cpp: Units::compatible; None = nullptr *)
Definition compatible (fx : fixes) (f : nat) (w : world) (a b : option uref) : res bool :=
  match a, b with
  | Some a, Some b =>
      match is_defined fx f w (fst a) (snd a) with
      | Ok true =>
          match is_defined fx f w (fst b) (snd b) with
          | Ok true =>
              match define_units_map fx f w a with
              | Ok ma => match define_units_map fx f w b with
                         | Ok mb => Ok (maps_equal ma mb)
                         | OutOfFuel => OutOfFuel
                         | Crash => Crash
                         end
              | OutOfFuel => OutOfFuel
              | Crash => Crash
              end
          | x => x
          end
      | x => x
      end
  | _, _ => Ok false
  end.

(* ------------------------------------------------------------------ units.cpp: log10 scale *)

(* units.cpp: updateUnitMultiplier.  Ok None: the function returns false; Ok (Some l): it returns true and
   adds l * direction to the caller's multiplier. *)
Fixpoint mult_go (fx : fixes) (f : nat) (w : world) (mi : nat) (name : string) : res (option Q) :=
  match f with
  | O => OutOfFuel
  | S f' =>
    match lookup w mi name with
    | None => Crash
    | Some (Import mj r) =>
        match is_resolved fx f w mi name with
        | Ok true =>
            match lookup w mj r with
            | None => Crash
            | Some _ => match mult_go fx f' w mj r with        (* the return value of the inner call is ignored *)
                        | Ok (Some l) => Ok (Some (0 + l * 1))
                        | Ok None => Ok (Some 0)
                        | x => x
                        end
            end
        | Ok false => Ok None
        | OutOfFuel => OutOfFuel
        | Crash => Crash
        end
    | Some (Defs l) =>
        if Nat.eqb (length l) 0
        then Ok (Some (if fx_std fx && is_std_name name then std_mult name else 0))
        else
          fold_opt (fun c s =>
            match convert_prefix (uc_prefix c) with
            | None => Ok None
            | Some p =>
                if is_std_name (uc_ref c)
                then Ok (Some (s + (uc_mult c + std_mult (uc_ref c) * uc_exp c + inject_Z p)))
                else match lookup w mi (uc_ref c) with
                     | None => Ok None
                     | Some _ => match mult_go fx f' w mi (uc_ref c) with
                                 | Ok (Some b) => Ok (Some (s + (uc_mult c + (0 + b * 1) * uc_exp c + inject_Z p)))
                                 | x => x
                                 end
                     end
            end) l 0
    end
  end.

Inductive factor := FZero | FPow (q : Q).     (* 0.0, or 10^q *)

(* units.cpp: Units::scalingFactor(units1, units2) with checkCompatibility = true *)
Definition scaling_factor (fx : fixes) (f : nat) (w : world) (a b : option uref) : res factor :=
  match compatible fx f w a b with
  | Ok false => Ok FZero
  | Ok true =>
      match a, b with
      | Some a, Some b =>
          match mult_go fx f w (fst a) (snd a) with
          | Ok r1 =>
              match mult_go fx f w (fst b) (snd b) with
              | Ok r2 =>
                  match r1, r2 with
                  | Some l1, Some l2 => Ok (FPow ((0 + l1 * (-1 # 1)) + l2 * 1))
                  | _, _ => Ok FZero
                  end
              | OutOfFuel => OutOfFuel
              | Crash => Crash
              end
          | OutOfFuel => OutOfFuel
          | Crash => Crash
          end
      | _, _ => Ok FZero
      end
  | OutOfFuel => OutOfFuel
  | Crash => Crash
  end.

(* units.cpp: Units::equivalent: scalingFactor == 1.0, i.e. 10^q == 1 *)
Definition equivalent (fx : fixes) (f : nat) (w : world) (a b : option uref) : res bool :=
  match scaling_factor fx f w a b with
  | Ok FZero => Ok false
  | Ok (FPow q) => Ok (qzero q)
  | OutOfFuel => OutOfFuel
  | Crash => Crash
  end.

(* ------------------------------------------------------------------ validator.cpp *)

Definition vstate := (umap * Q)%type.       (* unitMap, multiplier *)

(* unitMap.at(k) += d : throws std::out_of_range when k is absent (modelled as Crash) *)
Definition at_add (k : string) (d : Q) (m : umap) : res umap :=
  match assoc k m with Some _ => Ok (madd k d m) | None => Crash end.

Definition at_add_std (name : string) (d : Q) (m : umap) : res umap :=
  fold_res (fun c m => at_add (fst c) (d * snd c) m) (std_components name) m.

(* validator.cpp: updateBaseUnitCount *)
Fixpoint val_go (f : nat) (w : world) (mi : nat) (uname : string) (uexp logmult dir : Q) (s : vstate) : res vstate :=
  match f with
  | O => OutOfFuel
  | S f' =>
    match lookup w mi uname with
    | Some d =>
        match is_base f w mi uname with
        | Ok true => Ok (madd uname (dir * uexp) (fst s), snd s + dir * logmult)
        | Ok false =>
            match d with
            | Import _ _ => Ok s                  (* unitCount() == 0 *)
            | Defs l =>
                fold_res (fun c s =>
                  if negb (is_std_name (uc_ref c))
                  then val_go f' w mi (uc_ref c) (uc_exp c * uexp)
                         (logmult + uc_mult c * uexp + prefix_or_zero (uc_prefix c) * uexp) dir s
                  else match at_add_std (uc_ref c) (dir * (uc_exp c * uexp)) (fst s) with
                       | Ok m => Ok (m, snd s + dir * (logmult + (std_mult (uc_ref c) + uc_mult c + prefix_or_zero (uc_prefix c)) * uc_exp c))
                       | OutOfFuel => OutOfFuel
                       | Crash => Crash
                       end) l s
            end
        | OutOfFuel => OutOfFuel
        | Crash => Crash
        end
    | None =>
        if is_std_name uname
        then match at_add_std uname (dir * uexp) (fst s) with
             | Ok m => Ok (m, snd s + dir * (logmult + std_mult uname))
             | OutOfFuel => OutOfFuel
             | Crash => Crash
             end
        else Ok s
    end
  end.

(* one of the two symmetric blocks of unitsAreEquivalent *)
Definition val_side (f : nat) (w : world) (mi : nat) (name : string) (dir : Q) (s : vstate) : res vstate :=
  match lookup w mi name with
  | Some _ => val_go f w mi name 1 0 dir s
  | None =>
      match assoc name (fst s) with
      | Some _ => Ok (madd name dir (fst s), snd s)
      | None => if is_std_name name then val_go f w mi name 1 0 dir s else Ok s
      end
  end.

(* validator.cpp: unitsAreEquivalent(model, v1, v2, hints, multiplier) for variables whose units are named n1, n2:
   returns (status, multiplier) *)
Definition val_equiv (f : nat) (w : world) (mi : nat) (n1 n2 : string) : res (bool * Q) :=
  let s0 : vstate := (map (fun b => (b, 0)) base_units_list, 0) in
  match val_side f w mi n1 1 s0 with
  | Ok s1 =>
      match val_side f w mi n2 (-1 # 1) s1 with
      | Ok s2 =>
          let m := filter (fun kv => negb (String.eqb (fst kv) "dimensionless")) (fst s2) in
          Ok (forallb (fun kv => qzero (snd kv)) m, snd s2)
      | OutOfFuel => OutOfFuel
      | Crash => Crash
      end
  | OutOfFuel => OutOfFuel
  | Crash => Crash
  end.

(* the validator's log10 scale of one units: multiplier after the first block alone *)
Definition val_scale (f : nat) (w : world) (mi : nat) (n : string) : res Q :=
  match val_side f w mi n 1 (map (fun b => (b, 0)) base_units_list, 0) with
  | Ok s => Ok (snd s)
  | OutOfFuel => OutOfFuel
  | Crash => Crash
  end.

(* ------------------------------------------------------------------ analyser.cpp *)

(* analyser.cpp: Analyser::AnalyserImpl::updateUnitsMap with userUnitsMap = false *)
Fixpoint ana_map_go (f : nat) (w : world) (mi : nat) (name : string) (e : Q) (acc : umap) : res umap :=
  match f with
  | O => OutOfFuel
  | S f' =>
    if is_std_name name then Ok (add_std name e acc)
    else match lookup w mi name with
         | None => Crash                         (* model->units(unitsName) is null *)
         | Some d =>
             match is_base f w mi name with
             | Ok true => Ok (madd name e acc)
             | Ok false =>
                 match d with
                 | Import _ _ => Ok acc
                 | Defs l =>
                     fold_res (fun c a =>
                       if is_std_name (uc_ref c) then Ok (add_std (uc_ref c) (uc_exp c * e) a)
                       else ana_map_go f' w mi (uc_ref c) (uc_exp c * e) a) l acc
                 end
             | OutOfFuel => OutOfFuel
             | Crash => Crash
             end
         end
  end.

(* analyser.cpp: Analyser::AnalyserImpl::updateUnitsMultiplier *)
Fixpoint ana_mult_go (f : nat) (w : world) (mi : nat) (name : string) (e um : Q) (acc : Q) : res Q :=
  match f with
  | O => OutOfFuel
  | S f' =>
    if is_std_name name then Ok (acc + (um + std_mult name))
    else match lookup w mi name with
         | None => Crash
         | Some d =>
             match is_base f w mi name with
             | Ok true => Ok (acc + um)
             | Ok false =>
                 match d with
                 | Import _ _ => Ok acc
                 | Defs l =>
                     fold_res (fun c a =>
                       if is_std_name (uc_ref c)
                       then Ok (a + (um + (std_mult (uc_ref c) + uc_mult c + prefix_or_zero (uc_prefix c)) * uc_exp c * e))
                       else ana_mult_go f' w mi (uc_ref c) (uc_exp c * e)
                              (um + (uc_mult c + prefix_or_zero (uc_prefix c)) * e) a) l acc
                 end
             | OutOfFuel => OutOfFuel
             | Crash => Crash
             end
         end
  end.

Definition ana_map (f : nat) (w : world) (mi : nat) (n : string) : res umap := ana_map_go f w mi n 1 [].
Definition ana_scale (f : nat) (w : world) (mi : nat) (n : string) : res Q := ana_mult_go f w mi n 1 0 0.

(* analyser.cpp: areSameUnitsMaps on two single maps (areNearlyEqual(x, 0.0) is x == 0 here) *)
Definition ana_same_maps (m1 m2 : umap) : bool :=
  let nd := fun (kv : string * Q) => negb (String.eqb (fst kv) "dimensionless") in
  let d1 := fold_left (fun m kv => madd (fst kv) (snd kv) m) (filter nd m1) [] in
  let d2 := fold_left (fun m kv => madd (fst kv) (- snd kv) m) (filter nd m2) d1 in
  forallb (fun kv => qzero (snd kv)) d2.

(* what analyseEquationUnits decides for "x = y" with x in n1 and y in n2: same maps and same multipliers *)
Definition ana_equiv (f : nat) (w : world) (mi : nat) (n1 n2 : string) : res bool :=
  match ana_map f w mi n1, ana_map f w mi n2, ana_scale f w mi n1, ana_scale f w mi n2 with
  | Ok m1, Ok m2, Ok s1, Ok s2 => Ok (ana_same_maps m1 m2 && Qeq_bool s1 s2)
  | Crash, _, _, _ | _, Crash, _, _ | _, _, Crash, _ | _, _, _, Crash => Crash
  | _, _, _, _ => OutOfFuel
  end.

(* ------------------------------------------------------------------ printing helpers for the driver *)

Definition world_size (w : world) : nat := fold_left (fun n e => (n + length e)%nat) w 0%nat.
(* fuel used by the drivers: more than any acyclic world needs *)
Definition fuel_for (w : world) : nat := S (world_size w).

Definition q_num_string (q : Q) : string := z_to_string (Qnum (Qred q)).
Definition q_den_string (q : Q) : string := z_to_string (Zpos (Qden (Qred q))).
Definition q_of_ints (n : Z) (d : positive) : Q := Qmake n d.
