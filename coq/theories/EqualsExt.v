(** EqualsExt.v — equals only applies the comparison of doubles to pairs (one value from each operand);
    hence on trees whose exponents / multipliers are identical or far apart, the code's areNearlyEqual
    ([neq_abs]) and exact comparison ([Qeq_bool]) give the same equals (C10). *)
From Coq Require Import String List Bool ZArith QArith Qabs Arith Permutation Lia.
From LC Require Import EqualsDefs EqualsSpec EqualsProofs EqualsSimProofs EqualsCorrect EqualsAsIs.
Import ListNotations.
Local Close Scope Q_scope.
Local Open Scope bool_scope.

(** all exponents and multipliers of an entity *)
Definition doubles_ud (d : unitdef) : list Q := [ud_exp d; ud_mult d].
Definition doubles_u (u : units) : list Q := flat_map doubles_ud (u_defs u).
Definition doubles_ou (o : option units) : list Q := match o with Some u => doubles_u u | None => [] end.
Definition doubles_v (v : variable) : list Q := doubles_ou (v_units v).
Definition doubles_ov (o : option variable) : list Q := match o with Some v => doubles_v v | None => [] end.
Definition doubles_r (r : reset) : list Q := doubles_ov (r_var r) ++ doubles_ov (r_test r).
Definition doubles_shell (s : cshell) : list Q := flat_map doubles_v (c_vars s) ++ flat_map doubles_r (c_resets s).
Fixpoint doubles_c (c : component) : list Q :=
  match c with Comp s ks => doubles_shell s ++ flat_map doubles_c ks end.
Definition doubles_m (m : model) : list Q := flat_map doubles_u (m_units m) ++ flat_map doubles_c (m_comps m).
Definition doubles_e (e : entity) : list Q :=
  match e with
  | EModel m => doubles_m m | EComponent c => doubles_c c | EVariable v => doubles_v v
  | EUnits u => doubles_u u | EReset r => doubles_r r | EImportSource _ => []
  end.

Section Ext.
  Variables n1 n2 : Q -> Q -> bool.

  Definition agree (l1 l2 : list Q) : Prop :=
    forall x y, In x l1 -> In y l2 -> n1 x y = n2 x y /\ n1 y x = n2 y x.

  Lemma agree_sym : forall l1 l2, agree l1 l2 -> agree l2 l1.
  Proof. intros l1 l2 H x y Hx Hy. destruct (H y x Hy Hx). split; assumption. Qed.

  Lemma agree_incl : forall l1 l2 m1 m2, incl m1 l1 -> incl m2 l2 -> agree l1 l2 -> agree m1 m2.
  Proof. intros l1 l2 m1 m2 H1 H2 H x y Hx Hy. apply H; [apply H1|apply H2]; assumption. Qed.

  Lemma incl_flat_map_in : forall {A} (f : A -> list Q) x l, In x l -> incl (f x) (flat_map f l).
  Proof. intros A f x l Hx y Hy. apply in_flat_map. exists x. split; assumption. Qed.

  Lemma ext_unitdef : forall a b, agree (doubles_ud a) (doubles_ud b) -> eq_unitdef n1 a b = eq_unitdef n2 a b.
  Proof.
    intros a b H. unfold eq_unitdef.
    destruct (H (ud_exp a) (ud_exp b)) as [-> _]; [left; reflexivity|left; reflexivity|].
    destruct (H (ud_mult a) (ud_mult b)) as [-> _]; [right; left; reflexivity|right; left; reflexivity|]. reflexivity.
  Qed.

  Lemma ext_units : forall a b, agree (doubles_u a) (doubles_u b) -> eq_units n1 a b = eq_units n2 a b.
  Proof.
    intros a b H. unfold eq_units. f_equal. apply equal_entities_ext. intros x y Hx Hy. apply ext_unitdef.
    eapply agree_incl; [| |exact H]; apply incl_flat_map_in; assumption.
  Qed.

  Lemma ext_variable : forall a b, agree (doubles_v a) (doubles_v b) -> eq_variable n1 a b = eq_variable n2 a b.
  Proof.
    intros a b H. unfold eq_variable. f_equal. unfold doubles_v in H.
    destruct (v_units a), (v_units b); try reflexivity. apply ext_units. exact H.
  Qed.

  Lemma ext_optvar : forall a b, agree (doubles_ov a) (doubles_ov b) -> eq_optvar n1 a b = eq_optvar n2 a b.
  Proof. intros [x|] [y|] H; cbn [eq_optvar]; try reflexivity. apply ext_variable. exact H. Qed.

  Lemma ext_reset : forall a b, agree (doubles_r a) (doubles_r b) -> eq_reset n1 a b = eq_reset n2 a b.
  Proof.
    intros a b H. unfold eq_reset. unfold doubles_r in H. f_equal; [f_equal|]; apply ext_optvar.
    - eapply agree_incl; [| |exact H]; apply incl_appr; apply incl_refl.
    - eapply agree_incl; [| |exact H]; apply incl_appl; apply incl_refl.
  Qed.

  Lemma ext_shell_tail : forall fl a b, agree (doubles_shell a) (doubles_shell b) -> eq_shell_tail n1 fl a b = eq_shell_tail n2 fl a b.
  Proof.
    intros fl a b H. unfold eq_shell_tail, equal_resets, equal_variables, doubles_shell in *.
    assert (H1 : equal_entities (eq_reset n1) (c_resets a) (c_resets b) = equal_entities (eq_reset n2) (c_resets a) (c_resets b)).
    { apply equal_entities_ext. intros x y Hx Hy. apply ext_reset.
      eapply agree_incl; [| |exact H]; apply incl_appr; apply incl_flat_map_in; assumption. }
    assert (H2 : equal_entities (eq_variable n1) (c_vars a) (c_vars b) = equal_entities (eq_variable n2) (c_vars a) (c_vars b)).
    { apply equal_entities_ext. intros x y Hx Hy. apply ext_variable.
      eapply agree_incl; [| |exact H]; apply incl_appl; apply incl_flat_map_in; assumption. }
    rewrite H1, H2. reflexivity.
  Qed.

  Lemma ext_eqc : forall fl a b dir, agree (doubles_c a) (doubles_c b) -> eqc n1 fl dir a b = eqc n2 fl dir a b.
  Proof.
    intros fl. induction a as [sa ka IH] using component_ind'. intros [sb kb] dir H. rewrite Forall_forall in IH.
    rewrite !eqc_unfold. cbn [doubles_c] in H.
    assert (Hs : agree (doubles_shell sa) (doubles_shell sb)).
    { eapply agree_incl; [| |exact H]; apply incl_appl; apply incl_refl. }
    assert (Hk : forall x y, In x ka -> In y kb -> agree (doubles_c x) (doubles_c y)).
    { intros x y Hx Hy. eapply agree_incl; [| |exact H]; apply incl_appr; apply incl_flat_map_in; assumption. }
    destruct dir.
    - rewrite (ext_shell_tail fl sa sb Hs). f_equal. f_equal. apply kids_equal_ext. intros x y Hx Hy. apply IH; auto.
    - rewrite (ext_shell_tail fl sb sa (agree_sym _ _ Hs)). f_equal. f_equal. apply kids_equal_ext.
      intros y x Hy Hx. apply IH; auto.
  Qed.

  Lemma ext_model : forall fl a b, agree (doubles_m a) (doubles_m b) -> eq_model n1 fl a b = eq_model n2 fl a b.
  Proof.
    intros fl a b H. unfold eq_model, equal_units, doubles_m in *. rewrite !kids_equal_map_l. f_equal; [f_equal|f_equal].
    - apply kids_equal_ext. intros x y Hx Hy. apply ext_eqc.
      eapply agree_incl; [| |exact H]; apply incl_appr; apply incl_flat_map_in; assumption.
    - apply equal_entities_ext. intros x y Hx Hy. apply ext_units.
      eapply agree_incl; [| |exact H]; apply incl_appl; apply incl_flat_map_in; assumption.
  Qed.

  Theorem ext_entity : forall fl a b, agree (doubles_e a) (doubles_e b) -> eq_entity n1 fl a b = eq_entity n2 fl a b.
  Proof.
    intros fl [x|x|x|x|x|x] [y|y|y|y|y|y] H; cbn [eq_entity]; try reflexivity; cbn [doubles_e] in H.
    - apply ext_model. exact H.
    - apply ext_eqc. exact H.
    - apply ext_variable. exact H.
    - apply ext_units. exact H.
    - apply ext_reset. exact H.
  Qed.
End Ext.

(** identical, or further apart than DBL_EPSILON *)
Definition separated (l1 l2 : list Q) : Prop :=
  forall x y, In x l1 -> In y l2 -> (x == y \/ (1 # 4503599627370496) < Qabs (x - y))%Q.

(** on such trees the code's comparison of doubles may be read as exact equality: every theorem stated for
    [Qeq_bool] speaks about what the code computes *)
Theorem equals_separated : forall fl a b, separated (doubles_e a) (doubles_e b) ->
  eq_entity neq_abs fl a b = eq_entity Qeq_bool fl a b.
Proof.
  intros fl a b H. apply ext_entity. intros x y Hx Hy. split; apply neq_abs_far.
  - apply H; assumption.
  - destruct (H x y Hx Hy) as [He|Hl]; [left; symmetry; exact He|right].
    assert (Hm : (Qabs (y - x) == Qabs (x - y))%Q).
    { rewrite <- (Qabs_opp (x - y)). apply Qabs_wd. ring. }
    rewrite Hm. exact Hl.
Qed.
