(** GraphDefs.v — C18, executable model of the variable-equivalence graph and of its queries.
    No proofs here.

    A variable is a [nat] tag (which C++ object).  A variable owns a vector of *weak* pointers to its
    equivalent variables (src/variable_p.h: mEquivalentVariables); a weak pointer to a destroyed
    variable is expired.  [wadj g v] is that raw vector, [alive g v] says whether the object still
    exists.

    src/variable.cpp: Variable::equivalentVariable / equivalentVariableCount   -> [eqv], [equivalent_variable]
    src/variable.cpp: VariableImpl::findEquivalentVariable                      -> [find_equivalent]
    src/variable.cpp: haveEquivalentVariables                                   -> [dfs], [dfs_loop]
    src/variable.cpp: VariableImpl::hasIndirectEquivalentVariable               -> [has_indirect]
    src/variable.cpp: VariableImpl::hasEquivalentVariable, Variable::hasEquivalentVariable -> [has_direct], [has_equivalent]
    src/utilities.cpp: areEquivalentVariables                                   -> [are_equivalent]
    src/variable.cpp: Variable::addEquivalence/2, VariableImpl::setEquivalentTo,
                      unsetEquivalentTo, cleanExpiredVariables                  -> [add_equivalence] ...
    src/analysermodel.cpp: AnalyserModel::areEquivalentVariables               -> [model_queries] (cache of KeyDefs)
*)
From Coq Require Import List Arith Bool NArith.
From LC Require Import KeyDefs.
Import ListNotations.

Record graph := { wadj : nat -> list nat;     (* mEquivalentVariables of each variable, expired entries included *)
                  alive : nat -> bool }.       (* the object exists (some shared_ptr holds it) *)

(** Variable::equivalentVariable(i) / equivalentVariableCount(): the i-th / the number of entries
    whose lock() is non-null, in vector order.  [eqv g v] is that filtered sequence. *)
Definition eqv (g : graph) (v : nat) : list nat := filter (alive g) (wadj g v).
Definition equivalent_variable (g : graph) (v i : nat) : option nat := nth_error (eqv g v) i.
Definition equivalent_variable_count (g : graph) (v : nat) : nat := length (eqv g v).

Definition mem (x : nat) (l : list nat) : bool := existsb (Nat.eqb x) l.     (* std::find(...) != end *)

(** haveEquivalentVariables(variable1 = target, variable2 = cur, testedVariables):

      if (variable1 == variable2) return true;
      if (variable2 == nullptr) return false;        // only possible for the outermost call: see [has_indirect]
      testedVariables.push_back(variable2);
      for (i = 0; i < variable2->equivalentVariableCount(); ++i) {
          e = variable2->equivalentVariable(i).get();
          if (find(tested, e) == end && haveEquivalentVariables(variable1, e, testedVariables)) return true;
      }
      return false;

    The vector is shared by reference: what an inner call pushed stays visible to the rest of the
    loop and to the callers, so the function returns the vector as well.  Only membership in
    the vector is ever observed, hence [cons] for [push_back].  The recursion of the C++ has no
    bound; here it is driven by [fuel], and running out of fuel is the distinct value [None]
    (GraphProofs.dfs_fuel_enough: it never happens with fuel >= number of vertices).  The search
    runs *from the argument towards the receiver* ([cur] starts at the argument). *)
Section Loop.
  Variable rec : nat -> list nat -> option (bool * list nat).
  Fixpoint dfs_loop (ns : list nat) (tested : list nat) : option (bool * list nat) :=
    match ns with
    | [] => Some (false, tested)
    | e :: r =>
        if mem e tested then dfs_loop r tested
        else match rec e tested with
             | None => None
             | Some (true, t') => Some (true, t')
             | Some (false, t') => dfs_loop r t'
             end
    end.
End Loop.

Fixpoint dfs (fuel : nat) (g : graph) (target cur : nat) (tested : list nat) : option (bool * list nat) :=
  match fuel with
  | O => None
  | S f =>
      if target =? cur then Some (true, tested)
      else dfs_loop (dfs f g target) (eqv g cur) (cur :: tested)
  end.

(** VariableImpl::hasIndirectEquivalentVariable(equivalentVariable) on the variable [a] (= mVariable):
      if (mVariable == equivalentVariable.get()) return false;
      std::vector<const Variable *> testedVariables;
      return haveEquivalentVariables(mVariable, equivalentVariable.get(), testedVariables);
    A pointer argument is [option nat]; [None] is nullptr. *)
Definition has_indirect (fuel : nat) (g : graph) (a : nat) (p : option nat) : option bool :=
  match p with
  | None => Some false
  | Some b =>
      if a =? b then Some false
      else match dfs fuel g a b [] with
           | Some (r, _) => Some r
           | None => None
           end
  end.

(** weak_ptr::lock(): the object, or null when expired. *)
Definition lock (g : graph) (e : nat) : option nat := if alive g e then Some e else None.

Definition optnat_eqb (p q : option nat) : bool :=
  match p, q with
  | None, None => true
  | Some x, Some y => x =? y
  | _, _ => false
  end.

(** VariableImpl::findEquivalentVariable: find_if(entries, equivalentVariable == entry.lock()). *)
Definition find_equivalent (g : graph) (a : nat) (p : option nat) : option nat :=
  find (fun e => optnat_eqb p (lock g e)) (wadj g a).

(** VariableImpl::hasEquivalentVariable(v, false):
      it = findEquivalentVariable(v); if (it == end) return false; return !it->expired(); *)
Definition has_direct (g : graph) (a : nat) (p : option nat) : bool :=
  match find_equivalent g a p with
  | None => false
  | Some e => alive g e
  end.

(** Variable::hasEquivalentVariable(equivalentVariable, considerIndirectEquivalences). *)
Definition has_equivalent (fuel : nat) (g : graph) (a : nat) (p : option nat) (indirect : bool) : option bool :=
  if indirect then has_indirect fuel g a p else Some (has_direct g a p).

(** utilities.cpp: areEquivalentVariables(variable1, variable2) =
      (variable1 == variable2) || variable1->hasEquivalentVariable(variable2, true)
    (both arguments non-null: the function dereferences variable1). *)
Definition are_equivalent (fuel : nat) (g : graph) (a b : nat) : option bool :=
  if a =? b then Some true else has_equivalent fuel g a (Some b) true.

(** ** Construction of graphs through the public API *)

Definition upd {A : Type} (f : nat -> A) (k : nat) (x : A) : nat -> A :=
  fun j => if j =? k then x else f j.

Definition set_wadj (g : graph) (a : nat) (l : list nat) : graph :=
  {| wadj := upd (wadj g) a l; alive := alive g |}.

(** VariableImpl::cleanExpiredVariables: erase(remove_if(expired)). *)
Definition clean_expired (g : graph) (a : nat) : graph := set_wadj g a (filter (alive g) (wadj g a)).

(** VariableImpl::setEquivalentTo(v):
      cleanExpiredVariables(); if (!hasEquivalentVariable(v)) { push_back(v); return true; } return false; *)
Definition set_equivalent_to (g : graph) (a b : nat) : graph * bool :=
  let g1 := clean_expired g a in
  if has_direct g1 a (Some b) then (g1, false)
  else (set_wadj g1 a (wadj g1 a ++ [b]), true).

Fixpoint remove_first (f : nat -> bool) (l : list nat) : list nat :=
  match l with
  | [] => []
  | x :: t => if f x then t else x :: remove_first f t
  end.

(** VariableImpl::unsetEquivalentTo(v): cleanExpiredVariables(); erase the entry found by
    findEquivalentVariable(v), if any (the id maps play no part in the queries). *)
Definition unset_equivalent_to (g : graph) (a b : nat) : graph :=
  let g1 := clean_expired g a in
  set_wadj g1 a (remove_first (fun e => optnat_eqb (Some b) (lock g1 e)) (wadj g1 a)).

(** Variable::addEquivalence(variable1, variable2):
      if (v1 != nullptr && v2 != nullptr) {
        canAdd1 = v1->setEquivalentTo(v2); canAdd2 = v2->setEquivalentTo(v1);
        if (canAdd1 && !canAdd2) v1->unsetEquivalentTo(v2);
        return canAdd1 && canAdd2; }
      return false;
    A destroyed variable can only be named by a null pointer, hence the [alive] guard. *)
Definition add_equivalence (g : graph) (a b : nat) : graph :=
  if alive g a && alive g b then
    let (g1, can1) := set_equivalent_to g a b in
    let (g2, can2) := set_equivalent_to g1 b a in
    if can1 && negb can2 then unset_equivalent_to g2 a b else g2
  else g.

(** The last shared_ptr to the variable goes away: the object and its vector are destroyed, every
    weak pointer to it expires (nothing else is touched). *)
Definition expire (g : graph) (a : nat) : graph :=
  {| wadj := upd (wadj g) a []; alive := upd (alive g) a false |}.

(** VariableImpl::unsetEquivalentTo returns whether findEquivalentVariable found an entry (after the clean). *)
Definition unset_found (g : graph) (a b : nat) : bool :=
  match find_equivalent (clean_expired g a) a (Some b) with Some _ => true | None => false end.

(** Variable::removeEquivalence(variable1, variable2):
      if (v1 != nullptr && v2 != nullptr) { if (v1->unsetEquivalentTo(v2)) return v2->unsetEquivalentTo(v1); }
      return false;
    (a failed first unset has still cleaned the list of v1; v2 is then not touched). *)
Definition remove_equivalence (g : graph) (a b : nat) : graph :=
  if alive g a && alive g b then
    if unset_found g a b then unset_equivalent_to (unset_equivalent_to g a b) b a
    else clean_expired g a
  else g.

(** Variable::removeAllEquivalences():
      for (weak : mEquivalentVariables) { e = weak.lock(); if (e != nullptr) e->unsetEquivalentTo(this); }
      mEquivalentVariables.clear();
    (the loop runs over the live entries, in order; a variable never lists itself:
     GraphProofs.step_wf keeps [irreflexive], so the vector is not modified while it is traversed). *)
Definition remove_all_equivalences (g : graph) (a : nat) : graph :=
  if alive g a then
    set_wadj (fold_left (fun h e => unset_equivalent_to h e a) (eqv g a) g) a []
  else g.

(** Edits.  The last three do not touch the weak lists:
    - [AddEq4 a b]: Variable::addEquivalence(v1, v2, mappingId, connectionId) = addEquivalence(v1, v2), then the
      two identifiers are recorded in mMappingIdMap / mConnectionIdMap of both variables;
    - [IdOp a b]: Variable::setEquivalenceMappingId / setEquivalenceConnectionId / removeEquivalenceMappingId /
      removeEquivalenceConnectionId (v1, v2, ...): they only write the identifier maps (after asking
      hasEquivalentVariable(v2, true));  no query function reads those maps;
    - [Reparse]: the model is printed (Printer) and the text parsed (Parser); the history goes on with the
      objects of the parsed model.  That this keeps the equivalences is C02's statement, assumed here and
      observed by the correspondence run. *)
Inductive op := AddEq (a b : nat) | Expire (a : nat) | RemEq (a b : nat) | RemAll (a : nat)
              | AddEq4 (a b : nat) | IdOp (a b : nat) | Reparse.

Definition step (g : graph) (o : op) : graph :=
  match o with
  | AddEq a b => add_equivalence g a b
  | Expire a => expire g a
  | RemEq a b => remove_equivalence g a b
  | RemAll a => remove_all_equivalences g a
  | AddEq4 a b => add_equivalence g a b
  | IdOp _ _ => g
  | Reparse => g
  end.

Definition empty_graph : graph := {| wadj := fun _ => []; alive := fun _ => true |}.

Definition build (ops : list op) : graph := fold_left step ops empty_graph.

(** Same graph on the vertices below [n], stored as tables (the drivers run thousands of queries on
    one graph; looking a vertex up must not replay the construction). *)
Definition freeze (n : nat) (g : graph) : graph :=
  {| wadj := let t := map (wadj g) (seq 0 n) in fun v => nth v t [];
     alive := let t := map (alive g) (seq 0 n) in fun v => nth v t false |}.

(** ** AnalyserModel::areEquivalentVariables on a graph: the memoised query of KeyDefs, keyed by the
    ordered pair of the addresses of the two objects ([addr] : which address the allocator gave to
    each variable). *)
Definition model_key (addr : nat -> N) (a b : nat) : N * N := pairkey (addr a) (addr b).

Definition model_queries (addr : nat -> N) (fuel : nat) (g : graph) (qs : list (nat * nat)) : list (option bool) :=
  answers pair_eqb (model_key addr) (are_equivalent fuel g) [] qs.

(** The same history with the key the code used before commit 00f1ed0. *)
Definition model_queries_key64 (addr : nat -> N) (fuel : nat) (g : graph) (qs : list (nat * nat)) : list (option bool) :=
  answers N.eqb (fun a b => key64 (addr a) (addr b)) (are_equivalent fuel g) [] qs.

(** A concrete placement used by the drivers: 16-aligned heap-like addresses, one per variable
    (any injective placement gives the same answers: GraphProofs.model_queries_correct). *)
Definition heap_addr (v : nat) : N := (94354814632256 + 16 * N.of_nat v)%N.   (* 0x55d0b1358140 + 16 v *)

(** ** Histories: edits of the graph interleaved with queries.

    The library keeps no state between two queries on Variable objects, and an AnalyserModel cache
    belongs to one AnalyserModel (a snapshot: the drivers take a fresh AnalyserModel after every
    edit), so: an edit changes the graph and empties the cache; a question is answered on the graph
    as it is at that moment. *)
Inductive qkind := QIndirect      (* a->hasEquivalentVariable(b, true) *)
                 | QDirect        (* a->hasEquivalentVariable(b, false) *)
                 | QUtil          (* libcellml::areEquivalentVariables(a, b), utilities.cpp *)
                 | QCached.       (* AnalyserModel::areEquivalentVariables(a, b) on the current AnalyserModel *)
Inductive event := Edit (o : op) | Ask (k : qkind) (a b : nat).

Definition hcache := cache (N * N) (option bool).

Definition ask (n : nat) (g : graph) (c : hcache) (k : qkind) (a b : nat) : option bool * hcache :=
  match k with
  | QIndirect => (has_equivalent n g a (Some b) true, c)
  | QDirect => (has_equivalent n g a (Some b) false, c)
  | QUtil => (are_equivalent n g a b, c)
  | QCached => query pair_eqb (model_key heap_addr) (are_equivalent n g) c a b
  end.

Fixpoint run_history (n : nat) (g : graph) (c : hcache) (h : list event) : list (option bool) :=
  match h with
  | [] => []
  | Edit o :: t => run_history n (freeze n (step g o)) [] t
  | Ask k a b :: t => let (r, c') := ask n g c k a b in r :: run_history n g c' t
  end.

Fixpoint final_graph (n : nat) (g : graph) (h : list event) : graph :=
  match h with
  | [] => g
  | Edit o :: t => final_graph n (freeze n (step g o)) t
  | Ask _ _ _ :: t => final_graph n g t
  end.
