(** ExternalDefs.v — executable model of the external-variable machinery of libcellml (C20), on top of the analysis
    model of C05 (AnalysisDefs.v, whose [mark_external], third pass, NLA-unknown pruning and EXTERNAL typing are used
    as they are).

    Transcribes, as the code is now:
      /repo/src/analyserexternalvariable.cpp : AnalyserExternalVariable::addDependency
      /repo/src/analyser.cpp                 : Analyser::addExternalVariable,
                                               AnalyserImpl::analyseModel  "Mark some variables as external variables"
                                               (primaryExternalVariables) and "Check that the variables that were marked
                                               as external were rightly so" (the three MESSAGE-level issues),
                                               hasExternalVariables, AnalyserImpl::isStateRateBased
      /repo/src/generator.cpp                : GeneratorImpl::isToBeComputedAgain, isSomeConstant, generateEquationCode
                                               (dependency recursion, EXTERNAL / NLA / default cases),
                                               addImplementationInitialiseVariablesMethodCode,
                                               addImplementationComputeComputedConstantsMethodCode,
                                               addImplementationComputeRatesMethodCode,
                                               addImplementationComputeVariablesMethodCode  (as sequences of statements)

    [voi_fix] selects the code with fixes/C20-voi-external.diff (the variable of integration is un-marked when the
    message "cannot be used as an external variable" is issued; it is recognised through its internal variable);
    [sibling_fix] the code with fixes/C20-nla-sibling-dependencies.diff; [nla_dep_fix] fixes/C20-nla-external-dependency.diff.

    No proofs here. *)
From Coq Require Import List Bool Arith PeanoNat.
From LC Require Import AnalysisDefs AnalysisSpec.
Import ListNotations.
Local Open Scope bool_scope.

(* ------------------------------------------------------------------------------------------ marks *)

(** A Variable object handed to the analyser: a variable of the model being analysed, or variable [k] of ANOTHER
    model (all foreign variables live in one other model and have no equivalences). *)
Inductive xvar := XLocal (r : vref) | XForeign (k : nat).

(** AnalyserExternalVariable: mVariable, mDependencies *)
Record xmark := mkXmark { xm_var : xvar; xm_deps : list xvar }.

Definition xvar_eqb (a b : xvar) : bool :=
  match a, b with
  | XLocal x, XLocal y => vref_eqb x y
  | XForeign i, XForeign j => i =? j
  | _, _ => false
  end.
(* owningModel(a) == owningModel(b) *)
Definition same_model (a b : xvar) : bool :=
  match a, b with XLocal _, XLocal _ | XForeign _, XForeign _ => true | _, _ => false end.
(* areEquivalentVariables(a, b): the same variable, or connected *)
Definition equivalent (s : system) (a b : xvar) : bool :=
  match a, b with
  | XLocal x, XLocal y => cls_of s x =? cls_of s y
  | XForeign i, XForeign j => i =? j
  | _, _ => false
  end.

(* analyserexternalvariable.cpp: AnalyserExternalVariable::addDependency *)
Definition add_dependency (s : system) (m : xmark) (d : xvar) : xmark * bool :=
  if same_model d (xm_var m) && negb (existsb (xvar_eqb d) (xm_deps m)) && negb (equivalent s d (xm_var m))
  then (mkXmark (xm_var m) (xm_deps m ++ [d]), true)
  else (m, false).

(* AnalyserExternalVariable::create(v) followed by addDependency(d) for every d of [ds]: the object and the return values *)
Definition make_mark (s : system) (v : xvar) (ds : list xvar) : xmark * list bool :=
  fold_left (fun acc d => let '(m, bs) := acc in let '(m1, b) := add_dependency s m d in (m1, bs ++ [b])) ds (mkXmark v [], []).

(* analyser.cpp: Analyser::addExternalVariable — objects are compared by identity ([nat] tag) *)
Definition add_external_variable (l : list (nat * xmark)) (x : nat * xmark) : list (nat * xmark) * bool :=
  if existsb (fun y => fst y =? fst x) l then (l, false) else (l ++ [x], true).

Definition local_of (x : xvar) : option vref := match x with XLocal r => Some r | XForeign _ => None end.
Definition local_deps (m : xmark) : list vref := filter_map local_of (xm_deps m).
(* what AnalysisDefs.analyse_ext takes: the marks on variables of this model *)
Definition local_marks (marks : list xmark) : list (vref * list vref) :=
  filter_map (fun m => option_map (fun r => (r, local_deps m)) (local_of (xm_var m))) marks.

(* ------------------------------------------------------------------------------------------ messages *)

Inductive xrule := XDifferentModel        (* ANALYSER_EXTERNAL_VARIABLE_DIFFERENT_MODEL *)
                 | XVoi                   (* ANALYSER_EXTERNAL_VARIABLE_VOI *)
                 | XUsePrimary.           (* ANALYSER_EXTERNAL_VARIABLE_USE_PRIMARY_VARIABLE *)
Record xissue := mkXissue { xi_rule : xrule; xi_item : xvar }.      (* all of level MESSAGE *)

(* std::map<VariablePtr, VariablePtrs> primaryExternalVariables, as an association list in insertion order (the C++
   map is iterated in pointer order: only the multiset of messages is meaningful) *)
Notation pev := (list (vref * list vref)) (only parsing).
Fixpoint pev_add (key v : vref) (l : pev) : pev :=
  match l with
  | [] => [(key, [v])]
  | (k, vs) :: r => if vref_eqb k key then (k, vs ++ [v]) :: r else (k, vs) :: pev_add key v r
  end.

(* analyseModel: one iteration of "for (const auto &externalVariable : mExternalVariables)" *)
Definition mark_step (s : system) (acc : list ivar * pev * list xissue) (m : xmark) : list ivar * pev * list xissue :=
  let '(ivs, pe, iss) := acc in
  match xm_var m with
  | XForeign k => (ivs, pe, iss ++ [mkXissue XDifferentModel (XForeign k)])
  | XLocal r =>
      let key := iv_var (geti ivs (ivar_of s ivs r)) in          (* internalVariable->mVariable *)
      (mark_external s ivs (r, local_deps m), pev_add key r pe, iss)
  end.

(** DEFECT C20-voi-marked-external.  The variable of integration marked as external gets the message "... cannot be
    used as an external variable", but its internal variable keeps mIsExternal: the analysed model gains an EXTERNAL
    variable without equation (and the variable of integration is only recognised by pointer comparison with
    voiFirstOccurrence).  [voi_fix = true] is the code with fixes/C20-voi-external.diff. *)
Definition voi_fix : bool := true.

Definition clear_ext (v : ivar) : ivar :=
  mkIvar (iv_cls v) (iv_type v) (iv_index v) false (iv_initvar v) (iv_var v) [].

(* analyseModel: one iteration of "for (const auto &primaryExternalVariable : primaryExternalVariables)" *)
Definition check_step (fixed : bool) (s : system) (voi : option vref) (acc : list ivar * list xissue) (entry : vref * list vref)
  : list ivar * list xissue :=
  let '(ivs, iss) := acc in
  let '(key, vs) := entry in
  let p := ivar_of s ivs key in
  let is_voi := if fixed then vtype_eqb (iv_type (geti ivs p)) VVoi
                else match voi with Some v => vref_eqb key v | None => false end in
  let has_primary := existsb (vref_eqb key) vs in
  let iss1 := if is_voi || (1 <? length vs) || negb has_primary
              then iss ++ [mkXissue (if is_voi then XVoi else XUsePrimary) (XLocal key)] else iss in
  let ivs1 := if fixed && is_voi then upd ivs p (clear_ext (geti ivs p)) else ivs in
  (ivs1, iss1).

(** The whole of Analyser::analyseModel for a validated model, with the marks: outcome, MESSAGE-level issues about the
    marks (in addition to the ERROR-level issues inside the outcome), AnalyserModel::hasExternalVariables(). *)
Record xresult := mkXresult { xr_outcome : outcome; xr_messages : list xissue; xr_has_ext : bool }.

(** DEFECT C20-nla-external-dependency.  An external variable pruned from the unknowns of an NLA equation gets its
    placeholder equation "so that the NLA equation can have a dependency on it", but check() had dropped that dependency
    (the variable was an unknown of the equation) and nothing restored it.  [dfx = true] is the code with
    fixes/C20-nla-external-dependency.diff: in the pruning block of analyseModel the pruned variables are pushed onto
    mDependencies.  (nla_group does not look at ie_deps, so this is the same as doing it just before.) *)
Definition nla_ext_deps (dfx : bool) (ivs : list ivar) (e : ieq) : ieq :=
  if dfx && is_nla e
  then mkIeq (ie_id e) (ie_comp e) (ie_type e) (ie_lhs e) (ie_rhs e) (ie_diffs e)
             (ie_deps e ++ map (fun p => iv_var (geti ivs p)) (filter (fun p => iv_external (geti ivs p)) (ie_unknown e)))
             (ie_vars e) (ie_odes e) (ie_all e) (ie_unknown e) (ie_nla e) (ie_sibs e) (ie_tc e) (ie_vc e)
  else e.
Definition nla_dep_fix : bool := false.   (* the repair was tried and withdrawn: see known finding C20-nla-external-dependency *)

(** DEFECT C20-uninitialised-state-not-rescued.  A variable used in an ODE without initial value (SHOULD_BE_STATE) that is
    marked as external stayed "not initialised": the third pass only rescues external variables of type UNKNOWN.
    [srf = true] is the code with fixes/C20-uninitialised-state-rescue.diff: right after the check of the marks, an
    external SHOULD_BE_STATE variable becomes a STATE (its ODE then turns into the placeholder equation, as for an
    initialised state). *)
Definition state_rescue (srf : bool) (v : ivar) : ivar :=
  if srf && iv_external v && vtype_eqb (iv_type v) VShouldBeState then set_type v VState else v.
Definition state_rescue_fix : bool := true.

Definition analyse_xg (fixed dfx srf : bool) (s : system) (marks : list xmark) : xresult :=
  if negb (resolvable s) then mkXresult Malformed [] false else
  match build s with
  | None => mkXresult Malformed [] false
  | Some (ivs0, es0) =>
      match check_inits s ivs0 0 s with
      | (_ :: _) as iss0 => mkXresult (Done (invalid_result MInvalid iss0)) [] false
      | [] =>
          let '(ivs1, pe, xi1) := fold_left (mark_step s) marks (ivs0, [], []) in
          let vst := analyse_asts s ivs1 es0 in
          match vs_issues vst with
          | _ :: _ => mkXresult (Done (invalid_result MInvalid (vs_issues vst))) xi1 false
          | [] =>
              let '(ivs2, xi2) := fold_left (check_step fixed s (vs_voi vst)) pe (vs_ivs vst, []) in
              match loop s (loop_fuel es0) 1 false (mkCs (map (state_rescue srf) ivs2) 0 0) es0 with
              | None => mkXresult OutOfFuel (xi1 ++ xi2) false
              | Some (st, es1) =>
                  let r := finish s (vs_voi vst) (cs_ivs st) (map (nla_ext_deps dfx (cs_ivs st)) es1) (cs_vidx st) in
                  mkXresult (Done r) (xi1 ++ xi2) (valid_type (r_type r) && existsb iv_external ivs2)
              end
          end
      end
  end.

(* [fixed = true]: the repaired analyser (both analyser patches); [false]: the code before them *)
Definition analyse_x (fixed : bool) (s : system) (marks : list xmark) : xresult :=
  analyse_xg fixed (fixed && nla_dep_fix) (fixed && state_rescue_fix) s marks.

Definition analyse_marked (s : system) (marks : list xmark) : xresult := analyse_x voi_fix s marks.

(* ------------------------------------------------------------------------------------------ what the property speaks about *)

(* the classes marked through a variable of the model *)
Definition marked_classes (s : system) (marks : list xmark) : list nat :=
  filter_map (fun m => option_map (cls_of s) (local_of (xm_var m))) marks.
Definition voi_class (s : system) (r : result) : option nat := option_map (cls_of s) (r_voi r).
Definition is_voi_class (s : system) (r : result) (k : nat) : bool :=
  match voi_class s r with Some c => c =? k | None => false end.

(* the variable of integration that analyseEquationAst finds (it does not depend on the marks) *)
Definition model_voi (s : system) : option vref :=
  match build s with Some (ivs0, es0) => vs_voi (analyse_asts s ivs0 es0) | None => None end.
Definition is_voi_mark (s : system) (m : xmark) : bool :=
  match xm_var m, model_voi s with XLocal r, Some v => cls_of s r =? cls_of s v | _, _ => false end.
Definition is_local_mark (m : xmark) : bool := match xm_var m with XLocal _ => true | XForeign _ => false end.
(* two marks on variables of the same class (or both foreign) with the same declared dependencies *)
Definition same_class_mark (s : system) (m m' : xmark) : Prop :=
  xm_deps m = xm_deps m' /\
  match xm_var m, xm_var m' with
  | XLocal r, XLocal r' => cls_of s r = cls_of s r'
  | XForeign _, XForeign _ => True
  | _, _ => False
  end.

(* type and defining equations of the class k in a result: (type, [(equation id, type, computed variables as classes)]) *)
Definition qtype_eqb (a b : qtype) : bool :=
  match a, b with
  | QTrueConst, QTrueConst | QVarBasedConst, QVarBasedConst | QOde, QOde | QNla, QNla | QAlgebraic, QAlgebraic
  | QExternal, QExternal => true
  | _, _ => false
  end.
Definition avar_of_class (s : system) (r : result) (k : nat) : option avar :=
  find (fun a => cls_of s (av_var a) =? k) (all_avars r).
Definition definition_of (s : system) (r : result) (k : nat) : option (atype * list (option nat * qtype)) :=
  match avar_of_class s r k with
  | None => None
  | Some a => Some (av_type a, map (fun e => (ae_id e, ae_type e)) (filter_map (find_aeq r) (av_eqs a)))
  end.

(** depends_on: class [k] reaches a marked class through the input equations: an equation links all the classes it
    mentions (as plain variables, under diff, or as the variable of differentiation ... the latter is excluded: every
    ODE mentions the variable of integration).  This is the UNDIRECTED notion (connected component of the bipartite
    class-equation graph without the variable of integration); the directed one is contained in it. *)
Fixpoint expr_classes (s : system) (c : nat) (e : expr) : list nat :=
  match e with
  | EVar n => match find_var (get_comp s c) n with Some i => [cls_of s (c, i)] | None => [] end
  | EDiff _ x => match find_var (get_comp s c) x with Some i => [cls_of s (c, i)] | None => [] end
  | ECn => []
  | EOp a b => expr_classes s c a ++ expr_classes s c b
  end.
Definition equation_classes (s : system) : list (list nat) :=
  flat_map (fun ck => map (fun q => expr_classes s (fst ck) (q_lhs q) ++ expr_classes s (fst ck) (q_rhs q)) (c_eqs (snd ck)))
           (combine (seq 0 (length s)) s).
(* one round: every class sharing an equation with a reached class is reached *)
Definition reach_step (eqs : list (list nat)) (reached : list nat) : list nat :=
  fold_left (fun acc ks => if existsb (fun k => mem_nat k acc) ks then dedup_app acc ks else acc) eqs reached.
Fixpoint reach (fuel : nat) (eqs : list (list nat)) (reached : list nat) : list nat :=
  match fuel with 0 => reached | S f => reach f eqs (reach_step eqs reached) end.
Definition linked_classes (s : system) (from : list nat) : list nat :=
  reach (length (equation_classes s)) (equation_classes s) (dedup_app [] from).
Definition depends_on (s : system) (k : nat) (marked : list nat) : bool := mem_nat k (linked_classes s marked).

(* ------------------------------------------------------------------------------------------ emission order (generator.cpp) *)

Section Emission.
Variable r : result.
Variable sfx : bool.            (* with fixes/C20-nla-sibling-dependencies.diff? *)

Definition is_state_var (v : vref) : bool := existsb (fun a => vref_eqb (av_var a) v) (r_states r).

(* analyser.cpp: AnalyserImpl::isStateRateBased (checkedEquations is shared by the whole recursion) *)
Fixpoint srb (fuel : nat) (pos : nat) (checked : list nat) : bool * list nat :=
  match fuel with
  | 0 => (false, checked)
  | S f =>
      if mem_nat pos checked then (false, checked) else
      let checked1 := checked ++ [pos] in
      match find_aeq r pos with
      | None => (false, checked1)
      | Some e =>
          (fix go (deps : list nat) (ch : list nat) {struct deps} : bool * list nat :=
             match deps with
             | [] => (false, ch)
             | d :: rest =>
                 match find_aeq r d with
                 | None => go rest ch
                 | Some de =>
                     if qtype_eqb (ae_type de) QOde
                        || (qtype_eqb (ae_type de) QNla && (length (ae_vars de) =? 1)
                            && match ae_vars de with v :: _ => is_state_var v | [] => false end)
                     then (true, ch)
                     else let '(b, ch1) := srb f d ch in if b then (true, ch1) else go rest ch1
                 end
             end) (ae_deps e) checked1
      end
  end.
Definition state_rate_based (pos : nat) : bool := fst (srb (S (length (r_eqs r))) pos []).

(* generator.cpp: isToBeComputedAgain *)
Definition to_be_computed_again (e : aeq) : bool :=
  match ae_type e with
  | QNla | QAlgebraic => state_rate_based (ae_pos e)
  | QExternal => true
  | _ => false
  end.
(* generator.cpp: isSomeConstant *)
Definition is_some_constant (e : aeq) (include_computed_constants : bool) : bool :=
  match ae_type e with
  | QTrueConst => true
  | QVarBasedConst => negb include_computed_constants
  | _ => false
  end.

Fixpoint remove_nat (x : nat) (l : list nat) : list nat :=       (* erase(find(...)): the first occurrence *)
  match l with [] => [] | y :: t => if y =? x then t else y :: remove_nat x t end.

(* the test under which generateEquationCode recurses into a dependency *)
Definition dep_wanted (icc : bool) (efd : list nat) (d : aeq) : bool :=
  negb (qtype_eqb (ae_type d) QOde) && negb (is_some_constant d icc)
  && (match efd with [] => true | _ => false end || to_be_computed_again d || mem_nat (ae_pos d) efd).

(** DEFECT C20-nla-sibling-dependencies.  generateEquationCode emits ONE findRoot call for an NLA system but generated
    only the dependencies of the equation of the system that it reached first; [sfx = true] is the code with
    fixes/C20-nla-sibling-dependencies.diff (the dependencies of the NLA siblings are generated too). *)
(* the dependencies that generateEquationCode goes through for the equation e *)
Definition system_deps (e : aeq) : list nat :=
  if sfx then ae_deps e ++ flat_map (fun sb => match find_aeq r sb with Some se => ae_deps se | None => [] end) (ae_sibs e)
  else ae_deps e.

(* generator.cpp: generateEquationCode(equation, remainingEquations, equationsForDependencies, includeComputedConstants):
   the positions of the equations whose code is emitted, in order, and the new remainingEquations.  Fuel: every call
   that does anything removes the equation from remainingEquations. *)
Fixpoint gen_eq (fuel : nat) (icc : bool) (efd : list nat) (pos : nat) (remaining : list nat) : list nat * list nat :=
  match fuel with
  | 0 => ([], remaining)
  | S f =>
      if negb (mem_nat pos remaining) then ([], remaining) else
      match find_aeq r pos with
      | None => ([], remaining)
      | Some e =>
          let rem1 := fold_left (fun l sib => remove_nat sib l) (ae_sibs e) (remove_nat pos remaining) in
          let '(code, rem2) :=
            if is_some_constant e icc then ([], rem1) else
            fold_left (fun acc d =>
                         match find_aeq r d with
                         | Some de => if dep_wanted icc efd de
                                      then let '(c, rm) := gen_eq f icc efd d (snd acc) in (fst acc ++ c, rm)
                                      else acc
                         | None => acc
                         end) (system_deps e) ([], rem1) in
          (code ++ [pos], rem2)
      end
  end.

(* the statements of a method body *)
Inductive stmt := SInit (state : bool) (idx : nat)      (* generateInitialisationCode: variables[idx] / states[idx] = <initial value> *)
                | SZero (rate : bool) (idx : nat)       (* generateZeroInitialisationCode: variables[idx] / rates[idx] = 0.0 *)
                | SEq (pos : nat).                      (* the code of the equation at [pos] (assignment, findRoot call, external callbacks) *)

Definition all_pos : list nat := map ae_pos (r_eqs r).
Definition gen_top (icc : bool) (efd : list nat) (acc : list stmt * list nat) (pos : nat) : list stmt * list nat :=
  let '(c, rm) := gen_eq (S (length (snd acc))) icc efd pos (snd acc) in (fst acc ++ map SEq c, rm).
Definition type_at (pos : nat) : option qtype := option_map ae_type (find_aeq r pos).
Definition first_eq_is_nla (a : avar) : bool :=
  match av_eqs a with p :: _ => match type_at p with Some QNla => true | _ => false end | [] => false end.
Definition has_externals : bool := existsb (fun a => atype_eqb (av_type a) AExternal) (r_vars r).
Definition has_odes : bool := match r_type r with MOde | MDae => true | _ => false end.

(* addImplementationInitialiseVariablesMethodCode *)
Definition initialise_body (remaining : list nat) : list stmt * list nat :=
  let s1 := flat_map (fun a => match av_type a with
                               | AConstant => [SInit false (av_index a)]
                               | ACompConst | AAlgebraic =>
                                   match av_init a with
                                   | Some _ => [SInit false (av_index a)]
                                   | None => if first_eq_is_nla a then [SZero false (av_index a)] else []
                                   end
                               | _ => []
                               end) (r_vars r) in
  let '(s2, rem2) := fold_left (fun acc e => if qtype_eqb (ae_type e) QTrueConst then gen_top true [] acc (ae_pos e) else acc)
                               (r_eqs r) ([], remaining) in
  let s3 := map (fun a => SInit true (av_index a)) (r_states r) in
  let s4 := flat_map (fun a => if first_eq_is_nla a then [SZero true (av_index a)] else []) (r_states r) in
  let ext := map ae_pos (filter (fun e => qtype_eqb (ae_type e) QExternal) (r_eqs r)) in
  let s5 := if has_externals
            then fst (fold_left (fun acc e => if qtype_eqb (ae_type e) QExternal then gen_top true [] acc (ae_pos e) else acc)
                                (r_eqs r) ([], ext))
            else [] in
  (s1 ++ s2 ++ s3 ++ s4 ++ s5, rem2).

(* addImplementationComputeComputedConstantsMethodCode *)
Definition computed_constants_body (remaining : list nat) : list stmt * list nat :=
  fold_left (fun acc e => if qtype_eqb (ae_type e) QVarBasedConst then gen_top true [] acc (ae_pos e) else acc)
            (r_eqs r) ([], remaining).

(* addImplementationComputeRatesMethodCode *)
Definition is_rate_equation (e : aeq) : bool :=
  qtype_eqb (ae_type e) QOde
  || (qtype_eqb (ae_type e) QNla && (length (ae_vars e) =? 1) && match ae_vars e with v :: _ => is_state_var v | [] => false end).
Definition rates_body (remaining : list nat) : list stmt * list nat :=
  if has_odes
  then fold_left (fun acc e => if is_rate_equation e then gen_top true [] acc (ae_pos e) else acc) (r_eqs r) ([], remaining)
  else ([], remaining).

(* addImplementationComputeVariablesMethodCode: a fresh list of remaining equations; the old one only says which
   dependencies still have to be generated *)
Definition variables_body (remaining : list nat) : list stmt :=
  fst (fold_left (fun acc e => if mem_nat (ae_pos e) remaining || to_be_computed_again e
                               then gen_top false remaining acc (ae_pos e) else acc) (r_eqs r) ([], all_pos)).

Record bodies := mkBodies { b_init : list stmt; b_consts : list stmt; b_rates : list stmt; b_vars : list stmt }.
(* Generator::implementationCode: remainingEquations is threaded through the four methods *)
Definition method_bodies : bodies :=
  let '(i, r1) := initialise_body all_pos in
  let '(c, r2) := computed_constants_body r1 in
  let '(t, r3) := rates_body r2 in
  mkBodies i c t (variables_body r3).

(** the ordering claim, executable: walking a method body, an external equation is only met when each of its wanted
    dependencies has been emitted earlier in the body (itself or, for an NLA system, one of its siblings) or was no
    longer in remainingEquations when the method started ([rem0] = remainingEquations at that moment) *)
Definition covered (rem0 : list nat) (done : list nat) (d : nat) : bool :=
  negb (mem_nat d rem0) || mem_nat d done.
Fixpoint ordered_from (icc : bool) (efd rem0 done : list nat) (code : list nat) : bool :=
  match code with
  | [] => true
  | p :: rest =>
      match find_aeq r p with
      | None => false
      | Some e =>
          (if qtype_eqb (ae_type e) QExternal
           then forallb (fun d => match find_aeq r d with
                                  | Some de => negb (dep_wanted icc efd de) || covered rem0 done d
                                  | None => true end) (ae_deps e)
           else true)
          && ordered_from icc efd rem0 (done ++ p :: ae_sibs e) rest
      end
  end.
Definition eq_positions (l : list stmt) : list nat := filter_map (fun x => match x with SEq p => Some p | _ => None end) l.

(** an acyclic dependency graph: a rank that decreases along every dependency edge the generator may follow (it never
    follows a dependency on an ODE: states are inputs) and is constant on the equations of an NLA system *)
Definition acyclic_by (rank : nat -> nat) : Prop :=
  (forall e d de, In e (r_eqs r) -> In d (ae_deps e) -> find_aeq r d = Some de -> ae_type de <> QOde -> rank d < rank (ae_pos e)) /\
  (forall e sib, In e (r_eqs r) -> In sib (ae_sibs e) -> rank sib = rank (ae_pos e)).

End Emission.

(* the switch for the repaired generator (fixes/C20-nla-sibling-dependencies.diff) *)
Definition sibling_fix : bool := true.
