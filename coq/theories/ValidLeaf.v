(** ValidLeaf.v — C04 proofs, part 1: the lexical predicates and look-ups of ValidDefs against ValidSpec. *)
From Coq Require Import String Ascii List Bool Arith ZArith NArith QArith Lia.
From LC Require Import Common NumDefs NumSpec NumProofs MathDefs ValidDefs ValidSpec.
From LC Require UnitsDefs.
From LCGen Require Import UnitTables PrefixTable.
Import ListNotations.
Local Open Scope string_scope.
Local Open Scope list_scope.
Local Open Scope nat_scope.

Lemma app_nil_iff : forall {A} (a b : list A), a ++ b = [] <-> a = [] /\ b = [].
Proof. intros A a b. split. - apply app_eq_nil. - intros [-> ->]. reflexivity. Qed.

Lemma if_nil_iff : forall {A} (b : bool) (x : A), (if b then [] else [x]) = [] <-> b = true.
Proof. intros A [] x; split; intro H; try reflexivity; discriminate. Qed.

Lemma ifn_nil_iff : forall {A} (b : bool) (x : A), (if b then [x] else []) = [] <-> b = false.
Proof. intros A [] x; split; intro H; try reflexivity; discriminate. Qed.

Lemma map_nil_iff : forall {A B} (f : A -> B) l, map f l = [] <-> l = [].
Proof. intros A B f [|x l]; simpl; split; intro H; try reflexivity; discriminate. Qed.

Lemma flat_map_nil_iff : forall {A B} (f : A -> list B) l, flat_map f l = [] <-> Forall (fun x => f x = []) l.
Proof.
  intros A B f l. induction l as [|x l IH]; simpl.
  - split; auto.
  - rewrite app_nil_iff, IH. split.
    + intros [H1 H2]. constructor; assumption.
    + intro H. inversion H; subst. split; assumption.
Qed.

Lemma nodup_app_iff : forall {A} (a b : list A),
  NoDup (a ++ b) <-> NoDup a /\ NoDup b /\ (forall x, In x a -> ~ In x b).
Proof.
  intros A a b. induction a as [|x a IH]; simpl.
  - split; [intro H; repeat split; [constructor | exact H | intros x []] | intros [_ [H _]]; exact H].
  - split.
    + intro H. inversion H; subst. apply IH in H3. destruct H3 as [Ha [Hb Hd]]. repeat split.
      * constructor; [|exact Ha]. intro Hin. apply H2. apply in_or_app. left. exact Hin.
      * exact Hb.
      * intros y [Hy|Hy]; [subst; intro Hin; apply H2; apply in_or_app; right; exact Hin | apply Hd; exact Hy].
    + intros [Ha [Hb Hd]]. inversion Ha; subst. constructor.
      * intro Hin. apply in_app_or in Hin. destruct Hin as [Hin|Hin]; [contradiction | apply (Hd x); [left; reflexivity | exact Hin]].
      * apply IH. repeat split; [exact H2 | exact Hb | intros y Hy; apply Hd; right; exact Hy].
Qed.

Lemma bool_false_iff_not : forall (b : bool) (P : Prop), (b = true <-> P) -> (b = false <-> ~ P).
Proof.
  intros b P H. destruct b; split; intro H1.
  - discriminate H1.
  - exfalso. apply H1. apply H. reflexivity.
  - intro HP. apply H in HP. discriminate HP.
  - reflexivity.
Qed.

Lemma str_in_iff : forall s l, str_in s l = true <-> In s l.
Proof.
  intros s l. unfold str_in. rewrite existsb_exists. split.
  - intros [x [Hin Heq]]. apply String.eqb_eq in Heq. subst. assumption.
  - intro H. exists s. split; [assumption | apply String.eqb_refl].
Qed.

Lemma str_in_false_iff : forall s l, str_in s l = false <-> ~ In s l.
Proof. intros. apply bool_false_iff_not. apply str_in_iff. Qed.

Lemma str_is_empty_iff : forall s, str_is_empty s = true <-> s = "".
Proof. intros [|c r]; simpl; split; intro H; try reflexivity; discriminate. Qed.

Lemma nonempty_iff : forall s, nonempty s = true <-> s <> "".
Proof.
  intros s. unfold nonempty. destruct s; simpl; split; intro H; try discriminate; try reflexivity.
  exfalso. apply H. reflexivity.
Qed.

(* ------------------------------------------------------------------ identifiers *)

Lemma is_digit_iff : forall c, is_digit c = true <-> digit_char c.
Proof.
  intro c. unfold is_digit, digit_char. rewrite andb_true_iff, !Nat.leb_le. tauto.
Qed.

Lemma is_ident_char_iff : forall c, MathDefs.is_ident_char c = true <-> ident_char c.
Proof.
  intro c. unfold MathDefs.is_ident_char, ident_char. cbv zeta.
  rewrite !orb_true_iff, !andb_true_iff, !Nat.leb_le, Nat.eqb_eq. tauto.
Qed.

Lemma all_ident_chars_iff : forall s, MathDefs.all_ident_chars s = true <-> Forall ident_char (chars s).
Proof.
  induction s as [|c r IH]; simpl.
  - split; auto.
  - rewrite andb_true_iff, IH, is_ident_char_iff. split.
    + intros [H1 H2]. constructor; assumption.
    + intro H. inversion H; subst. split; assumption.
Qed.

Lemma is_ident_iff : forall s, is_ident s = true <-> IsIdent s.
Proof.
  intro s. unfold is_ident, MathDefs.is_cellml_identifier, IsIdent. destruct s as [|c r].
  - split; [discriminate | intros [c [r [H _]]]; discriminate].
  - rewrite andb_true_iff, negb_true_iff, all_ident_chars_iff. split.
    + intros [H1 H2]. exists c, r. split; [reflexivity|]. split; [|assumption].
      intro Hd. apply is_digit_iff in Hd. congruence.
    + intros [c' [r' [Heq [Hd Hall]]]]. inversion Heq; subst. split; [|assumption].
      destruct (is_digit c') eqn:E; [|reflexivity]. exfalso. apply Hd. apply is_digit_iff. assumption.
Qed.

Lemma is_ident_false_iff : forall s, is_ident s = false <-> ~ IsIdent s.
Proof. intros. apply bool_false_iff_not. apply is_ident_iff. Qed.

Lemma IsIdent_nonempty : forall s, IsIdent s -> s <> "".
Proof. intros s [c [r [H _]]]. subst. discriminate. Qed.

(* ------------------------------------------------------------------ tables *)

Lemma assoc_some_iff : forall {A} (l : list (string * A)) k, (exists v, UnitsDefs.assoc k l = Some v) <-> In k (map fst l).
Proof.
  intros A l k. induction l as [|[k' v'] l IH]; simpl.
  - split; [intros [v H]; discriminate | intros []].
  - destruct (String.eqb k k') eqn:E.
    + apply String.eqb_eq in E. subst. split; [intro; left; reflexivity | intro; exists v'; reflexivity].
    + apply String.eqb_neq in E. rewrite IH. split; [intro; right; assumption|].
      intros [H|H]; [congruence | assumption].
Qed.

Lemma is_std_unit_iff : forall n, is_std_unit n = true <-> StdUnit n.
Proof.
  intro n. unfold is_std_unit, UnitsDefs.is_std_name, StdUnit. rewrite <- assoc_some_iff.
  destruct (UnitsDefs.assoc n standard_units_list); split; intro H; try reflexivity; try discriminate.
  - eexists; reflexivity.
  - destruct H as [v H]; discriminate.
Qed.

Lemma is_std_unit_false_iff : forall n, is_std_unit n = false <-> ~ StdUnit n.
Proof. intros. apply bool_false_iff_not. apply is_std_unit_iff. Qed.

Lemma is_std_prefix_iff : forall n, is_std_prefix n = true <-> StdPrefix n.
Proof.
  intro n. unfold is_std_prefix, StdPrefix. rewrite <- assoc_some_iff.
  destruct (UnitsDefs.assoc n standard_prefix_list); split; intro H; try reflexivity; try discriminate.
  - eexists; reflexivity.
  - destruct H as [v H]; discriminate.
Qed.

Lemma validate_prefix_nil : forall p, validate_prefix p = [] <-> PrefixOK p.
Proof.
  intro p. unfold validate_prefix, PrefixOK.
  destruct (str_is_empty p) eqn:E1.
  { apply str_is_empty_iff in E1. split; [intro; left; assumption | reflexivity]. }
  assert (Hne : p <> "") by (intro Hp; apply str_is_empty_iff in Hp; congruence).
  destruct (is_std_prefix p) eqn:E2.
  { apply is_std_prefix_iff in E2. split; [intro; right; left; assumption | reflexivity]. }
  assert (Hns : ~ StdPrefix p) by (intro Hp; apply is_std_prefix_iff in Hp; congruence).
  destruct (is_int p) eqn:E3; simpl.
  - apply is_int_iff in E3. destruct (to_int p) eqn:E4.
    + exfalso. apply to_int_rejects in E4. contradiction.
    + split; [discriminate|]. intros [H|[H|[_ [z H]]]]; [contradiction | contradiction | discriminate].
    + split; [|reflexivity]. intro. right; right. split; [assumption | eexists; reflexivity].
  - split; [discriminate|]. intros [H|[H|[H _]]]; [contradiction | contradiction |].
    apply is_int_iff in H. congruence.
Qed.

(* ------------------------------------------------------------------ look-ups *)

Lemma find_units_some : forall us n u, find_units us n = Some u -> In u us /\ u_name u = n.
Proof.
  induction us as [|x us IH]; simpl; intros n u H; [discriminate|].
  destruct (String.eqb (u_name x) n) eqn:E.
  - inversion H; subst. apply String.eqb_eq in E. split; [left; reflexivity | assumption].
  - destruct (IH _ _ H) as [H1 H2]. split; [right; assumption | assumption].
Qed.

Lemma find_units_none : forall us n, find_units us n = None <-> ~ exists u, In u us /\ u_name u = n.
Proof.
  induction us as [|x us IH]; simpl; intro n.
  - split; [intros _ [u [[] _]] | reflexivity].
  - destruct (String.eqb (u_name x) n) eqn:E.
    + apply String.eqb_eq in E. split; [discriminate|]. intro H. exfalso. apply H. exists x. split; [left; reflexivity | assumption].
    + apply String.eqb_neq in E. rewrite IH. split.
      * intros H [u [[Hu|Hu] Hn]]; [subst; contradiction | apply H; exists u; split; assumption].
      * intros H [u [Hu Hn]]. apply H. exists u. split; [right; assumption | assumption].
Qed.

Lemma has_units_iff : forall m n, has_units m n = true <-> UnitsNamed m n.
Proof.
  intros m n. unfold has_units, UnitsNamed. destruct (find_units (m_units m) n) eqn:E.
  - apply find_units_some in E. split; [intro; exists u; assumption | reflexivity].
  - split; [discriminate|]. intro H. apply find_units_none in E. contradiction.
Qed.

Lemma find_units_in : forall us n, (exists u, In u us /\ u_name u = n) -> exists u, find_units us n = Some u.
Proof.
  intros us n H. destruct (find_units us n) eqn:E; [eexists; reflexivity|].
  apply find_units_none in E. contradiction.
Qed.

Lemma has_variable_iff : forall c n, has_variable c n = true <-> exists w, In w (c_vars c) /\ v_name w = n.
Proof.
  intros c n. unfold has_variable. rewrite existsb_exists. split.
  - intros [w [H1 H2]]. apply String.eqb_eq in H2. exists w. split; assumption.
  - intros [w [H1 H2]]. exists w. split; [assumption | apply String.eqb_eq; assumption].
Qed.

Lemma units_ref_ok_iff : forall m n,
  (is_ident n && (is_std_unit n || has_units m n))%bool = true <-> UnitsRefOK m n.
Proof.
  intros m n. unfold UnitsRefOK. rewrite andb_true_iff, orb_true_iff, is_ident_iff, is_std_unit_iff, has_units_iff. tauto.
Qed.

(* ------------------------------------------------------------------ variables *)

Lemma valid_iface_iff : forall s, (nonempty s && negb (str_in s valid_interfaces))%bool = false <-> valid_iface s.
Proof.
  intro s. unfold valid_iface. rewrite andb_false_iff, negb_false_iff, str_in_iff.
  split.
  - intros [H|H]; [left | right; assumption].
    unfold nonempty in H. apply negb_false_iff in H. apply str_is_empty_iff. assumption.
  - intros [H|H]; [left | right; assumption]. subst. reflexivity.
Qed.

Lemma validate_variable_nil : forall m c prev v,
  validate_variable m c prev v = [] <-> VarOK m c v /\ ~ In (v_name v) prev.
Proof.
  intros m c prev v. unfold validate_variable, VarOK.
  rewrite !app_nil_iff.
  rewrite (ifn_nil_iff (nonempty (v_name v) && str_in (v_name v) prev) V_VARIABLE_NAME_UNIQUE).
  rewrite (if_nil_iff (is_ident (v_name v)) V_VARIABLE_NAME_VALUE).
  rewrite (if_nil_iff (is_xml_name (v_id v)) V_XML_ID_ATTRIBUTE).
  rewrite (ifn_nil_iff (nonempty (v_iface v) && negb (str_in (v_iface v) valid_interfaces)) V_VARIABLE_INTERFACE_VALUE).
  rewrite (ifn_nil_iff (nonempty (v_init v) && negb (has_variable c (v_init v)) && negb (is_real (v_init v))) V_VARIABLE_INITIAL_VALUE_VALUE).
  rewrite valid_iface_iff, is_ident_iff.
  assert (Hunits : match v_units v with
                   | Some un => if negb (is_ident un) then [V_VARIABLE_UNITS_VALUE]
                                else if is_std_unit un then [] else if has_units m un then [] else [V_VARIABLE_UNITS_VALUE]
                   | None => [V_VARIABLE_UNITS_VALUE]
                   end = [] <-> exists un, v_units v = Some un /\ UnitsRefOK m un).
  { destruct (v_units v) as [un|].
    - split.
      + intro H. exists un. split; [reflexivity|]. apply units_ref_ok_iff.
        destruct (is_ident un); simpl in *; [|discriminate H].
        destruct (is_std_unit un); simpl in *; [reflexivity|].
        destruct (has_units m un); simpl in *; [reflexivity | discriminate H].
      + intros [u [H1 H2]]. inversion H1; subst u. apply units_ref_ok_iff in H2.
        destruct (is_ident un); simpl in *; [|discriminate H2].
        destruct (is_std_unit un); simpl in *; [reflexivity|].
        destruct (has_units m un); simpl in *; [reflexivity | discriminate H2].
    - split; [intro H; discriminate H | intros [u [H _]]; discriminate H]. }
  rewrite Hunits.
  assert (Hinit : (nonempty (v_init v) && negb (has_variable c (v_init v)) && negb (is_real (v_init v)))%bool = false
                  <-> (v_init v = "" \/ RealG (v_init v) \/ exists w, In w (c_vars c) /\ v_name w = v_init v)).
  { rewrite !andb_false_iff, !negb_false_iff, is_real_iff, has_variable_iff.
    unfold nonempty. rewrite negb_false_iff, str_is_empty_iff. tauto. }
  rewrite Hinit.
  assert (Hdup : (nonempty (v_name v) && str_in (v_name v) prev)%bool = false -> IsIdent (v_name v) -> ~ In (v_name v) prev).
  { intros H Hid Hin. apply andb_false_iff in H. destruct H as [H|H].
    - apply IsIdent_nonempty in Hid. apply nonempty_iff in Hid. congruence.
    - apply str_in_iff in Hin. congruence. }
  unfold XmlName. split.
  - intros [H1 [H2 [H3 [H4 [H5 H6]]]]]. split; [tauto|]. apply Hdup; assumption.
  - intros [[H2 [H3 [H4 [H5 H6]]]] H1]. repeat split; try assumption.
    apply andb_false_iff. right. apply str_in_false_iff. assumption.
Qed.

Lemma validate_variables_nil : forall m c vs prev,
  validate_variables m c prev vs = [] <->
  Forall (VarOK m c) vs /\ NoDup (map v_name vs) /\ (forall v, In v vs -> ~ In (v_name v) prev).
Proof.
  intros m c vs. induction vs as [|v vs IH]; intro prev; simpl.
  - split; [intros _; repeat split; [constructor | constructor | intros v []] | reflexivity].
  - rewrite app_nil_iff, validate_variable_nil, IH. split.
    + intros [[Hv Hn] [Hall [Hnd Hprev]]]. split; [constructor; assumption|]. split.
      * constructor; [|assumption]. intro Hin. apply in_map_iff in Hin. destruct Hin as [w [Hw1 Hw2]].
        apply (Hprev w Hw2). apply in_or_app. right. left. symmetry. assumption.
      * intros w [Hw|Hw]; [subst; assumption|]. intro Hin. apply (Hprev w Hw). apply in_or_app. left. assumption.
    + intros [Hall [Hnd Hprev]]. inversion Hall; subst. inversion Hnd; subst. split.
      * split; [assumption|]. apply Hprev. left. reflexivity.
      * split; [assumption|]. split; [assumption|]. intros w Hw Hin. apply in_app_or in Hin. destruct Hin as [Hin|[Hin|[]]].
        -- apply (Hprev w); [right; assumption | assumption].
        -- apply H3. apply in_map_iff. exists w. split; [symmetry; assumption | assumption].
Qed.
